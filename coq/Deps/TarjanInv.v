(* C11 — unbounded invariants of the Tarjan model (every graph, every iteration order, every
   fuel): each reported component has two or more modules, no module is reported twice
   (the components are pairwise disjoint), hence the statistics are count = number of
   components and modules-in-cycles = sum of the sizes.  These are the "partial" halves of
   the full correctness statement; that the components are exactly the strongly connected
   ones is proved for every graph in Deps/TarjanCorrect.v / Deps/TarjanWf.v (and, by
   computation, for <= 4 modules in Deps/TarjanBounded.v). *)
From Coq Require Import List NArith ZArith Bool Arith Lia Permutation.
From PV Require Import Gen.DepsConst Deps.SccSpec Deps.SccSpecProofs Deps.Tarjan Deps.TarjanProofs.
Import ListNotations.
Local Open Scope nat_scope.

Lemma NoDup_app_remove_l : forall (a b : list N), NoDup (a ++ b) -> NoDup b.
Proof. induction a as [|x a IH]; simpl; intros b H; [exact H|]. inversion H; subst. auto. Qed.
Lemma NoDup_app_remove_r : forall (a b : list N), NoDup (a ++ b) -> NoDup a.
Proof.
  induction a as [|x a IH]; simpl; intros b H; [constructor|]. inversion H; subst. constructor; [|eauto].
  intro Hin. apply H2. apply in_app_iff. auto.
Qed.

(* ---------- a proof scheme for state invariants of strongConnect ---------- *)
Section Scheme.
Variable P : tstate -> Prop.
Hypothesis P_enter : forall st m, P st -> mget (t_indices st) m = None -> P (enter st m).
Hypothesis P_low : forall st m v, P st -> P (set_low st m v).
Hypothesis P_finish : forall st m st', P st -> finish m st = Ok st' -> P st'.

Definition ok_or (r : result) : Prop := match r with Ok st => P st | _ => True end.

Lemma succ_loop_inv : forall rec m,
  (forall d st, P st -> mget (t_indices st) d = None -> ok_or (rec d st)) ->
  forall ds st, P st -> ok_or (succ_loop rec m ds st).
Proof.
  intros rec m Hrec. induction ds as [|d ds IH]; intros st H; simpl; [exact H|].
  destruct (mget (t_indices st) d) eqn:E.
  - destruct (in_stack st d); apply IH.
    + apply P_low. assumption.
    + assumption.
  - specialize (Hrec d st H E). destruct (rec d st) as [st1| |]; simpl in *; [|exact I|exact I]. apply IH. apply P_low. exact Hrec.
Qed.

Lemma strongConnect_inv : forall fuel g m st, P st -> mget (t_indices st) m = None ->
  ok_or (strongConnect fuel g m st).
Proof.
  induction fuel as [|fuel IH]; intros g m st H E; simpl; [exact I|].
  set (deps := match get_node g m with Some node => n_deps node | None => [] end).
  pose proof (succ_loop_inv (strongConnect fuel g) m (IH g) deps (enter st m) (P_enter st m H E)) as L.
  destruct (succ_loop (strongConnect fuel g) m deps (enter st m)) as [st2| |]; simpl in *; auto.
  destruct (finish m st2) eqn:F; simpl; auto. eapply P_finish; eassumption.
Qed.

Lemma find_sccs_loop_inv : forall fuel g roots st, P st -> ok_or (find_sccs_loop fuel g roots st).
Proof.
  intros fuel g. induction roots as [|n rest IH]; intros st H; simpl; [exact H|].
  destruct (mget (t_indices st) (n_name n)) eqn:E; [apply IH; exact H|].
  pose proof (strongConnect_inv fuel g (n_name n) st H E) as L.
  destruct (strongConnect fuel g (n_name n) st); simpl in *; auto.
Qed.
End Scheme.

(* ---------- sort.Strings ---------- *)
Lemma insert_sorted_perm : forall x l, Permutation (insert_sorted x l) (x :: l).
Proof.
  induction l as [|y r IH]; simpl; [reflexivity|]. destruct (N.leb x y); [reflexivity|].
  rewrite IH. apply perm_swap.
Qed.
Lemma sort_names_perm : forall l, Permutation (sort_names l) l.
Proof.
  induction l as [|x l IH]; simpl; [constructor|]. unfold sort_names in *. simpl.
  rewrite insert_sorted_perm. constructor. exact IH.
Qed.
Lemma sort_names_length : forall l, length (sort_names l) = length l.
Proof. intros; apply Permutation_length, sort_names_perm. Qed.

(* ---------- the pop loop ---------- *)
Lemma pop_until_split : forall m stack inS comp stack' inS' comp',
  pop_until m stack inS comp = Some (stack', inS', comp') ->
  exists pre, stack = pre ++ stack' /\ comp' = comp ++ pre /\ pre <> [].
Proof.
  induction stack as [|top rest IH]; intros inS comp stack' inS' comp' H; simpl in H; [discriminate|].
  destruct (N.eqb top m).
  - inversion H; subst. exists [top]. repeat split; discriminate.
  - apply IH in H. destruct H as [pre [E1 [E2 _]]]. exists (top :: pre). subst. rewrite <- app_assoc.
    repeat split; discriminate.
Qed.

(* ---------- invariant 1: every component has two or more modules ---------- *)
Definition big_components (st : tstate) : Prop := Forall (fun c => 2 <= length c) (t_components st).

Lemma finish_cases : forall m st st', finish m st = Ok st' ->
  st' = st \/
  exists stack' inS' comp pre, t_stack st = pre ++ stack' /\ comp = pre /\ pre <> [] /\
    st' = Build_tstate (t_index st) stack' inS' (t_indices st) (t_lowLinks st)
            (if 2 <=? length comp then t_components st ++ [sort_names comp] else t_components st).
Proof.
  intros m st st' H. unfold finish in H. destruct (get_low st m =? get_index st m)%Z; [|inversion H; auto].
  destruct (pop_until m (t_stack st) (t_inStack st) []) as [[[stack' inS'] comp]|] eqn:E; [|discriminate].
  apply pop_until_split in E. destruct E as [pre [E1 [E2 E3]]]. simpl in E2. subst comp.
  right. exists stack', inS', pre, pre. rewrite keep_component_spec in H. inversion H. auto.
Qed.

Lemma big_components_inv : forall fuel g roots, 
  match find_sccs_loop fuel g roots resetState with Ok st => big_components st | _ => True end.
Proof.
  intros. apply (find_sccs_loop_inv big_components); try (intros; assumption).
  - intros st m st' H F. apply finish_cases in F. destruct F as [F|[stack' [inS' [comp [pre [_ [_ [_ F]]]]]]]]; subst; [exact H|].
    unfold big_components in *. cbn [t_components]. destruct (Nat.leb_spec 2 (length comp)); [|exact H].
    apply Forall_app. split; [exact H|]. constructor; [|constructor]. rewrite sort_names_length. assumption.
  - constructor.
Qed.

(* ---------- invariant 2: a module is on the stack or in a component at most once ---------- *)
Definition placed (st : tstate) : list N := t_stack st ++ concat (t_components st).
Definition once (st : tstate) : Prop :=
  NoDup (placed st) /\ forall x, In x (placed st) -> mget (t_indices st) x <> None.

Lemma mget_mset : forall (m : list (N * Z)) k v x, mget (mset m k v) x = if N.eqb k x then Some v else mget m x.
Proof. intros. unfold mget, mset. simpl. destruct (N.eqb k x); reflexivity. Qed.

Lemma once_inv : forall fuel g roots,
  match find_sccs_loop fuel g roots resetState with Ok st => once st | _ => True end.
Proof.
  intros. apply (find_sccs_loop_inv once).
  - intros st m [Hn Hv] E. unfold once, placed, enter in *. simpl. split.
    + constructor; [|exact Hn]. intro Hin. apply (Hv m Hin). exact E.
    + intros x [Hx|Hx]; rewrite mget_mset.
      * subst. rewrite N.eqb_refl. discriminate.
      * destruct (N.eqb m x); [discriminate|]. apply Hv. exact Hx.
  - intros st m v H. exact H.
  - intros st m st' [Hn Hv] F. apply finish_cases in F.
    destruct F as [F|[stack' [inS' [comp [pre [E1 [E2 [_ F]]]]]]]]; subst; [split; assumption|].
    unfold once, placed in *. cbn [t_stack t_components t_indices]. rewrite E1 in *.
    assert (Hsub : forall x, In x (stack' ++ concat (if 2 <=? length pre then t_components st ++ [sort_names pre] else t_components st)) ->
                             In x ((pre ++ stack') ++ concat (t_components st))).
    { intros x Hx. rewrite !in_app_iff in *. destruct Hx as [Hx|Hx]; [tauto|].
      destruct (2 <=? length pre); [|tauto]. rewrite concat_app, in_app_iff in Hx. simpl in Hx. rewrite app_nil_r in Hx.
      destruct Hx as [Hx|Hx]; [tauto|]. left; left. eapply Permutation_in; [apply sort_names_perm|exact Hx]. }
    split; [|intros x Hx; apply Hv; apply Hsub; exact Hx].
    destruct (2 <=? length pre).
    + eapply Permutation_NoDup; [|exact Hn]. rewrite concat_app. simpl. rewrite app_nil_r.
      rewrite <- app_assoc. rewrite (Permutation_app_comm pre). rewrite <- !app_assoc.
      apply Permutation_app_head. apply Permutation_app_head. symmetry. apply sort_names_perm.
    + rewrite <- app_assoc in Hn. apply NoDup_app_remove_l in Hn. exact Hn.
  - split; [constructor|intros x []].
Qed.

(* ---------- consequences for the reported cycles and the statistics ---------- *)
Theorem tarjan_components_partial : forall g out, tarjan g = Some out ->
  Forall (fun c => 2 <= length c) out /\ NoDup (concat out).
Proof.
  intros g out H. unfold tarjan, findStronglyConnectedComponents in H.
  pose proof (big_components_inv (tarjan_fuel g) g g) as H1. pose proof (once_inv (tarjan_fuel g) g g) as H2.
  destruct (find_sccs_loop (tarjan_fuel g) g g resetState) as [st| |]; try discriminate. inversion H; subst.
  split; [exact H1|]. destruct H2 as [Hn _]. unfold placed in Hn. apply NoDup_app_remove_l in Hn. exact Hn.
Qed.

(* different reported components share no module; no component lists a module twice *)
Theorem tarjan_components_disjoint : forall g out, tarjan g = Some out ->
  (forall c, In c out -> NoDup c) /\
  (forall i j c d x, nth_error out i = Some c -> nth_error out j = Some d -> i <> j -> In x c -> ~ In x d).
Proof.
  intros g out H. destruct (tarjan_components_partial g out H) as [_ Hn]. clear H. split.
  - induction out as [|c l IH]; intros d Hd; [destruct Hd|]. simpl in Hn. destruct Hd as [Hd|Hd].
    + subst. apply NoDup_app_remove_r in Hn. exact Hn.
    + apply IH; [apply NoDup_app_remove_l in Hn; exact Hn|exact Hd].
  - assert (G : forall (l : list (list N)), NoDup (concat l) -> forall i j c d x, i < j -> nth_error l i = Some c ->
              nth_error l j = Some d -> In x c -> ~ In x d).
    { induction l as [|a l IH]; intros Hl i j c d x Hij Hi Hj Hxc Hxd; [destruct i; discriminate|].
      simpl in Hl. destruct i as [|i]; destruct j as [|j]; try lia; simpl in *.
      - inversion Hi; subst. apply nth_error_In in Hj.
        assert (Hin : In x (concat l)) by (apply in_concat; exists d; auto).
        clear - Hl Hxc Hin. induction c as [|y c IH]; [destruct Hxc|]. simpl in Hl. inversion Hl; subst.
        destruct Hxc as [E|Hxc]; [subst; apply H1; apply in_app_iff; auto|auto].
      - apply (IH (NoDup_app_remove_l _ _ Hl) i j c d x); auto; lia. }
    intros i j c d x Hi Hj Hij Hxc Hxd. destruct (Nat.lt_ge_cases i j).
    + exact (G out Hn i j c d x H Hi Hj Hxc Hxd).
    + assert (j < i) by lia. exact (G out Hn j i d c x H0 Hj Hi Hxd Hxc).
Qed.

(* count = number of components; modules in cycles = sum of the sizes: for every graph and order *)
Theorem tarjan_statistics : forall g r, DetectCircularDependencies g = Some r ->
  exists out, tarjan g = Some out /\ map c_modules (r_cycles r) = out /\
  r_total_cycles r = Z.of_nat (length out) /\
  r_total_modules r = fold_right Z.add 0%Z (map c_size (r_cycles r)) /\
  r_total_modules r = Z.of_nat (length (concat out)) /\
  r_has r = negb (length out =? 0) /\
  Forall (fun c => c_size c = Z.of_nat (length (c_modules c)) /\ (2 <= c_size c)%Z /\
                   c_severity c = assessCycleSeverity g (c_modules c) (c_size c)) (r_cycles r).
Proof.
  intros g r H. unfold DetectCircularDependencies in H. destruct (tarjan g) as [out|] eqn:E; [|discriminate].
  inversion H; subst. exists out. destruct (tarjan_components_partial g out E) as [H2 Hn].
  destruct (assemble_counts g out H2 Hn) as [A [B [C [D F]]]]. repeat split; try assumption.
  apply Forall_forall. intros c Hc. unfold assemble in Hc. cbn [r_cycles] in Hc. apply process_fields in Hc.
  destruct Hc as [S1 [S2 S3]]. repeat split; try assumption. lia.
Qed.
