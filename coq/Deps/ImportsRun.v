(* Entry points used by the correspondence check (harness/c12.py). *)
From Coq Require Import NArith ZArith QArith List Bool Arith.
From PV Require Import Deps.PyImport Deps.Imports Deps.Metrics Deps.ImportsWf.
Import ListNotations.

Definition mk_in (o b : N) : iname := Build_iname o b.
Definition mk_stmt (f : form) (tc : bool) (pos : position) : import_stmt := Build_import_stmt f tc pos.
Definition mk_mod (p : path) (pkg : bool) (imps : list import_stmt) (all : option (list name)) : pymodule :=
  Build_pymodule p pkg imps all.

(* dag: the harness found the implementation's graph acyclic (longest_chain enumerates walks).
   per project: spec edges, model edges (two file orders), deviation classes present, model metrics, depth *)
Definition run_project (dag : bool) (pr : project) :=
  let g := AnalyzeFiles pr pr in
  let g' := AnalyzeFiles pr (rev pr) in
  (edges_py pr, g_edges g, same_edges (g_edges g) (g_edges g'), deviation_classes pr,
   map (fun m => (m_path m, module_metrics g (m_path m))) pr,
   (calculateMaxDepth (g_nodes g) (g_edges g), if dag then longest_chain (g_nodes g) (g_edges g) else 0%nat)).

(* per statement: what the spec says the statement resolves to (compared with CPython) *)
Definition run_resolve (pr : project) : list (list (list path)) :=
  map (fun m => map (resolve_py pr m) (m_imports m)) pr.

(* metrics on a bare edge list (the implementation's own DependencyMatrix) *)
Definition run_metrics (nodes : list path) (es : list edge) :=
  (map (fun m => (in_degree es m, out_degree es m, instability_spec (in_degree es m) (out_degree es m))) nodes,
   calculateMaxDepth nodes es, longest_chain nodes es).
