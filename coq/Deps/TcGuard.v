(* C12 — which `if` conditions make the analyser treat the body as type-checking-only
   (internal/analyzer/module_analyzer.go:764-814, isTypeCheckingCondition / containsTypeChecking), against what
   Python does with the body at run time, where typing.TYPE_CHECKING is False.

   The conditions are those built from the names TYPE_CHECKING / typing.TYPE_CHECKING, other names with a known
   boolean value, not / and / or and ==, !=, is, is not between such operands. *)
From Coq Require Import List Bool.
Import ListNotations.

Inductive gexpr :=
  | GTc                          (* TYPE_CHECKING            : parser.NodeName *)
  | GTcAttr                      (* typing.TYPE_CHECKING     : parser.NodeAttribute *)
  | GFlag (b : bool)             (* a name bound to the boolean b *)
  | GNot (e : gexpr)             (* not e                    : parser.NodeUnaryOp *)
  | GAnd (a b : gexpr)           (* a and b                  : parser.NodeBoolOp *)
  | GOr (a b : gexpr)            (* a or b                   : parser.NodeBoolOp *)
  | GEq (a b : gexpr)            (* a == b, a is b           : parser.NodeCompare *)
  | GNe (a b : gexpr).           (* a != b, a is not b       : parser.NodeCompare *)

(* SPEC: the value of the condition at run time (all operands are booleans, so `and`/`or` return booleans) *)
Fixpoint eval_guard (e : gexpr) : bool :=
  match e with
  | GTc | GTcAttr => false
  | GFlag b => b
  | GNot a => negb (eval_guard a)
  | GAnd a b => eval_guard a && eval_guard b
  | GOr a b => eval_guard a || eval_guard b
  | GEq a b => Bool.eqb (eval_guard a) (eval_guard b)
  | GNe a b => negb (Bool.eqb (eval_guard a) (eval_guard b))
  end.

(* an import in the body is a runtime import iff the body is executed *)
Definition spec_tc (e : gexpr) : bool := negb (eval_guard e).

(* containsTypeChecking (module_analyzer.go:794-814): the name occurs anywhere in the expression *)
Fixpoint containsTypeChecking (e : gexpr) : bool :=
  match e with
  | GTc | GTcAttr => true
  | GFlag _ => false
  | GNot a => containsTypeChecking a
  | GAnd a b | GOr a b | GEq a b | GNe a b => containsTypeChecking a || containsTypeChecking b
  end.

(* isTypeCheckingCondition (module_analyzer.go:764-792): the bare name, the attribute, or a boolean
   operation / comparison that mentions it; nothing else (in particular not `not ...`) *)
Definition isTypeCheckingCondition (e : gexpr) : bool :=
  match e with
  | GTc | GTcAttr => true
  | GAnd _ _ | GOr _ _ | GEq _ _ | GNe _ _ => containsTypeChecking e
  | GFlag _ | GNot _ => false
  end.

Definition model_tc (e : gexpr) : bool := isTypeCheckingCondition e.

(* the analyser and Python agree about the body of `if e:` *)
Definition guard_agrees (e : gexpr) : bool := Bool.eqb (model_tc e) (spec_tc e).

(* conditions that are false at run time because TYPE_CHECKING is: the name, the attribute and conjunctions
   with such a condition on either side *)
Fixpoint tc_conjunction (e : gexpr) : bool :=
  match e with
  | GTc | GTcAttr => true
  | GAnd a b => tc_conjunction a || tc_conjunction b
  | _ => false
  end.

(* ---- proofs -------------------------------------------------------------------------------------- *)
Lemma tc_conjunction_contains : forall e, tc_conjunction e = true -> containsTypeChecking e = true.
Proof.
  induction e; simpl; intros H; try discriminate; auto.
  apply orb_true_iff in H. apply orb_true_iff. destruct H; [left | right]; auto.
Qed.

Lemma tc_conjunction_false : forall e, tc_conjunction e = true -> eval_guard e = false.
Proof.
  induction e; simpl; intros H; try discriminate; auto.
  apply orb_true_iff in H. destruct H as [H | H].
  - rewrite (IHe1 H). reflexivity.
  - rewrite (IHe2 H). apply andb_false_r.
Qed.

(* `if TYPE_CHECKING:`, `if typing.TYPE_CHECKING:` and every conjunction with one of them: never executed,
   and recognised *)
Lemma tc_conjunction_agrees : forall e, tc_conjunction e = true -> model_tc e = true /\ spec_tc e = true.
Proof.
  intros e H. split.
  - destruct e; simpl in *; try discriminate; auto.
    apply orb_true_iff in H. apply orb_true_iff.
    destruct H; [left | right]; apply tc_conjunction_contains; assumption.
  - unfold spec_tc. rewrite (tc_conjunction_false e H). reflexivity.
Qed.

(* conditions that do not mention TYPE_CHECKING are never taken for type-checking guards *)
Lemma no_tc_not_guard : forall e, containsTypeChecking e = false -> model_tc e = false.
Proof. destruct e; simpl; intros H; try discriminate; auto. Qed.

(* `if not <anything>:` is always taken for runtime code *)
Lemma not_is_runtime : forall e, model_tc (GNot e) = false.
Proof. reflexivity. Qed.

(* the full statement "model_tc e = spec_tc e for every condition" is false: a disjunction or a comparison
   that mentions TYPE_CHECKING can be true at run time, and a negated conjunction is executed *)
Lemma guard_refuted_or : model_tc (GOr GTc (GFlag true)) = true /\ spec_tc (GOr GTc (GFlag true)) = false.
Proof. split; reflexivity. Qed.

Lemma guard_refuted_compare : model_tc (GEq GTc (GFlag false)) = true /\ spec_tc (GEq GTc (GFlag false)) = false.
Proof. split; reflexivity. Qed.

Lemma guard_refuted_not : model_tc (GNot (GNot GTc)) = false /\ spec_tc (GNot (GNot GTc)) = true.
Proof. split; reflexivity. Qed.
