(* C12 — which `if` / `elif` conditions make the analyser treat a branch as type-checking-only
   (internal/analyzer/module_analyzer.go: isTypeCheckingCondition, isNotTypeCheckingCondition, runtimeValue,
   containsTypeChecking, walkStatements), against what Python does with the branch at run time, where
   typing.TYPE_CHECKING is False.

   The conditions are those built from the names TYPE_CHECKING / typing.TYPE_CHECKING, the literals True / False,
   other names (whose value the analyser cannot know; here they carry the boolean they have at run time), not / and /
   or and ==, !=, is, is not between such operands.  Parentheses are not part of the syntax here: the code looks
   through them (runtimeValue, case "parenthesized_expression").

   State of the code modelled: after fix baf3931 (F63).  Before it every and/or/comparison that mentioned
   TYPE_CHECKING was taken for a guard of a type-checking-only body. *)
From Coq Require Import List Bool.
Import ListNotations.

Inductive gexpr :=
  | GTc                          (* TYPE_CHECKING            : parser.NodeName *)
  | GTcAttr                      (* typing.TYPE_CHECKING     : parser.NodeAttribute *)
  | GFlag (b : bool)             (* a name bound to the boolean b (unknown to the analyser) *)
  | GConst (b : bool)            (* True / False             : parser.NodeConstant *)
  | GNot (e : gexpr)             (* not e                    : generic node "not_operator" *)
  | GAnd (a b : gexpr)           (* a and b                  : parser.NodeBoolOp *)
  | GOr (a b : gexpr)            (* a or b                   : parser.NodeBoolOp *)
  | GEq (a b : gexpr)            (* a == b, a is b           : parser.NodeCompare *)
  | GNe (a b : gexpr).           (* a != b, a is not b       : parser.NodeCompare *)

(* SPEC: the value of the condition at run time (all operands are booleans, so `and`/`or` return booleans) *)
Fixpoint eval_guard (e : gexpr) : bool :=
  match e with
  | GTc | GTcAttr => false
  | GFlag b => b
  | GConst b => b
  | GNot a => negb (eval_guard a)
  | GAnd a b => eval_guard a && eval_guard b
  | GOr a b => eval_guard a || eval_guard b
  | GEq a b => Bool.eqb (eval_guard a) (eval_guard b)
  | GNe a b => negb (Bool.eqb (eval_guard a) (eval_guard b))
  end.

(* an import in the body of `if e:` is a runtime import iff the body is executed; one in the elif / else branches
   iff the body is not *)
Definition spec_tc (e : gexpr) : bool := negb (eval_guard e).
Definition spec_tc_else (e : gexpr) : bool := eval_guard e.

(* containsTypeChecking: the name occurs anywhere in the expression *)
Fixpoint containsTypeChecking (e : gexpr) : bool :=
  match e with
  | GTc | GTcAttr => true
  | GFlag _ | GConst _ => false
  | GNot a => containsTypeChecking a
  | GAnd a b | GOr a b | GEq a b | GNe a b => containsTypeChecking a || containsTypeChecking b
  end.

(* runtimeValue: the condition with TYPE_CHECKING = False in three-valued logic; conditionUnknown = None,
   conditionFalse = Some false, conditionTrue = Some true *)
Fixpoint runtimeValue (e : gexpr) : option bool :=
  match e with
  | GTc | GTcAttr => Some false
  | GFlag _ => None
  | GConst b => Some b
  | GNot a => match runtimeValue a with Some v => Some (negb v) | None => None end
  | GAnd a b =>
      match runtimeValue a, runtimeValue b with
      | Some false, _ | _, Some false => Some false          (* decided by a false operand *)
      | Some _, Some _ => Some true
      | _, _ => None
      end
  | GOr a b =>
      match runtimeValue a, runtimeValue b with
      | Some true, _ | _, Some true => Some true             (* decided by a true operand *)
      | Some _, Some _ => Some false
      | _, _ => None
      end
  | GEq a b =>
      match runtimeValue a, runtimeValue b with
      | Some x, Some y => Some (Bool.eqb x y)
      | _, _ => None
      end
  | GNe a b =>
      match runtimeValue a, runtimeValue b with
      | Some x, Some y => Some (negb (Bool.eqb x y))
      | _, _ => None
      end
  end.

Definition is_value (v : option bool) (b : bool) : bool :=
  match v with Some x => Bool.eqb x b | None => false end.

(* isTypeCheckingCondition: mentions TYPE_CHECKING and is certainly false at run time *)
Definition isTypeCheckingCondition (e : gexpr) : bool := containsTypeChecking e && is_value (runtimeValue e) false.

(* isNotTypeCheckingCondition: mentions TYPE_CHECKING and is certainly true at run time *)
Definition isNotTypeCheckingCondition (e : gexpr) : bool := containsTypeChecking e && is_value (runtimeValue e) true.

(* walkStatements: the body of `if e:` / `elif e:` is type-checking-only iff isTypeCheckingCondition e, the elif /
   else branches are iff isNotTypeCheckingCondition e *)
Definition model_tc (e : gexpr) : bool := isTypeCheckingCondition e.
Definition model_tc_else (e : gexpr) : bool := isNotTypeCheckingCondition e.

(* the analyser and Python agree about the body of `if e:` *)
Definition guard_agrees (e : gexpr) : bool := Bool.eqb (model_tc e) (spec_tc e).

(* no name other than TYPE_CHECKING occurs: the value at run time is determined by the text *)
Fixpoint flag_free (e : gexpr) : bool :=
  match e with
  | GTc | GTcAttr | GConst _ => true
  | GFlag _ => false
  | GNot a => flag_free a
  | GAnd a b | GOr a b | GEq a b | GNe a b => flag_free a && flag_free b
  end.

(* the same condition with other values of the unknown names *)
Fixpoint same_shape (e f : gexpr) : bool :=
  match e, f with
  | GTc, GTc | GTcAttr, GTcAttr | GFlag _, GFlag _ => true
  | GConst a, GConst b => Bool.eqb a b
  | GNot a, GNot b => same_shape a b
  | GAnd a1 a2, GAnd b1 b2 | GOr a1 a2, GOr b1 b2 | GEq a1 a2, GEq b1 b2 | GNe a1 a2, GNe b1 b2 =>
      same_shape a1 b1 && same_shape a2 b2
  | _, _ => false
  end.

(* conditions that are false at run time because TYPE_CHECKING is: the name, the attribute and conjunctions
   with such a condition on either side *)
Fixpoint tc_conjunction (e : gexpr) : bool :=
  match e with
  | GTc | GTcAttr => true
  | GAnd a b => tc_conjunction a || tc_conjunction b
  | _ => false
  end.

(* ---- proofs -------------------------------------------------------------------------------------- *)

(* the three-valued evaluation is sound: a decided value is the value at run time, whatever the other names are *)
Lemma runtimeValue_sound : forall e v, runtimeValue e = Some v -> eval_guard e = v.
Proof.
  induction e; simpl; intros v H; try congruence.
  - destruct (runtimeValue e) as [x|]; try discriminate. inversion H; subst. rewrite (IHe x eq_refl). reflexivity.
  - destruct (runtimeValue e1) as [[|]|] eqn:E1; destruct (runtimeValue e2) as [[|]|] eqn:E2; inversion H; subst;
      try rewrite (IHe1 _ eq_refl); try rewrite (IHe2 _ eq_refl); try reflexivity; apply andb_false_r.
  - destruct (runtimeValue e1) as [[|]|] eqn:E1; destruct (runtimeValue e2) as [[|]|] eqn:E2; inversion H; subst;
      try rewrite (IHe1 _ eq_refl); try rewrite (IHe2 _ eq_refl); try reflexivity; apply orb_true_r.
  - destruct (runtimeValue e1) as [x|]; destruct (runtimeValue e2) as [y|]; inversion H; subst.
    rewrite (IHe1 x eq_refl), (IHe2 y eq_refl). reflexivity.
  - destruct (runtimeValue e1) as [x|]; destruct (runtimeValue e2) as [y|]; inversion H; subst.
    rewrite (IHe1 x eq_refl), (IHe2 y eq_refl). reflexivity.
Qed.

(* it does not look at the values of the other names *)
Lemma runtimeValue_shape : forall e f, same_shape e f = true -> runtimeValue e = runtimeValue f.
Proof.
  induction e; destruct f; simpl; intros H; try discriminate; try reflexivity.
  - apply eqb_prop in H. subst. reflexivity.
  - rewrite (IHe f H). reflexivity.
  - apply andb_true_iff in H. destruct H as [H1 H2]. rewrite (IHe1 _ H1), (IHe2 _ H2). reflexivity.
  - apply andb_true_iff in H. destruct H as [H1 H2]. rewrite (IHe1 _ H1), (IHe2 _ H2). reflexivity.
  - apply andb_true_iff in H. destruct H as [H1 H2]. rewrite (IHe1 _ H1), (IHe2 _ H2). reflexivity.
  - apply andb_true_iff in H. destruct H as [H1 H2]. rewrite (IHe1 _ H1), (IHe2 _ H2). reflexivity.
Qed.

(* without other names it decides every condition *)
Lemma runtimeValue_complete : forall e, flag_free e = true -> runtimeValue e = Some (eval_guard e).
Proof.
  induction e; simpl; intros H; try discriminate; try reflexivity.
  - rewrite (IHe H). reflexivity.
  - apply andb_true_iff in H. destruct H as [H1 H2]. rewrite (IHe1 H1), (IHe2 H2).
    destruct (eval_guard e1), (eval_guard e2); reflexivity.
  - apply andb_true_iff in H. destruct H as [H1 H2]. rewrite (IHe1 H1), (IHe2 H2).
    destruct (eval_guard e1), (eval_guard e2); reflexivity.
  - apply andb_true_iff in H. destruct H as [H1 H2]. rewrite (IHe1 H1), (IHe2 H2). reflexivity.
  - apply andb_true_iff in H. destruct H as [H1 H2]. rewrite (IHe1 H1), (IHe2 H2). reflexivity.
Qed.

Lemma is_value_some : forall v b, is_value v b = true -> v = Some b.
Proof. intros [x|] b H; simpl in H; try discriminate. apply eqb_prop in H. subst. reflexivity. Qed.

(* SOUNDNESS, every condition, every value of the other names: a branch the analyser takes for type-checking-only
   is never executed (no runtime import is lost) *)
Lemma guard_sound : forall e, (model_tc e = true -> spec_tc e = true) /\ (model_tc_else e = true -> spec_tc_else e = true).
Proof.
  intros e. unfold model_tc, model_tc_else, isTypeCheckingCondition, isNotTypeCheckingCondition, spec_tc, spec_tc_else.
  split; intros H; apply andb_true_iff in H; destruct H as [_ H]; apply is_value_some in H;
    rewrite (runtimeValue_sound e _ H); reflexivity.
Qed.

(* EXACTNESS: a condition over TYPE_CHECKING and literals only, mentioning TYPE_CHECKING, is read as Python runs it *)
Lemma guard_exact : forall e, flag_free e = true -> containsTypeChecking e = true ->
  model_tc e = spec_tc e /\ model_tc_else e = spec_tc_else e.
Proof.
  intros e Hf Hc. unfold model_tc, model_tc_else, isTypeCheckingCondition, isNotTypeCheckingCondition, spec_tc, spec_tc_else.
  rewrite Hc, (runtimeValue_complete e Hf). simpl. destruct (eval_guard e); split; reflexivity.
Qed.

Lemma contains_shape : forall e f, same_shape e f = true -> containsTypeChecking e = containsTypeChecking f.
Proof.
  induction e; destruct f; simpl; intros H; try discriminate; try reflexivity; auto;
    apply andb_true_iff in H; destruct H as [H1 H2]; rewrite (IHe1 _ H1), (IHe2 _ H2); reflexivity.
Qed.

(* the analyser's answer is the same for every value of the other names; when it is "runtime code" for both branches
   although one of them is dead, another value of these names makes that branch run: no static reading does better *)
Lemma guard_shape : forall e f, same_shape e f = true -> model_tc e = model_tc f /\ model_tc_else e = model_tc_else f.
Proof.
  intros e f H. unfold model_tc, model_tc_else, isTypeCheckingCondition, isNotTypeCheckingCondition.
  rewrite (runtimeValue_shape e f H).
  rewrite (contains_shape e f H). split; reflexivity.
Qed.

Lemma tc_conjunction_contains : forall e, tc_conjunction e = true -> containsTypeChecking e = true.
Proof.
  induction e; simpl; intros H; try discriminate; auto.
  apply orb_true_iff in H. apply orb_true_iff. destruct H; [left | right]; auto.
Qed.

Lemma tc_conjunction_false : forall e, tc_conjunction e = true -> eval_guard e = false.
Proof.
  induction e; simpl; intros H; try discriminate; auto.
  apply orb_true_iff in H. destruct H as [H | H].
  - rewrite (IHe1 H). reflexivity.
  - rewrite (IHe2 H). apply andb_false_r.
Qed.

Lemma tc_conjunction_value : forall e, tc_conjunction e = true -> runtimeValue e = Some false.
Proof.
  induction e; simpl; intros H; try discriminate; auto.
  apply orb_true_iff in H. destruct H as [H | H].
  - rewrite (IHe1 H). reflexivity.
  - rewrite (IHe2 H). destruct (runtimeValue e1) as [[|]|]; reflexivity.
Qed.

(* `if TYPE_CHECKING:`, `if typing.TYPE_CHECKING:` and every conjunction with one of them, whatever the other operand
   is: never executed, and recognised *)
Lemma tc_conjunction_agrees : forall e, tc_conjunction e = true -> model_tc e = true /\ spec_tc e = true.
Proof.
  intros e H. split.
  - unfold model_tc, isTypeCheckingCondition. rewrite (tc_conjunction_contains e H), (tc_conjunction_value e H). reflexivity.
  - unfold spec_tc. rewrite (tc_conjunction_false e H). reflexivity.
Qed.

(* conditions that do not mention TYPE_CHECKING are never taken for type-checking guards, in either direction *)
Lemma no_tc_not_guard : forall e, containsTypeChecking e = false -> model_tc e = false /\ model_tc_else e = false.
Proof. intros e H. unfold model_tc, model_tc_else, isTypeCheckingCondition, isNotTypeCheckingCondition. rewrite H. split; reflexivity. Qed.

(* the inputs that exposed F63, now read as Python runs them: `TYPE_CHECKING or X`, `not TYPE_CHECKING and X`,
   `TYPE_CHECKING == False`, `TYPE_CHECKING is not True`, `not TYPE_CHECKING` (whose else branch is type-checking-only),
   `not not TYPE_CHECKING` *)
Lemma guard_repaired_witnesses :
  (forall x, model_tc (GOr GTc (GFlag x)) = false /\ model_tc_else (GOr GTc (GFlag x)) = false) /\
  (forall x, model_tc (GAnd (GNot GTc) (GFlag x)) = false /\ model_tc_else (GAnd (GNot GTc) (GFlag x)) = false) /\
  (model_tc (GEq GTc (GConst false)) = false /\ spec_tc (GEq GTc (GConst false)) = false /\ model_tc_else (GEq GTc (GConst false)) = true) /\
  (model_tc (GNe GTcAttr (GConst true)) = false /\ spec_tc (GNe GTcAttr (GConst true)) = false) /\
  (model_tc (GNot GTc) = false /\ model_tc_else (GNot GTc) = true /\ spec_tc_else (GNot GTc) = true) /\
  (model_tc (GNot (GNot GTc)) = true /\ spec_tc (GNot (GNot GTc)) = true) /\
  (model_tc (GOr GTc (GConst true)) = false /\ model_tc_else (GOr GTc (GConst true)) = true).
Proof. repeat split; reflexivity. Qed.
