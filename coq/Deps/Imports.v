(* C12 — MODEL of internal/analyzer/module_analyzer.go, reexport_resolver.go and
   dependency_graph.go (AddDependency), read literally, one Gallina function per Go function.
   State of the code modelled: after the fix commits listed in known_findings.d/C12.json
   (imports in else/except/finally collected; relative level taken from parser.Node.Level;
   from-imports resolved per imported name; resolution cache keyed by importing directory;
   "import a, b as c" keeps a; a package m/ shadows a file m.py next to it (21fe01e); a project
   directory without __init__.py resolves as a namespace package before the third-party
   classification (8ba1334)).

   File system: the project root is the directory all module paths are relative to; the file of
   module m is <m_path>.py, or <m_path>/__init__.py for a package.  Directories are paths below
   the root ([] = the root); [None] is a directory outside the project, which holds no modules.
   The resolution cache (module_analyzer.go:22, resolvedModules) memoises
   resolveAbsoluteImportWithProject under the key (importing directory, imported name), i.e. under
   all arguments the search depends on, and the file system does not change during a run: it is
   not part of the model ([Props/C12.v: per_file_independent] is the statement that relies on it;
   the correspondence check runs every project in two file orders). *)
From Coq Require Import NArith List Bool Arith.
From PV Require Import Deps.PyImport Gen.ImportsConst.
Import ListNotations.

(* fileExists(<q>.py) / fileExists(<q>/__init__.py) — module_analyzer.go:657 *)
Definition py_file_exists (pr : project) (q : path) : bool :=
  existsb (fun m => negb (m_is_pkg m) && path_eqb (m_path m) q) pr.
Definition init_file_exists (pr : project) (q : path) : bool :=
  existsb (fun m => m_is_pkg m && path_eqb (m_path m) q) pr.

(* dirExists(<q>) — module_analyzer.go: the directories of the file system are those module files lie in *)
Definition dir_exists (pr : project) (q : path) : bool :=
  existsb (fun m => strict_prefixb q (m_path m) || (m_is_pkg m && path_eqb (m_path m) q)) pr.

(* filepath.Dir(filePath) of a module's file, relative to the root *)
Definition dir_of (m : pymodule) : path := if m_is_pkg m then m_path m else removelast (m_path m).

(* filepath.Dir of a directory *)
Definition parent_dir (d : option path) : option path :=
  match d with
  | Some ((_ :: _) as q) => Some (removelast q)
  | _ => None                      (* above the root *)
  end.

(* ---------------------------------------------------------------------------------------- *)
(* collectModuleImports (module_analyzer.go:253-338) with walkStatements                     *)
(* ---------------------------------------------------------------------------------------- *)

(* which statement lists of the AST walkStatements descends into, by where the import stands:
   Body (module, def, class, if, elif, try, with, for/while, match case), Orelse (else of if,
   try, loops), Handlers -> Body (except), Finalbody (finally) *)
Definition walked (pos : position) : bool :=
  match pos with
  | PModule | PDef | PClass | PIf | PElif | PTry | PWith | PLoop | PMatch => true   (* Body *)
  | PElse | PTryElse | PLoopElse => true                                            (* Orelse *)
  | PExcept => true                                                                 (* Handlers *)
  | PFinally => true                                                                (* Finalbody *)
  end.

(* ImportInfo (dependency_graph.go:55) as far as resolution uses it *)
Record import_info := {
  ii_module : path;            (* Statement: dotted module name without leading dots; [] if none *)
  ii_names : list iname;       (* ImportedNames (original names) with their aliases *)
  ii_from : bool;              (* IsFromImport *)
  ii_level : nat;              (* Level; IsRelative = level > 0 *)
  ii_tc : bool                 (* IsTypeChecking *)
}.

Definition collect_one (s : import_stmt) : list import_info :=
  if negb (walked (i_pos s)) then [] else
  match i_form s with
  | ImportAbs p => [ {| ii_module := p; ii_names := []; ii_from := false; ii_level := 0; ii_tc := i_tc s |} ]
  | ImportFrom p ns => [ {| ii_module := p; ii_names := ns; ii_from := true; ii_level := 0; ii_tc := i_tc s |} ]
  | ImportRel lv p ns => [ {| ii_module := p; ii_names := ns; ii_from := true; ii_level := lv; ii_tc := i_tc s |} ]
  end.

Definition collectModuleImports (m : pymodule) : list import_info := flat_map collect_one (m_imports m).

(* ---------------------------------------------------------------------------------------- *)
(* resolution                                                                                *)
(* ---------------------------------------------------------------------------------------- *)

(* isStandardLibrary (module_analyzer.go:688): root component in the table of Gen/ImportsConst.v;
   the harness gives the i-th name of that table the code stdlib_code_base + i *)
Definition isStandardLibrary (p : path) : bool :=
  match p with
  | [] => false
  | r :: _ => N.leb stdlib_code_base r && N.ltb r (stdlib_code_base + N.of_nat (length stdlib_modules))
  end.

(* one search path of resolveAbsoluteImportWithProject (module_analyzer.go:442-466):
   <dir>/<p>.py first, then <dir>/<p>/__init__.py; the result is the module name of the file found *)
Definition search_in (pr : project) (d : option path) (p : path) : option path :=
  match d with
  | None => None
  | Some dir => let q := dir ++ p in
                if py_file_exists pr q then Some q
                else if init_file_exists pr q then Some q else None
  end.

Fixpoint first_some {A B} (f : A -> option B) (l : list A) : option B :=
  match l with
  | [] => None
  | a :: l' => match f a with Some b => Some b | None => first_some f l' end
  end.

(* resolveAbsoluteImport (module_analyzer.go): python path = [root], package before module; then
   stdlib (not included); then a directory of that name = namespace package (PEP 420), named as
   written; then third party (included, named as written) *)
Definition resolveAbsoluteImport (pr : project) (p : path) : option path :=
  if init_file_exists pr p then Some p
  else if py_file_exists pr p then Some p
  else if isStandardLibrary p then (if include_stdlib then Some p else None)
  else if dir_exists pr p then Some p
  else if include_third_party then Some p else None.

(* resolveAbsoluteImportWithProject (module_analyzer.go:419-470): current directory, project
   root, parent directory *)
Definition resolveAbsoluteImportWithProject (pr : project) (m : pymodule) (p : path) : option path :=
  match p with
  | [] => None
  | _ =>
    let cur := Some (dir_of m) in
    match first_some (fun d => search_in pr d p) [cur; Some []; parent_dir cur] with
    | Some q => Some q
    | None => resolveAbsoluteImport pr p
    end
  end.

(* resolveRelativeImport (module_analyzer.go:349-378): level 1 = directory of the importing file *)
Definition resolveRelativeImport (m : pymodule) (level : nat) (p : path) : option path :=
  if negb follow_relative then None else
  match Nat.iter (level - 1) parent_dir (Some (dir_of m)) with
  | Some ((_ :: _) as base) => Some (base ++ p)
  | _ => None                  (* the root or above: not a package *)
  end.

Definition resolveImport (pr : project) (m : pymodule) (ii : import_info) : option path :=
  if Nat.ltb 0 (ii_level ii) then resolveRelativeImport m (ii_level ii) (ii_module ii)
  else resolveAbsoluteImportWithProject pr m (ii_module ii).

(* ---------------------------------------------------------------------------------------- *)
(* ReExportResolver (reexport_resolver.go:38-239)                                            *)
(* ---------------------------------------------------------------------------------------- *)

(* processImportFrom: source module of one from-import of package P's __init__.py *)
Definition reexport_source (P : path) (f : form) : option (path * list iname) :=
  match f with
  | ImportAbs _ => None
  | ImportFrom q ns => if strict_prefixb P q then Some (q, ns) else None      (* inside the package only *)
  | ImportRel lv q ns =>
      match q with
      | [] => None                                                              (* module == "" *)
      | _ => if Nat.eqb lv 1 then Some (P ++ q, ns)
             else if Nat.leb lv (length P) then Some (firstn (length P - lv + 1) P ++ q, ns)
             else None
      end
  end.

(* exports[alias or name] = source, for every from-import anywhere in the file, in walk order *)
Definition exports_of (P : path) (init : pymodule) : list (name * path) :=
  flat_map (fun s => match reexport_source P (i_form s) with
                     | Some (src, ns) => if path_eqb src P then [] else map (fun x => (in_bound x, src)) ns
                     | None => []
                     end) (m_imports init).

(* parseInitFile: if __all__ is declared and non-empty only its names stay *)
Definition all_allows (init : pymodule) (n : name) : bool :=
  match m_all init with
  | Some ((_ :: _) as l) => existsb (N.eqb n) l
  | _ => true
  end.

(* ResolveReExport(packageName, importedName) *)
Definition ResolveReExport (pr : project) (P : path) (n : name) : option path :=
  match find (fun m => m_is_pkg m && path_eqb (m_path m) P) pr with      (* findInitFile *)
  | None => None
  | Some init =>
      if all_allows init n then
        match find (fun e => N.eqb (fst e) n) (rev (exports_of P init)) with   (* later entries overwrite *)
        | Some e => Some (snd e)
        | None => None
        end
      else None
  end.

(* ---------------------------------------------------------------------------------------- *)
(* DependencyGraph.AddDependency (dependency_graph.go:175-213)                               *)
(* ---------------------------------------------------------------------------------------- *)
Record graph := {
  g_nodes : list path;                 (* Nodes (AddModule for every analysed file) *)
  g_edges : list edge;                 (* Edges, in insertion order *)
  g_in : list (path * nat);            (* InDegree increments *)
  g_out : list (path * nat)            (* OutDegree increments *)
}.

Fixpoint bump (p : path) (l : list (path * nat)) : list (path * nat) :=
  match l with
  | [] => [(p, 1)]
  | (q, k) :: l' => if path_eqb q p then (q, S k) :: l' else (q, k) :: bump p l'
  end.

Fixpoint degree (p : path) (l : list (path * nat)) : nat :=
  match l with
  | [] => 0
  | (q, k) :: l' => if path_eqb q p then k else degree p l'
  end.

Definition AddDependency (g : graph) (from to : path) : graph :=
  if negb (mem_path from (g_nodes g) && mem_path to (g_nodes g)) then g     (* unknown node *)
  else if path_eqb from to then g                                           (* self dependency *)
  else if has_edge (g_edges g) (from, to) then g                            (* already there *)
  else {| g_nodes := g_nodes g; g_edges := g_edges g ++ [(from, to)];
          g_in := bump to (g_in g); g_out := bump from (g_out g) |}.

Definition empty_graph (pr : project) : graph :=
  {| g_nodes := module_names pr; g_edges := []; g_in := []; g_out := [] |}.

(* ---------------------------------------------------------------------------------------- *)
(* analyzeModuleDependencies (module_analyzer.go:167-255)                                    *)
(* ---------------------------------------------------------------------------------------- *)
Fixpoint dedup_paths (l : list path) (seen : list path) : list path :=
  match l with
  | [] => []
  | p :: l' => if mem_path p seen then dedup_paths l' seen else p :: dedup_paths l' (p :: seen)
  end.

(* the modules one import makes the file depend on *)
Definition resolved_modules (pr : project) (g : graph) (m : pymodule) (ii : import_info) : list path :=
  match resolveImport pr m ii with
  | None => []
  | Some target =>
      if ii_from ii && negb (Nat.eqb (length (ii_names ii)) 0) then
        dedup_paths (map (fun x =>
                       match ResolveReExport pr target (in_orig x) with
                       | Some src => src
                       | None => if mem_path (target ++ [in_orig x]) (g_nodes g) then target ++ [in_orig x] else target
                       end) (ii_names ii)) []
      else [target]
  end.

Definition analyze_import (pr : project) (m : pymodule) (g : graph) (ii : import_info) : graph :=
  if ii_tc ii then g else
  fold_left (fun g r => if m_is_pkg m && strict_prefixb (m_path m) r then g      (* __init__ -> own submodule *)
                        else AddDependency g (m_path m) r)
            (resolved_modules pr g m ii) g.

(* DependencyGraph.AddModule (dependency_graph.go): m.py and m/__init__.py have one module name and one node; the
   node describes the package.  analyzeModuleDependencies returns early for a file that is not its node's file
   (module.FilePath != filePath): the file m.py next to a package m/.  (A file system holds at most one m.py and one
   m/__init__.py.) *)
Definition shadowed (pr : project) (m : pymodule) : bool := negb (m_is_pkg m) && init_file_exists pr (m_path m).

Definition analyzeModuleDependencies (pr : project) (g : graph) (m : pymodule) : graph :=
  if shadowed pr m then g else fold_left (analyze_import pr m) (collectModuleImports m) g.

(* AnalyzeFiles (module_analyzer.go:130-165): all modules first, then every file in the order given *)
Definition AnalyzeFiles (pr : project) (order : list pymodule) : graph :=
  fold_left (analyzeModuleDependencies pr) order (empty_graph pr).

Definition edges_model (pr : project) : list edge := g_edges (AnalyzeFiles pr pr).
