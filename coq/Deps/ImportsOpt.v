(* C12 — MODEL of the option-dependent logic of internal/analyzer/module_analyzer.go and of the wildcard
   case of reexport_resolver.go: the functions of Deps/Imports.v once more, with the analysis options of
   ModuleAnalysisOptions (module_analyzer.go:36-44) as a parameter instead of the defaults of
   Gen/ImportsConst.v:

     IncludeStdLib / IncludeThirdParty   resolveAbsoluteImport (module_analyzer.go:419-433)
     FollowRelative                      resolveRelativeImport (module_analyzer.go:365-367)
     ExcludePatterns                     shouldIncludeDependency (module_analyzer.go:612-625); only patterns without
                                         wildcard characters are modelled: doublestar.Match(p, name) is then p = name
     "from m import *" in an __init__    processImportFrom skips the name "*" (reexport_resolver.go:213-217)

   [default_opts] are the defaults the service passes (system_analysis_service.go:88-95); for them and for
   projects without wildcard re-exports the functions here are the functions of Deps/Imports.v
   (Deps/ImportsOptProofs.v, AnalyzeFiles_o_default).  No proofs here. *)
From Coq Require Import NArith List Bool Arith.
From PV Require Import Deps.PyImport Deps.Imports Gen.ImportsConst.
Import ListNotations.

Record opts := {
  o_stdlib : bool;          (* IncludeStdLib *)
  o_third : bool;           (* IncludeThirdParty *)
  o_rel : bool;             (* FollowRelative *)
  o_excl : list path        (* ExcludePatterns that are plain dotted names *)
}.

Definition default_opts : opts :=
  {| o_stdlib := include_stdlib; o_third := include_third_party; o_rel := follow_relative; o_excl := [] |}.

(* cmd/pyscn/check.go:554-561: the options of `pyscn check --select deps` *)
Definition check_opts : opts := {| o_stdlib := false; o_third := false; o_rel := true; o_excl := [] |}.

(* the code the harness gives the name "*" of a wildcard import *)
Definition star : name := 900000%N.
Definition is_star (x : iname) : bool := N.eqb (in_orig x) star.

(* resolveAbsoluteImport (module_analyzer.go:391-434) *)
Definition resolveAbsoluteImport_o (o : opts) (pr : project) (p : path) : option path :=
  if init_file_exists pr p then Some p
  else if py_file_exists pr p then Some p
  else if isStandardLibrary p then (if o_stdlib o then Some p else None)
  else if dir_exists pr p then Some p
  else if o_third o then Some p else None.

(* resolveAbsoluteImportWithProject (module_analyzer.go:437-490) *)
Definition resolveAbsoluteImportWithProject_o (o : opts) (pr : project) (m : pymodule) (p : path) : option path :=
  match p with
  | [] => None
  | _ =>
    let cur := Some (dir_of m) in
    match first_some (fun d => search_in pr d p) [cur; Some []; parent_dir cur] with
    | Some q => Some q
    | None => resolveAbsoluteImport_o o pr p
    end
  end.

(* resolveRelativeImport (module_analyzer.go:364-388) *)
Definition resolveRelativeImport_o (o : opts) (m : pymodule) (level : nat) (p : path) : option path :=
  if negb (o_rel o) then None else
  match Nat.iter (level - 1) parent_dir (Some (dir_of m)) with
  | Some ((_ :: _) as base) => Some (base ++ p)
  | _ => None
  end.

Definition resolveImport_o (o : opts) (pr : project) (m : pymodule) (ii : import_info) : option path :=
  if Nat.ltb 0 (ii_level ii) then resolveRelativeImport_o o m (ii_level ii) (ii_module ii)
  else resolveAbsoluteImportWithProject_o o pr m (ii_module ii).

(* processImportFrom (reexport_resolver.go:159-239): the name "*" is skipped *)
Definition exports_of_o (P : path) (init : pymodule) : list (name * path) :=
  flat_map (fun s => match reexport_source P (i_form s) with
                     | Some (src, ns) => if path_eqb src P then []
                                         else map (fun x => (in_bound x, src)) (filter (fun x => negb (is_star x)) ns)
                     | None => []
                     end) (m_imports init).

Definition ResolveReExport_o (pr : project) (P : path) (n : name) : option path :=
  match find (fun m => m_is_pkg m && path_eqb (m_path m) P) pr with
  | None => None
  | Some init =>
      if all_allows init n then
        match find (fun e => N.eqb (fst e) n) (rev (exports_of_o P init)) with
        | Some e => Some (snd e)
        | None => None
        end
      else None
  end.

(* shouldIncludeDependency (module_analyzer.go:612-625), asked about the module the statement names *)
Definition shouldIncludeDependency (o : opts) (target : path) : bool := negb (mem_path target (o_excl o)).

Definition resolved_modules_o (o : opts) (pr : project) (g : graph) (m : pymodule) (ii : import_info) : list path :=
  match resolveImport_o o pr m ii with
  | None => []
  | Some target =>
      if negb (shouldIncludeDependency o target) then [] else
      if ii_from ii && negb (Nat.eqb (length (ii_names ii)) 0) then
        dedup_paths (map (fun x =>
                       match ResolveReExport_o pr target (in_orig x) with
                       | Some src => src
                       | None => if mem_path (target ++ [in_orig x]) (g_nodes g) then target ++ [in_orig x] else target
                       end) (ii_names ii)) []
      else [target]
  end.

Definition analyze_import_o (o : opts) (pr : project) (m : pymodule) (g : graph) (ii : import_info) : graph :=
  if ii_tc ii then g else
  fold_left (fun g r => if m_is_pkg m && strict_prefixb (m_path m) r then g
                        else AddDependency g (m_path m) r)
            (resolved_modules_o o pr g m ii) g.

Definition analyzeModuleDependencies_o (o : opts) (pr : project) (g : graph) (m : pymodule) : graph :=
  if shadowed pr m then g else fold_left (analyze_import_o o pr m) (collectModuleImports m) g.

Definition AnalyzeFiles_o (o : opts) (pr : project) (order : list pymodule) : graph :=
  fold_left (analyzeModuleDependencies_o o pr) order (empty_graph pr).

Definition edges_model_o (o : opts) (pr : project) : list edge := g_edges (AnalyzeFiles_o o pr pr).

(* ---------------------------------------------------------------------------------------- *)
(* SPEC side of the options                                                                  *)
(* ---------------------------------------------------------------------------------------- *)

(* FollowRelative = false: the relative import statements of the analysed file contribute nothing *)
Definition is_rel (s : import_stmt) : bool :=
  match i_form s with ImportRel lv _ _ => Nat.ltb 0 lv | _ => false end.

Definition strip_rel (m : pymodule) : pymodule :=
  {| m_path := m_path m; m_is_pkg := m_is_pkg m;
     m_imports := filter (fun s => negb (is_rel s)) (m_imports m); m_all := m_all m |}.

(* the specification's graph under the options: the include options concern modules outside the project
   only, and the property speaks about project modules; without FollowRelative the relative statements
   are left out (names are still resolved against the unchanged project) *)
Definition edges_py_o (o : opts) (pr : project) : list edge :=
  flat_map (fun m => edges_of_module_py pr (if o_rel o then m else strip_rel m)) pr.

(* every directory that holds a module has an __init__.py (no namespace packages) *)
Definition dirs_have_init (pr : project) : bool :=
  forallb (fun m => Nat.leb (length (m_path m)) 1 || init_file_exists pr (removelast (m_path m))) pr.

(* deviation class 5, wildcard re-export: an __init__ takes names by "from m import *" *)
Definition class_wildcard_reexport (pr : project) : bool :=
  existsb (fun m => m_is_pkg m &&
             existsb (fun s => match i_form s with
                               | ImportAbs _ => false
                               | ImportFrom _ ns => existsb is_star ns
                               | ImportRel _ _ ns => existsb is_star ns
                               end) (m_imports m)) pr.

(* deviation class 6, namespace package: a module lies in a directory without __init__.py *)
Definition class_namespace_package (pr : project) : bool := negb (dirs_have_init pr).
