(* C12 — MODEL of the module metrics: internal/analyzer/coupling_metrics.go:66-121
   (calculateModuleMetrics, calculateAbstractness) and service/system_analysis_service.go
   (calculateMaxDepth, calculateDepthFromModule: their value, see the note there), with the SPEC versions next to them.
   float64 is modelled by Q (DESIGN section 3); the harness compares with the float results. *)
From Coq Require Import NArith ZArith QArith Qabs List Bool Arith.
From PV Require Import Deps.PyImport Deps.Imports.
Import ListNotations.
Local Open Scope nat_scope.

(* ---------------------------------------------------------------------------------------- *)
(* SPEC                                                                                      *)
(* ---------------------------------------------------------------------------------------- *)
Definition in_degree (es : list edge) (m : path) : nat := length (filter (fun e => path_eqb (snd e) m) es).
Definition out_degree (es : list edge) (m : path) : nat := length (filter (fun e => path_eqb (fst e) m) es).

(* I = Ce / (Ca + Ce), 0 when both are 0 *)
Definition instability_spec (ca ce : nat) : Q :=
  if Nat.eqb (ca + ce) 0 then 0%Q else (inject_Z (Z.of_nat ce) / inject_Z (Z.of_nat (ca + ce)))%Q.

(* D = |A + I - 1| *)
Definition distance_spec (a i : Q) : Q := Qabs (a + i - 1)%Q.

Definition succs (es : list edge) (m : path) : list path :=
  map snd (filter (fun e => path_eqb (fst e) m) es).

(* number of edges of the longest import chain starting at m (fuel = bound on the chain length) *)
Fixpoint longest_from (fuel : nat) (es : list edge) (m : path) : nat :=
  match fuel with
  | 0 => 0
  | S f => fold_left (fun acc s => Nat.max acc (S (longest_from f es s))) (succs es m) 0
  end.

Definition longest_chain (nodes : list path) (es : list edge) : nat :=
  fold_left (fun acc m => Nat.max acc (longest_from (length nodes) es m)) nodes 0.

(* an import chain: consecutive modules joined by edges *)
Inductive chain (es : list edge) : path -> list path -> Prop :=
  | chain_nil : forall m, chain es m []
  | chain_cons : forall m s l, In s (succs es m) -> chain es s l -> chain es m (s :: l).

(* acyclic: the modules can be numbered so that every import goes to a smaller number *)
Definition ranked (nodes : list path) (es : list edge) (rank : path -> nat) : Prop :=
  (forall e, In e es -> rank (snd e) < rank (fst e)) /\ (forall m, rank m < length nodes).

(* ---------------------------------------------------------------------------------------- *)
(* MODEL                                                                                     *)
(* ---------------------------------------------------------------------------------------- *)

(* calculateModuleMetrics (coupling_metrics.go:70-80) *)
Definition fan_in (g : graph) (m : path) : nat := degree m (g_in g).      (* AfferentCoupling = node.InDegree *)
Definition fan_out (g : graph) (m : path) : nat := degree m (g_out g).    (* EfferentCoupling = node.OutDegree *)

Definition instability (ca ce : nat) : Q :=
  let total := (ca + ce)%nat in
  if Nat.ltb 0 total then (Z.of_nat ce # Pos.of_nat total)%Q else 0%Q.

(* calculateAbstractness (coupling_metrics.go:102-121): abstract-looking public names / public names *)
Definition abstractness (abstract_count public_count : nat) : Q :=
  if Nat.eqb public_count 0 then 0%Q else (Z.of_nat abstract_count # Pos.of_nat public_count)%Q.

(* Distance = math.Abs(Abstractness + Instability - 1.0) (coupling_metrics.go:88) *)
Definition distance (a i : Q) : Q := Qabs (a + i - 1)%Q.

Definition omax (a b : option nat) : option nat :=
  match a, b with Some x, Some y => Some (Nat.max x y) | _, _ => None end.

(* calculateDepthFromModule (system_analysis_service.go), the search along every simple path; None = out of fuel.
   Since the repair of finding F21 (78c5737) the code answers currentDepth + height at once for a module from which no import
   cycle can be reached and walks the paths only for the other modules; the VALUE is the one of this search on every graph
   (Deps/DepthCostProofs.v: max_depth_value_unchanged, theorem C06_max_depth_value_unchanged), and harness/c12.py compares the
   implementation with this model on acyclic and cyclic projects. *)
Fixpoint calculateDepthFromModule (fuel : nat) (es : list edge) (visited : list path) (current : path)
    (currentDepth : nat) : option nat :=
  match fuel with
  | 0 => None
  | S f =>
      if mem_path current visited then Some currentDepth else
      fold_left (fun acc dep => omax acc (calculateDepthFromModule f es (current :: visited) dep (S currentDepth)))
                (succs es current) (Some currentDepth)
  end.

(* calculateMaxDepth (system_analysis_service.go) *)
Definition calculateMaxDepth (nodes : list path) (es : list edge) : option nat :=
  fold_left (fun acc m => omax acc (calculateDepthFromModule (S (S (length nodes))) es [] m 0)) nodes (Some 0).

(* metrics of one module as reported: (Ca, Ce, I) *)
Definition module_metrics (g : graph) (m : path) : nat * nat * Q :=
  (fan_in g m, fan_out g m, instability (fan_in g m) (fan_out g m)).
