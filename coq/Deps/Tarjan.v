(* C11 — code model: internal/analyzer/circular_detector.go (Tarjan) and the part of
   internal/analyzer/dependency_graph.go it reads. One Gallina function per Go function.
   Go maps are association lists in arbitrary order: the order of [mgraph] is the order in
   which `range cdd.graph.Nodes` happens to deliver the modules, the order of [n_deps] the
   order in which `range node.Dependencies` delivers the imports of that module.
   Proofs are in Deps/TarjanProofs.v. *)
From Coq Require Import List NArith ZArith Bool Arith.
From PV Require Import Gen.DepsConst Deps.SccSpec.
Import ListNotations.

(* ---------- dependency_graph.go ---------- *)
(* ModuleNode: Name, Dependencies (set), InDegree *)
Record mnode := Build_mnode { n_name : N; n_deps : list N; n_indegree : Z }.
Definition mgraph := list mnode.

Definition get_node (g : mgraph) (m : N) : option mnode := find (fun n => N.eqb (n_name n) m) g.

(* AddModule, dependency_graph.go:146-176: no-op when the module exists *)
Definition add_module (g : mgraph) (m : N) : mgraph :=
  match get_node g m with Some _ => g | None => g ++ [Build_mnode m [] 0] end.

(* AddDependency, dependency_graph.go:179-214: unknown endpoints, self-dependencies and
   duplicates are dropped *)
Definition add_dependency (g : mgraph) (from to : N) : mgraph :=
  match get_node g from, get_node g to with
  | Some fn, Some _ =>
      if N.eqb from to then g
      else if memb to (n_deps fn) then g
      else map (fun n =>
                  let n1 := if N.eqb (n_name n) from then Build_mnode (n_name n) (n_deps n ++ [to]) (n_indegree n) else n in
                  if N.eqb (n_name n1) to then Build_mnode (n_name n1) (n_deps n1) (n_indegree n1 + 1)%Z else n1) g
  | _, _ => g
  end.

(* what the module analyzer / the driver hook do: all modules, then all imports *)
Definition build_graph (d : digraph) : mgraph :=
  fold_left (fun g e => add_dependency g (fst e) (snd e)) (edges d) (fold_left add_module (verts d) []).

(* other map iteration orders of the same graph *)
Definition rev_deps (g : mgraph) : mgraph :=
  map (fun n => Build_mnode (n_name n) (rev (n_deps n)) (n_indegree n)) g.
Fixpoint rotate {A} (k : nat) (l : list A) : list A :=
  match k, l with
  | S k', x :: r => rotate k' (r ++ [x])
  | _, _ => l
  end.

(* ---------- circular_detector.go: detector state ---------- *)
Record tstate := Build_tstate {
  t_index : Z;
  t_stack : list N;                 (* top of the Go slice = head *)
  t_inStack : list (N * bool);      (* map[string]bool; later entries shadow *)
  t_indices : list (N * Z);
  t_lowLinks : list (N * Z);
  t_components : list (list N)      (* in order of append *)
}.

Inductive result := Ok (st : tstate) | OutOfFuel | Panic.

Definition mget {V} (m : list (N * V)) (k : N) : option V :=
  match find (fun p => N.eqb (fst p) k) m with Some p => Some (snd p) | None => None end.
Definition mset {V} (m : list (N * V)) (k : N) (v : V) : list (N * V) := (k, v) :: m.

Definition get_index (st : tstate) (m : N) : Z := match mget (t_indices st) m with Some i => i | None => 0%Z end.
Definition get_low (st : tstate) (m : N) : Z := match mget (t_lowLinks st) m with Some i => i | None => 0%Z end.
Definition in_stack (st : tstate) (m : N) : bool := match mget (t_inStack st) m with Some b => b | None => false end.
Definition set_low (st : tstate) (m : N) (v : Z) : tstate :=
  Build_tstate (t_index st) (t_stack st) (t_inStack st) (t_indices st) (mset (t_lowLinks st) m v) (t_components st).

(* resetState, :104-111 *)
Definition resetState : tstate := Build_tstate 0 [] [] [] [] [].

(* minLowLink, :441-446 *)
Definition minLowLink (a b : Z) : Z := if (a <? b)%Z then a else b.

(* sort.Strings on the component: the harness names module k so that string order = numeric order *)
Fixpoint insert_sorted (x : N) (l : list N) : list N :=
  match l with [] => [x] | y :: r => if N.leb x y then x :: l else y :: insert_sorted x r end.
Definition sort_names (l : list N) : list N := fold_right insert_sorted [] l.

(* the pop loop of strongConnect, :154-164; an empty stack would be an index-out-of-range panic *)
Fixpoint pop_until (module : N) (stack : list N) (inS : list (N * bool)) (component : list N)
  : option (list N * list (N * bool) * list N) :=
  match stack with
  | [] => None
  | top :: rest =>
      let inS' := mset inS top false in
      let component' := component ++ [top] in
      if N.eqb top module then Some (rest, inS', component') else pop_until module rest inS' component'
  end.

(* the state after "indices[module] = index; lowLinks[module] = index; index++; push", :126-132 *)
Definition enter (st : tstate) (module : N) : tstate :=
  Build_tstate (t_index st + 1)%Z (module :: t_stack st) (mset (t_inStack st) module true)
    (mset (t_indices st) module (t_index st)) (mset (t_lowLinks st) module (t_index st)) (t_components st).

(* the loop over node.Dependencies, :135-146; [rec] is the recursive call strongConnect *)
Fixpoint succ_loop (rec : N -> tstate -> result) (module : N) (ds : list N) (st : tstate) : result :=
  match ds with
  | [] => Ok st
  | dependency :: ds' =>
      match mget (t_indices st) dependency with
      | None =>
          match rec dependency st with
          | Ok st' => succ_loop rec module ds' (set_low st' module (minLowLink (get_low st' module) (get_low st' dependency)))
          | r => r
          end
      | Some _ =>
          if in_stack st dependency
          then succ_loop rec module ds' (set_low st module (minLowLink (get_low st module) (get_index st dependency)))
          else succ_loop rec module ds' st
      end
  end.

(* "if lowLinks[module] == indices[module] { pop ...; if len(component) > 1 {...} }", :150-175 *)
Definition finish (module : N) (st2 : tstate) : result :=
  if (get_low st2 module =? get_index st2 module)%Z then
    match pop_until module (t_stack st2) (t_inStack st2) [] with
    | None => Panic
    | Some (stack', inS', component) =>
        let comps := if circ_keep_component (Z.of_nat (length component))
                     then t_components st2 ++ [sort_names component] else t_components st2 in
        Ok (Build_tstate (t_index st2) stack' inS' (t_indices st2) (t_lowLinks st2) comps)
    end
  else Ok st2.

(* strongConnect, :124-176. [fuel] bounds the recursion depth. *)
Fixpoint strongConnect (fuel : nat) (g : mgraph) (module : N) (st : tstate) : result :=
  match fuel with
  | O => OutOfFuel
  | S fuel' =>
      let deps := match get_node g module with Some node => n_deps node | None => [] end in
      match succ_loop (strongConnect fuel' g) module deps (enter st module) with
      | Ok st2 => finish module st2
      | r => r
      end
  end.

(* findStronglyConnectedComponents, :114-121 *)
Fixpoint find_sccs_loop (fuel : nat) (g : mgraph) (roots : list mnode) (st : tstate) : result :=
  match roots with
  | [] => Ok st
  | n :: rest =>
      match mget (t_indices st) (n_name n) with
      | Some _ => find_sccs_loop fuel g rest st
      | None => match strongConnect fuel g (n_name n) st with
                | Ok st' => find_sccs_loop fuel g rest st'
                | r => r
                end
      end
  end.

Definition tarjan_fuel (g : mgraph) : nat := S (length g).

Definition findStronglyConnectedComponents (g : mgraph) : result :=
  find_sccs_loop (tarjan_fuel g) g g resetState.

(* the components (cdd.components), or None when the model ran out of fuel / the code would panic *)
Definition tarjan (g : mgraph) : option (list (list N)) :=
  match findStronglyConnectedComponents g with Ok st => Some (t_components st) | _ => None end.

(* ---------- circular_detector.go: results ---------- *)
Record cycle := Build_cycle { c_modules : list N; c_size : Z; c_severity : Z }.

(* assessCycleSeverity, :285-309 (thresholds from Gen/DepsConst.v) *)
Definition assessCycleSeverity (g : mgraph) (modules : list N) (size : Z) : Z :=
  let hasCore := existsb (fun m => match get_node g m with Some node => circ_is_core (n_indegree node) | None => false end) modules in
  circ_assess hasCore size.

(* processComponents, :179-216, without the final sort.Slice by (severity, size): that sort is
   unstable, the order of the result list is not an observable of the property *)
Definition processComponents (g : mgraph) (components : list (list N)) : list cycle :=
  flat_map (fun component =>
              let n := Z.of_nat (length component) in
              if circ_skip_component n then [] else [Build_cycle component n (assessCycleSeverity g component n)])
           components.

Fixpoint dedup (l : list N) : list N :=
  match l with [] => [] | x :: r => if memb x r then dedup r else x :: dedup r end.

Record cresult := Build_cresult {
  r_has : bool; r_total_cycles : Z; r_total_modules : Z; r_cycles : list cycle;
  r_low : Z; r_medium : Z; r_high : Z; r_critical : Z; r_largest : Z }.

Definition count_sev (cs : list cycle) (s : Z) : Z := Z.of_nat (length (filter (fun c => (c_severity c =? s)%Z) cs)).

(* DetectCircularDependencies :83-101 + calculateStatistics :322-387.
   TotalModulesInCycles = len(modulesInCycles) = number of distinct modules in the cycles. *)
Definition assemble (g : mgraph) (components : list (list N)) : cresult :=
  let cs := processComponents g components in
  Build_cresult (negb (Nat.eqb (length cs) 0)) (Z.of_nat (length cs))
    (Z.of_nat (length (dedup (flat_map c_modules cs)))) cs
    (count_sev cs circ_CycleSeverityLow) (count_sev cs circ_CycleSeverityMedium)
    (count_sev cs circ_CycleSeverityHigh) (count_sev cs circ_CycleSeverityCritical)
    (fold_left Z.max (map c_size cs) 0%Z).

Definition DetectCircularDependencies (g : mgraph) : option cresult :=
  match tarjan g with Some comps => Some (assemble g comps) | None => None end.
