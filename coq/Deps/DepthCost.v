(* C06 (time clause) — service/system_analysis_service.go: calculateMaxDepth, acyclicChainHeights,
   calculateDepthFromModule.  MODEL ONLY (the proofs are in DepthCostProofs.v).

   Modules are numbers, [succ m] lists the dependencies of m (Go: node.Dependencies, a map: any order), [nodes] lists
   graph.Nodes (a map: any order).  Every function returns its result together with the number of calls it made.

   * [depth_from] / [max_depth]: the enumeration of simple paths.  This was the whole of calculateDepthFromModule before
     finding F21 was repaired (2^(n-1) calls on a complete DAG of n modules: [depth_exponential]); it is kept as the
     definition of the VALUE, and it is still what the code does for a module from which an import cycle can be reached.
   * [visit] / [acyclic_chain_heights]: the new helper acyclicChainHeights — a depth-first walk that settles a module once all
     its dependencies are settled and records the length of the longest chain below it, or that it reaches a cycle.
   * [depth_from_new] / [max_depth_new]: calculateDepthFromModule / calculateMaxDepth as they now are: a module with a
     recorded height returns currentDepth + height at once. *)
From Coq Require Import List Arith Lia Bool.
Import ListNotations.

(* ---- enumeration of simple paths (value definition; the code before the repair) ---- *)
Fixpoint depth_from (fuel : nat) (succ : nat -> list nat) (visited : list nat) (cur d : nat) : nat * nat :=
  match fuel with
  | O => (d, 1)
  | S f =>
      if existsb (Nat.eqb cur) visited then (d, 1)
      else
        let rs := map (fun dep => depth_from f succ (cur :: visited) dep (S d)) (succ cur) in
        (fold_left Nat.max (map fst rs) d, 1 + list_sum (map snd rs))
  end.

(* maximum over all modules (as a list in arbitrary order), fresh visited set each time *)
Definition max_depth (succ : nat -> list nat) (nodes : list nat) : nat :=
  fold_left Nat.max (map (fun m => fst (depth_from (S (length nodes)) succ [] m 0)) nodes) 0.

(* ---- acyclicChainHeights ---- *)
(* the int stored in the Go map: inProgress = -1, reachesCycle = -2, a height >= 0 *)
Inductive mark := InProgress | ReachesCycle | Height (h : nat).
Definition marks := list (nat * mark).            (* the Go map heights; a later write shadows the earlier one *)

Fixpoint find_mark (st : marks) (m : nat) : option mark :=
  match st with
  | [] => None
  | (x, k) :: r => if Nat.eqb x m then Some k else find_mark r m
  end.

(* if below < 0 || height < 0 { height = reachesCycle } else if below+1 > height { height = below + 1 } *)
Definition step (height below : mark) : mark :=
  match height, below with
  | Height a, Height b => Height (Nat.max a (S b))
  | _, _ => ReachesCycle
  end.

Record vres := mk_vres { v_st : marks; v_mark : mark; v_cost : nat }.

Definition visit_step (vis : marks -> nat -> vres) (a : vres) (dep : nat) : vres :=
  let r := vis (v_st a) dep in
  mk_vres (v_st r) (step (v_mark a) (v_mark r)) (v_cost a + v_cost r).

(* the closure visit; out of fuel (never on a graph whose imports stay inside [nodes], fuel > number of modules)
   answers "reaches a cycle" without recording anything, which only makes the caller fall back to the enumeration *)
Fixpoint visit (fuel : nat) (succ : nat -> list nat) (st : marks) (m : nat) : vres :=
  match fuel with
  | O => mk_vres st ReachesCycle 1
  | S f =>
      match find_mark st m with
      | Some k => mk_vres st k 1
      | None =>
          let a := fold_left (visit_step (visit f succ)) (succ m) (mk_vres ((m, InProgress) :: st) (Height 0) 1) in
          mk_vres ((m, v_mark a) :: v_st a) (v_mark a) (v_cost a)
      end
  end.

(* for name := range graph.Nodes { visit(name) } *)
Definition visit_all_step (fuel : nat) (succ : nat -> list nat) (sc : marks * nat) (m : nat) : marks * nat :=
  let r := visit fuel succ (fst sc) m in (v_st r, snd sc + v_cost r).
Definition visit_all (fuel : nat) (succ : nat -> list nat) (nodes : list nat) : marks * nat :=
  fold_left (visit_all_step fuel succ) nodes ([], 0).

(* the entries that are left after the negative ones are deleted *)
Definition hval (st : marks) (m : nat) : option nat :=
  match find_mark st m with
  | Some (Height h) => Some h
  | _ => None
  end.

Definition acyclic_chain_heights (succ : nat -> list nat) (nodes : list nat) : (nat -> option nat) * nat :=
  let sc := visit_all (S (length nodes)) succ nodes in (hval (fst sc), snd sc).

(* ---- calculateDepthFromModule / calculateMaxDepth as they now are ---- *)
Fixpoint depth_from_new (fuel : nat) (ht : nat -> option nat) (succ : nat -> list nat) (visited : list nat) (cur d : nat)
  : nat * nat :=
  match fuel with
  | O => (d, 1)
  | S f =>
      if existsb (Nat.eqb cur) visited then (d, 1)
      else
        match ht cur with
        | Some h => (d + h, 1)
        | None =>
            let rs := map (fun dep => depth_from_new f ht succ (cur :: visited) dep (S d)) (succ cur) in
            (fold_left Nat.max (map fst rs) d, 1 + list_sum (map snd rs))
        end
  end.

Definition max_depth_new (succ : nat -> list nat) (nodes : list nat) : nat :=
  let ht := fst (acyclic_chain_heights succ nodes) in
  fold_left Nat.max (map (fun m => fst (depth_from_new (S (length nodes)) ht succ [] m 0)) nodes) 0.

(* calls of visit + calls of calculateDepthFromModule made by one calculateMaxDepth *)
Definition max_depth_steps (succ : nat -> list nat) (nodes : list nat) : nat :=
  let hc := acyclic_chain_heights succ nodes in
  snd hc + list_sum (map (fun m => snd (depth_from_new (S (length nodes)) (fst hc) succ [] m 0)) nodes).

(* the same count for the enumeration alone *)
Definition max_depth_steps_enum (succ : nat -> list nat) (nodes : list nat) : nat :=
  list_sum (map (fun m => snd (depth_from (S (length nodes)) succ [] m 0)) nodes).

(* ---- graphs used in statements ---- *)
Definition complete_succ (n : nat) (i : nat) : list nat := seq (S i) (n - 1 - i).          (* complete DAG: i imports every j > i *)
Definition clique_succ (n : nat) (i : nat) : list nat := filter (fun j => negb (Nat.eqb i j)) (seq 0 n).   (* everyone imports everyone *)
Definition edge_count (succ : nat -> list nat) (nodes : list nat) : nat := list_sum (map (fun m => length (succ m)) nodes).

(* well-formedness: the dependencies of a module of the graph are modules of the graph (AddDependency guarantees it) *)
Definition closed (succ : nat -> list nat) (nodes : list nat) : Prop :=
  forall m s, In m nodes -> In s (succ m) -> In s nodes.

(* acyclic: the modules can be numbered so that every import goes to a smaller number *)
Definition ranked (succ : nat -> list nat) (nodes : list nat) (rank : nat -> nat) : Prop :=
  closed succ nodes /\ (forall m s, In m nodes -> In s (succ m) -> rank s < rank m) /\ (forall m, In m nodes -> rank m < length nodes).
