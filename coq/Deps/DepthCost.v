(* C06 / finding F21: service/system_analysis_service.go:921-955 (calculateMaxDepth / calculateDepthFromModule)
   computes the longest simple path by backtracking.  Model: [depth_from] returns the depth and the number of calls.
   On the complete DAG with n modules (module i imports every module j > i) the number of calls from module 0
   is at least 2^(n-1): the running time is not proportional to the input size. *)
From Coq Require Import List Arith Lia Bool.
Import ListNotations.

Fixpoint depth_from (fuel : nat) (succ : nat -> list nat) (visited : list nat) (cur d : nat) : nat * nat :=
  match fuel with
  | O => (d, 1)
  | S f =>
      if existsb (Nat.eqb cur) visited then (d, 1)
      else
        let rs := map (fun dep => depth_from f succ (cur :: visited) dep (S d)) (succ cur) in
        (fold_left Nat.max (map fst rs) d, 1 + list_sum (map snd rs))
  end.

(* calculateMaxDepth: maximum over all modules (as a list in arbitrary order), fresh visited set each time *)
Definition max_depth (succ : nat -> list nat) (nodes : list nat) : nat :=
  fold_left Nat.max (map (fun m => fst (depth_from (S (length nodes)) succ [] m 0)) nodes) 0.

Definition complete_succ (n : nat) (i : nat) : list nat := seq (S i) (n - 1 - i).

Lemma pow2_pos m : 1 <= 2 ^ m.
Proof. induction m; simpl; lia. Qed.

Lemma list_sum_le {A} (g h : A -> nat) l : (forall x, In x l -> g x <= h x) -> list_sum (map g l) <= list_sum (map h l).
Proof.
  induction l as [|a l IH]; simpl; intro H; [lia|].
  pose proof (H a (or_introl eq_refl)). assert (list_sum (map g l) <= list_sum (map h l)) by (apply IH; intros; apply H; right; assumption). lia.
Qed.

(* sum_{j = c+1}^{c+m} 2^(c+m-j) = 2^m - 1 *)
Lemma pow_sum c m : list_sum (map (fun j => 2 ^ (c + m - j)) (seq (S c) m)) = 2 ^ m - 1.
Proof.
  revert c. induction m as [|m IH]; intro c; simpl; [reflexivity|].
  replace (c + S m - S c) with m by lia.
  assert (E : map (fun j => 2 ^ (c + S m - j)) (seq (S (S c)) m) = map (fun j => 2 ^ (S c + m - j)) (seq (S (S c)) m)).
  { apply map_ext. intro j. f_equal. lia. }
  rewrite E, IH. pose proof (pow2_pos m). lia.
Qed.

Lemma visited_below_not_found cur visited :
  (forall v, In v visited -> v < cur) -> existsb (Nat.eqb cur) visited = false.
Proof.
  intro H. destruct (existsb (Nat.eqb cur) visited) eqn:E; [|reflexivity].
  apply existsb_exists in E. destruct E as (v & Hv & Heq). apply Nat.eqb_eq in Heq. subst. specialize (H _ Hv). lia.
Qed.

Lemma calls_lower n : forall k cur fuel visited d,
  cur + k = n - 1 -> cur < n -> k < fuel -> (forall v, In v visited -> v < cur) ->
  2 ^ k <= snd (depth_from fuel (complete_succ n) visited cur d).
Proof.
  induction k as [k IH] using lt_wf_ind. intros cur fuel visited d Hk Hlt Hf Hv.
  destruct fuel as [|f]; [lia|]. simpl. rewrite (visited_below_not_found _ _ Hv). simpl.
  change (complete_succ n cur) with (seq (S cur) (n - 1 - cur)). replace (n - 1 - cur) with k by lia.
  rewrite map_map.
  assert (L : list_sum (map (fun j => 2 ^ (cur + k - j)) (seq (S cur) k)) <=
              list_sum (map (fun x => snd (depth_from f (complete_succ n) (cur :: visited) x (S d))) (seq (S cur) k))).
  { apply list_sum_le. intros j Hj. apply in_seq in Hj.
    apply (IH (cur + k - j)); try lia.
    intros v Hin. destruct Hin as [E|Hin]; [ subst v; destruct Hj; lia | pose proof (Hv _ Hin); destruct Hj; lia ]. }
  rewrite pow_sum in L. pose proof (pow2_pos k). lia.
Qed.

Theorem depth_exponential n : 1 <= n ->
  2 ^ (n - 1) <= snd (depth_from (S n) (complete_succ n) [] 0 0).
Proof.
  intro H. apply (calls_lower n (n - 1) 0); try lia. intros v [].
Qed.

(* the input (modules + edges of the complete DAG) has size n + n(n-1)/2; e.g. 26 modules: 351 import edges, >= 2^25 calls *)
Example depth_26 : 2 ^ 25 <= snd (depth_from 27 (complete_succ 26) [] 0 0).
Proof. apply (depth_exponential 26). lia. Qed.
