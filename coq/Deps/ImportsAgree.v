(* C12 — UNBOUNDED agreement of the model's import graph (Deps/Imports.v) with the specification
   (Deps/PyImport.v) under the decidable well-formedness predicates of Deps/ImportsWf.v.

   Structure:
     1. the edge set of the model graph, as a set comprehension (AddDependency / the four folds);
     2. the edge set of the specification;
     3. file-system facts following from project_shape (one module per name, packages have parents);
     4. relative imports: resolveRelativeImport = _resolve_name                    (all inputs);
     5. absolute imports: resolveAbsoluteImportWithProject under abs_ok            (all inputs);
     6. re-exports: ResolveReExport against reexport_py for a regular __init__     (all inputs);
     7. one statement; 8. the graphs.

   No bounded enumeration is used anywhere in this file. *)
From Coq Require Import NArith List Bool Arith Lia.
From PV Require Import Deps.PyImport Deps.Imports Deps.ImportsWf Deps.MetricsProofs Deps.ImportsProofs Gen.ImportsConst.
Import ListNotations.

(* ---------------------------------------------------------------------------------------- *)
(* 0. small facts                                                                             *)
(* ---------------------------------------------------------------------------------------- *)
Lemma same_edges_iff : forall es fs, same_edges es fs = true <-> (forall e, In e es <-> In e fs).
Proof.
  intros es fs. unfold same_edges. rewrite andb_true_iff, !forallb_forall. split.
  - intros [H1 H2] e. split; intro H; [apply H1 in H|apply H2 in H]; apply has_edge_In in H; exact H.
  - intro H. split; intros e He; apply has_edge_In; apply H; exact He.
Qed.

Lemma find_app : forall {A} (f : A -> bool) l1 l2,
  find f (l1 ++ l2) = match find f l1 with Some x => Some x | None => find f l2 end.
Proof. intros A f l1 l2. induction l1 as [|a l1 IH]; simpl; [reflexivity|]. destruct (f a); auto. Qed.

Lemma strict_prefixb_irrefl : forall p, strict_prefixb p p = false.
Proof. induction p as [|a p IH]; simpl; [reflexivity|]. rewrite IH. apply andb_false_r. Qed.

Lemma strict_prefixb_snoc : forall p n, strict_prefixb p (p ++ [n]) = true.
Proof. induction p as [|a p IH]; intro n; simpl; [reflexivity|]. rewrite N.eqb_refl, IH. reflexivity. Qed.

Lemma is_module_existsb : forall pr q, is_module pr q = existsb (fun m => path_eqb (m_path m) q) pr.
Proof.
  intros pr q. unfold is_module, mem_path, module_names. induction pr as [|a pr IH]; simpl; [reflexivity|].
  rewrite IH, (path_eqb_sym q). reflexivity.
Qed.

Lemma is_module_In : forall pr q, is_module pr q = true <-> exists m, In m pr /\ m_path m = q.
Proof.
  intros pr q. unfold is_module. rewrite mem_path_In. unfold module_names. rewrite in_map_iff.
  split; intros [m [H1 H2]]; exists m; auto.
Qed.

Lemma py_or_init : forall pr q, py_file_exists pr q || init_file_exists pr q = is_module pr q.
Proof.
  intros pr q. rewrite is_module_existsb. unfold py_file_exists, init_file_exists.
  induction pr as [|a pr IH]; simpl; [reflexivity|]. rewrite <- IH.
  destruct (m_is_pkg a); destruct (path_eqb (m_path a) q); simpl;
    destruct (existsb (fun m => negb (m_is_pkg m) && path_eqb (m_path m) q) pr); reflexivity.
Qed.

Lemma init_is_module : forall pr q, init_file_exists pr q = true -> is_module pr q = true.
Proof. intros pr q H. rewrite <- py_or_init, H. apply orb_true_r. Qed.

Lemma walked_true : forall pos, walked pos = true.
Proof. destruct pos; reflexivity. Qed.

Lemma follow_relative_true : follow_relative = true.
Proof. reflexivity. Qed.

(* ---------------------------------------------------------------------------------------- *)
(* 1. the edges of the model graph                                                            *)
(* ---------------------------------------------------------------------------------------- *)
Lemma AddDependency_edges : forall g a b e,
  In e (g_edges (AddDependency g a b)) <->
  In e (g_edges g) \/ (e = (a, b) /\ mem_path a (g_nodes g) = true /\ mem_path b (g_nodes g) = true /\ a <> b).
Proof.
  intros g a b e. unfold AddDependency.
  destruct (mem_path a (g_nodes g)) eqn:Ea; destruct (mem_path b (g_nodes g)) eqn:Eb; simpl;
    try (split; [auto|intros [H|[_ [H1 [H2 _]]]]; [exact H|discriminate]]).
  destruct (path_eqb a b) eqn:Eab.
  - apply path_eqb_eq in Eab. split; [auto|]. intros [H|[_ [_ [_ H]]]]; [exact H|contradiction].
  - destruct (has_edge (g_edges g) (a, b)) eqn:Eh.
    + apply has_edge_In in Eh. split; [auto|]. intros [H|[H _]]; [exact H|subst; exact Eh].
    + simpl. rewrite in_app_iff. simpl. split.
      * intros [H|[H|[]]]; [auto|]. right. repeat split; auto.
        intro Hab. subst. rewrite path_eqb_refl in Eab. discriminate.
      * intros [H|[H _]]; auto.
Qed.

(* a fold of steps each of which keeps the node set and adds the edges [adds b] *)
Lemma fold_edges : forall {B} (N : list path) (step : graph -> B -> graph) (adds : B -> edge -> Prop),
  (forall g b, g_nodes g = N ->
     g_nodes (step g b) = N /\ forall e, In e (g_edges (step g b)) <-> In e (g_edges g) \/ adds b e) ->
  forall l g, g_nodes g = N ->
    g_nodes (fold_left step l g) = N /\
    forall e, In e (g_edges (fold_left step l g)) <-> In e (g_edges g) \/ exists b, In b l /\ adds b e.
Proof.
  intros B N step adds Hstep l. induction l as [|b l IH]; intros g Hg; simpl.
  - split; [exact Hg|]. intro e. split; [auto|]. intros [H|[b [[] _]]]. exact H.
  - destruct (Hstep g b Hg) as [Hn He]. destruct (IH (step g b) Hn) as [Hn' He']. split; [exact Hn'|].
    intro e. rewrite He', He. split.
    + intros [[H|H]|[b' [Hi Ha]]]; [auto| |]; right; [exists b|exists b']; auto.
    + intros [H|[b' [[Hb|Hi] Ha]]]; [auto| |].
      * subst. auto.
      * right. exists b'. auto.
Qed.

(* what one resolved module adds to the graph *)
Definition adds_target (pr : project) (m : pymodule) (r : path) (e : edge) : Prop :=
  (m_is_pkg m && strict_prefixb (m_path m) r) = false /\ e = (m_path m, r) /\
  mem_path (m_path m) (module_names pr) = true /\ mem_path r (module_names pr) = true /\ m_path m <> r.

Definition adds_import (pr : project) (m : pymodule) (ii : import_info) (e : edge) : Prop :=
  ii_tc ii = false /\ exists r, In r (resolved_modules pr (empty_graph pr) m ii) /\ adds_target pr m r e.

Definition adds_module (pr : project) (m : pymodule) (e : edge) : Prop :=
  exists ii, In ii (collectModuleImports m) /\ adds_import pr m ii e.

Lemma analyze_import_edges : forall pr m g ii, g_nodes g = module_names pr ->
  g_nodes (analyze_import pr m g ii) = module_names pr /\
  forall e, In e (g_edges (analyze_import pr m g ii)) <-> In e (g_edges g) \/ adds_import pr m ii e.
Proof.
  intros pr m g ii Hg. unfold analyze_import, adds_import. destruct (ii_tc ii).
  - split; [exact Hg|]. intro e. split; [auto|]. intros [H|[H _]]; [exact H|discriminate].
  - rewrite (resolved_modules_state_independent pr g (empty_graph pr) m ii) by exact Hg.
    destruct (fold_edges (module_names pr)
                (fun g r => if m_is_pkg m && strict_prefixb (m_path m) r then g else AddDependency g (m_path m) r)
                (adds_target pr m)) with (l := resolved_modules pr (empty_graph pr) m ii) (g := g) as [Hn He].
    + intros g0 r Hg0. unfold adds_target. destruct (m_is_pkg m && strict_prefixb (m_path m) r).
      * split; [exact Hg0|]. intro e. split; [auto|]. intros [H|[H _]]; [exact H|discriminate].
      * rewrite AddDependency_nodes. split; [exact Hg0|]. intro e. rewrite AddDependency_edges, Hg0.
        split; (intros [H|H]; [auto|right]); tauto.
    + exact Hg.
    + split; [exact Hn|]. intro e. rewrite He. split; (intros [H|H]; [auto|right]); tauto.
Qed.

Lemma analyze_module_edges : forall pr g m, g_nodes g = module_names pr ->
  g_nodes (analyzeModuleDependencies pr g m) = module_names pr /\
  forall e, In e (g_edges (analyzeModuleDependencies pr g m)) <-> In e (g_edges g) \/ adds_module pr m e.
Proof.
  intros pr g m Hg. unfold analyzeModuleDependencies, adds_module.
  apply (fold_edges (module_names pr) (analyze_import pr m) (adds_import pr m)); [|exact Hg].
  intros g0 ii Hg0. apply analyze_import_edges. exact Hg0.
Qed.

Theorem edges_model_spec : forall pr e, In e (edges_model pr) <->
  exists m ii r, In m pr /\ In ii (collectModuleImports m) /\ ii_tc ii = false /\
    In r (resolved_modules pr (empty_graph pr) m ii) /\
    (m_is_pkg m && strict_prefixb (m_path m) r) = false /\
    e = (m_path m, r) /\ is_module pr r = true /\ m_path m <> r.
Proof.
  intros pr e. unfold edges_model, AnalyzeFiles.
  destruct (fold_edges (module_names pr) (analyzeModuleDependencies pr) (adds_module pr)) with (l := pr) (g := empty_graph pr)
    as [_ He].
  - intros g m Hg. apply analyze_module_edges. exact Hg.
  - reflexivity.
  - rewrite He. simpl. split.
    + intros [[]|[m [Hm [ii [Hii [Htc [r [Hr [Hskip [Heq [_ [Hmr Hne]]]]]]]]]]]].
      exists m, ii, r. repeat split; auto.
    + intros [m [ii [r [Hm [Hii [Htc [Hr [Hskip [Heq [Hmr Hne]]]]]]]]]]. right. exists m. split; [exact Hm|].
      exists ii. split; [exact Hii|]. split; [exact Htc|]. exists r. split; [exact Hr|].
      repeat split; auto. apply mem_path_In. unfold module_names. apply in_map. exact Hm.
Qed.

(* ---------------------------------------------------------------------------------------- *)
(* 2. the edges of the specification                                                          *)
(* ---------------------------------------------------------------------------------------- *)
Theorem edges_py_spec : forall pr e, In e (edges_py pr) <->
  exists m s r, In m pr /\ In s (m_imports m) /\ i_tc s = false /\ In r (resolve_py pr m s) /\
    m_path m <> r /\ e = (m_path m, r).
Proof.
  intros pr e. unfold edges_py, edges_of_module_py. rewrite in_flat_map. split.
  - intros [m [Hm H]]. apply in_flat_map in H. destruct H as [s [Hs H]].
    destruct (i_tc s) eqn:Etc; [destruct H|]. apply in_map_iff in H. destruct H as [r [Heq H]].
    apply filter_In in H. destruct H as [Hr Hne]. exists m, s, r. repeat split; auto.
    intro Hc. subst r. rewrite path_eqb_refl in Hne. discriminate.
  - intros [m [s [r [Hm [Hs [Htc [Hr [Hne Heq]]]]]]]]. exists m. split; [exact Hm|].
    apply in_flat_map. exists s. split; [exact Hs|]. rewrite Htc. apply in_map_iff. exists r. split; [auto|].
    apply filter_In. split; [exact Hr|]. destruct (path_eqb r (m_path m)) eqn:E; [|reflexivity].
    apply path_eqb_eq in E. congruence.
Qed.

(* ---------------------------------------------------------------------------------------- *)
(* 3. what project_shape gives                                                                *)
(* ---------------------------------------------------------------------------------------- *)
Lemma shape_nodup : forall pr, project_shape pr = true -> nodup_paths (module_names pr) = true.
Proof. intros pr H. unfold project_shape in H. apply andb_true_iff in H. apply H. Qed.

Lemma shape_module : forall pr m, project_shape pr = true -> In m pr ->
  m_path m <> [] /\
  (length (m_path m) <= 1 \/ init_file_exists pr (removelast (m_path m)) = true) /\
  forall s, In s (m_imports m) -> stmt_shape s = true.
Proof.
  intros pr m H Hm. unfold project_shape in H. apply andb_true_iff in H. destruct H as [_ H].
  rewrite forallb_forall in H. specialize (H m Hm). apply andb_true_iff in H. destruct H as [H H3].
  apply andb_true_iff in H. destruct H as [H1 H2]. split; [|split].
  - intro E. rewrite E in H1. discriminate.
  - apply orb_true_iff in H2. destruct H2 as [H2|H2]; [left; apply Nat.leb_le; exact H2|right; exact H2].
  - rewrite forallb_forall in H3. exact H3.
Qed.

(* a module below a directory makes the directory a package *)
Lemma shape_parent : forall pr p n, project_shape pr = true -> p <> [] ->
  is_module pr (p ++ [n]) = true -> is_module pr p = true.
Proof.
  intros pr p n H Hp Hm. apply is_module_In in Hm. destruct Hm as [m [Hm Hpath]].
  destruct (shape_module pr m H Hm) as [_ [[Hl|Hi] _]].
  - rewrite Hpath, app_length in Hl. simpl in Hl. destruct p; [congruence|simpl in Hl; lia].
  - rewrite Hpath, removelast_last in Hi. apply init_is_module. exact Hi.
Qed.

(* one module per name *)
Lemma nodup_find : forall pr m, nodup_paths (module_names pr) = true -> In m pr ->
  find_module pr (m_path m) = Some m.
Proof.
  intros pr m. unfold find_module. induction pr as [|a pr IH]; simpl; intros Hn Hm; [destruct Hm|].
  apply andb_true_iff in Hn. destruct Hn as [Hna Hn]. destruct Hm as [Hm|Hm].
  - subst. rewrite path_eqb_refl. reflexivity.
  - destruct (path_eqb (m_path a) (m_path m)) eqn:E.
    + apply path_eqb_eq in E. apply negb_true_iff in Hna.
      assert (Hc : mem_path (m_path a) (module_names pr) = true).
      { apply mem_path_In. rewrite E. unfold module_names. apply in_map. exact Hm. }
      congruence.
    + apply IH; assumption.
Qed.

Lemma find_module_Some : forall pr P m, find_module pr P = Some m -> In m pr /\ m_path m = P.
Proof.
  intros pr P m H. unfold find_module in H. apply find_some in H. destruct H as [H1 H2].
  apply path_eqb_eq in H2. auto.
Qed.

Lemma find_module_None : forall pr P, is_module pr P = false -> find_module pr P = None.
Proof.
  intros pr P H. destruct (find_module pr P) as [m|] eqn:E; [|reflexivity].
  apply find_module_Some in E. destruct E as [E1 E2].
  assert (Hc : is_module pr P = true) by (apply is_module_In; exists m; auto). congruence.
Qed.

(* findInitFile against find_module *)
Lemma find_init_spec : forall pr P, nodup_paths (module_names pr) = true ->
  find (fun m => m_is_pkg m && path_eqb (m_path m) P) pr =
  match find_module pr P with Some m => if m_is_pkg m then Some m else None | None => None end.
Proof.
  intros pr P Hn.
  destruct (find (fun m => m_is_pkg m && path_eqb (m_path m) P) pr) as [i|] eqn:Ei.
  - apply find_some in Ei. destruct Ei as [Hi Hp]. apply andb_true_iff in Hp. destruct Hp as [Hpk Hp].
    apply path_eqb_eq in Hp. subst P. rewrite (nodup_find pr i Hn Hi), Hpk. reflexivity.
  - destruct (find_module pr P) as [m|] eqn:Em; [|reflexivity].
    destruct (m_is_pkg m) eqn:Epk; [|reflexivity].
    apply find_module_Some in Em. destruct Em as [Hm Hp].
    pose proof (find_none _ _ Ei m Hm) as Hc. cbv beta in Hc. rewrite Epk, Hp, path_eqb_refl in Hc. discriminate.
Qed.

Lemma init_file_exists_pkg : forall pr m, nodup_paths (module_names pr) = true -> In m pr ->
  init_file_exists pr (m_path m) = m_is_pkg m.
Proof.
  intros pr m Hn Hm. unfold init_file_exists. destruct (m_is_pkg m) eqn:Epk.
  - apply existsb_exists. exists m. rewrite Epk, path_eqb_refl. auto.
  - destruct (existsb (fun m0 => m_is_pkg m0 && path_eqb (m_path m0) (m_path m)) pr) eqn:E; [|reflexivity].
    apply existsb_exists in E. destruct E as [m' [Hm' Hp]]. apply andb_true_iff in Hp. destruct Hp as [Hpk Hp].
    apply path_eqb_eq in Hp. pose proof (nodup_find pr m' Hn Hm') as F1. pose proof (nodup_find pr m Hn Hm) as F2.
    rewrite Hp in F1. rewrite F1 in F2. inversion F2. subst. congruence.
Qed.

(* ---------------------------------------------------------------------------------------- *)
(* 4. relative imports: resolveRelativeImport is _resolve_name, for every module, level, name *)
(* ---------------------------------------------------------------------------------------- *)
Lemma iter_parent_dir : forall k d,
  Nat.iter k parent_dir (Some d) = if Nat.leb k (length d) then Some (firstn (length d - k) d) else None.
Proof.
  induction k as [|k IH]; intro d.
  - simpl. rewrite Nat.sub_0_r, firstn_all. reflexivity.
  - cbn [Nat.iter nat_rect]. change (nat_rect (fun _ => option path) (Some d) (fun _ => parent_dir) k) with (Nat.iter k parent_dir (Some d)).
    rewrite IH. destruct (Nat.leb (S k) (length d)) eqn:E2.
    + apply Nat.leb_le in E2. assert (E1 : Nat.leb k (length d) = true) by (apply Nat.leb_le; lia). rewrite E1.
      replace (length d - k) with (S (length d - S k)) by lia.
      rewrite <- (@removelast_firstn _ (length d - S k) d) by lia.
      destruct (firstn (S (length d - S k)) d) as [|a q] eqn:Eq; [|reflexivity].
      destruct d; simpl in Eq; [simpl in E2; lia|discriminate].
    + apply Nat.leb_gt in E2. destruct (Nat.leb k (length d)) eqn:E1; [|reflexivity].
      apply Nat.leb_le in E1. replace (length d - k) with 0 by lia. reflexivity.
Qed.

Theorem relative_import_agrees : forall m lv p,
  resolveRelativeImport m lv p =
  match rel_base (package_of m) lv with Some b => Some (b ++ p) | None => None end.
Proof.
  intros m lv p. unfold resolveRelativeImport. rewrite follow_relative_true. cbn [negb].
  change (dir_of m) with (package_of m). rewrite iter_parent_dir. unfold rel_base.
  destruct (package_of m) as [|a d] eqn:Ed.
  - destruct (Nat.leb (lv - 1) (length (@nil name))); [destruct (lv - 1)|]; reflexivity.
  - destruct (Nat.ltb (lv - 1) (length (a :: d))) eqn:E2.
    + apply Nat.ltb_lt in E2. assert (E1 : Nat.leb (lv - 1) (length (a :: d)) = true) by (apply Nat.leb_le; lia). rewrite E1.
      destruct (length (a :: d) - (lv - 1)) as [|j] eqn:Ej; [lia|]. reflexivity.
    + apply Nat.ltb_ge in E2. destruct (Nat.leb (lv - 1) (length (a :: d))) eqn:E1; [|reflexivity].
      apply Nat.leb_le in E1. replace (length (a :: d) - (lv - 1)) with 0 by lia. reflexivity.
Qed.

(* ---------------------------------------------------------------------------------------- *)
(* 5. absolute imports: without a same-named module next to (or one directory above) the      *)
(*    importing file, resolveAbsoluteImportWithProject finds the module CPython finds          *)
(* ---------------------------------------------------------------------------------------- *)
Lemma search_in_spec : forall pr dir p,
  search_in pr (Some dir) p = if is_module pr (dir ++ p) then Some (dir ++ p) else None.
Proof.
  intros pr dir p. unfold search_in. rewrite <- py_or_init.
  destruct (py_file_exists pr (dir ++ p)); destruct (init_file_exists pr (dir ++ p)); reflexivity.
Qed.

Lemma resolveAbsoluteImport_not_module : forall pr p, is_module pr p = false ->
  resolveAbsoluteImport pr p = Some p \/ resolveAbsoluteImport pr p = None.
Proof.
  intros pr p H. unfold resolveAbsoluteImport. rewrite <- py_or_init in H. apply orb_false_iff in H.
  destruct H as [H1 H2]. rewrite H1, H2.
  destruct (isStandardLibrary p); [destruct include_stdlib|destruct include_third_party]; auto.
Qed.

(* the import resolves to the module of that name, or to something that is not a project module *)
Theorem absolute_import_agrees : forall pr m p, p <> [] -> abs_ok pr m p = true ->
  resolveAbsoluteImportWithProject pr m p = Some p \/
  (is_module pr p = false /\ resolveAbsoluteImportWithProject pr m p = None).
Proof.
  intros pr m p Hp Hok. unfold resolveAbsoluteImportWithProject. destruct p as [|x p']; [congruence|].
  set (p := x :: p') in *. cbn [first_some]. unfold abs_ok in Hok.
  destruct (dir_of m) as [|a d] eqn:Ed.
  - rewrite !search_in_spec. simpl app. destruct (is_module pr p) eqn:Em; [left; reflexivity|].
    cbn [parent_dir search_in]. destruct (resolveAbsoluteImport_not_module pr p Em) as [H|H]; rewrite H; auto.
  - apply andb_true_iff in Hok. destruct Hok as [H1 H2]. apply negb_true_iff in H1.
    rewrite !search_in_spec, H1. simpl app. destruct (is_module pr p) eqn:Em; [left; reflexivity|].
    cbn [parent_dir]. rewrite search_in_spec.
    assert (Hpar : is_module pr (removelast (a :: d) ++ p) = false).
    { simpl orb in H2. apply orb_true_iff in H2. destruct H2 as [H2|H2].
      - apply Nat.leb_le in H2. destruct d; [simpl; exact Em|simpl in H2; lia].
      - apply negb_true_iff in H2. exact H2. }
    rewrite Hpar. destruct (resolveAbsoluteImport_not_module pr p Em) as [H|H]; rewrite H; auto.
Qed.
