(* C12 — UNBOUNDED agreement of the model's import graph (Deps/Imports.v) with the specification
   (Deps/PyImport.v) under the decidable well-formedness predicates of Deps/ImportsWf.v.

   Structure:
     1. the edge set of the model graph, as a set comprehension (AddDependency / the four folds);
     2. the edge set of the specification;
     3. file-system facts following from project_shape (one module per name; a directory named like a
        standard-library module is a package if it holds a module);
     4. relative imports: resolveRelativeImport = _resolve_name                    (all inputs);
     5. absolute imports: resolveAbsoluteImportWithProject under abs_ok            (all inputs);
     6. re-exports: ResolveReExport against reexport_py for a regular __init__     (all inputs);
     7. one statement; 8. the graphs.

   No bounded enumeration is used anywhere in this file. *)
From Coq Require Import NArith List Bool Arith Lia.
From PV Require Import Deps.PyImport Deps.Imports Deps.ImportsWf Deps.MetricsProofs Deps.ImportsProofs Gen.ImportsConst.
Import ListNotations.

(* ---------------------------------------------------------------------------------------- *)
(* 0. small facts                                                                             *)
(* ---------------------------------------------------------------------------------------- *)
Lemma same_edges_iff : forall es fs, same_edges es fs = true <-> (forall e, In e es <-> In e fs).
Proof.
  intros es fs. unfold same_edges. rewrite andb_true_iff, !forallb_forall. split.
  - intros [H1 H2] e. split; intro H; [apply H1 in H|apply H2 in H]; apply has_edge_In in H; exact H.
  - intro H. split; intros e He; apply has_edge_In; apply H; exact He.
Qed.

Lemma find_app : forall {A} (f : A -> bool) l1 l2,
  find f (l1 ++ l2) = match find f l1 with Some x => Some x | None => find f l2 end.
Proof. intros A f l1 l2. induction l1 as [|a l1 IH]; simpl; [reflexivity|]. destruct (f a); auto. Qed.

Lemma strict_prefixb_irrefl : forall p, strict_prefixb p p = false.
Proof. induction p as [|a p IH]; simpl; [reflexivity|]. rewrite IH. apply andb_false_r. Qed.

Lemma strict_prefixb_snoc : forall p n, strict_prefixb p (p ++ [n]) = true.
Proof. induction p as [|a p IH]; intro n; simpl; [reflexivity|]. rewrite N.eqb_refl, IH. reflexivity. Qed.

Lemma is_module_existsb : forall pr q, is_module pr q = existsb (fun m => path_eqb (m_path m) q) pr.
Proof.
  intros pr q. unfold is_module, mem_path, module_names. induction pr as [|a pr IH]; simpl; [reflexivity|].
  rewrite IH, (path_eqb_sym q). reflexivity.
Qed.

Lemma is_module_In : forall pr q, is_module pr q = true <-> exists m, In m pr /\ m_path m = q.
Proof.
  intros pr q. unfold is_module. rewrite mem_path_In. unfold module_names. rewrite in_map_iff.
  split; intros [m [H1 H2]]; exists m; auto.
Qed.

Lemma py_or_init : forall pr q, py_file_exists pr q || init_file_exists pr q = is_module pr q.
Proof.
  intros pr q. rewrite is_module_existsb. unfold py_file_exists, init_file_exists.
  induction pr as [|a pr IH]; simpl; [reflexivity|]. rewrite <- IH.
  destruct (m_is_pkg a); destruct (path_eqb (m_path a) q); simpl;
    destruct (existsb (fun m => negb (m_is_pkg m) && path_eqb (m_path m) q) pr); reflexivity.
Qed.

Lemma init_is_module : forall pr q, init_file_exists pr q = true -> is_module pr q = true.
Proof. intros pr q H. rewrite <- py_or_init, H. apply orb_true_r. Qed.

Lemma walked_true : forall pos, walked pos = true.
Proof. destruct pos; reflexivity. Qed.

Lemma follow_relative_true : follow_relative = true.
Proof. reflexivity. Qed.

(* ---------------------------------------------------------------------------------------- *)
(* 1. the edges of the model graph                                                            *)
(* ---------------------------------------------------------------------------------------- *)
Lemma AddDependency_edges : forall g a b e,
  In e (g_edges (AddDependency g a b)) <->
  In e (g_edges g) \/ (e = (a, b) /\ mem_path a (g_nodes g) = true /\ mem_path b (g_nodes g) = true /\ a <> b).
Proof.
  intros g a b e. unfold AddDependency.
  destruct (mem_path a (g_nodes g)) eqn:Ea; destruct (mem_path b (g_nodes g)) eqn:Eb; simpl;
    try (split; [auto|intros [H|[_ [H1 [H2 _]]]]; [exact H|discriminate]]).
  destruct (path_eqb a b) eqn:Eab.
  - apply path_eqb_eq in Eab. split; [auto|]. intros [H|[_ [_ [_ H]]]]; [exact H|contradiction].
  - destruct (has_edge (g_edges g) (a, b)) eqn:Eh.
    + apply has_edge_In in Eh. split; [auto|]. intros [H|[H _]]; [exact H|subst; exact Eh].
    + simpl. rewrite in_app_iff. simpl. split.
      * intros [H|[H|[]]]; [auto|]. right. repeat split; auto.
        intro Hab. subst. rewrite path_eqb_refl in Eab. discriminate.
      * intros [H|[H _]]; auto.
Qed.

(* a fold of steps each of which keeps the node set and adds the edges [adds b] *)
Lemma fold_edges : forall {B} (N : list path) (step : graph -> B -> graph) (adds : B -> edge -> Prop),
  (forall g b, g_nodes g = N ->
     g_nodes (step g b) = N /\ forall e, In e (g_edges (step g b)) <-> In e (g_edges g) \/ adds b e) ->
  forall l g, g_nodes g = N ->
    g_nodes (fold_left step l g) = N /\
    forall e, In e (g_edges (fold_left step l g)) <-> In e (g_edges g) \/ exists b, In b l /\ adds b e.
Proof.
  intros B N step adds Hstep l. induction l as [|b l IH]; intros g Hg; simpl.
  - split; [exact Hg|]. intro e. split; [auto|]. intros [H|[b [[] _]]]. exact H.
  - destruct (Hstep g b Hg) as [Hn He]. destruct (IH (step g b) Hn) as [Hn' He']. split; [exact Hn'|].
    intro e. rewrite He', He. split.
    + intros [[H|H]|[b' [Hi Ha]]]; [auto| |]; right; [exists b|exists b']; auto.
    + intros [H|[b' [[Hb|Hi] Ha]]]; [auto| |].
      * subst. auto.
      * right. exists b'. auto.
Qed.

(* what one resolved module adds to the graph *)
Definition adds_target (pr : project) (m : pymodule) (r : path) (e : edge) : Prop :=
  (m_is_pkg m && strict_prefixb (m_path m) r) = false /\ e = (m_path m, r) /\
  mem_path (m_path m) (module_names pr) = true /\ mem_path r (module_names pr) = true /\ m_path m <> r.

Definition adds_import (pr : project) (m : pymodule) (ii : import_info) (e : edge) : Prop :=
  ii_tc ii = false /\ exists r, In r (resolved_modules pr (empty_graph pr) m ii) /\ adds_target pr m r e.

Definition adds_module (pr : project) (m : pymodule) (e : edge) : Prop :=
  shadowed pr m = false /\ exists ii, In ii (collectModuleImports m) /\ adds_import pr m ii e.

Lemma analyze_import_edges : forall pr m g ii, g_nodes g = module_names pr ->
  g_nodes (analyze_import pr m g ii) = module_names pr /\
  forall e, In e (g_edges (analyze_import pr m g ii)) <-> In e (g_edges g) \/ adds_import pr m ii e.
Proof.
  intros pr m g ii Hg. unfold analyze_import, adds_import. destruct (ii_tc ii).
  - split; [exact Hg|]. intro e. split; [auto|]. intros [H|[H _]]; [exact H|discriminate].
  - rewrite (resolved_modules_state_independent pr g (empty_graph pr) m ii) by exact Hg.
    destruct (fold_edges (module_names pr)
                (fun g r => if m_is_pkg m && strict_prefixb (m_path m) r then g else AddDependency g (m_path m) r)
                (adds_target pr m)) with (l := resolved_modules pr (empty_graph pr) m ii) (g := g) as [Hn He].
    + intros g0 r Hg0. unfold adds_target. destruct (m_is_pkg m && strict_prefixb (m_path m) r).
      * split; [exact Hg0|]. intro e. split; [auto|]. intros [H|[H _]]; [exact H|discriminate].
      * rewrite AddDependency_nodes. split; [exact Hg0|]. intro e. rewrite AddDependency_edges, Hg0.
        split; (intros [H|H]; [auto|right]); tauto.
    + exact Hg.
    + split; [exact Hn|]. intro e. rewrite He. split; (intros [H|H]; [auto|right]); tauto.
Qed.

Lemma analyze_module_edges : forall pr g m, g_nodes g = module_names pr ->
  g_nodes (analyzeModuleDependencies pr g m) = module_names pr /\
  forall e, In e (g_edges (analyzeModuleDependencies pr g m)) <-> In e (g_edges g) \/ adds_module pr m e.
Proof.
  intros pr g m Hg. unfold analyzeModuleDependencies, adds_module. destruct (shadowed pr m).
  - split; [exact Hg|]. intro e. split; [auto|]. intros [H|[H _]]; [exact H|discriminate].
  - destruct (fold_edges (module_names pr) (analyze_import pr m) (adds_import pr m)) with (l := collectModuleImports m) (g := g)
      as [Hn He]; [|exact Hg|].
    + intros g0 ii Hg0. apply analyze_import_edges. exact Hg0.
    + split; [exact Hn|]. intro e. rewrite He. split; (intros [H|H]; [auto|right]); tauto.
Qed.

Theorem edges_model_spec : forall pr e, In e (edges_model pr) <->
  exists m ii r, In m pr /\ shadowed pr m = false /\ In ii (collectModuleImports m) /\ ii_tc ii = false /\
    In r (resolved_modules pr (empty_graph pr) m ii) /\
    (m_is_pkg m && strict_prefixb (m_path m) r) = false /\
    e = (m_path m, r) /\ is_module pr r = true /\ m_path m <> r.
Proof.
  intros pr e. unfold edges_model, AnalyzeFiles.
  destruct (fold_edges (module_names pr) (analyzeModuleDependencies pr) (adds_module pr)) with (l := pr) (g := empty_graph pr)
    as [_ He].
  - intros g m Hg. apply analyze_module_edges. exact Hg.
  - reflexivity.
  - rewrite He. simpl. split.
    + intros [[]|[m [Hm [Hsh [ii [Hii [Htc [r [Hr [Hskip [Heq [_ [Hmr Hne]]]]]]]]]]]]].
      exists m, ii, r. repeat split; auto.
    + intros [m [ii [r [Hm [Hsh [Hii [Htc [Hr [Hskip [Heq [Hmr Hne]]]]]]]]]]]. right. exists m. split; [exact Hm|].
      split; [exact Hsh|].
      exists ii. split; [exact Hii|]. split; [exact Htc|]. exists r. split; [exact Hr|].
      repeat split; auto. apply mem_path_In. unfold module_names. apply in_map. exact Hm.
Qed.

(* ---------------------------------------------------------------------------------------- *)
(* 2. the edges of the specification                                                          *)
(* ---------------------------------------------------------------------------------------- *)
Theorem edges_py_spec : forall pr e, In e (edges_py pr) <->
  exists m s r, In m pr /\ In s (m_imports m) /\ i_tc s = false /\ In r (resolve_py pr m s) /\
    m_path m <> r /\ e = (m_path m, r).
Proof.
  intros pr e. unfold edges_py, edges_of_module_py. rewrite in_flat_map. split.
  - intros [m [Hm H]]. apply in_flat_map in H. destruct H as [s [Hs H]].
    destruct (i_tc s) eqn:Etc; [destruct H|]. apply in_map_iff in H. destruct H as [r [Heq H]].
    apply filter_In in H. destruct H as [Hr Hne]. exists m, s, r. repeat split; auto.
    intro Hc. subst r. rewrite path_eqb_refl in Hne. discriminate.
  - intros [m [s [r [Hm [Hs [Htc [Hr [Hne Heq]]]]]]]]. exists m. split; [exact Hm|].
    apply in_flat_map. exists s. split; [exact Hs|]. rewrite Htc. apply in_map_iff. exists r. split; [auto|].
    apply filter_In. split; [exact Hr|]. destruct (path_eqb r (m_path m)) eqn:E; [|reflexivity].
    apply path_eqb_eq in E. congruence.
Qed.

(* ---------------------------------------------------------------------------------------- *)
(* 3. what project_shape gives                                                                *)
(* ---------------------------------------------------------------------------------------- *)
Lemma shape_nodup : forall pr, project_shape pr = true -> nodup_paths (module_names pr) = true.
Proof. intros pr H. unfold project_shape in H. apply andb_true_iff in H. apply H. Qed.

Lemma shape_module : forall pr m, project_shape pr = true -> In m pr ->
  m_path m <> [] /\
  (length (m_path m) <= 1 \/ init_file_exists pr (removelast (m_path m)) = true \/ isStandardLibrary (m_path m) = false) /\
  forall s, In s (m_imports m) -> stmt_shape s = true.
Proof.
  intros pr m H Hm. unfold project_shape in H. apply andb_true_iff in H. destruct H as [_ H].
  rewrite forallb_forall in H. specialize (H m Hm). apply andb_true_iff in H. destruct H as [H H3].
  apply andb_true_iff in H. destruct H as [H1 H2]. split; [|split].
  - intro E. rewrite E in H1. discriminate.
  - apply orb_true_iff in H2. destruct H2 as [H2|H2]; [apply orb_true_iff in H2; destruct H2 as [H2|H2]|].
    + left. apply Nat.leb_le. exact H2.
    + right. left. exact H2.
    + right. right. apply negb_true_iff. exact H2.
  - rewrite forallb_forall in H3. exact H3.
Qed.

Lemma isStandardLibrary_snoc : forall p n, p <> [] -> isStandardLibrary (p ++ [n]) = isStandardLibrary p.
Proof. intros [|a p] n H; [congruence|reflexivity]. Qed.

(* a module below a directory named like a standard-library module makes the directory a package *)
Lemma shape_parent : forall pr p n, project_shape pr = true -> p <> [] -> isStandardLibrary p = true ->
  is_module pr (p ++ [n]) = true -> is_module pr p = true.
Proof.
  intros pr p n H Hp Hstd Hm. apply is_module_In in Hm. destruct Hm as [m [Hm Hpath]].
  destruct (shape_module pr m H Hm) as [_ [[Hl|[Hi|Hs]] _]].
  - rewrite Hpath, app_length in Hl. simpl in Hl. destruct p; [congruence|simpl in Hl; lia].
  - rewrite Hpath, removelast_last in Hi. apply init_is_module. exact Hi.
  - rewrite Hpath, (isStandardLibrary_snoc p n Hp), Hstd in Hs. discriminate.
Qed.

(* the former, stricter shape (every directory with a module is a package) is a special case *)
Lemma project_shape_strict_shape : forall pr, project_shape_strict pr = true -> project_shape pr = true.
Proof.
  intros pr H. unfold project_shape_strict in H. unfold project_shape. apply andb_true_iff in H. destruct H as [Hn H].
  rewrite Hn. cbn [andb]. rewrite forallb_forall in *. intros m Hm. specialize (H m Hm).
  apply andb_true_iff in H. destruct H as [H H3]. apply andb_true_iff in H. destruct H as [H1 H2].
  rewrite H1, H2, H3. reflexivity.
Qed.

(* one module per name *)
Lemma nodup_find : forall pr m, nodup_paths (module_names pr) = true -> In m pr ->
  find_module pr (m_path m) = Some m.
Proof.
  intros pr m. unfold find_module. induction pr as [|a pr IH]; simpl; intros Hn Hm; [destruct Hm|].
  apply andb_true_iff in Hn. destruct Hn as [Hna Hn]. destruct Hm as [Hm|Hm].
  - subst. rewrite path_eqb_refl. reflexivity.
  - destruct (path_eqb (m_path a) (m_path m)) eqn:E.
    + apply path_eqb_eq in E. apply negb_true_iff in Hna.
      assert (Hc : mem_path (m_path a) (module_names pr) = true).
      { apply mem_path_In. rewrite E. unfold module_names. apply in_map. exact Hm. }
      congruence.
    + apply IH; assumption.
Qed.

Lemma find_module_Some : forall pr P m, find_module pr P = Some m -> In m pr /\ m_path m = P.
Proof.
  intros pr P m H. unfold find_module in H. apply find_some in H. destruct H as [H1 H2].
  apply path_eqb_eq in H2. auto.
Qed.

Lemma find_module_None : forall pr P, is_module pr P = false -> find_module pr P = None.
Proof.
  intros pr P H. destruct (find_module pr P) as [m|] eqn:E; [|reflexivity].
  apply find_module_Some in E. destruct E as [E1 E2].
  assert (Hc : is_module pr P = true) by (apply is_module_In; exists m; auto). congruence.
Qed.

(* findInitFile against find_module *)
Lemma find_init_spec : forall pr P, nodup_paths (module_names pr) = true ->
  find (fun m => m_is_pkg m && path_eqb (m_path m) P) pr =
  match find_module pr P with Some m => if m_is_pkg m then Some m else None | None => None end.
Proof.
  intros pr P Hn.
  destruct (find (fun m => m_is_pkg m && path_eqb (m_path m) P) pr) as [i|] eqn:Ei.
  - apply find_some in Ei. destruct Ei as [Hi Hp]. apply andb_true_iff in Hp. destruct Hp as [Hpk Hp].
    apply path_eqb_eq in Hp. subst P. rewrite (nodup_find pr i Hn Hi), Hpk. reflexivity.
  - destruct (find_module pr P) as [m|] eqn:Em; [|reflexivity].
    destruct (m_is_pkg m) eqn:Epk; [|reflexivity].
    apply find_module_Some in Em. destruct Em as [Hm Hp].
    pose proof (find_none _ _ Ei m Hm) as Hc. cbv beta in Hc. rewrite Epk, Hp, path_eqb_refl in Hc. discriminate.
Qed.

Lemma init_file_exists_pkg : forall pr m, nodup_paths (module_names pr) = true -> In m pr ->
  init_file_exists pr (m_path m) = m_is_pkg m.
Proof.
  intros pr m Hn Hm. unfold init_file_exists. destruct (m_is_pkg m) eqn:Epk.
  - apply existsb_exists. exists m. rewrite Epk, path_eqb_refl. auto.
  - destruct (existsb (fun m0 => m_is_pkg m0 && path_eqb (m_path m0) (m_path m)) pr) eqn:E; [|reflexivity].
    apply existsb_exists in E. destruct E as [m' [Hm' Hp]]. apply andb_true_iff in Hp. destruct Hp as [Hpk Hp].
    apply path_eqb_eq in Hp. pose proof (nodup_find pr m' Hn Hm') as F1. pose proof (nodup_find pr m Hn Hm) as F2.
    rewrite Hp in F1. rewrite F1 in F2. inversion F2. subst. congruence.
Qed.

(* one file per module name: no file is shadowed by a package of its name *)
Lemma nodup_not_shadowed : forall pr m, nodup_paths (module_names pr) = true -> In m pr -> shadowed pr m = false.
Proof.
  intros pr m Hn Hm. unfold shadowed. rewrite (init_file_exists_pkg pr m Hn Hm). destruct (m_is_pkg m); reflexivity.
Qed.

(* ---------------------------------------------------------------------------------------- *)
(* 4. relative imports: resolveRelativeImport is _resolve_name, for every module, level, name *)
(* ---------------------------------------------------------------------------------------- *)
Lemma iter_parent_dir : forall k d,
  Nat.iter k parent_dir (Some d) = if Nat.leb k (length d) then Some (firstn (length d - k) d) else None.
Proof.
  induction k as [|k IH]; intro d.
  - simpl. rewrite Nat.sub_0_r, firstn_all. reflexivity.
  - cbn [Nat.iter nat_rect]. change (nat_rect (fun _ => option path) (Some d) (fun _ => parent_dir) k) with (Nat.iter k parent_dir (Some d)).
    rewrite IH. destruct (Nat.leb (S k) (length d)) eqn:E2.
    + apply Nat.leb_le in E2. assert (E1 : Nat.leb k (length d) = true) by (apply Nat.leb_le; lia). rewrite E1.
      replace (length d - k) with (S (length d - S k)) by lia.
      rewrite <- (@removelast_firstn _ (length d - S k) d) by lia.
      destruct (firstn (S (length d - S k)) d) as [|a q] eqn:Eq; [|reflexivity].
      destruct d; simpl in Eq; [simpl in E2; lia|discriminate].
    + apply Nat.leb_gt in E2. destruct (Nat.leb k (length d)) eqn:E1; [|reflexivity].
      apply Nat.leb_le in E1. replace (length d - k) with 0 by lia. reflexivity.
Qed.

Theorem relative_import_agrees : forall m lv p,
  resolveRelativeImport m lv p =
  match rel_base (package_of m) lv with Some b => Some (b ++ p) | None => None end.
Proof.
  intros m lv p. unfold resolveRelativeImport. rewrite follow_relative_true. cbn [negb].
  change (dir_of m) with (package_of m). rewrite iter_parent_dir. unfold rel_base.
  destruct (package_of m) as [|a d] eqn:Ed.
  - destruct (Nat.leb (lv - 1) (length (@nil name))); [destruct (lv - 1)|]; reflexivity.
  - destruct (Nat.ltb (lv - 1) (length (a :: d))) eqn:E2.
    + apply Nat.ltb_lt in E2. assert (E1 : Nat.leb (lv - 1) (length (a :: d)) = true) by (apply Nat.leb_le; lia). rewrite E1.
      destruct (length (a :: d) - (lv - 1)) as [|j] eqn:Ej; [lia|]. reflexivity.
    + apply Nat.ltb_ge in E2. destruct (Nat.leb (lv - 1) (length (a :: d))) eqn:E1; [|reflexivity].
      apply Nat.leb_le in E1. replace (length (a :: d) - (lv - 1)) with 0 by lia. reflexivity.
Qed.

(* ---------------------------------------------------------------------------------------- *)
(* 5. absolute imports: without a same-named module next to (or one directory above) the      *)
(*    importing file, resolveAbsoluteImportWithProject finds the module CPython finds          *)
(* ---------------------------------------------------------------------------------------- *)
Lemma search_in_spec : forall pr dir p,
  search_in pr (Some dir) p = if is_module pr (dir ++ p) then Some (dir ++ p) else None.
Proof.
  intros pr dir p. unfold search_in. rewrite <- py_or_init.
  destruct (py_file_exists pr (dir ++ p)); destruct (init_file_exists pr (dir ++ p)); reflexivity.
Qed.

Lemma resolveAbsoluteImport_not_module : forall pr p, is_module pr p = false ->
  resolveAbsoluteImport pr p = Some p \/ (isStandardLibrary p = true /\ resolveAbsoluteImport pr p = None).
Proof.
  intros pr p H. unfold resolveAbsoluteImport. rewrite <- py_or_init in H. apply orb_false_iff in H.
  destruct H as [H1 H2]. rewrite H1, H2.
  destruct (isStandardLibrary p); [right; split; reflexivity|]. left. destruct (dir_exists pr p); reflexivity.
Qed.

(* the import resolves to the module of that name, or to something that is not a project module; to nothing only
   when the name is one of the standard library's (include_stdlib is off, include_third_party on) *)
Theorem absolute_import_agrees : forall pr m p, p <> [] -> abs_ok pr m p = true ->
  resolveAbsoluteImportWithProject pr m p = Some p \/
  (is_module pr p = false /\ isStandardLibrary p = true /\ resolveAbsoluteImportWithProject pr m p = None).
Proof.
  intros pr m p Hp Hok. unfold resolveAbsoluteImportWithProject. destruct p as [|x p']; [congruence|].
  set (p := x :: p') in *. cbn [first_some]. unfold abs_ok in Hok.
  destruct (dir_of m) as [|a d] eqn:Ed.
  - rewrite !search_in_spec. simpl app. destruct (is_module pr p) eqn:Em; [left; reflexivity|].
    cbn [parent_dir search_in]. destruct (resolveAbsoluteImport_not_module pr p Em) as [H|[Hs H]]; rewrite H; auto.
  - apply andb_true_iff in Hok. destruct Hok as [H1 H2]. apply negb_true_iff in H1.
    rewrite !search_in_spec, H1. simpl app. destruct (is_module pr p) eqn:Em; [left; reflexivity|].
    cbn [parent_dir]. rewrite search_in_spec.
    assert (Hpar : is_module pr (removelast (a :: d) ++ p) = false).
    { simpl orb in H2. apply orb_true_iff in H2. destruct H2 as [H2|H2].
      - apply Nat.leb_le in H2. destruct d; [simpl; exact Em|simpl in H2; lia].
      - apply negb_true_iff in H2. exact H2. }
    rewrite Hpar. destruct (resolveAbsoluteImport_not_module pr p Em) as [H|[Hs H]]; rewrite H; auto.
Qed.

(* ---------------------------------------------------------------------------------------- *)
(* 6. re-exports: ResolveReExport against the bindings of the package's __init__              *)
(* ---------------------------------------------------------------------------------------- *)
(* the entries one statement of P/__init__.py puts into the exports map *)
Definition stmt_exports (P : path) (s : import_stmt) : list (name * path) :=
  match reexport_source P (i_form s) with
  | Some (src, ns) => if path_eqb src P then [] else map (fun x => (in_bound x, src)) ns
  | None => []
  end.

Lemma exports_of_flat : forall P init, exports_of P init = flat_map (stmt_exports P) (m_imports init).
Proof. reflexivity. Qed.

(* names an __init__ takes from its own package: "from . import n" / "from P import n" *)
Definition stmt_self_names (init : pymodule) (s : import_stmt) : list name :=
  match from_target init (i_form s) with
  | Some (t, ns) => if path_eqb t (m_path init) then map in_bound ns else []
  | None => []
  end.

Definition self_names (init : pymodule) : list name := flat_map (stmt_self_names init) (m_imports init).

(* the exports map read at n (later entries overwrite), and the last binding of n *)
Definition model_lookup (P : path) (l : list import_stmt) (n : name) : option path :=
  option_map snd (find (fun e : name * path => N.eqb (fst e) n) (rev (flat_map (stmt_exports P) l))).

Definition py_lookup (pr : project) (init : pymodule) (l : list import_stmt) (n : name) : option path :=
  last_some (fun s => binding_source pr init s n) l.

Lemma rel_base_nonempty : forall P lv, P <> [] ->
  rel_base P lv = if Nat.ltb (lv - 1) (length P) then Some (firstn (length P - (lv - 1)) P) else None.
Proof. intros P lv H. destruct P; [congruence|reflexivity]. Qed.

(* processImportFrom computes the base package of a relative import the way _resolve_name does *)
Lemma reexport_source_rel : forall P lv q ns, P <> [] ->
  reexport_source P (ImportRel lv q ns) =
  match q with
  | [] => None
  | _ => match rel_base P lv with Some b => Some (b ++ q, ns) | None => None end
  end.
Proof.
  intros P lv q ns HP. unfold reexport_source. destruct q as [|y q']; [reflexivity|].
  rewrite (rel_base_nonempty P lv HP).
  assert (Hlen : 0 < length P) by (destruct P; [congruence|simpl; lia]).
  destruct (Nat.eqb lv 1) eqn:E1.
  - apply Nat.eqb_eq in E1. subst lv. replace (1 - 1) with 0 by reflexivity.
    assert (E : Nat.ltb 0 (length P) = true) by (apply Nat.ltb_lt; exact Hlen). rewrite E, Nat.sub_0_r, firstn_all. reflexivity.
  - apply Nat.eqb_neq in E1. destruct (Nat.leb lv (length P)) eqn:E2.
    + apply Nat.leb_le in E2. assert (E : Nat.ltb (lv - 1) (length P) = true) by (apply Nat.ltb_lt; lia). rewrite E.
      destruct lv as [|lv'].
      * rewrite (firstn_all2 (n := length P - 0 + 1) P) by lia. replace (0 - 1) with 0 by reflexivity.
        rewrite Nat.sub_0_r, firstn_all. reflexivity.
      * replace (length P - S lv' + 1) with (length P - (S lv' - 1)) by lia. reflexivity.
    + apply Nat.leb_gt in E2. assert (E : Nat.ltb (lv - 1) (length P) = false) by (apply Nat.ltb_ge; lia). rewrite E. reflexivity.
Qed.

Lemma find_exports_map : forall (t : path) n ns,
  option_map snd (find (fun e : name * path => N.eqb (fst e) n) (rev (map (fun x => (in_bound x, t)) ns))) =
  match find (fun x => N.eqb (in_bound x) n) (rev ns) with Some _ => Some t | None => None end.
Proof.
  intros t n ns. rewrite <- map_rev. induction (rev ns) as [|x l IH]; simpl; [reflexivity|].
  destruct (N.eqb (in_bound x) n); [reflexivity|exact IH].
Qed.

Lemma stmt_exports_keys : forall P s e, In e (stmt_exports P s) ->
  In (fst e) (match i_form s with ImportAbs _ => [] | ImportFrom _ ns => map in_bound ns | ImportRel _ _ ns => map in_bound ns end).
Proof.
  intros P s e. unfold stmt_exports. destruct (i_form s) as [p|q ns|lv q ns]; simpl.
  - intros [].
  - destruct (strict_prefixb P q); [|intros []]. destruct (path_eqb q P); [intros []|].
    intro H. apply in_map_iff in H. destruct H as [x [Hx Hi]]. subst e. simpl. apply in_map. exact Hi.
  - destruct q as [|y q']; [intros []|].
    destruct (Nat.eqb lv 1); [|destruct (Nat.leb lv (length P)); [|intros []]];
      (match goal with |- context [path_eqb ?a P] => destruct (path_eqb a P) end; [intros []|];
       intro H; apply in_map_iff in H; destruct H as [x [Hx Hi]]; subst e; simpl; apply in_map; exact Hi).
Qed.

Section OneInit.
  Variable pr : project.
  Variable init : pymodule.
  Hypothesis Hpkg : m_is_pkg init = true.
  Hypothesis HP : m_path init <> [].

  Lemma package_of_init : package_of init = m_path init.
  Proof. unfold package_of. rewrite Hpkg. reflexivity. Qed.

  (* a statement that takes names of the package itself binds nothing new but submodules *)
  Lemma binding_self : forall s ns n,
    i_tc s = false -> binds_at_module_level (i_pos s) = true ->
    from_target init (i_form s) = Some (m_path init, ns) ->
    forallb (fun x => N.eqb (in_orig x) (in_bound x)) ns = true ->
    binding_source pr init s n = None \/
    (binding_source pr init s n = Some (m_path init ++ [n]) /\ is_module pr (m_path init ++ [n]) = true /\
     In n (map in_bound ns)).
  Proof.
    intros s ns n Htc Hb Hft Hun. unfold binding_source. rewrite Htc, Hb, Hft. cbn [orb negb].
    destruct (find (fun x => N.eqb (in_bound x) n) (rev ns)) as [x|] eqn:Ef; [|left; reflexivity].
    apply find_some in Ef. destruct Ef as [Hin Hbn]. apply in_rev in Hin. apply N.eqb_eq in Hbn.
    rewrite forallb_forall in Hun. specialize (Hun x Hin). apply N.eqb_eq in Hun. rewrite Hun, Hbn.
    destruct (is_module pr (m_path init ++ [n])) eqn:Em.
    - right. repeat split. rewrite <- Hbn. apply in_map. exact Hin.
    - left. rewrite path_eqb_refl. reflexivity.
  Qed.

  (* a statement that takes names of another module binds every name to that module *)
  Lemma binding_other : forall s t ns n,
    i_tc s = false -> binds_at_module_level (i_pos s) = true ->
    from_target init (i_form s) = Some (t, ns) -> path_eqb t (m_path init) = false -> is_module pr t = true ->
    forallb (fun x => negb (is_module pr (t ++ [in_orig x]))) ns = true ->
    binding_source pr init s n =
    match find (fun x => N.eqb (in_bound x) n) (rev ns) with Some _ => Some t | None => None end.
  Proof.
    intros s t ns n Htc Hb Hft Hne Hm Hns. unfold binding_source. rewrite Htc, Hb, Hft. cbn [orb negb].
    destruct (find (fun x => N.eqb (in_bound x) n) (rev ns)) as [x|] eqn:Ef; [|reflexivity].
    apply find_some in Ef. destruct Ef as [Hin _]. apply in_rev in Hin.
    rewrite forallb_forall in Hns. specialize (Hns x Hin). apply negb_true_iff in Hns. rewrite Hns, Hne, Hm. reflexivity.
  Qed.

  (* the three kinds of statement of a regular __init__ *)
  Lemma regular_cases : forall s, reexport_regular pr init s = true ->
    ((forall n, binding_source pr init s n = None) /\ stmt_exports (m_path init) s = [] /\ stmt_self_names init s = []) \/
    (exists ns, i_tc s = false /\ binds_at_module_level (i_pos s) = true /\
       from_target init (i_form s) = Some (m_path init, ns) /\
       forallb (fun x => N.eqb (in_orig x) (in_bound x)) ns = true /\ stmt_exports (m_path init) s = []) \/
    (exists t ns, i_tc s = false /\ binds_at_module_level (i_pos s) = true /\
       from_target init (i_form s) = Some (t, ns) /\ path_eqb t (m_path init) = false /\ is_module pr t = true /\
       forallb (fun x => negb (is_module pr (t ++ [in_orig x]))) ns = true /\
       stmt_exports (m_path init) s = map (fun x => (in_bound x, t)) ns).
  Proof.
    intros s Hreg. unfold reexport_regular in Hreg. unfold stmt_exports, stmt_self_names, binding_source.
    destruct (i_form s) as [p|q ns|lv q ns] eqn:Ef.
    - left. split; [|split; reflexivity]. intro n. simpl. destruct (i_tc s || negb (binds_at_module_level (i_pos s))); reflexivity.
    - right. cbn [from_target] in *. apply andb_true_iff in Hreg. destruct Hreg as [Hreg H3].
      apply andb_true_iff in Hreg. destruct Hreg as [Htc Hb]. apply negb_true_iff in Htc.
      destruct (path_eqb q (m_path init)) eqn:Eq.
      + left. apply path_eqb_eq in Eq. subst q. exists ns. repeat split; auto.
        unfold reexport_source. rewrite strict_prefixb_irrefl. reflexivity.
      + right. apply andb_true_iff in H3. destruct H3 as [H3 Hns]. apply andb_true_iff in H3. destruct H3 as [Hsp Hm].
        exists q, ns. repeat split; auto. unfold reexport_source. rewrite Hsp, Eq. reflexivity.
    - right. cbn [from_target] in *. rewrite package_of_init in *.
      destruct (rel_base (m_path init) lv) as [b|] eqn:Eb; [|discriminate].
      apply andb_true_iff in Hreg. destruct Hreg as [Hreg H3].
      apply andb_true_iff in Hreg. destruct Hreg as [Htc Hb]. apply negb_true_iff in Htc.
      rewrite (reexport_source_rel (m_path init) lv q ns HP), Eb.
      destruct (path_eqb (b ++ q) (m_path init)) eqn:Eq.
      + left. apply path_eqb_eq in Eq. exists ns. rewrite Eq. repeat split; auto.
        destruct q; [reflexivity|]. rewrite path_eqb_refl. reflexivity.
      + right. apply andb_true_iff in H3. destruct H3 as [H3 Hns]. apply andb_true_iff in H3. destruct H3 as [Hq Hm].
        exists (b ++ q), ns. destruct q as [|y q']; [discriminate|]. rewrite Eq. repeat split; auto.
  Qed.

  Definition shadow_case (n : name) (po : option path) (names : list name) : Prop :=
    po = Some (m_path init ++ [n]) /\ is_module pr (m_path init ++ [n]) = true /\ In n names.

  Lemma stmt_reexport : forall s n, reexport_regular pr init s = true ->
    binding_source pr init s n = model_lookup (m_path init) [s] n \/
    shadow_case n (binding_source pr init s n) (stmt_self_names init s).
  Proof.
    intros s n Hreg. unfold model_lookup. cbn [flat_map]. rewrite app_nil_r.
    destruct (regular_cases s Hreg) as [[Hn [He _]]|[[ns [Htc [Hb [Hft [Hun He]]]]]|[t [ns [Htc [Hb [Hft [Hne [Hm [Hns He]]]]]]]]]].
    - left. rewrite He, Hn. reflexivity.
    - rewrite He. destruct (binding_self s ns n Htc Hb Hft Hun) as [H|[H1 [H2 H3]]].
      + left. rewrite H. reflexivity.
      + right. split; [exact H1|]. split; [exact H2|]. unfold stmt_self_names. rewrite Hft, path_eqb_refl. exact H3.
    - left. rewrite He, find_exports_map. apply (binding_other s t ns n); assumption.
  Qed.

  Lemma model_lookup_cons : forall s l n,
    model_lookup (m_path init) (s :: l) n =
    match model_lookup (m_path init) l n with Some b => Some b | None => model_lookup (m_path init) [s] n end.
  Proof.
    intros s l n. unfold model_lookup. cbn [flat_map]. rewrite app_nil_r, rev_app_distr, find_app.
    destruct (find (fun e : name * path => N.eqb (fst e) n) (rev (flat_map (stmt_exports (m_path init)) l))); reflexivity.
  Qed.

  Lemma list_reexport : forall l n, (forall s, In s l -> reexport_regular pr init s = true) ->
    py_lookup pr init l n = model_lookup (m_path init) l n \/
    shadow_case n (py_lookup pr init l n) (flat_map (stmt_self_names init) l).
  Proof.
    intros l n. induction l as [|s l IH]; intro Hreg.
    - left. reflexivity.
    - rewrite model_lookup_cons. unfold py_lookup. cbn [last_some flat_map]. fold (py_lookup pr init l n).
      destruct IH as [IH|[H1 [H2 H3]]]; [intros s' Hs'; apply Hreg; right; exact Hs'| |].
      + rewrite IH. destruct (model_lookup (m_path init) l n) as [b|]; [left; reflexivity|].
        destruct (stmt_reexport s n (Hreg s (or_introl eq_refl))) as [H|[H1 [H2 H3]]]; [left; exact H|].
        right. split; [exact H1|]. split; [exact H2|]. apply in_or_app. left. exact H3.
      + right. rewrite H1. split; [reflexivity|]. split; [exact H2|]. apply in_or_app. right. exact H3.
  Qed.
End OneInit.

Lemma existsb_false : forall {A} (f : A -> bool) l x, existsb f l = false -> In x l -> f x = false.
Proof.
  intros A f l x H Hin. destruct (f x) eqn:E; [|reflexivity].
  assert (Hc : existsb f l = true) by (apply existsb_exists; exists x; auto). congruence.
Qed.

Lemma regular_all : forall pr init s, class_irregular_reexport pr = false -> In init pr -> m_is_pkg init = true ->
  In s (m_imports init) -> reexport_regular pr init s = true.
Proof.
  intros pr init s Hc Hin Hpk Hs. pose proof (existsb_false _ _ init Hc Hin) as H. cbv beta in H.
  rewrite Hpk in H. cbn [andb] in H. apply negb_false_iff in H. rewrite forallb_forall in H. apply H. exact Hs.
Qed.

(* findInitFile finds the package; names outside a non-empty __all__ are not in the map anyway
   when __all__ lists every name the __init__ binds *)
Lemma ResolveReExport_lookup : forall pr init n, nodup_paths (module_names pr) = true ->
  class_all_hides pr = false -> In init pr -> m_is_pkg init = true ->
  ResolveReExport pr (m_path init) n = model_lookup (m_path init) (m_imports init) n.
Proof.
  intros pr init n Hn Hall Hin Hpk. unfold ResolveReExport. rewrite (find_init_spec pr _ Hn), (nodup_find pr init Hn Hin), Hpk.
  rewrite exports_of_flat. unfold model_lookup.
  destruct (all_allows init n) eqn:Ea.
  - reflexivity.
  - destruct (find (fun e : name * path => N.eqb (fst e) n) (rev (flat_map (stmt_exports (m_path init)) (m_imports init)))) as [e|] eqn:Ef;
      [exfalso|reflexivity].
    apply find_some in Ef. destruct Ef as [He Hk]. apply in_rev in He. apply in_flat_map in He. destruct He as [s [Hs He]].
    apply stmt_exports_keys in He. apply N.eqb_eq in Hk. rewrite Hk in He.
    assert (Hb : In n (bound_names init)).
    { unfold bound_names. apply in_flat_map. exists s. split; assumption. }
    unfold all_allows in Ea. pose proof (existsb_false _ _ init Hall Hin) as H. cbv beta in H. rewrite Hpk in H. cbn [andb] in H.
    destruct (m_all init) as [[|a l]|]; try discriminate.
    pose proof (existsb_false _ _ n H Hb) as H'. cbv beta in H'. rewrite Ea in H'. discriminate.
Qed.

Lemma reexport_py_lookup : forall pr init n, nodup_paths (module_names pr) = true -> In init pr -> m_is_pkg init = true ->
  reexport_py pr (m_path init) n = py_lookup pr init (m_imports init) n.
Proof. intros pr init n Hn Hin Hpk. unfold reexport_py. rewrite (nodup_find pr init Hn Hin), Hpk. reflexivity. Qed.

(* "from t import n" as the analyser resolves it (resolved_modules, one name) *)
Definition name_model (pr : project) (t : path) (n : name) : path :=
  match ResolveReExport pr t n with
  | Some src => src
  | None => if is_module pr (t ++ [n]) then t ++ [n] else t
  end.

Lemma resolved_modules_spec : forall pr m ii,
  resolved_modules pr (empty_graph pr) m ii =
  match resolveImport pr m ii with
  | None => []
  | Some target => if ii_from ii && negb (Nat.eqb (length (ii_names ii)) 0)
                   then dedup_paths (map (fun x => name_model pr target (in_orig x)) (ii_names ii)) []
                   else [target]
  end.
Proof. reflexivity. Qed.

(* Following a re-export agrees with the binding CPython makes, for every package and name, except in one
   situation: the __init__ binds n by "from . import n" (n a submodule) and ALSO takes the name n from another
   module; the specification then lets the submodule win wherever the statement stands. *)
Theorem reexport_agrees : forall pr, project_shape pr = true -> class_all_hides pr = false ->
  class_irregular_reexport pr = false -> forall t n,
  name_model pr t n = resolve_name_py pr t n \/
  (exists init, In init pr /\ m_is_pkg init = true /\ m_path init = t /\ In n (self_names init) /\
     is_module pr (t ++ [n]) = true /\ resolve_name_py pr t n = t ++ [n]).
Proof.
  intros pr Hshape Hall Hreg t n. pose proof (shape_nodup pr Hshape) as Hn.
  unfold name_model, resolve_name_py. destruct (find_module pr t) as [m0|] eqn:Ef.
  - destruct (find_module_Some pr t m0 Ef) as [Hin Hp]. subst t. destruct (m_is_pkg m0) eqn:Epk.
    + rewrite (ResolveReExport_lookup pr m0 n Hn Hall Hin Epk), (reexport_py_lookup pr m0 n Hn Hin Epk).
      destruct (shape_module pr m0 Hshape Hin) as [HP _].
      destruct (list_reexport pr m0 Epk HP (m_imports m0) n) as [H|[H1 [H2 H3]]].
      * intros s Hs. apply (regular_all pr m0 s Hreg Hin Epk Hs).
      * left. rewrite H. reflexivity.
      * right. exists m0. repeat split; auto. rewrite H1. reflexivity.
    + left. unfold ResolveReExport, reexport_py. rewrite (find_init_spec pr _ Hn), Ef, Epk. reflexivity.
  - left. unfold ResolveReExport, reexport_py. rewrite (find_init_spec pr _ Hn), Ef. reflexivity.
Qed.

(* the exceptional situation does not make a difference *)
Definition no_bad (pr : project) : Prop :=
  forall init n, In init pr -> m_is_pkg init = true -> In n (self_names init) ->
    is_module pr (m_path init ++ [n]) = true -> resolve_name_py pr (m_path init) n = m_path init ++ [n] ->
    name_model pr (m_path init) n = m_path init ++ [n].

Lemma name_agrees : forall pr, project_shape pr = true -> class_all_hides pr = false ->
  class_irregular_reexport pr = false -> no_bad pr -> forall t n, name_model pr t n = resolve_name_py pr t n.
Proof.
  intros pr Hshape Hall Hreg Hnb t n.
  destruct (reexport_agrees pr Hshape Hall Hreg t n) as [H|[init [Hin [Hpk [Hp [Hs [Hm Hpy]]]]]]]; [exact H|].
  subst t. rewrite Hpy. apply Hnb; assumption.
Qed.

(* ---------------------------------------------------------------------------------------- *)
(* 7. one statement                                                                           *)
(* ---------------------------------------------------------------------------------------- *)
Lemma dedup_paths_In : forall l seen x, In x (dedup_paths l seen) <-> In x l /\ ~ In x seen.
Proof.
  induction l as [|p l IH]; intros seen x; simpl.
  - tauto.
  - destruct (mem_path p seen) eqn:Em.
    + apply mem_path_In in Em. rewrite IH. split; [tauto|]. intros [[H|H] Hs]; [subst; contradiction|auto].
    + assert (Hp : ~ In p seen) by (intro Hc; apply mem_path_In in Hc; congruence).
      simpl. rewrite IH. simpl. split.
      * intros [H|[H1 H2]]; [subst; auto|]. split; [auto|]. intro Hc. apply H2. auto.
      * intros [[H|H] Hs]; [auto|]. destruct (path_eqb p x) eqn:E; [apply path_eqb_eq in E; auto|].
        right. split; [exact H|]. intros [Hc|Hc]; [|contradiction]. subst. rewrite path_eqb_refl in E. discriminate.
Qed.

Lemma names_agree : forall pr t ns, (forall n, name_model pr t n = resolve_name_py pr t n) -> forall r,
  In r (filter (is_module pr) (map (fun x => resolve_name_py pr t (in_orig x)) ns)) <->
  is_module pr r = true /\ In r (dedup_paths (map (fun x => name_model pr t (in_orig x)) ns) []).
Proof.
  intros pr t ns H r. rewrite filter_In, dedup_paths_In.
  rewrite (map_ext (fun x => name_model pr t (in_orig x)) (fun x => resolve_name_py pr t (in_orig x))) by (intro; apply H).
  simpl. tauto.
Qed.

Lemma resolve_py_from : forall pr m s t ns, from_target m (i_form s) = Some (t, ns) ->
  resolve_py pr m s = filter (is_module pr) (map (fun x => resolve_name_py pr t (in_orig x)) ns).
Proof.
  intros pr m s t ns H. unfold resolve_py. destruct (i_form s); [discriminate|rewrite H; reflexivity|rewrite H; reflexivity].
Qed.

Lemma abs_ok_of : forall pr m p, class_implicit_relative pr = false -> In m pr -> In p (abs_paths m) -> abs_ok pr m p = true.
Proof.
  intros pr m p Hc Hm Hp. pose proof (existsb_false _ _ m Hc Hm) as H. cbv beta in H.
  pose proof (existsb_false _ _ p H Hp) as H'. cbv beta in H'. apply negb_false_iff in H'. exact H'.
Qed.

Lemma ex_singleton : forall {A} (a : A) (Q : A -> Prop), (exists x, In x [a] /\ Q x) <-> Q a.
Proof. intros A a Q. split; [intros [x [[H|[]] HQ]]; subst; exact HQ|intro H; exists a; simpl; auto]. Qed.

Lemma collect_one_tc : forall s ii, In ii (collect_one s) -> ii_tc ii = i_tc s.
Proof.
  intros s ii. unfold collect_one. rewrite walked_true. cbn [negb].
  destruct (i_form s); intros [H|[]]; subst; reflexivity.
Qed.

(* the project modules a statement resolves to are the same for the analyser and for CPython *)
Theorem stmt_agrees : forall pr, project_shape pr = true -> class_implicit_relative pr = false ->
  class_all_hides pr = false -> class_irregular_reexport pr = false -> no_bad pr ->
  forall m s, In m pr -> In s (m_imports m) -> forall r,
  In r (resolve_py pr m s) <->
  is_module pr r = true /\ exists ii, In ii (collect_one s) /\ In r (resolved_modules pr (empty_graph pr) m ii).
Proof.
  intros pr Hshape Himp Hall Hreg Hnb m s Hm Hs r.
  pose proof (name_agrees pr Hshape Hall Hreg Hnb) as Hname.
  destruct (shape_module pr m Hshape Hm) as [_ [_ Hst]]. specialize (Hst s Hs). unfold stmt_shape in Hst.
  unfold collect_one. rewrite walked_true. cbn [negb].
  destruct (i_form s) as [p|p ns|lv q ns] eqn:Ef; rewrite ex_singleton, resolved_modules_spec; unfold resolveImport;
    cbn [ii_level ii_module ii_from ii_names].
  - (* import p *)
    assert (Hp : p <> []) by (intro; subst; discriminate).
    assert (Hok : abs_ok pr m p = true).
    { apply (abs_ok_of pr m p Himp Hm). unfold abs_paths. apply in_flat_map. exists s. rewrite Ef. simpl. auto. }
    unfold resolve_py. rewrite Ef. change (Nat.ltb 0 0) with false. cbn [andb].
    destruct (absolute_import_agrees pr m p Hp Hok) as [H|[Hnm [_ H]]]; rewrite H.
    + destruct (is_module pr p) eqn:Em; simpl.
      * split; [intros [H1|[]]; subst; auto|intros [_ [H1|[]]]; auto].
      * split; [intros []|intros [H1 [H2|[]]]; subst; congruence].
    + rewrite Hnm. simpl. tauto.
  - (* from p import ns *)
    apply andb_true_iff in Hst. destruct Hst as [Hp Hns].
    assert (Hp' : p <> []) by (intro; subst; discriminate).
    assert (Hok : abs_ok pr m p = true).
    { apply (abs_ok_of pr m p Himp Hm). unfold abs_paths. apply in_flat_map. exists s. rewrite Ef. simpl. auto. }
    rewrite (resolve_py_from pr m s p ns) by (rewrite Ef; reflexivity).
    change (Nat.ltb 0 0) with false. rewrite Hns. cbn [andb].
    destruct (absolute_import_agrees pr m p Hp' Hok) as [H|[Hnm [Hstd H]]]; rewrite H.
    + apply names_agree. intro n. apply Hname.
    + simpl. split; [|tauto]. intro Hr. exfalso. apply filter_In in Hr. destruct Hr as [Hr Hmod].
      apply in_map_iff in Hr. destruct Hr as [x [Hx _]]. unfold resolve_name_py, reexport_py in Hx.
      rewrite (find_module_None pr p Hnm) in Hx.
      destruct (is_module pr (p ++ [in_orig x])) eqn:Esub.
      * rewrite (shape_parent pr p (in_orig x) Hshape Hp' Hstd Esub) in Hnm. discriminate.
      * subst r. congruence.
  - (* from <dots>q import ns *)
    apply andb_true_iff in Hst. destruct Hst as [Hlv Hns]. rewrite Hlv, Hns, relative_import_agrees. cbn [andb].
    unfold resolve_py. rewrite Ef. cbn [from_target].
    destruct (rel_base (package_of m) lv) as [b|].
    + apply names_agree. intro n. apply Hname.
    + simpl. tauto.
Qed.

(* ---------------------------------------------------------------------------------------- *)
(* 8. the graphs                                                                              *)
(* ---------------------------------------------------------------------------------------- *)
Theorem edges_agree_general : forall pr, project_shape pr = true -> class_implicit_relative pr = false ->
  class_all_hides pr = false -> class_irregular_reexport pr = false -> no_bad pr ->
  forall e, In e (edges_model pr) <-> In e (drop_own pr (edges_py pr)).
Proof.
  intros pr Hshape Himp Hall Hreg Hnb e. pose proof (shape_nodup pr Hshape) as Hn.
  rewrite edges_model_spec. unfold drop_own. rewrite filter_In, edges_py_spec. split.
  - intros [m [ii [r [Hm [_ [Hii [Htc [Hr [Hskip [Heq [Hmr Hne]]]]]]]]]]].
    unfold collectModuleImports in Hii. apply in_flat_map in Hii. destruct Hii as [s [Hs Hii]].
    split.
    + exists m, s, r. rewrite <- (collect_one_tc s ii Hii). repeat split; auto.
      apply (stmt_agrees pr Hshape Himp Hall Hreg Hnb m s Hm Hs r). split; [exact Hmr|]. exists ii. auto.
    + subst e. cbn [fst snd]. rewrite (init_file_exists_pkg pr m Hn Hm), Hskip. reflexivity.
  - intros [[m [s [r [Hm [Hs [Htc [Hr [Hne Heq]]]]]]]] Hf].
    apply (stmt_agrees pr Hshape Himp Hall Hreg Hnb m s Hm Hs r) in Hr. destruct Hr as [Hmr [ii [Hii Hr]]].
    exists m, ii, r. rewrite (collect_one_tc s ii Hii). repeat split; auto.
    + apply nodup_not_shadowed; assumption.
    + unfold collectModuleImports. apply in_flat_map. exists s. auto.
    + subst e. cbn [fst snd] in Hf. rewrite (init_file_exists_pkg pr m Hn Hm) in Hf. apply negb_true_iff in Hf. exact Hf.
Qed.

(* ---- wf_project: the four deviation classes are absent ---- *)
Lemma wf_project_classes : forall pr, wf_project pr = true ->
  project_shape pr = true /\ class_implicit_relative pr = false /\ class_init_own_submodule pr = false /\
  class_all_hides pr = false /\ class_irregular_reexport pr = false.
Proof.
  intros pr H. unfold wf_project in H. apply andb_true_iff in H. destruct H as [Hs H]. unfold deviation_classes in H.
  destruct (class_implicit_relative pr); [discriminate|]. destruct (class_init_own_submodule pr); [discriminate|].
  destruct (class_all_hides pr); [discriminate|]. destruct (class_irregular_reexport pr); [discriminate|]. auto.
Qed.

(* without __init__ -> own submodule edges in the specification, the exceptional situation of
   [reexport_agrees] cannot arise: "from . import n" with n a submodule would be such an edge *)
Lemma no_bad_wf : forall pr, project_shape pr = true -> class_init_own_submodule pr = false ->
  class_irregular_reexport pr = false -> no_bad pr.
Proof.
  intros pr Hshape Hown Hreg init n Hin Hpk Hself Hmod Hpy. exfalso.
  destruct (shape_module pr init Hshape Hin) as [HP _].
  unfold self_names in Hself. apply in_flat_map in Hself. destruct Hself as [s [Hs Hself]].
  pose proof (regular_all pr init s Hreg Hin Hpk Hs) as Hr.
  destruct (regular_cases pr init Hpk HP s Hr) as [[_ [_ He]]|[[ns [Htc [Hb [Hft [Hun _]]]]]|[t [ns [_ [_ [Hft [Hne _]]]]]]]].
  - rewrite He in Hself. destruct Hself.
  - unfold stmt_self_names in Hself. rewrite Hft, path_eqb_refl in Hself.
    apply in_map_iff in Hself. destruct Hself as [x [Hx Hxin]].
    rewrite forallb_forall in Hun. pose proof (Hun x Hxin) as Hox. apply N.eqb_eq in Hox.
    assert (Hc : class_init_own_submodule pr = true); [|congruence].
    unfold class_init_own_submodule. apply existsb_exists. exists init. split; [exact Hin|]. rewrite Hpk. cbn [andb].
    apply existsb_exists. exists s. split; [exact Hs|]. rewrite Htc. cbn [negb andb].
    apply existsb_exists. exists (m_path init ++ [n]). split; [|apply strict_prefixb_snoc].
    rewrite (resolve_py_from pr init s (m_path init) ns Hft). apply filter_In. split; [|exact Hmod].
    apply in_map_iff. exists x. split; [|exact Hxin]. rewrite Hox, Hx. exact Hpy.
  - unfold stmt_self_names in Hself. rewrite Hft, Hne in Hself. destruct Hself.
Qed.

(* the edges pyscn leaves out on purpose are no edges of the specification then *)
Lemma drop_own_nothing : forall pr, project_shape pr = true -> class_init_own_submodule pr = false ->
  forall e, In e (drop_own pr (edges_py pr)) <-> In e (edges_py pr).
Proof.
  intros pr Hshape Hown e. pose proof (shape_nodup pr Hshape) as Hn. unfold drop_own. rewrite filter_In.
  split; [tauto|]. intro H. split; [exact H|]. apply edges_py_spec in H.
  destruct H as [m [s [r [Hm [Hs [Htc [Hr [Hne Heq]]]]]]]]. subst e. cbn [fst snd].
  rewrite (init_file_exists_pkg pr m Hn Hm).
  destruct (m_is_pkg m && strict_prefixb (m_path m) r) eqn:E; [exfalso|reflexivity].
  apply andb_true_iff in E. destruct E as [Epk Esp].
  assert (Hc : class_init_own_submodule pr = true); [|congruence].
  unfold class_init_own_submodule. apply existsb_exists. exists m. split; [exact Hm|]. rewrite Epk. cbn [andb].
  apply existsb_exists. exists s. split; [exact Hs|]. rewrite Htc. cbn [negb andb].
  apply existsb_exists. exists r. auto.
Qed.

(* THE UNBOUNDED THEOREM: for every well-formed project the analyser's import graph is CPython's *)
Theorem edges_wf : forall pr, wf_project pr = true -> same_edges (edges_model pr) (edges_py pr) = true.
Proof.
  intros pr H. destruct (wf_project_classes pr H) as [Hshape [Himp [Hown [Hall Hreg]]]].
  apply same_edges_iff. intro e.
  rewrite (edges_agree_general pr Hshape Himp Hall Hreg (no_bad_wf pr Hshape Hown Hreg) e).
  apply drop_own_nothing; assumption.
Qed.

(* ---- the F32 variant: specification minus the __init__ -> own submodule edges ---- *)
(* wf_mod_own is NOT enough for all projects (the bounded domain does not contain the situation):
   a/__init__.py: "from .impl import fa" then "from . import fa", with modules a.impl and a.fa; top.py: "from a import fa".
   The specification binds a.fa to the submodule, the analyser follows the re-export to a.impl. *)
Definition w_rebound : project :=
  [md [1%N] true [stmt (ImportRel 1 [5%N] [mk 6%N]); stmt (ImportRel 1 [] [mk 6%N])]; md [1%N; 5%N] false []; md [1%N; 6%N] false [];
   md [8%N] false [stmt (ImportFrom [1%N] [mk 6%N])]].

Lemma wf_mod_own_insufficient : exists pr, wf_mod_own pr = true /\
  same_edges (edges_model pr) (drop_own pr (edges_py pr)) = false /\
  edges_model pr = [([8%N], [1%N; 5%N])] /\ drop_own pr (edges_py pr) = [([8%N], [1%N; 6%N])].
Proof. exists w_rebound. vm_compute. auto. Qed.

(* class 5, a submodule name rebound: an __init__ holds "from . import n" (or "from P import n") for a submodule n
   of the package and also takes the name n from another module *)
Definition rebinds_submodule (pr : project) (init : pymodule) : bool :=
  existsb (fun n => is_module pr (m_path init ++ [n]) &&
                    existsb (fun e : name * path => N.eqb (fst e) n) (exports_of (m_path init) init)) (self_names init).

Definition class_submodule_rebound (pr : project) : bool :=
  existsb (fun m => m_is_pkg m && rebinds_submodule pr m) pr.

Definition wf_mod_own_strong (pr : project) : bool := wf_mod_own pr && negb (class_submodule_rebound pr).

Lemma no_bad_strong : forall pr, project_shape pr = true -> class_all_hides pr = false ->
  class_submodule_rebound pr = false -> no_bad pr.
Proof.
  intros pr Hshape Hall Hreb init n Hin Hpk Hself Hmod _. pose proof (shape_nodup pr Hshape) as Hn.
  unfold name_model. rewrite (ResolveReExport_lookup pr init n Hn Hall Hin Hpk). unfold model_lookup.
  destruct (find (fun e : name * path => N.eqb (fst e) n) (rev (flat_map (stmt_exports (m_path init)) (m_imports init)))) as [e|] eqn:Ef.
  - exfalso. apply find_some in Ef. destruct Ef as [He Hk]. apply in_rev in He.
    assert (Hc : class_submodule_rebound pr = true); [|congruence].
    unfold class_submodule_rebound. apply existsb_exists. exists init. split; [exact Hin|]. rewrite Hpk. cbn [andb].
    unfold rebinds_submodule. apply existsb_exists. exists n. split; [exact Hself|]. rewrite Hmod. cbn [andb].
    apply existsb_exists. exists e. rewrite exports_of_flat. auto.
  - simpl. rewrite Hmod. reflexivity.
Qed.

Lemma wf_mod_own_classes : forall pr, wf_mod_own pr = true ->
  project_shape pr = true /\ class_implicit_relative pr = false /\ class_all_hides pr = false /\
  class_irregular_reexport pr = false.
Proof.
  intros pr H. unfold wf_mod_own in H. apply andb_true_iff in H. destruct H as [H H4].
  apply andb_true_iff in H. destruct H as [H H3]. apply andb_true_iff in H. destruct H as [H1 H2].
  apply negb_true_iff in H2. apply negb_true_iff in H3. apply negb_true_iff in H4. auto.
Qed.

Theorem edges_wf_own : forall pr, wf_mod_own_strong pr = true ->
  same_edges (edges_model pr) (drop_own pr (edges_py pr)) = true.
Proof.
  intros pr H. unfold wf_mod_own_strong in H. apply andb_true_iff in H. destruct H as [H Hreb].
  apply negb_true_iff in Hreb. destruct (wf_mod_own_classes pr H) as [Hshape [Himp [Hall Hreg]]].
  apply same_edges_iff. intro e.
  apply (edges_agree_general pr Hshape Himp Hall Hreg (no_bad_strong pr Hshape Hall Hreb) e).
Qed.

(* the strengthened predicate is satisfiable: the layout of the bounded theorem (an __init__ re-exporting two names of
   a submodule, nested packages, same-named modules), the F32 witness, and every wf_mod_own project of the bounded domain *)
Example wf_mod_own_strong_inhabited :
  wf_mod_own_strong layout = true /\ wf_mod_own_strong w_init_own = true /\ wf_mod_own_strong w_cache = true /\
  forallb (fun imp => forallb (fun f =>
     let pr := with_stmt imp (Build_import_stmt f false PModule) in implb (wf_mod_own pr) (wf_mod_own_strong pr)) forms)
    (module_names layout) = true.
Proof. vm_compute. auto. Qed.

(* wf_project does not exclude re-exports: a/sub/__init__.py "from ..impl import fa", top.py "from a.sub import fa" *)
Definition w_reexp : project :=
  [md [1%N] true []; md [1%N; 5%N] false []; md [1%N; 9%N] true [stmt (ImportRel 2 [5%N] [mk 6%N])];
   md [8%N] false [stmt (ImportFrom [1%N; 9%N] [mk 6%N])]].

Example wf_project_reexport_example :
  wf_project w_reexp = true /\ edges_model w_reexp = [([1%N; 9%N], [1%N; 5%N]); ([8%N], [1%N; 5%N])].
Proof. vm_compute. auto. Qed.
