(* C12 — instability, distance and maximum depth: model = specification. *)
From Coq Require Import NArith ZArith QArith Qabs List Bool Arith Lia Lqa.
From PV Require Import Deps.PyImport Deps.Imports Deps.Metrics Deps.MetricsProofs.
Import ListNotations.
Local Open Scope nat_scope.

Lemma Zpos_of_nat : forall t, 0 < t -> Zpos (Pos.of_nat t) = Z.of_nat t.
Proof.
  intros [|n] H; [lia|]. rewrite <- Pos.of_nat_succ, Zpos_P_of_succ_nat, Nat2Z.inj_succ. reflexivity.
Qed.

(* I = Ce / (Ca + Ce), 0 when both are 0 *)
Lemma instability_formula : forall ca ce, (instability ca ce == instability_spec ca ce)%Q.
Proof.
  intros. unfold instability, instability_spec.
  destruct (ca + ce) as [|t] eqn:E.
  - reflexivity.
  - change (Nat.ltb 0 (S t)) with true. change (Nat.eqb (S t) 0) with false. cbv iota.
    rewrite <- (Zpos_of_nat (S t)) by lia. apply Qmake_Qdiv.
Qed.

Lemma instability_range : forall ca ce, (0 <= instability ca ce <= 1)%Q.
Proof.
  intros. unfold instability.
  destruct (ca + ce) as [|t] eqn:E.
  - change (Nat.ltb 0 0) with false. cbv iota. split; discriminate.
  - change (Nat.ltb 0 (S t)) with true. cbv iota.
    unfold Qle; cbn [Qnum Qden]. rewrite Zpos_of_nat by lia. split; lia.
Qed.

Lemma abstractness_range : forall ab pub, ab <= pub -> (0 <= abstractness ab pub <= 1)%Q.
Proof.
  intros ab pub H. unfold abstractness. destruct pub as [|p].
  - change (Nat.eqb 0 0) with true. cbv iota. split; discriminate.
  - change (Nat.eqb (S p) 0) with false. cbv iota. unfold Qle; cbn [Qnum Qden]. rewrite Zpos_of_nat by lia. split; lia.
Qed.

Lemma distance_is_spec : forall a i, distance a i = distance_spec a i.
Proof. reflexivity. Qed.

Lemma distance_range_gen : forall a i, (0 <= a <= 1)%Q -> (0 <= i <= 1)%Q -> (0 <= distance a i <= 1)%Q.
Proof.
  intros a i Ha Hi. unfold distance. split.
  - apply Qabs_nonneg.
  - apply Qabs_Qle_condition. split; lra.
Qed.

Lemma distance_range : forall ca ce ab pub, ab <= pub ->
  (0 <= distance (abstractness ab pub) (instability ca ce) <= 1)%Q.
Proof. intros. apply distance_range_gen. apply abstractness_range; assumption. apply instability_range. Qed.

(* ---------------------------------------------------------------------------------------- *)
(* maximum depth = longest chain on acyclic graphs                                           *)
(* ---------------------------------------------------------------------------------------- *)
Lemma succs_edge : forall es m s, In s (succs es m) -> In (m, s) es.
Proof.
  intros es m s H. unfold succs in H. apply in_map_iff in H. destruct H as [[a b] [Hs Hf]].
  apply filter_In in Hf. destruct Hf as [Hin He]. simpl in *. apply path_eqb_eq in He. subst. assumption.
Qed.

Section Ranked.
Variable es : list edge.
Variable rank : path -> nat.
Hypothesis rank_dec : forall e, In e es -> rank (snd e) < rank (fst e).

Lemma succ_rank : forall m s, In s (succs es m) -> rank s < rank m.
Proof. intros m s H. apply succs_edge in H. apply (rank_dec (m, s)). assumption. Qed.

Lemma fold_max_ext : forall (l : list path) (F G : path -> nat) a,
  (forall s, In s l -> F s = G s) ->
  fold_left (fun acc s => Nat.max acc (F s)) l a = fold_left (fun acc s => Nat.max acc (G s)) l a.
Proof.
  induction l as [|x l IH]; simpl; intros; auto.
  rewrite (H x) by auto. apply IH. intros. apply H. auto.
Qed.

Lemma longest_fuel : forall f1 f2 m, rank m < f1 -> rank m < f2 -> longest_from f1 es m = longest_from f2 es m.
Proof.
  induction f1 as [|f1 IH]; intros f2 m H1 H2; [lia|].
  destruct f2 as [|f2]; [lia|]. simpl.
  apply fold_max_ext. intros s Hs. f_equal. apply succ_rank in Hs. apply IH; lia.
Qed.

Lemma fold_omax : forall (l : list path) (F : path -> option nat) (G : path -> nat) d a0,
  (forall s, In s l -> F s = Some (d + S (G s))) ->
  fold_left (fun acc s => omax acc (F s)) l (Some (d + a0)) =
  Some (d + fold_left (fun acc s => Nat.max acc (S (G s))) l a0).
Proof.
  induction l as [|x l IH]; simpl; intros F G d a0 H; auto.
  rewrite (H x) by auto. simpl. rewrite Nat.add_max_distr_l. apply IH. intros. apply H. auto.
Qed.

Lemma depth_ranked : forall fuel cur visited d,
  rank cur < fuel -> (forall x, In x visited -> rank cur < rank x) ->
  calculateDepthFromModule fuel es visited cur d = Some (d + longest_from fuel es cur).
Proof.
  induction fuel as [|f IH]; intros cur visited d Hf Hv; [lia|].
  simpl.
  destruct (mem_path cur visited) eqn:Em.
  - apply mem_path_In in Em. apply Hv in Em. lia.
  - replace (Some d) with (Some (d + 0)) by (f_equal; lia).
    apply fold_omax. intros s Hs. pose proof (succ_rank _ _ Hs) as Hr.
    rewrite IH.
    + f_equal. lia.
    + lia.
    + intros x [Hx|Hx]; [subst; assumption|]. apply Hv in Hx. lia.
Qed.

Lemma fold_omax_nodes : forall (l : list path) (F : path -> option nat) (G : path -> nat) a,
  (forall m, In m l -> F m = Some (G m)) ->
  fold_left (fun acc m => omax acc (F m)) l (Some a) = Some (fold_left (fun acc m => Nat.max acc (G m)) l a).
Proof.
  induction l as [|x l IH]; simpl; intros F G a H; auto.
  rewrite (H x) by auto. simpl. apply IH. intros. apply H. auto.
Qed.

Lemma max_depth_ranked : forall nodes, (forall m, rank m < length nodes) ->
  calculateMaxDepth nodes es = Some (longest_chain nodes es).
Proof.
  intros nodes Hb. unfold calculateMaxDepth, longest_chain.
  apply fold_omax_nodes. intros m _.
  rewrite depth_ranked; [| specialize (Hb m); lia | intros x []].
  rewrite Nat.add_0_l. f_equal. apply longest_fuel; specialize (Hb m); lia.
Qed.

(* longest_from is the length of the longest chain: no chain is longer, and one is as long *)
Lemma chain_le_longest : forall l fuel m, rank m < fuel -> chain es m l -> length l <= longest_from fuel es m.
Proof.
  induction l as [|s l IH]; intros fuel m Hf Hc; simpl; [lia|].
  inversion Hc as [|m' s' l' H1 H2]; subst. destruct fuel as [|f]; [lia|]. simpl.
  pose proof (succ_rank _ _ H1) as Hr.
  assert (Hs : length l <= longest_from f es s) by (apply IH; [lia|exact H2]).
  assert (Hmono : forall (ls : list path) a b, a <= b ->
            fold_left (fun acc x => Nat.max acc (S (longest_from f es x))) ls a <=
            fold_left (fun acc x => Nat.max acc (S (longest_from f es x))) ls b).
  { induction ls as [|y ls IHl]; simpl; intros; auto. apply IHl. lia. }
  assert (Hge : forall (ls : list path) a, a <= fold_left (fun acc x => Nat.max acc (S (longest_from f es x))) ls a).
  { induction ls as [|y ls IHl]; simpl; intros; auto. etransitivity; [|apply IHl]. lia. }
  assert (Hin : forall (ls : list path) a, In s ls ->
            S (longest_from f es s) <= fold_left (fun acc x => Nat.max acc (S (longest_from f es x))) ls a).
  { induction ls as [|y ls IHl]; simpl; intros a Hy; [contradiction|]. destruct Hy as [Hy|Hy].
    - subst. etransitivity; [|apply Hge]. lia.
    - apply IHl. assumption. }
  specialize (Hin (succs es m) 0 H1). lia.
Qed.

Lemma longest_attained : forall fuel m, exists l, chain es m l /\ length l = longest_from fuel es m.
Proof.
  induction fuel as [|f IH]; intro m.
  - exists []. split; [constructor|reflexivity].
  - simpl.
    assert (H : forall (ls : list path) a, (forall x, In x ls -> In x (succs es m)) ->
              (exists l, chain es m l /\ length l = a) ->
              exists l, chain es m l /\ length l = fold_left (fun acc x => Nat.max acc (S (longest_from f es x))) ls a).
    { induction ls as [|y ls IHl]; simpl; intros a Hsub Ha; auto.
      apply IHl; [intros; apply Hsub; auto|].
      destruct (Nat.max_spec a (S (longest_from f es y))) as [[_ E]|[_ E]]; rewrite E; auto.
      destruct (IH y) as [l [Hc Hl]]. exists (y :: l). split; [constructor; auto|simpl; lia]. }
    apply H; [auto|]. exists []. split; [constructor|reflexivity].
Qed.
End Ranked.
