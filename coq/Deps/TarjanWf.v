(* C11 — when is an [mgraph] (the detector's view: modules in map-iteration order, each with
   its imports in map-iteration order) a presentation of a [digraph] (the specification's
   view)?  [wf g mg] says so; [wfb] decides it; the graph built by AddModule/AddDependency
   satisfies it in every iteration order.  With Deps/TarjanCorrect.v this gives the unbounded
   exactness theorem [tarjan_exact]. *)
From Coq Require Import List NArith ZArith Bool Arith Lia Permutation.
From PV Require Import Gen.DepsConst Deps.SccSpec Deps.SccSpecProofs Deps.Tarjan Deps.DepsRun
  Deps.TarjanProofs Deps.TarjanInv Deps.TarjanCorrect.
Import ListNotations.
Local Open Scope nat_scope.

(* ---------- well-formed presentations ---------- *)
Definition wf (g : digraph) (mg : mgraph) : Prop :=
  NoDup (verts g) /\ NoDup (map n_name mg) /\
  (forall x, In x (map n_name mg) <-> In x (verts g)) /\
  (* every import the detector sees is an import between two modules of the project *)
  (forall n d, In n mg -> In d (n_deps n) -> edge g (n_name n) d) /\
  (* every import between two different modules of the project is seen *)
  (forall a b, edge g a b -> a <> b -> exists n, In n mg /\ n_name n = a /\ In b (n_deps n)).

Definition edgeb (g : digraph) (a b : N) : bool :=
  existsb (fun e => N.eqb (fst e) a && N.eqb (snd e) b) (edges g) && memb a (verts g) && memb b (verts g).

Definition wfb (g : digraph) (mg : mgraph) : bool :=
  nodupb (verts g) && nodupb (map n_name mg) &&
  forallb (fun x => memb x (verts g)) (map n_name mg) &&
  forallb (fun x => memb x (map n_name mg)) (verts g) &&
  forallb (fun n => forallb (fun d => edgeb g (n_name n) d) (n_deps n)) mg &&
  forallb (fun e => N.eqb (fst e) (snd e) || negb (edgeb g (fst e) (snd e)) ||
                    existsb (fun n => N.eqb (n_name n) (fst e) && memb (snd e) (n_deps n)) mg) (edges g).

Lemma edgeb_spec : forall g a b, edgeb g a b = true <-> edge g a b.
Proof.
  intros g a b. unfold edgeb, edge. rewrite !andb_true_iff, !memb_In, existsb_exists. split.
  - intros [[[[x y] [He Hxy]] Ha] Hb]. cbn [fst snd] in Hxy. apply andb_true_iff in Hxy. destruct Hxy as [E1 E2].
    apply N.eqb_eq in E1. apply N.eqb_eq in E2. subst. auto.
  - intros [He [Ha Hb]]. split; [split|]; try assumption. exists (a, b). split; [exact He|].
    cbn [fst snd]. rewrite !N.eqb_refl. reflexivity.
Qed.

Lemma nodupb_complete : forall l, NoDup l -> nodupb l = true.
Proof.
  induction l as [|x l IH]; intros H; [reflexivity|]. inversion H; subst. cbn [nodupb].
  rewrite IH by assumption. rewrite (proj2 (memb_false x l)) by assumption. reflexivity.
Qed.

Lemma nodupb_spec : forall l, nodupb l = true <-> NoDup l.
Proof. intros l. split; [apply nodupb_sound|apply nodupb_complete]. Qed.

Theorem wfb_spec : forall g mg, wfb g mg = true <-> wf g mg.
Proof.
  intros g mg. unfold wfb, wf. rewrite !andb_true_iff, !nodupb_spec, !forallb_forall.
  split.
  - intros [[[[[H1 H2] H3] H4] H5] H6]. split; [exact H1|]. split; [exact H2|]. split; [|split].
    + intros x. split; intros Hx; [apply memb_In; apply H3; exact Hx|apply memb_In; apply H4; exact Hx].
    + intros n d Hn Hd. apply edgeb_spec. specialize (H5 n Hn). rewrite forallb_forall in H5. apply H5. exact Hd.
    + intros a b He Hab. pose proof He as [Hin _]. specialize (H6 (a, b) Hin). cbn [fst snd] in H6.
      apply orb_true_iff in H6. destruct H6 as [H6|H6].
      * apply orb_true_iff in H6. destruct H6 as [H6|H6]; [apply N.eqb_eq in H6; contradiction|].
        apply negb_true_iff in H6. apply edgeb_spec in He. congruence.
      * apply existsb_exists in H6. destruct H6 as [n [Hn Hq]]. apply andb_true_iff in Hq. destruct Hq as [Q1 Q2].
        apply N.eqb_eq in Q1. apply memb_In in Q2. exists n. auto.
  - intros [H1 [H2 [H3 [H4 H5]]]]. repeat split; try assumption.
    + intros x Hx. apply memb_In. apply H3. exact Hx.
    + intros x Hx. apply memb_In. apply H3. exact Hx.
    + intros n Hn. apply forallb_forall. intros d Hd. apply edgeb_spec. apply (H4 n d Hn Hd).
    + intros [a b] Hin. cbn [fst snd]. destruct (N.eqb_spec a b) as [E|E]; [reflexivity|]. cbn [orb].
      destruct (edgeb g a b) eqn:Eb; [|reflexivity]. cbn [negb orb]. apply edgeb_spec in Eb.
      destruct (H5 a b Eb E) as [n [Hn [Q1 Q2]]]. apply existsb_exists. exists n. split; [exact Hn|].
      rewrite Q1, N.eqb_refl. apply memb_In in Q2. rewrite Q2. reflexivity.
Qed.

(* ---------- lookup of a module ---------- *)
Lemma get_node_some : forall mg m n, get_node mg m = Some n -> In n mg /\ n_name n = m.
Proof. intros mg m n H. unfold get_node in H. apply find_some in H. destruct H as [H1 H2]. apply N.eqb_eq in H2. auto. Qed.

Lemma get_node_none : forall mg m n, get_node mg m = None -> In n mg -> n_name n <> m.
Proof. intros mg m n H Hn E. unfold get_node in H. pose proof (find_none _ _ H n Hn) as Q. cbv beta in Q. rewrite E, N.eqb_refl in Q. discriminate. Qed.

Lemma get_node_unique : forall mg n, NoDup (map n_name mg) -> In n mg -> get_node mg (n_name n) = Some n.
Proof.
  induction mg as [|a r IH]; intros n Hnd Hn; [destruct Hn|]. cbn [map] in Hnd. inversion Hnd as [|? ? Ha Hr]; subst.
  unfold get_node. cbn [find]. destruct (N.eqb_spec (n_name a) (n_name n)) as [E|E].
  - destruct Hn as [->|Hn]; [reflexivity|]. exfalso. apply Ha. rewrite E. apply in_map. exact Hn.
  - destruct Hn as [->|Hn]; [congruence|]. apply IH; assumption.
Qed.

(* ---------- the exactness theorem for every well-formed presentation ---------- *)
Theorem tarjan_exact : forall g mg, wf g mg ->
  exists out, tarjan mg = Some out /\ Permutation (map (norm g) out) (scc_spec g) /\
              Forall (fun c => NoDup c /\ forall x, In x c -> In x (verts g)) out.
Proof.
  intros g mg [H1 [H2 [H3 [H4 H5]]]]. apply tarjan_exact_wf.
  - intros m d Hd. unfold deps_of in Hd. destruct (get_node mg m) as [n|] eqn:E; [|destruct Hd].
    apply get_node_some in E. destruct E as [Hn <-]. apply (H4 n d Hn Hd).
  - intros m d He Hne. destruct (H5 m d He Hne) as [n [Hn [<- Hd]]]. unfold deps_of.
    rewrite (get_node_unique mg n H2 Hn). exact Hd.
  - exact H1.
  - intros n Hn. apply H3. apply in_map. exact Hn.
  - intros v Hv. apply H3 in Hv. apply in_map_iff in Hv. destruct Hv as [n [E Hn]]. exists n. auto.
  - rewrite <- (map_length n_name mg). apply NoDup_incl_length; [exact H1|]. intros x Hx. apply H3. exact Hx.
Qed.

Theorem tarjan_exact_b : forall g mg, wfb g mg = true ->
  exists out, tarjan mg = Some out /\ Permutation (map (norm g) out) (scc_spec g) /\
              Forall (fun c => NoDup c /\ forall x, In x c -> In x (verts g)) out.
Proof. intros g mg H. apply tarjan_exact. apply wfb_spec. exact H. Qed.

(* ---------- [wf] does not depend on the iteration orders ---------- *)
Lemma wf_perm : forall g mg mg', Permutation mg mg' -> wf g mg -> wf g mg'.
Proof.
  intros g mg mg' P [H1 [H2 [H3 [H4 H5]]]].
  assert (Pn : Permutation (map n_name mg) (map n_name mg')) by (apply Permutation_map; exact P).
  split; [exact H1|]. split; [eapply Permutation_NoDup; eassumption|]. split; [|split].
  - intros x. rewrite <- (H3 x). split; apply Permutation_in; [symmetry|]; exact Pn.
  - intros n d Hn Hd. apply (H4 n d); [eapply Permutation_in; [symmetry; exact P|exact Hn]|exact Hd].
  - intros a b He Hab. destruct (H5 a b He Hab) as [n [Hn Q]]. exists n. split; [eapply Permutation_in; eassumption|exact Q].
Qed.

Lemma wf_rev_deps : forall g mg, wf g mg -> wf g (rev_deps mg).
Proof.
  intros g mg [H1 [H2 [H3 [H4 H5]]]].
  assert (En : map n_name (rev_deps mg) = map n_name mg).
  { unfold rev_deps. rewrite map_map. apply map_ext. intros n. reflexivity. }
  split; [exact H1|]. rewrite En. split; [exact H2|]. split; [exact H3|]. split.
  - intros n' d Hn' Hd. unfold rev_deps in Hn'. apply in_map_iff in Hn'. destruct Hn' as [n [<- Hn]].
    cbn [n_name n_deps] in *. apply in_rev in Hd. apply (H4 n d Hn Hd).
  - intros a b He Hab. destruct (H5 a b He Hab) as [n [Hn [Q1 Q2]]].
    exists (Build_mnode (n_name n) (rev (n_deps n)) (n_indegree n)). split; [|split].
    + unfold rev_deps. apply in_map_iff. exists n. auto.
    + exact Q1.
    + cbn [n_deps]. apply in_rev. rewrite rev_involutive. exact Q2.
Qed.

Lemma rotate_perm : forall {A} k (l : list A), Permutation (rotate k l) l.
Proof.
  intros A. induction k as [|k IH]; intros l; [destruct l; reflexivity|]. destruct l as [|x r]; [reflexivity|].
  cbn [rotate]. rewrite IH. rewrite Permutation_app_comm. reflexivity.
Qed.

Lemma wf_orders : forall g mg, wf g mg -> forall mg', In mg' (orders mg) -> wf g mg'.
Proof.
  intros g mg H mg' Hin. unfold orders in Hin. cbn [In] in Hin.
  destruct Hin as [<-|[<-|[<-|[<-|[<-|[<-|[]]]]]]].
  - exact H.
  - eapply wf_perm; [apply Permutation_rev|exact H].
  - apply wf_rev_deps; exact H.
  - eapply wf_perm; [apply Permutation_rev|apply wf_rev_deps; exact H].
  - eapply wf_perm; [symmetry; apply rotate_perm|exact H].
  - eapply wf_perm; [symmetry; apply rotate_perm|apply wf_rev_deps; exact H].
Qed.

(* ---------- AddModule / AddDependency build a well-formed presentation ---------- *)
Lemma add_module_spec : forall mg m,
  (forall x, In x (map n_name (add_module mg m)) <-> In x (map n_name mg) \/ x = m) /\
  (NoDup (map n_name mg) -> NoDup (map n_name (add_module mg m))) /\
  ((forall n, In n mg -> n_deps n = []) -> forall n, In n (add_module mg m) -> n_deps n = []).
Proof.
  intros mg m. unfold add_module. destruct (get_node mg m) as [n0|] eqn:E.
  - apply get_node_some in E. destruct E as [Hn0 E0]. split; [|split; auto].
    intros x. split; [auto|]. intros [Hx| ->]; [exact Hx|]. rewrite <- E0. apply in_map. exact Hn0.
  - assert (Hm : ~ In m (map n_name mg)).
    { intro Hi. apply in_map_iff in Hi. destruct Hi as [n [Q Hn]]. exact (get_node_none mg m n E Hn Q). }
    rewrite map_app. cbn [map n_name]. split; [|split].
    + intros x. rewrite in_app_iff. cbn [In]. intuition congruence.
    + intros Hnd. apply nodup_app_disjoint; [exact Hnd|constructor; [intros []|constructor]|].
      intros x Hx [<-|[]]. contradiction.
    + intros Hd n Hn. apply in_app_iff in Hn. destruct Hn as [Hn|[<-|[]]]; [apply Hd; exact Hn|reflexivity].
Qed.

Lemma add_modules_spec : forall vs mg,
  (forall x, In x (map n_name (fold_left add_module vs mg)) <-> In x (map n_name mg) \/ In x vs) /\
  (NoDup (map n_name mg) -> NoDup (map n_name (fold_left add_module vs mg))) /\
  ((forall n, In n mg -> n_deps n = []) -> forall n, In n (fold_left add_module vs mg) -> n_deps n = []).
Proof.
  induction vs as [|v vs IH]; intros mg; cbn [fold_left].
  - split; [|split; auto]. intros x. cbn [In]. tauto.
  - destruct (IH (add_module mg v)) as [A [B C]]. destruct (add_module_spec mg v) as [A0 [B0 C0]]. split; [|split].
    + intros x. rewrite A, A0. cbn [In]. intuition congruence.
    + intros H. apply B. apply B0. exact H.
    + intros H. apply C. apply C0. exact H.
Qed.

(* the node update of AddDependency *)
Definition upd (from to : N) (n : mnode) : mnode :=
  let n1 := if N.eqb (n_name n) from then Build_mnode (n_name n) (n_deps n ++ [to]) (n_indegree n) else n in
  if N.eqb (n_name n1) to then Build_mnode (n_name n1) (n_deps n1) (n_indegree n1 + 1)%Z else n1.

Lemma upd_name : forall a b n, n_name (upd a b n) = n_name n.
Proof. intros a b n. unfold upd. cbv zeta. destruct (N.eqb (n_name n) a); cbn [n_name]; destruct (N.eqb (n_name n) b); reflexivity. Qed.

Lemma upd_deps : forall a b n, n_deps (upd a b n) = if N.eqb (n_name n) a then n_deps n ++ [b] else n_deps n.
Proof. intros a b n. unfold upd. cbv zeta. destruct (N.eqb (n_name n) a); cbn [n_name n_deps]; destruct (N.eqb (n_name n) b); reflexivity. Qed.

(* the modules are [NM]; the imports recorded so far are those among [es] between two
   different modules *)
Definition depsP (NM : list N) (es : list (N * N)) (mg : mgraph) : Prop :=
  map n_name mg = NM /\
  forall n, In n mg -> forall d, In d (n_deps n) <-> (In (n_name n, d) es /\ n_name n <> d /\ In d NM).

Lemma add_dependency_step : forall NM es mg a b, NoDup NM -> depsP NM es mg ->
  depsP NM (es ++ [(a, b)]) (add_dependency mg a b).
Proof.
  intros NM es mg a b Hnd [Hnm HP].
  assert (Hname : forall n, In n mg -> In (n_name n) NM) by (intros n Hn; rewrite <- Hnm; apply in_map; exact Hn).
  assert (Keep : (forall n, In n mg -> ~ (n_name n = a /\ a <> b /\ In b NM) \/ In b (n_deps n)) ->
                 depsP NM (es ++ [(a, b)]) mg).
  { intros K. split; [exact Hnm|]. intros n Hn d. rewrite (HP n Hn d). rewrite in_app_iff. cbn [In]. split.
    - intros [Q1 Q2]. tauto.
    - intros [[Q1|[Q1|[]]] [Q2 Q3]]; [tauto|]. inversion Q1 as [[Qa Qb]]. subst d.
      destruct (K n Hn) as [K1|K1]; [exfalso; apply K1; split; [symmetry; exact Qa|split; [rewrite Qa; exact Q2|exact Q3]]|].
      apply (HP n Hn b) in K1. tauto. }
  unfold add_dependency.
  destruct (get_node mg a) as [fn|] eqn:Ea.
  2: { apply Keep. intros n Hn. left. intros [Q _]. exact (get_node_none mg a n Ea Hn Q). }
  destruct (get_node mg b) as [tn|] eqn:Eb.
  2: { apply Keep. intros n Hn. left. intros [_ [_ Q]]. rewrite <- Hnm in Q. apply in_map_iff in Q.
       destruct Q as [k [Qk Hk]]. exact (get_node_none mg b k Eb Hk Qk). }
  apply get_node_some in Eb. destruct Eb as [Htn Etn].
  destruct (N.eqb_spec a b) as [Eab|Eab]; [apply Keep; intros n Hn; left; tauto|].
  destruct (memb b (n_deps fn)) eqn:Mb.
  { apply Keep. intros n Hn. destruct (N.eq_dec (n_name n) a) as [Q|Q]; [right|left; tauto].
    pose proof (get_node_unique mg n) as U. rewrite Hnm in U. specialize (U Hnd Hn). rewrite Q, Ea in U.
    inversion U; subst. apply memb_In. exact Mb. }
  change (depsP NM (es ++ [(a, b)]) (map (upd a b) mg)).
  assert (HbNM : In b NM) by (rewrite <- Etn; apply Hname; exact Htn).
  split.
  - rewrite map_map. rewrite <- Hnm. apply map_ext. intros n. apply upd_name.
  - intros n' Hn' d. apply in_map_iff in Hn'. destruct Hn' as [n [<- Hn]]. rewrite upd_name, upd_deps.
    destruct (N.eqb_spec (n_name n) a) as [Q|Q].
    + rewrite in_app_iff. cbn [In]. rewrite (HP n Hn d). rewrite in_app_iff. cbn [In]. split.
      * intros [[Q1 [Q2 Q3]]|[<-|[]]]; [tauto|]. split; [right; left; rewrite Q; reflexivity|]. split; [congruence|exact HbNM].
      * intros [[Q1|[Q1|[]]] [Q2 Q3]]; [left; tauto|]. inversion Q1. right; left; reflexivity.
    + rewrite (HP n Hn d), in_app_iff. cbn [In]. split; [tauto|].
      intros [[Q1|[Q1|[]]] Q2]; [tauto|]. inversion Q1. congruence.
Qed.

Lemma add_dependencies_spec : forall NM es done mg, NoDup NM -> depsP NM done mg ->
  depsP NM (done ++ es) (fold_left (fun g e => add_dependency g (fst e) (snd e)) es mg).
Proof.
  intros NM. induction es as [|[a b] es IH]; intros done mg Hnd HP; cbn [fold_left].
  - rewrite app_nil_r. exact HP.
  - cbn [fst snd]. replace (done ++ (a, b) :: es) with ((done ++ [(a, b)]) ++ es) by (rewrite <- app_assoc; reflexivity).
    apply IH; [exact Hnd|]. apply add_dependency_step; assumption.
Qed.

Theorem build_graph_wf : forall g, NoDup (verts g) -> wf g (build_graph g).
Proof.
  intros g Hv. unfold build_graph.
  destruct (add_modules_spec (verts g) []) as [A [B C]].
  set (g0 := fold_left add_module (verts g) []) in *.
  set (NM := map n_name g0).
  assert (HNM : forall x, In x NM <-> In x (verts g)) by (intros x; unfold NM; rewrite A; cbn [map In]; tauto).
  assert (Hnd : NoDup NM) by (apply B; constructor).
  assert (P0 : depsP NM [] g0).
  { split; [reflexivity|]. intros n Hn d. rewrite (C (fun k (Hk : In k []) => match Hk with end) n Hn). cbn [In]. tauto. }
  pose proof (add_dependencies_spec NM (edges g) [] g0 Hnd P0) as [Hnm HP]. cbn [app] in Hnm, HP.
  set (mg := fold_left (fun g1 e => add_dependency g1 (fst e) (snd e)) (edges g) g0) in *.
  split; [exact Hv|]. rewrite Hnm. split; [exact Hnd|]. split; [exact HNM|]. split.
  - intros n d Hn Hd. apply (HP n Hn d) in Hd. destruct Hd as [Q1 [Q2 Q3]]. split; [exact Q1|]. split; [|apply HNM; exact Q3].
    apply HNM. rewrite <- Hnm. apply in_map. exact Hn.
  - intros a b [He [Ha Hb]] Hab. apply HNM in Ha. rewrite <- Hnm in Ha. apply in_map_iff in Ha. destruct Ha as [n [<- Hn]].
    exists n. split; [exact Hn|]. split; [reflexivity|]. apply (HP n Hn b). split; [exact He|]. split; [exact Hab|apply HNM; exact Hb].
Qed.

(* the shape of the bounded theorem, without the bound: every digraph with distinct module
   names, every one of the six iteration orders *)
Theorem tarjan_exact_orders : forall g, NoDup (verts g) ->
  forall mg, In mg (orders (build_graph g)) ->
  exists out, tarjan mg = Some out /\ Permutation (map (norm g) out) (scc_spec g) /\
              Forall (fun c => NoDup c /\ forall x, In x c -> In x (verts g)) out.
Proof. intros g Hv mg Hin. apply tarjan_exact. eapply wf_orders; [apply build_graph_wf; exact Hv|exact Hin]. Qed.

(* ---------- readings of the exactness theorem ---------- *)
(* (1) the recursion fuel |modules|+1 is never exhausted and the code does not panic *)
Theorem tarjan_terminates : forall g mg, wf g mg -> exists out, tarjan mg = Some out.
Proof. intros g mg H. destruct (tarjan_exact g mg H) as [out [T _]]. exists out. exact T. Qed.

Lemma exact_class : forall g out, Permutation (map (norm g) out) (scc_spec g) ->
  Forall (fun c => NoDup c /\ forall x, In x c -> In x (verts g)) out ->
  forall c, In c out -> 2 <= length (norm g c) /\ is_class g (norm g c).
Proof.
  intros g out Hp Hf c Hc. apply scc_spec_char. eapply Permutation_in; [exact Hp|]. apply in_map. exact Hc.
Qed.

(* (2) every reported component is strongly connected, maximal, and has two or more modules *)
Theorem tarjan_components_sccs : forall g mg out, wf g mg -> tarjan mg = Some out ->
  forall c, In c out ->
    2 <= length c /\ NoDup c /\ (forall x, In x c -> In x (verts g)) /\
    (forall x y, In x c -> In y c -> mutual g x y) /\
    (forall x w, In x c -> In w (verts g) -> mutual g x w -> In w c).
Proof.
  intros g mg out Hwf T c Hc. destruct (tarjan_exact g mg Hwf) as [out' [T' [Hp Hf]]].
  rewrite T in T'. inversion T'; subst out'. clear T'.
  destruct (exact_class g out Hp Hf c Hc) as [Hl [_ [Hmut Hmax]]].
  rewrite Forall_forall in Hf. destruct (Hf c Hc) as [Hnd Hsub]. destruct Hwf as [Hv _].
  rewrite norm_length in Hl by assumption.
  split; [exact Hl|]. split; [exact Hnd|]. split; [exact Hsub|]. split.
  - intros x y Hx Hy. apply Hmut; apply norm_In; auto.
  - intros x w Hx Hw Hmu. apply (norm_In g c w). apply (Hmax x w); [apply norm_In; auto|exact Hw|exact Hmu].
Qed.

(* (3) two different modules are reported in one component iff each reaches the other; no
   module is reported twice *)
Theorem tarjan_same_cycle : forall g mg out, wf g mg -> tarjan mg = Some out ->
  NoDup (concat out) /\
  forall a b, In a (verts g) -> In b (verts g) -> a <> b ->
    ((exists c, In c out /\ In a c /\ In b c) <-> mutual g a b).
Proof.
  intros g mg out Hwf T. split; [apply (tarjan_components_partial mg out T)|].
  destruct (tarjan_exact g mg Hwf) as [out' [T' [Hp Hf]]]. rewrite T in T'. inversion T'; subst out'. clear T'.
  intros a b Ha Hb Hab. rewrite <- (scc_spec_same_cycle g a b Ha Hb Hab). rewrite Forall_forall in Hf. split.
  - intros [c [Hc [Hac Hbc]]]. exists (norm g c). split; [|split; apply norm_In; auto].
    eapply Permutation_in; [exact Hp|]. apply in_map. exact Hc.
  - intros [c [Hc [Hac Hbc]]]. apply (Permutation_in _ (Permutation_sym Hp)) in Hc.
    apply in_map_iff in Hc. destruct Hc as [c0 [E Hc0]]. subst c. exists c0.
    apply norm_In in Hac. apply norm_In in Hbc. tauto.
Qed.

(* ---------- the certificate checker is complete, so it accepts the model's output ---------- *)
Lemma remove_first_in : forall c l, In c l -> exists r, remove_first c l = Some r.
Proof.
  induction l as [|d l IH]; intros H; [destruct H|]. cbn [remove_first].
  destruct (list_eqb c d) eqn:E; [eexists; reflexivity|].
  destruct H as [H|H]; [subst; rewrite (proj2 (list_eqb_eq c c) eq_refl) in E; discriminate|].
  destruct (IH H) as [r Hr]. rewrite Hr. eexists; reflexivity.
Qed.

Lemma perm_eqb_complete : forall a b, Permutation a b -> perm_eqb a b = true.
Proof.
  induction a as [|c a IH]; intros b H.
  - apply Permutation_nil in H. subst. reflexivity.
  - cbn [perm_eqb]. assert (Hc : In c b) by (eapply Permutation_in; [exact H|left; reflexivity]).
    destruct (remove_first_in c b Hc) as [r Hr]. rewrite Hr. apply IH.
    apply remove_first_perm in Hr. apply (Permutation_cons_inv (a := c)). rewrite H. exact Hr.
Qed.

Theorem check_sccs_complete : forall g out, Permutation (map (norm g) out) (scc_spec g) ->
  Forall (fun c => NoDup c /\ forall x, In x c -> In x (verts g)) out -> check_sccs g out = true.
Proof.
  intros g out Hp Hf. unfold check_sccs, check_sccs_with. apply andb_true_iff. split; [|apply perm_eqb_complete; exact Hp].
  apply forallb_forall. intros c Hc. rewrite Forall_forall in Hf. destruct (Hf c Hc) as [Hn Hs].
  apply andb_true_iff. split; [apply nodupb_complete; exact Hn|]. apply forallb_forall. intros x Hx. apply memb_In. apply Hs. exact Hx.
Qed.

Theorem tarjan_checked : forall g mg, wf g mg -> exists out, tarjan mg = Some out /\ check_sccs g out = true.
Proof.
  intros g mg H. destruct (tarjan_exact g mg H) as [out [T [Hp Hf]]]. exists out. split; [exact T|].
  apply check_sccs_complete; assumption.
Qed.

(* ---------- DetectCircularDependencies: the reported statistics are the specified ones ---------- *)
Theorem detect_exact : forall g mg, wf g mg ->
  exists r, DetectCircularDependencies mg = Some r /\
    Permutation (map (norm g) (map c_modules (r_cycles r))) (scc_spec g) /\
    r_total_cycles r = Z.of_nat (spec_cycle_count g) /\
    r_total_modules r = Z.of_nat (spec_modules_in_cycles g) /\
    Permutation (map c_size (r_cycles r)) (map Z.of_nat (spec_sizes g)) /\
    r_has r = negb (spec_cycle_count g =? 0).
Proof.
  intros g mg H. destruct (tarjan_checked g mg H) as [out [T Hc]].
  exists (assemble mg out). unfold DetectCircularDependencies. rewrite T. split; [reflexivity|].
  destruct H as [Hv _]. destruct (accepted_stats g mg out Hv Hc) as [A [B [C D]]].
  destruct (check_sccs_sound g out Hc) as [Hp _].
  split; [rewrite D; exact Hp|]. split; [exact A|]. split; [exact B|]. split; [exact C|].
  destruct (tarjan_components_partial mg out T) as [H2 Hn].
  destruct (assemble_counts mg out H2 Hn) as [_ [_ [_ [_ F]]]]. rewrite F.
  destruct (check_sccs_counts g out Hv Hc) as [L _]. rewrite L. reflexivity.
Qed.

(* the hypothesis is satisfiable and decidable by computation *)
Example wf_example :
  let g := Build_digraph [0;1;2;3]%N [(0,1);(1,2);(2,0);(2,3);(3,3);(1,7)]%N in
  wfb g (build_graph g) = true /\ wfb g (rev (rev_deps (build_graph g))) = true /\
  wfb g [Build_mnode 0 [1] 0; Build_mnode 1 [] 0]%N = false.
Proof. vm_compute. repeat split. Qed.
