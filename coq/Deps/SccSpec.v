(* C11 — specification side: the project's import graph, reachability by closure,
   strongly connected components with two or more modules.

   Nothing here looks at how pyscn computes cycles (Tarjan): the spec is "mutual
   reachability classes with >= 2 members", computed by a naive closure.
   Proofs about these definitions are in Deps/SccSpecProofs.v. *)
From Coq Require Import List NArith Bool Arith.
Import ListNotations.

(* Module names are N codes (the harness owns the code <-> name table). *)
Record digraph := Build_digraph { verts : list N; edges : list (N * N) }.

Definition memb (x : N) (l : list N) : bool := existsb (N.eqb x) l.

(* an import between two modules of the project; imports of anything else are
   not part of the project's import graph *)
Definition edge (g : digraph) (a b : N) : Prop :=
  In (a, b) (edges g) /\ In a (verts g) /\ In b (verts g).

(* reflexive-transitive closure of [edge] *)
Inductive path (g : digraph) : N -> N -> Prop :=
| path_refl : forall v, path g v v
| path_step : forall a b c, path g a b -> edge g b c -> path g a c.

(* "each can reach the other through imports" *)
Definition mutual (g : digraph) (a b : N) : Prop := path g a b /\ path g b a.

(* ---------- computable closure ---------- *)
Definition succs (g : digraph) (a : N) : list N :=
  map snd (filter (fun e => N.eqb (fst e) a) (edges g)).

(* one round: X plus every module imported by a member of X; always a sublist of [verts g] *)
Definition expand (g : digraph) (X : list N) : list N :=
  let T := flat_map (succs g) X in
  filter (fun b => memb b X || memb b T) (verts g).

Fixpoint closure (g : digraph) (n : nat) (X : list N) : list N :=
  match n with
  | O => X
  | S n' =>
      let X' := expand g X in
      if Nat.eqb (length X') (length X) then X else closure g n' X'
  end.

(* the modules reachable from v (v itself included when it is a module) *)
Definition reach_set (g : digraph) (v : N) : list N :=
  closure g (length (verts g)) (filter (N.eqb v) (verts g)).

Definition reach_table (g : digraph) : list (N * list N) :=
  map (fun v => (v, reach_set g v)) (verts g).

Definition lookup_set (tbl : list (N * list N)) (v : N) : list N :=
  match find (fun p => N.eqb (fst p) v) tbl with Some p => snd p | None => [] end.

Definition mutualb_tbl (tbl : list (N * list N)) (v w : N) : bool :=
  memb w (lookup_set tbl v) && memb v (lookup_set tbl w).

(* the mutual-reachability class of v, listed in the order of [verts g] *)
Definition scc_of_tbl (g : digraph) (tbl : list (N * list N)) (v : N) : list N :=
  filter (mutualb_tbl tbl v) (verts g).

Definition scc_of (g : digraph) (v : N) : list N := scc_of_tbl g (reach_table g) v.

Definition first_is (v : N) (c : list N) : bool :=
  match c with x :: _ => N.eqb x v | [] => false end.

(* every class exactly once (listed at its first member), classes of one module dropped *)
Definition scc_spec (g : digraph) : list (list N) :=
  let tbl := reach_table g in
  filter (fun c => 2 <=? length c)
    (flat_map (fun v => let c := scc_of_tbl g tbl v in if first_is v c then [c] else []) (verts g)).

(* normal form of a set of modules: listed in the order of [verts g] *)
Definition norm (g : digraph) (c : list N) : list N := filter (fun v => memb v c) (verts g).

(* ---------- derived quantities of the property ---------- *)
Definition spec_cycle_count (g : digraph) : nat := length (scc_spec g).
Definition spec_modules_in_cycles (g : digraph) : nat := length (concat (scc_spec g)).
Definition spec_sizes (g : digraph) : list nat := map (@length N) (scc_spec g).

(* fan-in of a module: number of distinct other modules importing it *)
Definition fan_in (g : digraph) (v : N) : nat :=
  length (filter (fun a => negb (N.eqb a v) && memb v (succs g a)) (verts g)).

(* documented severity table (docs/algorithms/dependency.md "Cycle Severity Assessment"):
   critical: 10+ modules or a member with fan-in > 10; high: 6-9; medium: 3-5; low: 2.
   Codes: 1 low, 2 medium, 3 high, 4 critical. *)
Definition spec_severity (g : digraph) (c : list N) : N :=
  let size := length c in
  if existsb (fun v => 10 <? fan_in g v) c || (10 <=? size) then 4%N
  else if 6 <=? size then 3%N
  else if 3 <=? size then 2%N
  else 1%N.

(* ---------- certificate checker for a reported list of cycles ---------- *)
Fixpoint nodupb (l : list N) : bool :=
  match l with [] => true | x :: r => negb (memb x r) && nodupb r end.

Fixpoint list_eqb (a b : list N) : bool :=
  match a, b with
  | [], [] => true
  | x :: a', y :: b' => N.eqb x y && list_eqb a' b'
  | _, _ => false
  end.

Fixpoint remove_first (c : list N) (l : list (list N)) : option (list (list N)) :=
  match l with
  | [] => None
  | d :: r => if list_eqb c d then Some r
              else match remove_first c r with Some r' => Some (d :: r') | None => None end
  end.

Fixpoint perm_eqb (a b : list (list N)) : bool :=
  match a with
  | [] => match b with [] => true | _ => false end
  | c :: a' => match remove_first c b with Some b' => perm_eqb a' b' | None => false end
  end.

(* accepts [out] only if it is, up to the order of cycles and of modules inside a
   cycle, exactly [scc_spec g] *)
Definition check_sccs_with (g : digraph) (spec : list (list N)) (out : list (list N)) : bool :=
  forallb (fun c => nodupb c && forallb (fun x => memb x (verts g)) c) out
  && perm_eqb (map (norm g) out) spec.

Definition check_sccs (g : digraph) (out : list (list N)) : bool := check_sccs_with g (scc_spec g) out.
