(* Entry points for the correspondence check (harness/c11.py) and the enumeration used by the
   bounded theorem: digraphs from bit masks, iteration orders, compact result codes. *)
From Coq Require Import List NArith ZArith Bool Arith.
From PV Require Import Gen.DepsConst Deps.SccSpec Deps.Tarjan.
Import ListNotations.

Definition all_pairs (vs : list N) : list (N * N) := flat_map (fun a => map (fun b => (a, b)) vs) vs.

Fixpoint select_bits {A} (l : list A) (mask : N) : list A :=
  match l with
  | [] => []
  | x :: r => let rest := select_bits r (N.div2 mask) in if N.odd mask then x :: rest else rest
  end.

Definition vertices (n : nat) : list N := map N.of_nat (seq 0 n).

(* the digraph on modules 0..n-1 whose imports are the ordered pairs (a,b), a,b < n (self-imports
   included), selected by the bits of [mask]; pair (a,b) is bit a*n+b *)
Definition graph_of_mask (n : nat) (mask : N) : digraph :=
  Build_digraph (vertices n) (select_bits (all_pairs (vertices n)) mask).

(* six map-iteration orders of one graph: roots as inserted / reversed / rotated, imports of
   each module as inserted / reversed *)
Definition orders (g : mgraph) : list mgraph :=
  [g; rev g; rev_deps g; rev (rev_deps g); rotate 1 g; rotate 2 (rev_deps g)].

(* the model's components are exactly the spec, for each of the six orders *)
Definition tarjan_ok (g : digraph) : bool :=
  let spec := scc_spec g in
  forallb (fun mg => match tarjan mg with Some out => check_sccs_with g spec out | None => false end)
          (orders (build_graph g)).

Definition ok_mask (n : nat) (m : N) : bool := tarjan_ok (graph_of_mask n m).

(* p holds for every number with [bits] bits appended to [prefix] *)
Fixpoint forall_bits (bits : nat) (prefix : N) (p : N -> bool) : bool :=
  match bits with
  | O => p prefix
  | S k => forall_bits k (2 * prefix) p && forall_bits k (2 * prefix + 1) p
  end.

(* ---------- compact codes for small graphs ---------- *)
Definition min_of (c : list N) : N := match c with [] => 0%N | x :: r => fold_left N.min r x end.

(* label of v: 1 + least member of the listed cycle containing v, 0 if none *)
Definition label (comps : list (list N)) (v : N) : N :=
  match find (fun c => memb v c) comps with Some c => (1 + min_of c)%N | None => 0%N end.

Definition label_code (n : nat) (comps : list (list N)) : N :=
  fold_right (fun v acc => (label comps v + (N.of_nat n + 1) * acc)%N) 0%N (vertices n).

(* inverse of label_code on well-formed outputs *)
Fixpoint labels_of (n : nat) (k : nat) (code : N) : list N :=
  match k with O => [] | S k' => (code mod (N.of_nat n + 1))%N :: labels_of n k' (code / (N.of_nat n + 1))%N end.
Definition decode (n : nat) (code : N) : list (list N) :=
  let ls := combine (vertices n) (labels_of n n code) in
  flat_map (fun v => let c := map fst (filter (fun p => N.eqb (snd p) (v + 1)) ls) in
                     match c with [] => [] | _ => [c] end) (vertices n).

Definition err_code : N := 999999999%N.

(* two of the six orders (the bounded theorem covers all six for n <= 4) *)
Definition orders2 (g : mgraph) : list mgraph := [g; rev (rev_deps g)].

Definition model_code (n : nat) (g : digraph) : N :=
  let codes := map (fun mg => match tarjan mg with Some out => label_code n out | None => err_code end)
                   (orders2 (build_graph g)) in
  match codes with
  | [] => err_code
  | c :: r => if forallb (N.eqb c) r then c else (err_code + 1)%N
  end.

(* one row per mask: spec code, model code (both orders agree, else error), checker verdict
   on the implementation's (decoded) output *)
Definition run_mask (n : nat) (mask impl_code : N) : list N :=
  let g := graph_of_mask n mask in
  let spec := scc_spec g in   (* check_sccs g out = check_sccs_with g (scc_spec g) out by definition *)
  [label_code n spec; model_code n g; if check_sccs_with g spec (decode n impl_code) then 1%N else 0%N].

Definition run_masks (n : nat) (cases : list (N * N)) : list (list N) :=
  map (fun c => run_mask n (fst c) (snd c)) cases.

(* contiguous range lo, lo+1, ... with the implementation's codes *)
Fixpoint run_range (n : nat) (lo : N) (impl_codes : list N) : list (list N) :=
  match impl_codes with [] => [] | c :: r => run_mask n lo c :: run_range n (N.succ lo) r end.

(* ---------- explicit graphs ---------- *)
Definition cycle_row (c : cycle) : list N * Z * Z := (c_modules c, c_size c, c_severity c).

Definition stats_row (r : cresult) : list Z :=
  [if r_has r then 1%Z else 0%Z; r_total_cycles r; r_total_modules r; r_low r; r_medium r; r_high r; r_critical r; r_largest r].

(* spec side of the statistics: count, modules in cycles, severities by the documented table *)
Definition spec_rows_of (g : digraph) (spec : list (list N)) : list (list N * N) := map (fun c => (c, spec_severity g c)) spec.

(* result: (spec cycles with severity, (spec count, spec modules in cycles)),
           model for each order: (cycles, stats) or nothing,
           checker verdict on the implementation's output.
   [scc_spec g] is computed once; by definition check_sccs g out = check_sccs_with g (scc_spec g) out,
   spec_cycle_count g = length (scc_spec g), spec_modules_in_cycles g = length (concat (scc_spec g)). *)
Definition run_graph (g : digraph) (impl_out : list (list N)) :=
  let spec := scc_spec g in
  (spec_rows_of g spec, (length spec, length (concat spec)),
   map (fun mg => match DetectCircularDependencies mg with
                  | Some r => Some (map cycle_row (r_cycles r), stats_row r)
                  | None => None end) (orders (build_graph g)),
   check_sccs_with g spec impl_out).
