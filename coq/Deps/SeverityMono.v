(* C11: the severity of a cycle (generated from the source: Gen/DepsConst.v circ_assess) is monotone in the size
   of the cycle and in "a member is a core module": a larger cycle is never less severe. *)
From Coq Require Import ZArith Bool Lia.
From PV Require Import Gen.DepsConst.

Definition core_le (a b : bool) : Prop := a = true -> b = true.

Theorem severity_mono hasCore hasCore' size size' : core_le hasCore hasCore' -> (size <= size')%Z ->
  (circ_assess hasCore size <= circ_assess hasCore' size')%Z.
Proof.
  intros Hc Hs. unfold circ_assess, circ_CycleSeverityCritical, circ_CycleSeverityHigh,
    circ_CycleSeverityMedium, circ_CycleSeverityLow.
  rewrite !Z.geb_leb.
  destruct hasCore, hasCore'; try (specialize (Hc eq_refl); discriminate); cbn [orb];
  destruct (Z.leb_spec 10 size), (Z.leb_spec 10 size'), (Z.leb_spec 6 size), (Z.leb_spec 6 size'),
           (Z.leb_spec 3 size), (Z.leb_spec 3 size'); lia.
Qed.

Theorem severity_range hasCore size : (1 <= circ_assess hasCore size <= 4)%Z.
Proof.
  unfold circ_assess, circ_CycleSeverityCritical, circ_CycleSeverityHigh,
    circ_CycleSeverityMedium, circ_CycleSeverityLow.
  destruct (hasCore || (size >=? 10)%Z); [lia|]. destruct (size >=? 6)%Z; [lia|]. destruct (size >=? 3)%Z; lia.
Qed.

Example severity_mono_nonvacuous :
  (circ_assess false 2 < circ_assess false 3 < circ_assess false 6)%Z /\ (circ_assess false 9 < circ_assess false 10)%Z
  /\ (circ_assess false 2 < circ_assess true 2)%Z.
Proof. vm_compute. repeat split. Qed.
