(* C12 — the decidable well-formedness predicate under which the model's import graph equals the
   specification's, and the classes of deviation outside it (each is a known finding, see
   known_findings.d/C12.json).  No proofs here. *)
From Coq Require Import NArith List Bool Arith.
From PV Require Import Deps.PyImport Deps.Imports.
Import ListNotations.

Definition abs_paths (m : pymodule) : list path :=
  flat_map (fun s => match i_form s with ImportAbs p => [p] | ImportFrom p _ => [p] | ImportRel _ _ _ => [] end)
           (m_imports m).

(* class 1, implicit relative import: an absolute import "import p" / "from p import .." whose name
   also denotes a module relative to the importing file's directory, or (when nothing is found from
   the root) relative to its parent directory.  CPython resolves absolute imports from sys.path only. *)
Definition abs_ok (pr : project) (m : pymodule) (p : path) : bool :=
  let d := dir_of m in
  match d with
  | [] => true
  | _ => negb (is_module pr (d ++ p)) &&
         (is_module pr p || Nat.leb (length d) 1 || negb (is_module pr (removelast d ++ p)))
  end.

Definition class_implicit_relative (pr : project) : bool :=
  existsb (fun m => existsb (fun p => negb (abs_ok pr m p)) (abs_paths m)) pr.

(* class 2, a package's __init__ importing a module below itself: pyscn drops these edges on purpose
   (module_analyzer.go, "Skip dependencies from __init__.py to its own submodules") *)
Definition class_init_own_submodule (pr : project) : bool :=
  existsb (fun m => m_is_pkg m &&
             existsb (fun s => negb (i_tc s) && existsb (strict_prefixb (m_path m)) (resolve_py pr m s)) (m_imports m)) pr.

Definition bound_names (m : pymodule) : list name :=
  flat_map (fun s => match i_form s with
                     | ImportAbs _ => []
                     | ImportFrom _ ns => map in_bound ns
                     | ImportRel _ _ ns => map in_bound ns
                     end) (m_imports m).

(* class 3, __all__ hides a re-exported name: parseInitFile keeps only the names listed in a non-empty
   __all__, but "from pkg import name" does not consult __all__ *)
Definition class_all_hides (pr : project) : bool :=
  existsb (fun m => m_is_pkg m &&
             match m_all m with
             | Some ((_ :: _) as l) => existsb (fun n => negb (existsb (N.eqb n) l)) (bound_names m)
             | _ => false
             end) pr.

(* class 4, re-exports the resolver does not follow the way CPython binds them: a from-import in an
   __init__ that is type-checking-only or stands in a def/class, takes the name by an absolute import from outside the
   package or by "from .. import x", names a module that does not exist, binds a submodule of a subpackage, or aliases a
   submodule ("from . import x as y") *)
Definition reexport_regular (pr : project) (init : pymodule) (s : import_stmt) : bool :=
  match i_form s with
  | ImportAbs _ => true
  | f =>
      match from_target init f with
      | None => false
      | Some (t, ns) =>
          negb (i_tc s) && binds_at_module_level (i_pos s) &&
          (if path_eqb t (m_path init)
           then forallb (fun x => N.eqb (in_orig x) (in_bound x)) ns
           else match f with
                | ImportFrom _ _ => strict_prefixb (m_path init) t      (* absolute: inside the package only *)
                | ImportRel _ [] _ => false                             (* "from .. import x": not followed *)
                | _ => true
                end && is_module pr t &&
                forallb (fun x => negb (is_module pr (t ++ [in_orig x]))) ns)
      end
  end.

Definition class_irregular_reexport (pr : project) : bool :=
  existsb (fun m => m_is_pkg m && negb (forallb (reexport_regular pr m) (m_imports m))) pr.

Definition deviation_classes (pr : project) : list N :=
  (if class_implicit_relative pr then [1%N] else []) ++
  (if class_init_own_submodule pr then [2%N] else []) ++
  (if class_all_hides pr then [3%N] else []) ++
  (if class_irregular_reexport pr then [4%N] else []).

(* shape of the input: what the Python grammar and the file system guarantee *)
Definition stmt_shape (s : import_stmt) : bool :=
  match i_form s with
  | ImportAbs p => negb (Nat.eqb (length p) 0)
  | ImportFrom p ns => negb (Nat.eqb (length p) 0) && negb (Nat.eqb (length ns) 0)
  | ImportRel lv _ ns => Nat.ltb 0 lv && negb (Nat.eqb (length ns) 0)
  end.

Fixpoint nodup_paths (l : list path) : bool :=
  match l with
  | [] => true
  | p :: l' => negb (mem_path p l') && nodup_paths l'
  end.

(* no module without a name, a module has one file, and a directory that holds a module without being a package (a
   namespace package, PEP 420) is not named like a table entry of isStandardLibrary: Python would import the standard
   library's regular package, and pyscn's answer depends on include_stdlib (Props/C12.v
   C12_include_stdlib_matters_for_stdlib_named_namespace).  Since fix 8ba1334 (F62) namespace packages are allowed. *)
Definition project_shape (pr : project) : bool :=
  nodup_paths (module_names pr) &&
  forallb (fun m => negb (Nat.eqb (length (m_path m)) 0) &&
                    (Nat.leb (length (m_path m)) 1 || init_file_exists pr (removelast (m_path m)) ||
                     negb (isStandardLibrary (m_path m))) &&
                    forallb stmt_shape (m_imports m)) pr.

(* the shape the unbounded theorem assumed before: every directory holding a module is a package with an __init__ *)
Definition project_shape_strict (pr : project) : bool :=
  nodup_paths (module_names pr) &&
  forallb (fun m => negb (Nat.eqb (length (m_path m)) 0) &&
                    (Nat.leb (length (m_path m)) 1 || init_file_exists pr (removelast (m_path m))) &&
                    forallb stmt_shape (m_imports m)) pr.

Definition wf_project (pr : project) : bool :=
  project_shape pr && match deviation_classes pr with [] => true | _ => false end.
