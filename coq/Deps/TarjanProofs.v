(* C11 — unbounded lemmas about the code model Deps/Tarjan.v: the size filter, the severity
   table, the statistics, and what the statistics are for any component list the proved
   checker accepts. *)
From Coq Require Import List NArith ZArith Bool Arith Lia Permutation.
From PV Require Import Gen.DepsConst Deps.SccSpec Deps.SccSpecProofs Deps.Tarjan.
Import ListNotations.
Local Open Scope nat_scope.

(* strongConnect keeps a component iff it has two or more modules (:167) *)
Lemma keep_component_spec : forall n, circ_keep_component (Z.of_nat n) = (2 <=? n).
Proof.
  intros n. unfold circ_keep_component.
  destruct (Z.gtb_spec (Z.of_nat n) 1); destruct (Nat.leb_spec 2 n); try reflexivity; lia.
Qed.

(* processComponents skips exactly the components with fewer than two modules (:183) *)
Lemma skip_component_spec : forall n, circ_skip_component (Z.of_nat n) = negb (2 <=? n).
Proof.
  intros n. unfold circ_skip_component.
  destruct (Z.leb_spec (Z.of_nat n) 1); destruct (Nat.leb_spec 2 n); try reflexivity; lia.
Qed.

(* the severity is the documented function of size and "has a module with high fan-in" *)
Theorem severity_table : forall hasCore size,
  circ_assess hasCore size =
  (if hasCore || (10 <=? size) then 4 else if 6 <=? size then 3 else if 3 <=? size then 2 else 1)%Z.
Proof.
  intros hasCore size. unfold circ_assess, circ_CycleSeverityCritical, circ_CycleSeverityHigh,
    circ_CycleSeverityMedium, circ_CycleSeverityLow. rewrite !Z.geb_leb. reflexivity.
Qed.

Theorem severity_iff : forall hasCore size, (2 <= size)%Z ->
  (circ_assess hasCore size = 4%Z <-> hasCore = true \/ (10 <= size)%Z) /\
  (circ_assess hasCore size = 3%Z <-> hasCore = false /\ (6 <= size <= 9)%Z) /\
  (circ_assess hasCore size = 2%Z <-> hasCore = false /\ (3 <= size <= 5)%Z) /\
  (circ_assess hasCore size = 1%Z <-> hasCore = false /\ size = 2%Z).
Proof.
  intros hasCore size H. rewrite severity_table.
  destruct hasCore; simpl; [intuition (try discriminate; try lia)|].
  destruct (Z.leb_spec 10 size); [intuition (try discriminate; try lia)|].
  destruct (Z.leb_spec 6 size); [intuition (try discriminate; try lia)|].
  destruct (Z.leb_spec 3 size); intuition (try discriminate; try lia).
Qed.

Theorem core_threshold : forall d, circ_is_core d = (10 <? d)%Z.
Proof. intros d. unfold circ_is_core. apply Z.gtb_ltb. Qed.

(* ---------- processComponents / calculateStatistics ---------- *)
Lemma process_modules : forall g comps, Forall (fun c => 2 <= length c) comps ->
  map c_modules (processComponents g comps) = comps.
Proof.
  intros g comps H. unfold processComponents. induction H as [|c l Hc Hl IH]; simpl; [reflexivity|].
  rewrite skip_component_spec. apply Nat.leb_le in Hc. rewrite Hc. simpl. f_equal. exact IH.
Qed.

Lemma process_fields : forall g comps c, In c (processComponents g comps) ->
  c_size c = Z.of_nat (length (c_modules c)) /\ c_severity c = assessCycleSeverity g (c_modules c) (c_size c) /\
  2 <= length (c_modules c).
Proof.
  intros g comps c H. unfold processComponents in H. apply in_flat_map in H. destruct H as [m [_ H]].
  rewrite skip_component_spec in H. destruct (Nat.leb_spec 2 (length m)); simpl in H; [|destruct H].
  destruct H as [H|[]]. subst c. simpl. auto.
Qed.

Lemma dedup_nodup : forall l, NoDup l -> dedup l = l.
Proof.
  induction l as [|x l IH]; intros H; simpl; [reflexivity|]. inversion H; subst.
  assert (E : memb x l = false) by (apply memb_false; assumption). rewrite E. f_equal. auto.
Qed.

Lemma sizes_of_process : forall g comps, Forall (fun c => 2 <= length c) comps ->
  map c_size (processComponents g comps) = map (fun c => Z.of_nat (length c)) comps.
Proof.
  intros g comps H. unfold processComponents. induction H as [|c l Hc Hl IH]; simpl; [reflexivity|].
  rewrite skip_component_spec. apply Nat.leb_le in Hc. rewrite Hc. simpl. f_equal. exact IH.
Qed.

(* cycle count = number of components, modules in cycles = sum of the sizes when the
   components are pairwise disjoint *)
Theorem assemble_counts : forall g comps, Forall (fun c => 2 <= length c) comps -> NoDup (concat comps) ->
  let r := assemble g comps in
  r_total_cycles r = Z.of_nat (length comps) /\
  r_total_modules r = Z.of_nat (length (concat comps)) /\
  r_total_modules r = fold_right Z.add 0%Z (map c_size (r_cycles r)) /\
  map c_modules (r_cycles r) = comps /\
  r_has r = negb (length comps =? 0).
Proof.
  intros g comps Hf Hn. unfold assemble. cbn [r_total_cycles r_total_modules r_cycles r_has].
  pose proof (process_modules g comps Hf) as Hm.
  assert (Hl : length (processComponents g comps) = length comps) by (rewrite <- Hm at 2; rewrite map_length; reflexivity).
  assert (Hc : flat_map c_modules (processComponents g comps) = concat comps)
    by (rewrite flat_map_concat_map, Hm; reflexivity).
  rewrite Hl, Hc, (dedup_nodup _ Hn). repeat split; try reflexivity; try assumption.
  rewrite (sizes_of_process g comps Hf). clear. induction comps as [|c l IH]; simpl; [reflexivity|].
  rewrite app_length, Nat2Z.inj_add, IH. reflexivity.
Qed.

(* the four severity counters partition the cycles *)
Theorem severity_counts_total : forall g comps,
  let r := assemble g comps in (r_low r + r_medium r + r_high r + r_critical r = r_total_cycles r)%Z.
Proof.
  intros g comps. unfold assemble. cbn [r_low r_medium r_high r_critical r_total_cycles].
  assert (H : forall c, In c (processComponents g comps) ->
            c_severity c = 1%Z \/ c_severity c = 2%Z \/ c_severity c = 3%Z \/ c_severity c = 4%Z).
  { intros c Hc. apply process_fields in Hc. destruct Hc as [_ [Hs _]]. rewrite Hs. unfold assessCycleSeverity.
    rewrite severity_table. destruct (_ || _); [auto|]. destruct (6 <=? _)%Z; [auto|]. destruct (3 <=? _)%Z; auto. }
  unfold count_sev, circ_CycleSeverityCritical, circ_CycleSeverityHigh, circ_CycleSeverityMedium, circ_CycleSeverityLow.
  induction (processComponents g comps) as [|c l IH]; [reflexivity|].
  assert (IH' := IH (fun c Hc => H c (or_intror Hc))). clear IH.
  destruct (H c (or_introl eq_refl)) as [E|[E|[E|E]]]; cbn [filter]; rewrite E; cbn [Z.eqb Pos.eqb length]; lia.
Qed.

(* ---------- statistics of any accepted component list ---------- *)
Lemma Permutation_concat' : forall (l l' : list (list N)), Permutation l l' -> Permutation (concat l) (concat l').
Proof.
  intros l l' H. induction H; simpl.
  - constructor.
  - apply Permutation_app_head. assumption.
  - rewrite !app_assoc. apply Permutation_app_tail. apply Permutation_app_comm.
  - etransitivity; eassumption.
Qed.

Lemma norm_perm : forall g c, NoDup (verts g) -> NoDup c -> (forall x, In x c -> In x (verts g)) ->
  Permutation c (norm g c).
Proof.
  intros g c Hv Hc Hin. apply NoDup_Permutation; [exact Hc|apply NoDup_filter; exact Hv|].
  intros x. rewrite norm_In. split; [auto|tauto].
Qed.

Theorem accepted_stats : forall g mg out, NoDup (verts g) -> check_sccs g out = true ->
  let r := assemble mg out in
  r_total_cycles r = Z.of_nat (spec_cycle_count g) /\
  r_total_modules r = Z.of_nat (spec_modules_in_cycles g) /\
  Permutation (map c_size (r_cycles r)) (map Z.of_nat (spec_sizes g)) /\
  map c_modules (r_cycles r) = out.
Proof.
  intros g mg out Hv H. destruct (check_sccs_sound g out H) as [Hp Hf].
  destruct (check_sccs_counts g out Hv H) as [Hc [Hm Hs]].
  assert (H2 : Forall (fun c => 2 <= length c) out).
  { apply Forall_forall. intros c Hc'.
    assert (Hin : In (length c) (spec_sizes g)) by (eapply Permutation_in; [exact Hs|apply in_map; exact Hc']).
    unfold spec_sizes in Hin. apply in_map_iff in Hin. destruct Hin as [d [E Hd]]. apply scc_spec_char in Hd. lia. }
  assert (Hn : NoDup (concat out)).
  { assert (P : Permutation (concat out) (concat (map (norm g) out))).
    { clear - Hf Hv. induction Hf as [|c l [Hc Hi] _ IH]; simpl; [constructor|].
      apply Permutation_app; [apply norm_perm; assumption|exact IH]. }
    eapply Permutation_NoDup; [apply Permutation_sym; exact P|].
    eapply Permutation_NoDup; [apply Permutation_sym; apply Permutation_concat'; exact Hp|].
    apply spec_modules_in_cycles_nodup. exact Hv. }
  destruct (assemble_counts mg out H2 Hn) as [A [B [_ [D _]]]]. cbv zeta.
  rewrite A, B, Hc, Hm. repeat split; try assumption.
  unfold assemble. cbn [r_cycles]. rewrite (sizes_of_process mg out H2).
  rewrite <- (map_map (@length N) Z.of_nat). apply Permutation_map. exact Hs.
Qed.
