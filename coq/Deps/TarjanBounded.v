(* C11 — the Tarjan model against the specification on every digraph with at most four
   modules (all 2^(n*n) import sets, self-imports included, six map-iteration orders each),
   by computation inside the kernel's VM. *)
From Coq Require Import List NArith ZArith Bool Arith Lia Permutation.
From PV Require Import Gen.DepsConst Deps.SccSpec Deps.SccSpecProofs Deps.Tarjan Deps.DepsRun.
From PV Require Import Deps.TarjanBounded4a Deps.TarjanBounded4b Deps.TarjanBounded4c Deps.TarjanBounded4d.
Import ListNotations.
Local Open Scope nat_scope.

Lemma forall_bits_spec : forall k pre p, forall_bits k pre p = true ->
  forall i, (i < 2 ^ N.of_nat k)%N -> p (pre * 2 ^ N.of_nat k + i)%N = true.
Proof.
  induction k as [|k IH]; intros pre p H i Hi.
  - cbn [forall_bits] in H. change (N.of_nat 0) with 0%N in *. rewrite N.pow_0_r in *. assert (i = 0)%N by lia. subst.
    rewrite N.mul_1_r, N.add_0_r. exact H.
  - cbn [forall_bits] in H. apply andb_true_iff in H. destruct H as [H0 H1].
    rewrite Nat2N.inj_succ, N.pow_succ_r' in *. remember (2 ^ N.of_nat k)%N as X.
    destruct (N.lt_ge_cases i X) as [L|G].
    + replace (pre * (2 * X) + i)%N with (2 * pre * X + i)%N by ring. apply IH; assumption.
    + replace (pre * (2 * X) + i)%N with ((2 * pre + 1) * X + (i - X))%N.
      * apply IH; [exact H1|lia].
      * replace i with (X + (i - X))%N at 2 by lia. ring.
Qed.

Lemma forall_bits_split2 : forall k pre p, forall_bits (S (S k)) pre p =
  (forall_bits k (2 * (2 * pre)) p && forall_bits k (2 * (2 * pre) + 1) p) &&
  (forall_bits k (2 * (2 * pre + 1)) p && forall_bits k (2 * (2 * pre + 1) + 1) p).
Proof. reflexivity. Qed.

Lemma bounded0 : forall_bits 0 0 (ok_mask 0) = true.
Proof. vm_compute. reflexivity. Qed.
Lemma bounded1 : forall_bits 1 0 (ok_mask 1) = true.
Proof. vm_compute. reflexivity. Qed.
Lemma bounded2 : forall_bits 4 0 (ok_mask 2) = true.
Proof. vm_compute. reflexivity. Qed.
Lemma bounded3 : forall_bits 9 0 (ok_mask 3) = true.
Proof. vm_compute. reflexivity. Qed.
Lemma bounded4 : forall_bits 16 0 (ok_mask 4) = true.
Proof.
  rewrite (forall_bits_split2 14 0).
  change (2 * (2 * 0))%N with 0%N. change (0 + 1)%N with 1%N.
  change (2 * (2 * 0 + 1))%N with 2%N. change (2 + 1)%N with 3%N.
  rewrite bounded4a, bounded4b, bounded4c, bounded4d. reflexivity.
Qed.

Theorem tarjan_ok_bounded : forall n mask, n <= 4 -> (mask < 2 ^ N.of_nat (n * n))%N ->
  tarjan_ok (graph_of_mask n mask) = true.
Proof.
  intros n mask Hn Hm.
  assert (E : forall k p, forall_bits k 0 p = true -> (mask < 2 ^ N.of_nat k)%N -> p mask = true).
  { intros k p H L. pose proof (forall_bits_spec k 0 p H mask L) as Q. rewrite N.mul_0_l, N.add_0_l in Q. exact Q. }
  destruct n as [|[|[|[|[|n]]]]]; try lia.
  - apply (E 0 (ok_mask 0) bounded0 Hm).
  - apply (E 1 (ok_mask 1) bounded1 Hm).
  - apply (E 4 (ok_mask 2) bounded2 Hm).
  - apply (E 9 (ok_mask 3) bounded3 Hm).
  - apply (E 16 (ok_mask 4) bounded4 Hm).
Qed.

(* what [tarjan_ok] means *)
Lemma tarjan_ok_meaning : forall g, tarjan_ok g = true ->
  forall mg, In mg (orders (build_graph g)) ->
  exists out, tarjan mg = Some out /\ Permutation (map (norm g) out) (scc_spec g) /\
              Forall (fun c => NoDup c /\ forall x, In x c -> In x (verts g)) out.
Proof.
  intros g H mg Hmg. unfold tarjan_ok in H. cbv zeta in H. rewrite forallb_forall in H. specialize (H mg Hmg).
  destruct (tarjan mg) as [out|]; [|discriminate]. exists out. split; [reflexivity|].
  apply check_sccs_sound. exact H.
Qed.

Theorem tarjan_exact_bounded : forall n mask, n <= 4 -> (mask < 2 ^ N.of_nat (n * n))%N ->
  let g := graph_of_mask n mask in
  forall mg, In mg (orders (build_graph g)) ->
  exists out, tarjan mg = Some out /\ Permutation (map (norm g) out) (scc_spec g) /\
              Forall (fun c => NoDup c /\ forall x, In x c -> In x (verts g)) out.
Proof. intros n mask Hn Hm g. apply tarjan_ok_meaning. apply tarjan_ok_bounded; assumption. Qed.
