(* C12 — proofs about the option-parametrised model Deps/ImportsOpt.v:
   - for the default options and projects without wildcard re-exports it IS the model Deps/Imports.v;
   - FollowRelative = false is the same as analysing the files without their relative import statements;
   - IncludeThirdParty changes nothing in the graph of any project, IncludeStdLib nothing in the graph of a project in
     which every directory that holds a module has an __init__.py (the graph has project modules only); the former
     witness of F62 (a namespace package analysed with the options of `pyscn check`) now has Python's graph. *)
From Coq Require Import NArith List Bool Arith Lia.
From PV Require Import Deps.PyImport Deps.Imports Deps.ImportsWf Deps.ImportsOpt Deps.ImportsOptRun Deps.ImportsProofs Deps.ImportsAgree Gen.ImportsConst.
Import ListNotations.

Lemma fold_left_ext : forall {A B} (f g : A -> B -> A) l a,
  (forall a b, In b l -> f a b = g a b) -> fold_left f l a = fold_left g l a.
Proof.
  induction l; simpl; intros; auto.
  rewrite H by auto. apply IHl. intros; apply H; auto.
Qed.

Lemma filter_all : forall {A} (f : A -> bool) l, forallb f l = true -> filter f l = l.
Proof.
  induction l; simpl; intros; auto.
  apply andb_true_iff in H. destruct H as [H1 H2]. rewrite H1, IHl; auto.
Qed.

(* ---- default options ------------------------------------------------------------------------------ *)
Definition star_free_stmt (s : import_stmt) : bool :=
  match i_form s with
  | ImportAbs _ => true
  | ImportFrom _ ns => forallb (fun x => negb (is_star x)) ns
  | ImportRel _ _ ns => forallb (fun x => negb (is_star x)) ns
  end.

(* no __init__.py takes names by a wildcard import *)
Definition star_free (pr : project) : bool :=
  forallb (fun m => negb (m_is_pkg m) || forallb star_free_stmt (m_imports m)) pr.

Lemma exports_of_o_eq : forall P init, forallb star_free_stmt (m_imports init) = true ->
  exports_of_o P init = exports_of P init.
Proof.
  intros P init. unfold exports_of_o, exports_of.
  induction (m_imports init) as [|s l IH]; simpl; intros H; auto.
  apply andb_true_iff in H. destruct H as [Hs Hl].
  rewrite IH by assumption. f_equal.
  unfold star_free_stmt in Hs. unfold reexport_source.
  destruct (i_form s) as [p | p ns | lv p ns]; auto.
  - destruct (strict_prefixb P p); auto. destruct (path_eqb p P); auto. rewrite filter_all; auto.
  - destruct p; auto.
    destruct (Nat.eqb lv 1).
    + destruct (path_eqb (P ++ n :: p) P); auto. rewrite filter_all; auto.
    + destruct (Nat.leb lv (length P)); auto.
      destruct (path_eqb (firstn (length P - lv + 1) P ++ n :: p) P); auto. rewrite filter_all; auto.
Qed.

Lemma ResolveReExport_o_eq : forall pr P n, star_free pr = true -> ResolveReExport_o pr P n = ResolveReExport pr P n.
Proof.
  intros pr P n H. unfold ResolveReExport_o, ResolveReExport.
  destruct (find (fun m => m_is_pkg m && path_eqb (m_path m) P) pr) as [init|] eqn:E; auto.
  apply find_some in E. destruct E as [Hin Hp]. apply andb_true_iff in Hp. destruct Hp as [Hpkg _].
  unfold star_free in H. rewrite forallb_forall in H. specialize (H init Hin). rewrite Hpkg in H. simpl in H.
  rewrite exports_of_o_eq by assumption. reflexivity.
Qed.

Lemma resolveImport_o_default : forall pr m ii, resolveImport_o default_opts pr m ii = resolveImport pr m ii.
Proof. reflexivity. Qed.

Lemma resolved_modules_o_default : forall pr g m ii, star_free pr = true ->
  resolved_modules_o default_opts pr g m ii = resolved_modules pr g m ii.
Proof.
  intros. unfold resolved_modules_o, resolved_modules. rewrite resolveImport_o_default.
  destruct (resolveImport pr m ii) as [target|]; auto.
  unfold shouldIncludeDependency. simpl.
  destruct (ii_from ii && negb (Nat.eqb (length (ii_names ii)) 0)); auto.
  f_equal. apply map_ext. intros x. rewrite ResolveReExport_o_eq by assumption. reflexivity.
Qed.

Lemma analyze_import_o_default : forall pr m g ii, star_free pr = true ->
  analyze_import_o default_opts pr m g ii = analyze_import pr m g ii.
Proof.
  intros. unfold analyze_import_o, analyze_import. rewrite resolved_modules_o_default by assumption. reflexivity.
Qed.

Lemma analyzeModuleDependencies_o_default : forall pr g m, star_free pr = true ->
  analyzeModuleDependencies_o default_opts pr g m = analyzeModuleDependencies pr g m.
Proof.
  intros. unfold analyzeModuleDependencies_o, analyzeModuleDependencies. destruct (shadowed pr m); [reflexivity|].
  apply fold_left_ext. intros. apply analyze_import_o_default; assumption.
Qed.

Theorem AnalyzeFiles_o_default : forall pr order, star_free pr = true ->
  AnalyzeFiles_o default_opts pr order = AnalyzeFiles pr order.
Proof.
  intros. unfold AnalyzeFiles_o, AnalyzeFiles.
  apply fold_left_ext. intros. apply analyzeModuleDependencies_o_default; assumption.
Qed.

(* ---- FollowRelative = false ------------------------------------------------------------------------ *)
Definition set_rel (o : opts) : opts :=
  {| o_stdlib := o_stdlib o; o_third := o_third o; o_rel := true; o_excl := o_excl o |}.

Lemma analyze_import_o_strip : forall o pr m g ii,
  analyze_import_o o pr (strip_rel m) g ii = analyze_import_o o pr m g ii.
Proof. reflexivity. Qed.

Lemma analyze_import_o_abs : forall o pr m g ii, Nat.ltb 0 (ii_level ii) = false ->
  analyze_import_o o pr m g ii = analyze_import_o (set_rel o) pr m g ii.
Proof.
  intros. unfold analyze_import_o, resolved_modules_o, resolveImport_o. rewrite H. reflexivity.
Qed.

Lemma analyze_import_o_rel_off : forall o pr m g ii, o_rel o = false -> Nat.ltb 0 (ii_level ii) = true ->
  analyze_import_o o pr m g ii = g.
Proof.
  intros. unfold analyze_import_o, resolved_modules_o, resolveImport_o, resolveRelativeImport_o.
  rewrite H0, H. simpl. destruct (ii_tc ii); reflexivity.
Qed.

Lemma module_rel_off : forall o pr m g, o_rel o = false ->
  analyzeModuleDependencies_o o pr g m = analyzeModuleDependencies_o (set_rel o) pr g (strip_rel m).
Proof.
  intros o pr m g Ho. unfold analyzeModuleDependencies_o, collectModuleImports.
  change (shadowed pr (strip_rel m)) with (shadowed pr m). destruct (shadowed pr m); [reflexivity|].
  change (m_imports (strip_rel m)) with (filter (fun s => negb (is_rel s)) (m_imports m)).
  revert g. induction (m_imports m) as [|s l IH]; intros g; [reflexivity|].
  cbn [flat_map filter]. rewrite fold_left_app.
  destruct (is_rel s) eqn:Er; cbn [negb].
  - (* a relative statement: contributes nothing when FollowRelative is off *)
    rewrite <- IH. f_equal.
    unfold is_rel in Er. unfold collect_one. rewrite walked_true. cbn [negb].
    destruct (i_form s) as [p | p ns | lv p ns]; try discriminate.
    cbn [fold_left]. apply analyze_import_o_rel_off; auto.
  - cbn [flat_map]. rewrite fold_left_app. rewrite <- IH. f_equal.
    unfold is_rel in Er. unfold collect_one. rewrite walked_true. cbn [negb].
    destruct (i_form s) as [p | p ns | lv p ns]; cbn [fold_left];
      rewrite analyze_import_o_strip; apply analyze_import_o_abs; auto.
Qed.

(* with FollowRelative off the graph is the graph of the same files without their relative imports
   (the names other files take from an __init__.py are still resolved against the unchanged project) *)
Theorem follow_relative_off : forall o pr order, o_rel o = false ->
  AnalyzeFiles_o o pr order = AnalyzeFiles_o (set_rel o) pr (map strip_rel order).
Proof.
  intros o pr order Ho. unfold AnalyzeFiles_o. generalize (empty_graph pr).
  induction order as [|m l IH]; intros g; simpl; auto.
  rewrite <- module_rel_off by assumption. apply IH.
Qed.

(* ---- IncludeStdLib / IncludeThirdParty -------------------------------------------------------------- *)
Lemma analyze_import_o_nodes : forall o pr m g ii, g_nodes (analyze_import_o o pr m g ii) = g_nodes g.
Proof.
  intros. unfold analyze_import_o. destruct (ii_tc ii); auto.
  generalize (resolved_modules_o o pr g m ii). intros l. revert g.
  induction l as [|r l IH]; intros g; simpl; auto.
  rewrite IH. destruct (m_is_pkg m && strict_prefixb (m_path m) r); auto. apply AddDependency_nodes.
Qed.

Lemma analyzeModuleDependencies_o_nodes : forall o pr g m, g_nodes (analyzeModuleDependencies_o o pr g m) = g_nodes g.
Proof.
  intros. unfold analyzeModuleDependencies_o. destruct (shadowed pr m); [reflexivity|].
  generalize (collectModuleImports m). intros l. revert g.
  induction l as [|ii l IH]; intros g; simpl; auto. rewrite IH. apply analyze_import_o_nodes.
Qed.

Lemma AddDependency_unknown : forall g a b, mem_path b (g_nodes g) = false -> AddDependency g a b = g.
Proof. intros. unfold AddDependency. rewrite H. rewrite andb_false_r. reflexivity. Qed.

Lemma no_init_no_child : forall pr p n, dirs_have_init pr = true -> p <> [] -> init_file_exists pr p = false ->
  mem_path (p ++ [n]) (module_names pr) = false.
Proof.
  intros pr p n Hd Hp Hi. destruct (mem_path (p ++ [n]) (module_names pr)) eqn:E; auto.
  change (is_module pr (p ++ [n]) = true) in E. apply is_module_In in E. destruct E as [m [Hin Hm]].
  unfold dirs_have_init in Hd. rewrite forallb_forall in Hd. specialize (Hd m Hin).
  rewrite Hm in Hd. rewrite removelast_last in Hd. rewrite Hi in Hd. rewrite orb_false_r in Hd.
  apply Nat.leb_le in Hd. rewrite app_length in Hd. simpl in Hd. destruct p; [contradiction | simpl in Hd; lia].
Qed.

Lemma find_init_none : forall pr p, init_file_exists pr p = false ->
  find (fun m => m_is_pkg m && path_eqb (m_path m) p) pr = None.
Proof.
  intros pr p H. unfold init_file_exists in H.
  destruct (find (fun m => m_is_pkg m && path_eqb (m_path m) p) pr) eqn:E; auto.
  apply find_some in E. destruct E as [Hin Hp].
  assert (existsb (fun m => m_is_pkg m && path_eqb (m_path m) p) pr = true) by (apply existsb_exists; eauto).
  congruence.
Qed.

Lemma map_const_dedup : forall {A} (l : list A) (p : path), l <> [] -> dedup_paths (map (fun _ => p) l) [] = [p].
Proof.
  intros A l p Hl. destruct l as [|a l]; [contradiction|]. simpl.
  assert (forall l', dedup_paths (map (fun _ : A => p) l') [p] = []).
  { induction l'; simpl; auto. assert (path_eqb p p = true) by (clear; induction p; simpl; auto; rewrite N.eqb_refl; auto).
    rewrite H. simpl. apply IHl'. }
  rewrite H. reflexivity.
Qed.

(* an import that falls through to the stdlib / third-party branch leaves the graph as it is *)
(* a directory that does not exist holds no module *)
Lemma no_dir_no_child : forall pr p n, dir_exists pr p = false -> mem_path (p ++ [n]) (module_names pr) = false.
Proof.
  intros pr p n Hd. destruct (mem_path (p ++ [n]) (module_names pr)) eqn:E; auto.
  change (is_module pr (p ++ [n]) = true) in E. apply is_module_In in E. destruct E as [m [Hin Hm]].
  assert (Hc : dir_exists pr p = true); [|congruence].
  unfold dir_exists. apply existsb_exists. exists m. split; [exact Hin|]. rewrite Hm, strict_prefixb_snoc. reflexivity.
Qed.

Lemma external_import_no_edge : forall o pr m g ii p,
  g_nodes g = module_names pr -> (forall n, mem_path (p ++ [n]) (module_names pr) = false) ->
  init_file_exists pr p = false -> py_file_exists pr p = false ->
  fold_left (fun g r => if m_is_pkg m && strict_prefixb (m_path m) r then g else AddDependency g (m_path m) r)
    (if negb (shouldIncludeDependency o p) then [] else
     if ii_from ii && negb (Nat.eqb (length (ii_names ii)) 0)
     then dedup_paths (map (fun x => match ResolveReExport_o pr p (in_orig x) with
                                     | Some src => src
                                     | None => if mem_path (p ++ [in_orig x]) (g_nodes g) then p ++ [in_orig x] else p
                                     end) (ii_names ii)) []
     else [p]) g = g.
Proof.
  intros o pr m g ii p Hn Hchild Hi Hf.
  assert (Hnot : mem_path p (g_nodes g) = false).
  { rewrite Hn. change (is_module pr p = false). rewrite <- py_or_init. rewrite Hi, Hf. reflexivity. }
  assert (Hone : fold_left (fun g r => if m_is_pkg m && strict_prefixb (m_path m) r then g else AddDependency g (m_path m) r) [p] g = g).
  { simpl. destruct (m_is_pkg m && strict_prefixb (m_path m) p); auto. apply AddDependency_unknown; assumption. }
  destruct (negb (shouldIncludeDependency o p)); auto.
  destruct (ii_from ii && negb (Nat.eqb (length (ii_names ii)) 0)) eqn:Ef; auto.
  assert (Hmap : map (fun x => match ResolveReExport_o pr p (in_orig x) with
                               | Some src => src
                               | None => if mem_path (p ++ [in_orig x]) (g_nodes g) then p ++ [in_orig x] else p
                               end) (ii_names ii) = map (fun _ => p) (ii_names ii)).
  { apply map_ext. intros x. unfold ResolveReExport_o. rewrite find_init_none by assumption.
    rewrite Hn. rewrite Hchild. reflexivity. }
  rewrite Hmap. rewrite map_const_dedup; auto.
  apply andb_true_iff in Ef. destruct Ef as [_ Ef]. destruct (ii_names ii); simpl in Ef; [discriminate | discriminate || congruence].
Qed.

Lemma analyze_import_o_include : forall o o' pr m g ii,
  o_rel o = o_rel o' -> o_excl o = o_excl o' -> g_nodes g = module_names pr ->
  dirs_have_init pr = true \/ o_stdlib o = o_stdlib o' ->
  analyze_import_o o pr m g ii = analyze_import_o o' pr m g ii.
Proof.
  intros o o' pr m g ii Hr He Hn Hd. unfold analyze_import_o. destruct (ii_tc ii); auto.
  unfold resolved_modules_o, resolveImport_o.
  destruct (Nat.ltb 0 (ii_level ii)).
  - unfold resolveRelativeImport_o. rewrite Hr. unfold shouldIncludeDependency. rewrite He. reflexivity.
  - unfold resolveAbsoluteImportWithProject_o.
    destruct (ii_module ii) as [|a p'] eqn:Ep; auto.
    destruct (first_some (fun d => search_in pr d (a :: p')) [Some (dir_of m); Some []; parent_dir (Some (dir_of m))]).
    + unfold shouldIncludeDependency. rewrite He. reflexivity.
    + unfold resolveAbsoluteImport_o.
      destruct (init_file_exists pr (a :: p')) eqn:Ei; [unfold shouldIncludeDependency; rewrite He; reflexivity|].
      destruct (py_file_exists pr (a :: p')) eqn:Ef; [unfold shouldIncludeDependency; rewrite He; reflexivity|].
      assert (Hext : (forall n, mem_path ((a :: p') ++ [n]) (module_names pr) = false) ->
                forall oo, fold_left (fun g r => if m_is_pkg m && strict_prefixb (m_path m) r then g else AddDependency g (m_path m) r)
                (if negb (shouldIncludeDependency oo (a :: p')) then [] else
                 if ii_from ii && negb (Nat.eqb (length (ii_names ii)) 0)
                 then dedup_paths (map (fun x => match ResolveReExport_o pr (a :: p') (in_orig x) with
                                                 | Some src => src
                                                 | None => if mem_path ((a :: p') ++ [in_orig x]) (g_nodes g) then (a :: p') ++ [in_orig x] else a :: p'
                                                 end) (ii_names ii)) []
                 else [a :: p']) g = g).
      { intros Hchild oo. apply external_import_no_edge; auto. }
      destruct (isStandardLibrary (a :: p')).
      * destruct Hd as [Hd|Hs].
        -- assert (Hchild : forall n, mem_path ((a :: p') ++ [n]) (module_names pr) = false)
             by (intro n; apply no_init_no_child; [assumption|discriminate|assumption]).
           destruct (o_stdlib o), (o_stdlib o'); simpl; rewrite ?(Hext Hchild); auto.
        -- rewrite Hs. unfold shouldIncludeDependency. rewrite He. reflexivity.
      * destruct (dir_exists pr (a :: p')) eqn:Edir; [unfold shouldIncludeDependency; rewrite He; reflexivity|].
        assert (Hchild : forall n, mem_path ((a :: p') ++ [n]) (module_names pr) = false)
          by (intro n; apply no_dir_no_child; assumption).
        destruct (o_third o), (o_third o'); simpl; rewrite ?(Hext Hchild); auto.
Qed.

Lemma module_include : forall o o' pr g m,
  o_rel o = o_rel o' -> o_excl o = o_excl o' -> g_nodes g = module_names pr ->
  dirs_have_init pr = true \/ o_stdlib o = o_stdlib o' ->
  analyzeModuleDependencies_o o pr g m = analyzeModuleDependencies_o o' pr g m.
Proof.
  intros o o' pr g m Hr He Hn Hd. unfold analyzeModuleDependencies_o. destruct (shadowed pr m); [reflexivity|].
  generalize (collectModuleImports m). intros l. revert g Hn.
  induction l as [|ii l IH]; intros g Hn; simpl; auto.
  rewrite (analyze_import_o_include o o') by assumption.
  apply IH. rewrite analyze_import_o_nodes. assumption.
Qed.

Lemma files_include : forall o o' pr order,
  o_rel o = o_rel o' -> o_excl o = o_excl o' -> dirs_have_init pr = true \/ o_stdlib o = o_stdlib o' ->
  AnalyzeFiles_o o pr order = AnalyzeFiles_o o' pr order.
Proof.
  intros o o' pr order Hr He Hd. unfold AnalyzeFiles_o.
  assert (Hn : g_nodes (empty_graph pr) = module_names pr) by reflexivity.
  revert Hn. generalize (empty_graph pr).
  induction order as [|m l IH]; intros g Hn; simpl; auto.
  rewrite (module_include o o') by assumption.
  apply IH. rewrite analyzeModuleDependencies_o_nodes. assumption.
Qed.

(* IncludeThirdParty never changes the graph, for every project (namespace packages included), every file order and
   every value of the other options: the option concerns modules outside the project, and the graph has project modules
   only.  (Before fix 8ba1334 "from nsdir import mod" was resolved through the third-party branch only: F62.) *)
Theorem include_third_party_irrelevant : forall o o' pr order,
  o_stdlib o = o_stdlib o' -> o_rel o = o_rel o' -> o_excl o = o_excl o' ->
  AnalyzeFiles_o o pr order = AnalyzeFiles_o o' pr order.
Proof. intros o o' pr order Hs Hr He. apply files_include; auto. Qed.

(* in a project without namespace packages the graph does not depend on IncludeStdLib either (with a namespace
   directory named like a standard-library package it does: the standard library's package wins over a namespace
   package, so only IncludeStdLib makes "from xml import mod" reach xml/mod.py) *)
Theorem include_options_irrelevant : forall o o' pr order,
  o_rel o = o_rel o' -> o_excl o = o_excl o' -> dirs_have_init pr = true ->
  AnalyzeFiles_o o pr order = AnalyzeFiles_o o' pr order.
Proof. intros o o' pr order Hr He Hd. apply files_include; auto. Qed.

Definition w_stdlib_namespace : project :=
  [ Build_pymodule [stdlib_code_base; 2] false [] None;
    Build_pymodule [5] false [Build_import_stmt (ImportFrom [stdlib_code_base] [Build_iname 2 2]) false PModule] None ]%N.

Lemma include_stdlib_matters :
  dirs_have_init w_stdlib_namespace = false /\
  edges_model_o (Build_opts true false true []) w_stdlib_namespace = [([5], [stdlib_code_base; 2])]%N /\
  edges_model_o (Build_opts false true true []) w_stdlib_namespace = [].
Proof. repeat split; vm_compute; reflexivity. Qed.

(* the former witness of F62 / C11 F66: nsdir/left.py and nsdir/right.py import each other with
   "from nsdir import ..." and there is no nsdir/__init__.py.  The cycle is in the graph with the default options and
   with the options of `pyscn check --select deps` (where it was missing before the fix) *)
Definition w_namespace : project :=
  [ Build_pymodule [1; 2] false [Build_import_stmt (ImportFrom [1] [Build_iname 3 3]) false PModule] None;
    Build_pymodule [1; 3] false [Build_import_stmt (ImportFrom [1] [Build_iname 2 2]) false PModule] None ]%N.

Lemma namespace_cycle_found :
  dirs_have_init w_namespace = false /\
  edges_model_o default_opts w_namespace = [([1; 2], [1; 3]); ([1; 3], [1; 2])]%N /\
  edges_py w_namespace = [([1; 2], [1; 3]); ([1; 3], [1; 2])]%N /\
  edges_model_o check_opts w_namespace = edges_py w_namespace.
Proof. repeat split; vm_compute; reflexivity. Qed.

(* the graph `pyscn check --select deps` builds (include_third_party = false) is the graph of `pyscn analyze`, for every
   project and file order; with the unbounded theorem: it is Python's graph for every well-formed project *)
Theorem check_graph_is_analyze_graph : forall pr order,
  AnalyzeFiles_o check_opts pr order = AnalyzeFiles_o default_opts pr order.
Proof. intros pr order. apply include_third_party_irrelevant; reflexivity. Qed.

Theorem check_edges_wf : forall pr, star_free pr = true -> wf_project pr = true ->
  same_edges (edges_model_o check_opts pr) (edges_py pr) = true.
Proof.
  intros pr Hs Hw. unfold edges_model_o. rewrite check_graph_is_analyze_graph, (AnalyzeFiles_o_default pr pr Hs).
  apply edges_wf. exact Hw.
Qed.

(* namespace packages are inside the well-formedness predicate now *)
Lemma wf_admits_namespace :
  wf_project w_namespace = true /\ project_shape_strict w_namespace = false /\ star_free w_namespace = true.
Proof. repeat split; vm_compute; reflexivity. Qed.

(* ---- witnesses of the other two recorded deviations of the second part ------------------------------ *)
Definition wst (f : form) : import_stmt := Build_import_stmt f false PModule.

(* src layout (F64): pkg/__init__, pkg/a, pkg/sub/__init__, pkg/sub/c and pkg/b, both c and b say "import pkg.a".
   Analysed from the import root both edges are found; one directory higher (module names prefixed) only the
   edge from pkg/b, whose parent directory is the import root *)
Definition w_src : project :=
  [ Build_pymodule [1] true [] None; Build_pymodule [1; 2] false [] None; Build_pymodule [1; 3] true [] None;
    Build_pymodule [1; 3; 4] false [wst (ImportAbs [1; 2])] None; Build_pymodule [1; 5] false [wst (ImportAbs [1; 2])] None ]%N.

Lemma src_layout_loses_edges :
  edges_py w_src = [([1; 3; 4], [1; 2]); ([1; 5], [1; 2])]%N /\
  edges_model_o default_opts w_src = edges_py w_src /\
  edges_model_o default_opts (add_prefix [9%N] w_src) = [([9; 1; 5], [9; 1; 2])]%N /\
  prefix_edges [9%N] (edges_py (drop_deep_abs w_src)) = [([9; 1; 5], [9; 1; 2])]%N.
Proof. repeat split; vm_compute; reflexivity. Qed.

(* wildcard re-export (F61): a/__init__ says "from .impl import *" (CPython: binds fa and fb of a.impl), user says
   "from a import fa".  Written out, the model follows the re-export; with the wildcard it stops at the package *)
Definition w_star (names : list iname) : project :=
  [ Build_pymodule [1] true [wst (ImportRel 1 [2] names)] None; Build_pymodule [1; 2] false [] None;
    Build_pymodule [5] false [wst (ImportFrom [1] [Build_iname 7%N 7%N])] None ]%N.

Lemma wildcard_reexport_not_followed :
  let written_out := w_star [Build_iname 7%N 7%N; Build_iname 8%N 8%N] in
  let wildcard := w_star [Build_iname star star] in
  In ([5], [1; 2])%N (edges_py written_out) /\
  edges_model_o default_opts written_out = [([5], [1; 2])]%N /\
  edges_model_o default_opts wildcard = [([5], [1])]%N /\
  class_wildcard_reexport wildcard = true /\ star_free wildcard = false.
Proof. repeat split; vm_compute; auto. Qed.
