(* C12 — proofs about Deps/Metrics.v and the graph construction of Deps/Imports.v. *)
From Coq Require Import NArith ZArith QArith Qabs List Bool Arith Lia Lqa Permutation.
From PV Require Import Deps.PyImport Deps.Imports Deps.Metrics.
Import ListNotations.
Local Open Scope nat_scope.

Lemma path_eqb_eq : forall p q, path_eqb p q = true <-> p = q.
Proof.
  induction p as [|a p IH]; destruct q as [|b q]; simpl; split; intro H; try discriminate; auto.
  - apply andb_true_iff in H. destruct H as [H1 H2]. apply N.eqb_eq in H1. apply IH in H2. congruence.
  - inversion H; subst. apply andb_true_iff. split. apply N.eqb_refl. apply IH. reflexivity.
Qed.

Lemma path_eqb_refl : forall p, path_eqb p p = true.
Proof. intro. apply path_eqb_eq. reflexivity. Qed.

Lemma path_eqb_sym : forall p q, path_eqb p q = path_eqb q p.
Proof.
  intros. destruct (path_eqb p q) eqn:E.
  - apply path_eqb_eq in E. subst. symmetry. apply path_eqb_refl.
  - destruct (path_eqb q p) eqn:E'; auto. apply path_eqb_eq in E'. subst. rewrite path_eqb_refl in E. discriminate.
Qed.

Lemma mem_path_In : forall p l, mem_path p l = true <-> In p l.
Proof.
  intros. unfold mem_path. rewrite existsb_exists. split.
  - intros [x [Hi He]]. apply path_eqb_eq in He. subst. assumption.
  - intro. exists p. split; auto. apply path_eqb_refl.
Qed.

(* ---------------------------------------------------------------------------------------- *)
(* fan-in = in-degree, fan-out = out-degree                                                   *)
(* ---------------------------------------------------------------------------------------- *)
Lemma degree_bump : forall p q l, degree p (bump q l) = if path_eqb q p then S (degree p l) else degree p l.
Proof.
  intros p q l. induction l as [|[r k] l IH]; simpl.
  - destruct (path_eqb q p); reflexivity.
  - destruct (path_eqb r q) eqn:E; simpl.
    + apply path_eqb_eq in E. subst. destruct (path_eqb q p); reflexivity.
    + destruct (path_eqb r p) eqn:E2.
      * apply path_eqb_eq in E2. subst. rewrite path_eqb_sym, E. reflexivity.
      * apply IH.
Qed.

Lemma count_snoc : forall (f : edge -> bool) l e,
  length (filter f (l ++ [e])) = length (filter f l) + (if f e then 1 else 0).
Proof. intros. rewrite filter_app, app_length. simpl. destruct (f e); reflexivity. Qed.

Definition degrees_ok (g : graph) : Prop :=
  (forall m, degree m (g_in g) = in_degree (g_edges g) m) /\
  (forall m, degree m (g_out g) = out_degree (g_edges g) m).

Lemma degrees_ok_empty : forall pr, degrees_ok (empty_graph pr).
Proof. intro. split; intro; reflexivity. Qed.

Lemma degrees_ok_add : forall g a b, degrees_ok g -> degrees_ok (AddDependency g a b).
Proof.
  intros g a b [Hi Ho]. unfold AddDependency.
  destruct (negb (mem_path a (g_nodes g) && mem_path b (g_nodes g))); [split; assumption|].
  destruct (path_eqb a b); [split; assumption|].
  destruct (has_edge (g_edges g) (a, b)); [split; assumption|].
  split; intro m; simpl; rewrite degree_bump.
  - rewrite (Hi m). unfold in_degree. rewrite count_snoc. simpl. destruct (path_eqb b m); [rewrite Nat.add_1_r|rewrite Nat.add_0_r]; reflexivity.
  - rewrite (Ho m). unfold out_degree. rewrite count_snoc. simpl. destruct (path_eqb a m); [rewrite Nat.add_1_r|rewrite Nat.add_0_r]; reflexivity.
Qed.

Lemma fold_left_inv : forall {A B} (P : A -> Prop) (f : A -> B -> A) l a,
  (forall a b, P a -> P (f a b)) -> P a -> P (fold_left f l a).
Proof. intros A B P f l. induction l; simpl; intros; auto. Qed.

Lemma degrees_ok_analyze : forall pr order, degrees_ok (AnalyzeFiles pr order).
Proof.
  intros. unfold AnalyzeFiles. apply fold_left_inv; [|apply degrees_ok_empty].
  intros g m Hg. unfold analyzeModuleDependencies. destruct (shadowed pr m); [assumption|]. apply fold_left_inv; [|assumption].
  intros g' ii Hg'. unfold analyze_import. destruct (ii_tc ii); [assumption|].
  apply fold_left_inv; [|assumption].
  intros g'' r Hg''. destruct (m_is_pkg m && strict_prefixb (m_path m) r); [assumption|]. apply degrees_ok_add. assumption.
Qed.

Lemma fan_in_is_in_degree : forall pr order m,
  fan_in (AnalyzeFiles pr order) m = in_degree (g_edges (AnalyzeFiles pr order)) m.
Proof. intros. apply (proj1 (degrees_ok_analyze pr order)). Qed.

Lemma fan_out_is_out_degree : forall pr order m,
  fan_out (AnalyzeFiles pr order) m = out_degree (g_edges (AnalyzeFiles pr order)) m.
Proof. intros. apply (proj2 (degrees_ok_analyze pr order)). Qed.

(* no edge is recorded twice, none from a module to itself, all between project modules *)
Definition edges_ok (g : graph) : Prop :=
  NoDup (g_edges g) /\ forall a b, In (a, b) (g_edges g) -> a <> b /\ In a (g_nodes g) /\ In b (g_nodes g).

Lemma has_edge_In : forall es e, has_edge es e = true <-> In e es.
Proof.
  intros es [a b]. unfold has_edge. rewrite existsb_exists. split.
  - intros [[c d] [Hi He]]. unfold edge_eqb in He. simpl in He. apply andb_true_iff in He. destruct He as [H1 H2].
    apply path_eqb_eq in H1. apply path_eqb_eq in H2. subst. assumption.
  - intro H. exists (a, b). split; auto. unfold edge_eqb. simpl. rewrite !path_eqb_refl. reflexivity.
Qed.

Lemma edges_ok_add : forall g a b, edges_ok g -> edges_ok (AddDependency g a b) /\ g_nodes (AddDependency g a b) = g_nodes g.
Proof.
  intros g a b [Hn Hp]. unfold AddDependency.
  destruct (mem_path a (g_nodes g) && mem_path b (g_nodes g)) eqn:Em; simpl; [|split; [split|]; auto].
  destruct (path_eqb a b) eqn:Eab; [split; [split|]; auto|].
  destruct (has_edge (g_edges g) (a, b)) eqn:Eh; [split; [split|]; auto|].
  simpl. split; [|reflexivity]. split.
  - apply (Permutation.Permutation_NoDup (l := (a, b) :: g_edges g)).
    + apply Permutation.Permutation_cons_append.
    + constructor; auto. intro Hin. apply has_edge_In in Hin. congruence.
  - intros c d Hin. apply in_app_or in Hin. destruct Hin as [Hin|[Heq|[]]]; auto.
    inversion Heq; subst. apply andb_true_iff in Em. destruct Em as [E1 E2].
    apply mem_path_In in E1. apply mem_path_In in E2. repeat split; auto.
    intro; subst. rewrite path_eqb_refl in Eab. discriminate.
Qed.
