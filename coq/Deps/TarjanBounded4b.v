(* quarter 2 of 4 of the enumeration of all digraphs on four modules (see Deps/TarjanBounded.v) *)
From Coq Require Import List NArith Bool.
From PV Require Import Deps.DepsRun.
Lemma bounded4b : forall_bits 14 1 (ok_mask 4) = true.
Proof. vm_compute. reflexivity. Qed.
