(* Entry points used by the correspondence check (harness/c12.py) for the option-dependent part of C12:
   analysis options, `if` conditions that mention TYPE_CHECKING, wildcard re-exports, namespace packages,
   projects whose import root lies below the directory pyscn takes for the project root (src layout). *)
From Coq Require Import NArith ZArith QArith List Bool Arith.
From PV Require Import Deps.PyImport Deps.Imports Deps.Metrics Deps.ImportsWf Deps.ImportsOpt Deps.TcGuard.
Import ListNotations.

Definition mk_opts (s t r : bool) (ex : list path) : opts := Build_opts s t r ex.

(* ---- what the recorded deviations do to the specification's graph ---------------------------------- *)

Definition map_imports (f : pymodule -> list import_stmt) (pr : project) : project :=
  map (fun m => Build_pymodule (m_path m) (m_is_pkg m) (f m) (m_all m)) pr.

(* class 5: a wildcard in an __init__ re-exports nothing *)
Definition drop_star_names (s : import_stmt) : list import_stmt :=
  let keep ns := filter (fun x => negb (is_star x)) ns in
  match i_form s with
  | ImportAbs _ => [s]
  | ImportFrom p ns => match keep ns with [] => [] | ns' => [Build_import_stmt (ImportFrom p ns') (i_tc s) (i_pos s)] end
  | ImportRel lv p ns => match keep ns with [] => [] | ns' => [Build_import_stmt (ImportRel lv p ns') (i_tc s) (i_pos s)] end
  end.

Definition drop_star (pr : project) : project :=
  map_imports (fun m => if m_is_pkg m then flat_map drop_star_names (m_imports m) else m_imports m) pr.

(* class 8, the import root lies below pyscn's project root: an absolute import is searched in the importing
   directory, in pyscn's root and in the parent directory, so from a directory two or more levels below the
   import root it is found in none of them *)
Definition drop_deep_abs (pr : project) : project :=
  map_imports (fun m => if Nat.leb 2 (length (dir_of m))
                        then filter is_rel (m_imports m) else m_imports m) pr.

Definition add_prefix (prefix : path) (pr : project) : project :=
  map (fun m => Build_pymodule (prefix ++ m_path m) (m_is_pkg m) (m_imports m) (m_all m)) pr.

Definition prefix_edges (prefix : path) (es : list edge) : list edge :=
  map (fun e => (prefix ++ fst e, prefix ++ snd e)) es.

(* [pr_model]: the project as the analyser sees it (its own reading of the guards, wildcard names kept);
   [pr_spec]: the project as CPython runs it (guards evaluated, wildcards written out by the harness);
   both relative to the import root; [prefix]: the path from pyscn's project root to the import root.
   Result: spec edges, model edges (two file orders agree), deviation classes 1-4 of the spec project, the new
   classes present with the graph the specification gives once the deviation is applied, metrics, depth. *)
Definition run_project_x (dag : bool) (o : opts) (prefix : path) (pr_model pr_spec : project) :=
  let prm := add_prefix prefix pr_model in
  let g := AnalyzeFiles_o o prm prm in
  let g' := AnalyzeFiles_o o prm (rev prm) in
  let spec := prefix_edges prefix (edges_py_o o pr_spec) in
  let alt (pr' : project) := prefix_edges prefix (edges_py_o o pr') in
  (spec, g_edges g, same_edges (g_edges g) (g_edges g'), deviation_classes pr_spec,
   (if class_wildcard_reexport pr_model then [(5%N, alt (drop_star pr_model))] else []) ++
   (match prefix with [] => [] | _ => [(8%N, alt (drop_deep_abs pr_spec))] end),
   map (fun m => (m_path m, module_metrics g (m_path m))) prm,
   (calculateMaxDepth (g_nodes g) (g_edges g), if dag then longest_chain (g_nodes g) (g_edges g) else 0%nat)).

Definition run_resolve_x (pr : project) : list (list (list path)) :=
  map (fun m => map (resolve_py pr m) (m_imports m)) pr.

(* the value Python gives a guard (compared with python3 by the harness) and the analyser's reading of it: is the body
   type-checking-only, are the elif / else branches *)
Definition run_guards (gs : list gexpr) : list (bool * bool * bool) :=
  map (fun e => (eval_guard e, isTypeCheckingCondition e, isNotTypeCheckingCondition e)) gs.
