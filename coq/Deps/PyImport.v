(* C12 — SPEC: which project modules an import statement resolves to under CPython's import
   semantics, for a project whose root directory is on sys.path.

   Names are codes (N); the harness owns the code <-> string table.  A module is identified by
   its dotted path (list of names).  A project is the list of its modules; a package is a module
   whose file is <path>/__init__.py.

   The definitions below are the property text turned into functions; they are tied to CPython
   itself by the harness (harness/c12.py, [cpython_oracle]): every generated statement is executed
   by python3 in the name space of its importing module and the modules the bound names come
   from are compared with [resolve_py]. *)
From Coq Require Import NArith List Bool Arith.
Import ListNotations.

Definition name := N.
Definition path := list name.

Fixpoint path_eqb (p q : path) : bool :=
  match p, q with
  | [], [] => true
  | a :: p', b :: q' => N.eqb a b && path_eqb p' q'
  | _, _ => false
  end.

(* p is a proper prefix of q: q lies strictly below the package p *)
Fixpoint strict_prefixb (p q : path) : bool :=
  match p, q with
  | [], _ :: _ => true
  | a :: p', b :: q' => N.eqb a b && strict_prefixb p' q'
  | _, _ => false
  end.

Definition mem_path (p : path) (l : list path) : bool := existsb (path_eqb p) l.

(* ---------------------------------------------------------------------------------------- *)
(* Python source of one module, as far as imports are concerned                               *)
(* ---------------------------------------------------------------------------------------- *)
Inductive position :=
  | PModule | PDef | PClass | PIf | PElif | PElse | PTry | PExcept | PTryElse | PFinally
  | PWith | PLoop | PLoopElse | PMatch.

(* one imported name of a from-import: "orig as bound" (bound = orig without alias) *)
Record iname := { in_orig : name; in_bound : name }.

Inductive form :=
  | ImportAbs (p : path)                               (* import a.b [as x]            *)
  | ImportFrom (p : path) (names : list iname)         (* from a.b import c, d as e    *)
  | ImportRel (level : nat) (p : path) (names : list iname).
                                                       (* from ..x import y: level 2, p = [x]; level >= 1 *)

Record import_stmt := {
  i_form : form;
  i_tc : bool;            (* lies in the body of an "if TYPE_CHECKING:" block *)
  i_pos : position        (* where the statement stands; irrelevant for the property *)
}.

Record pymodule := {
  m_path : path;                  (* dotted name; for a package the name of the package *)
  m_is_pkg : bool;                (* the file is <path>/__init__.py *)
  m_imports : list import_stmt;
  m_all : option (list name)      (* __all__ = [...] if the module declares it *)
}.

Definition project := list pymodule.

Definition module_names (pr : project) : list path := map m_path pr.
Definition is_module (pr : project) (p : path) : bool := mem_path p (module_names pr).
Definition find_module (pr : project) (p : path) : option pymodule :=
  find (fun m => path_eqb (m_path m) p) pr.

(* ---------------------------------------------------------------------------------------- *)
(* CPython: importlib._bootstrap._resolve_name / _handle_fromlist                            *)
(* ---------------------------------------------------------------------------------------- *)

(* __package__ of a module: the package itself for an __init__, else the parent *)
Definition package_of (m : pymodule) : path :=
  if m_is_pkg m then m_path m else removelast (m_path m).

(* _resolve_name(name, package, level): package.rsplit('.', level-1)[0] + '.' + name;
   "attempted relative import beyond top-level package" / "with no known parent package" = None *)
Definition rel_base (pkg : path) (level : nat) : option path :=
  match pkg with
  | [] => None
  | _ => if Nat.ltb (level - 1) (length pkg) then Some (firstn (length pkg - (level - 1)) pkg) else None
  end.

(* does a statement at this position bind its names in the module's own name space? *)
Definition binds_at_module_level (pos : position) : bool :=
  match pos with PDef | PClass => false | _ => true end.

(* the module a from-import statement of module [m] takes its names from *)
Definition from_target (m : pymodule) (f : form) : option (path * list iname) :=
  match f with
  | ImportAbs _ => None
  | ImportFrom p ns => Some (p, ns)
  | ImportRel lv p ns => match rel_base (package_of m) lv with Some b => Some (b ++ p, ns) | None => None end
  end.

(* name n of package P, as bound by the runtime from-imports of P/__init__.py (last binding wins):
   the project module the bound object was taken from — one level, as the property says *)
Definition binding_source (pr : project) (init : pymodule) (s : import_stmt) (n : name) : option path :=
  if i_tc s || negb (binds_at_module_level (i_pos s)) then None else
  match from_target init (i_form s) with
  | None => None
  | Some (t, ns) =>
      match find (fun x => N.eqb (in_bound x) n) (rev ns) with
      | None => None
      | Some x =>
          if is_module pr (t ++ [in_orig x]) then Some (t ++ [in_orig x])   (* a submodule was bound *)
          else if path_eqb t (m_path init) then None      (* a name of the package itself: nothing new *)
          else if is_module pr t then Some t else None
      end
  end.

Fixpoint last_some {A B} (f : A -> option B) (l : list A) : option B :=
  match l with
  | [] => None
  | a :: l' => match last_some f l' with Some b => Some b | None => f a end
  end.

Definition reexport_py (pr : project) (P : path) (n : name) : option path :=
  match find_module pr P with
  | Some init => if m_is_pkg init then last_some (fun s => binding_source pr init s n) (m_imports init) else None
  | None => None
  end.

(* "from P import n": the attribute n of P if P/__init__ bound it by an import (re-export),
   else the submodule P.n if there is one, else P itself *)
Definition resolve_name_py (pr : project) (P : path) (n : name) : path :=
  match reexport_py pr P n with
  | Some src => src
  | None => if is_module pr (P ++ [n]) then P ++ [n] else P
  end.

(* the project modules the statement resolves to *)
Definition resolve_py (pr : project) (m : pymodule) (s : import_stmt) : list path :=
  match i_form s with
  | ImportAbs p => if is_module pr p then [p] else []
  | f => match from_target m f with
         | None => []
         | Some (t, ns) => filter (is_module pr) (map (fun x => resolve_name_py pr t (in_orig x)) ns)
         end
  end.

Definition edge := (path * path)%type.

Definition edge_eqb (e f : edge) : bool := path_eqb (fst e) (fst f) && path_eqb (snd e) (snd f).

(* A -> B iff some runtime import statement of A resolves to project module B <> A *)
Definition edges_of_module_py (pr : project) (m : pymodule) : list edge :=
  flat_map (fun s => if i_tc s then [] else
              map (fun b => (m_path m, b)) (filter (fun b => negb (path_eqb b (m_path m))) (resolve_py pr m s)))
           (m_imports m).

Definition edges_py (pr : project) : list edge := flat_map (edges_of_module_py pr) pr.

Definition has_edge (es : list edge) (e : edge) : bool := existsb (edge_eqb e) es.

(* the graphs are compared as sets *)
Definition same_edges (es fs : list edge) : bool :=
  forallb (has_edge fs) es && forallb (has_edge es) fs.
