(* C06 (time clause): proofs about Deps/DepthCost.v.
   1. [max_depth_value_unchanged]: on every graph whose imports stay inside the graph, calculateMaxDepth with the height
      table returns what the enumeration of simple paths returns (cycles included).
   2. [visit_all_cost]: acyclicChainHeights makes at most modules + imports calls of visit, on every graph.
   3. [max_depth_steps_linear]: on an acyclic graph every module gets a height, calculateDepthFromModule is called once
      per module, the whole of calculateMaxDepth makes at most 2*modules + imports calls.
   4. [depth_exponential]: the enumeration alone makes 2^(n-1) calls on the complete DAG (the repaired finding F21);
      [new_calls_le_enum]: the new code never makes more calls of calculateDepthFromModule than the enumeration. *)
From Coq Require Import List Arith NArith Lia Bool.
From PV Require Import Deps.DepthCost.
Import ListNotations.

(* ------------------------------------------------------------------------------------------ *)
(* small facts                                                                                 *)
(* ------------------------------------------------------------------------------------------ *)
Lemma fold_max_shift : forall l d a, fold_left Nat.max (map (fun x => d + x) l) (d + a) = d + fold_left Nat.max l a.
Proof. induction l as [|x l IH]; simpl; intros; auto. rewrite Nat.add_max_distr_l. apply IH. Qed.

Lemma fold_max_shift0 : forall l d, fold_left Nat.max (map (fun x => d + x) l) d = d + fold_left Nat.max l 0.
Proof. intros. pose proof (fold_max_shift l d 0) as H. rewrite Nat.add_0_r in H. exact H. Qed.

Lemma fold_max_ge_acc : forall l a, a <= fold_left Nat.max l a.
Proof. induction l as [|x l IH]; simpl; intros; auto. etransitivity; [|apply IH]. lia. Qed.

Lemma fold_max_ge_in : forall l a x, In x l -> x <= fold_left Nat.max l a.
Proof.
  induction l as [|y l IH]; simpl; intros a x H; [contradiction|]. destruct H as [H|H].
  - subst. etransitivity; [|apply fold_max_ge_acc]. lia.
  - apply IH. assumption.
Qed.

Lemma fold_max_attained : forall l a, fold_left Nat.max l a = a \/ In (fold_left Nat.max l a) l.
Proof.
  induction l as [|y l IH]; simpl; intros a; auto.
  destruct (IH (Nat.max a y)) as [E|E]; [|auto]. rewrite E.
  destruct (Nat.max_spec a y) as [[_ M]|[_ M]]; rewrite M; auto.
Qed.

Lemma NoDup_app_disjoint {A} (l1 l2 : list A) :
  NoDup l1 -> NoDup l2 -> (forall x, In x l1 -> ~ In x l2) -> NoDup (l1 ++ l2).
Proof.
  induction l1 as [|a l1 IH]; simpl; intros H1 H2 Hd; auto.
  inversion H1; subst. constructor.
  - rewrite in_app_iff. intros [H|H]; [contradiction|]. apply (Hd a); auto.
  - apply IH; [assumption|assumption|]. intros x Hx. apply Hd. right. assumption.
Qed.

Lemma existsb_eqb_false : forall cur visited, existsb (Nat.eqb cur) visited = false -> ~ In cur visited.
Proof.
  intros cur visited E H. assert (X : existsb (Nat.eqb cur) visited = true).
  { apply existsb_exists. exists cur. split; auto. apply Nat.eqb_refl. }
  congruence.
Qed.

Lemma existsb_eqb_true : forall cur visited, existsb (Nat.eqb cur) visited = true -> In cur visited.
Proof. intros cur visited E. apply existsb_exists in E. destruct E as (v & Hv & Heq). apply Nat.eqb_eq in Heq. subst. assumption. Qed.

Lemma list_sum_le {A} (g h : A -> nat) l : (forall x, In x l -> g x <= h x) -> list_sum (map g l) <= list_sum (map h l).
Proof.
  induction l as [|a l IH]; simpl; intro H; [lia|].
  pose proof (H a (or_introl eq_refl)). assert (list_sum (map g l) <= list_sum (map h l)) by (apply IH; intros; apply H; right; assumption). lia.
Qed.

(* unfolding equations *)
Lemma depth_from_S : forall f succ visited cur d,
  depth_from (S f) succ visited cur d =
  if existsb (Nat.eqb cur) visited then (d, 1)
  else (fold_left Nat.max (map fst (map (fun dep => depth_from f succ (cur :: visited) dep (S d)) (succ cur))) d,
        1 + list_sum (map snd (map (fun dep => depth_from f succ (cur :: visited) dep (S d)) (succ cur)))).
Proof. reflexivity. Qed.

Lemma depth_from_new_S : forall f ht succ visited cur d,
  depth_from_new (S f) ht succ visited cur d =
  if existsb (Nat.eqb cur) visited then (d, 1)
  else match ht cur with
       | Some h => (d + h, 1)
       | None => (fold_left Nat.max (map fst (map (fun dep => depth_from_new f ht succ (cur :: visited) dep (S d)) (succ cur))) d,
                  1 + list_sum (map snd (map (fun dep => depth_from_new f ht succ (cur :: visited) dep (S d)) (succ cur))))
       end.
Proof. reflexivity. Qed.

Lemma visit_S : forall f succ st m,
  visit (S f) succ st m =
  match find_mark st m with
  | Some k => mk_vres st k 1
  | None => let a := fold_left (visit_step (visit f succ)) (succ m) (mk_vres ((m, InProgress) :: st) (Height 0) 1) in
            mk_vres ((m, v_mark a) :: v_st a) (v_mark a) (v_cost a)
  end.
Proof. reflexivity. Qed.

(* ------------------------------------------------------------------------------------------ *)
(* 1. value preservation                                                                       *)
(* ------------------------------------------------------------------------------------------ *)
(* a height table is VALID when the dependencies of a module with a height all have one, and the height of the module is
   0 without dependencies, else 1 + the largest height of a dependency *)
Definition valid (succ : nat -> list nat) (ht : nat -> option nat) : Prop :=
  forall m h, ht m = Some h -> exists hs, map ht (succ m) = map Some hs /\ h = fold_left Nat.max (map S hs) 0.

Lemma map_some_in : forall (ht : nat -> option nat) l hs s h,
  map ht l = map Some hs -> In s l -> ht s = Some h -> In h hs.
Proof.
  intros ht l hs s h E Hs Hh. assert (X : In (Some h) (map Some hs)).
  { rewrite <- E, <- Hh. apply in_map. assumption. }
  apply in_map_iff in X. destruct X as (h' & Eq & Hin). congruence.
Qed.

Lemma map_some_in_inv : forall (ht : nat -> option nat) l hs h,
  map ht l = map Some hs -> In h hs -> exists s, In s l /\ ht s = Some h.
Proof.
  intros ht l hs h E Hh. assert (X : In (Some h) (map ht l)) by (rewrite E; apply in_map; assumption).
  apply in_map_iff in X. destruct X as (s & Eq & Hin). eauto.
Qed.

Section Table.
Variable succ : nat -> list nat.
Variable ht : nat -> option nat.
Hypothesis Hvalid : valid succ ht.

(* the enumeration below a module with a height, every module of the current path having none or a larger one,
   returns depth + height *)
Lemma enum_table : forall fuel cur visited d h,
  ht cur = Some h -> h < fuel -> (forall v hv, In v visited -> ht v = Some hv -> h < hv) ->
  fst (depth_from fuel succ visited cur d) = d + h.
Proof.
  induction fuel as [|f IH]; intros cur visited d h Hc Hf Hv; [lia|].
  rewrite depth_from_S.
  destruct (existsb (Nat.eqb cur) visited) eqn:E.
  - apply existsb_eqb_true in E. specialize (Hv _ _ E Hc). lia.
  - cbn [fst]. destruct (Hvalid _ _ Hc) as (hs & Hm & Hh).
    assert (A : forall (l : list nat) hs', map ht l = map Some hs' -> (forall s, In s l -> In s (succ cur)) ->
              map fst (map (fun dep => depth_from f succ (cur :: visited) dep (S d)) l) = map (fun x => d + x) (map S hs')).
    { induction l as [|s l IHl]; intros hs' Em Hsub; destruct hs' as [|b hs']; simpl in Em; try discriminate; [reflexivity|].
      injection Em as Es El.
      assert (Hb : S b <= h).
      { assert (In (S b) (map S hs)) by (apply in_map; eapply map_some_in; [exact Hm|apply Hsub; left; reflexivity|exact Es]).
        pose proof (fold_max_ge_in (map S hs) 0 (S b) H). lia. }
      simpl. f_equal.
      - rewrite (IH s (cur :: visited) (S d) b); [lia|assumption|lia|].
        intros v hv [Hx|Hx] Hhv; [subst v; rewrite Hc in Hhv; injection Hhv as <-; lia|].
        specialize (Hv _ _ Hx Hhv). lia.
      - apply IHl; [assumption|]. intros. apply Hsub. right. assumption. }
    rewrite (A (succ cur) hs Hm (fun s H => H)).
    rewrite fold_max_shift0. lia.
Qed.

(* a module of height h has h+1 distinct modules with heights at most h below and including it *)
Lemma chain_nodup : forall h m, ht m = Some h ->
  exists l, NoDup l /\ length l = S h /\ (forall x, In x l -> exists hx, ht x = Some hx /\ hx <= h).
Proof.
  induction h as [|h IH]; intros m Hm.
  - exists [m]. split; [constructor; [intros []|constructor]|]. split; [reflexivity|].
    intros x [<-|[]]. exists 0. auto.
  - destruct (Hvalid _ _ Hm) as (hs & Hmap & Hh).
    destruct (fold_max_attained (map S hs) 0) as [E|E]; [lia|]. rewrite <- Hh in E.
    apply in_map_iff in E. destruct E as (b & Eb & Hin). injection Eb as ->.
    destruct (map_some_in_inv _ _ _ _ Hmap Hin) as (s & _ & Hs).
    destruct (IH s Hs) as (l & Hnd & Hlen & Hall).
    exists (m :: l). split; [|split].
    + constructor; [|assumption]. intro Hx. destruct (Hall _ Hx) as (hx & Ex & Hle). rewrite Hm in Ex. injection Ex as <-. lia.
    + simpl. lia.
    + intros x [<-|Hx]; [exists (S h); auto|]. destruct (Hall _ Hx) as (hx & Ex & Hle). exists hx. split; [assumption|lia].
Qed.

Variable nodes : list nat.
Hypothesis Hclosed : closed succ nodes.
Hypothesis Hkeys : forall m h, ht m = Some h -> In m nodes.

(* calculateDepthFromModule with the table = the enumeration, wherever the search may be *)
Lemma new_eq_enum : forall fuel visited cur d,
  length nodes < fuel + length visited -> NoDup visited -> incl visited nodes -> In cur nodes ->
  (forall v, In v visited -> ht v = None) ->
  fst (depth_from_new fuel ht succ visited cur d) = fst (depth_from fuel succ visited cur d).
Proof.
  induction fuel as [|f IH]; intros visited cur d Hf Hnd Hincl Hcur Hv; [reflexivity|].
  rewrite depth_from_new_S.
  destruct (existsb (Nat.eqb cur) visited) eqn:E; [rewrite depth_from_S, E; reflexivity|].
  destruct (ht cur) as [h|] eqn:Hc.
  - cbn [fst]. symmetry. apply enum_table; [assumption| |].
    + destruct (chain_nodup h cur Hc) as (l & Hl & Hlen & Hall).
      assert (N : NoDup (visited ++ l)).
      { apply NoDup_app_disjoint; [assumption|assumption|]. intros x Hx1 Hx2. destruct (Hall _ Hx2) as (hx & Ex & _).
        rewrite (Hv _ Hx1) in Ex. discriminate. }
      assert (I : incl (visited ++ l) nodes).
      { intros x Hx. apply in_app_iff in Hx. destruct Hx as [Hx|Hx]; [apply Hincl; assumption|].
        destruct (Hall _ Hx) as (hx & Ex & _). eapply Hkeys; eassumption. }
      pose proof (NoDup_incl_length N I) as L. rewrite app_length in L. lia.
    + intros v hv Hin Hhv. rewrite (Hv _ Hin) in Hhv. discriminate.
  - rewrite depth_from_S, E. cbn [fst]. f_equal. rewrite !map_map. apply map_ext_in. intros dep Hdep.
    apply IH.
    + simpl. lia.
    + constructor; [apply existsb_eqb_false; assumption|assumption].
    + intros x [<-|Hx]; [assumption|apply Hincl; assumption].
    + eapply Hclosed; eassumption.
    + intros v [<-|Hx]; [assumption|apply Hv; assumption].
Qed.

Lemma max_depth_table : 
  fold_left Nat.max (map (fun m => fst (depth_from_new (S (length nodes)) ht succ [] m 0)) nodes) 0 = max_depth succ nodes.
Proof.
  unfold max_depth. f_equal. apply map_ext_in. intros m Hm. apply new_eq_enum.
  - simpl. lia.
  - constructor.
  - intros x [].
  - assumption.
  - intros v [].
Qed.

(* never more calls than the enumeration *)
Lemma new_calls_le_enum_from : forall fuel visited cur d,
  snd (depth_from_new fuel ht succ visited cur d) <= snd (depth_from fuel succ visited cur d).
Proof.
  induction fuel as [|f IH]; intros; [simpl; lia|].
  rewrite depth_from_new_S, depth_from_S.
  destruct (existsb (Nat.eqb cur) visited); [simpl; lia|].
  destruct (ht cur); cbn [snd]; [lia|].
  rewrite !map_map. apply le_n_S. apply list_sum_le. intros. apply IH.
Qed.
End Table.

(* ------------------------------------------------------------------------------------------ *)
(* 2. acyclicChainHeights computes a valid table, on every graph                                *)
(* ------------------------------------------------------------------------------------------ *)
Lemma find_cons_same : forall st m k, find_mark ((m, k) :: st) m = Some k.
Proof. intros. simpl. rewrite Nat.eqb_refl. reflexivity. Qed.

Lemma find_cons_other : forall st m k x, x <> m -> find_mark ((m, k) :: st) x = find_mark st x.
Proof. intros. simpl. destruct (Nat.eqb_spec m x); [congruence|reflexivity]. Qed.

Definition ext (st st' : marks) : Prop := forall x k, find_mark st x = Some k -> find_mark st' x = Some k.

Lemma ext_refl : forall st, ext st st.
Proof. intros st x k H. exact H. Qed.

Lemma ext_trans : forall a b c, ext a b -> ext b c -> ext a c.
Proof. intros a b c H1 H2 x k H. apply H2, H1, H. Qed.

Lemma hval_ext : forall st st' x h, ext st st' -> hval st x = Some h -> hval st' x = Some h.
Proof.
  unfold hval. intros st st' x h He H. destruct (find_mark st x) as [k|] eqn:E; [|discriminate].
  rewrite (He _ _ E). exact H.
Qed.

Lemma map_hval_ext : forall st st' l hs, ext st st' -> map (hval st) l = map Some hs -> map (hval st') l = map Some hs.
Proof.
  intros st st' l. induction l as [|s l IH]; intros hs He H; destruct hs as [|b hs]; simpl in *; try discriminate; auto.
  injection H as H1 H2. f_equal; [eapply hval_ext; eassumption|apply IH; assumption].
Qed.

Lemma hval_cons_other : forall st m k x, x <> m -> hval ((m, k) :: st) x = hval st x.
Proof. intros. unfold hval. rewrite find_cons_other by assumption. reflexivity. Qed.

Lemma map_hval_cons_none : forall st m k l hs, hval st m = None ->
  map (hval st) l = map Some hs -> map (hval ((m, k) :: st)) l = map Some hs.
Proof.
  intros st m k l. induction l as [|s l IH]; intros hs Hn H; destruct hs as [|b hs]; simpl in *; try discriminate; auto.
  injection H as H1 H2. f_equal; [|apply IH; assumption].
  rewrite hval_cons_other; [assumption|]. intro; subst. congruence.
Qed.

Section Visit.
Variable succ : nat -> list nat.
Variable nodes : list nat.
Hypothesis Hclosed : closed succ nodes.

Definition inv (st : marks) : Prop :=
  valid succ (hval st) /\ (forall x k, find_mark st x = Some k -> In x nodes).

Lemma valid_cons : forall st m k, valid succ (hval st) -> hval st m = None ->
  (forall h, k = Height h -> exists hs, map (hval st) (succ m) = map Some hs /\ h = fold_left Nat.max (map S hs) 0) ->
  valid succ (hval ((m, k) :: st)).
Proof.
  intros st m k Hv Hn Hk x h Hx. destruct (Nat.eq_dec x m) as [->|Ne].
  - unfold hval in Hx. rewrite find_cons_same in Hx. destruct k as [| |h']; try discriminate. injection Hx as ->.
    destruct (Hk h eq_refl) as (hs & Hm & Hh). exists hs. split; [apply map_hval_cons_none; assumption|assumption].
  - rewrite hval_cons_other in Hx by assumption. destruct (Hv _ _ Hx) as (hs & Hm & Hh).
    exists hs. split; [apply map_hval_cons_none; assumption|assumption].
Qed.

Definition visit_good (f : nat) : Prop := forall st m, inv st -> In m nodes ->
  ext st (v_st (visit f succ st m)) /\ inv (v_st (visit f succ st m)) /\
  (forall h, v_mark (visit f succ st m) = Height h -> hval (v_st (visit f succ st m)) m = Some h).

Lemma fold_ok : forall f, visit_good f -> forall l a0, inv (v_st a0) -> incl l nodes ->
  ext (v_st a0) (v_st (fold_left (visit_step (visit f succ)) l a0)) /\
  inv (v_st (fold_left (visit_step (visit f succ)) l a0)) /\
  (forall h, v_mark (fold_left (visit_step (visit f succ)) l a0) = Height h ->
     exists h0 hs, v_mark a0 = Height h0 /\
       map (hval (v_st (fold_left (visit_step (visit f succ)) l a0))) l = map Some hs /\
       h = fold_left Nat.max (map S hs) h0).
Proof.
  intros f Hf. induction l as [|s l IH]; intros a0 Hinv Hincl.
  - simpl. split; [apply ext_refl|]. split; [assumption|]. intros h Hh. exists h, []. auto.
  - simpl fold_left.
    destruct (Hf (v_st a0) s Hinv (Hincl s (or_introl eq_refl))) as (He1 & Hi1 & Hm1).
    set (a1 := visit_step (visit f succ) a0 s).
    assert (Est : v_st a1 = v_st (visit f succ (v_st a0) s)) by reflexivity.
    assert (Emk : v_mark a1 = step (v_mark a0) (v_mark (visit f succ (v_st a0) s))) by reflexivity.
    destruct (IH a1) as (He2 & Hi2 & Hm2); [rewrite Est; assumption|intros x Hx; apply Hincl; right; assumption|].
    split; [eapply ext_trans; [exact He1|rewrite <- Est; exact He2]|]. split; [assumption|].
    intros h Hh. destruct (Hm2 h Hh) as (h1 & hs & Hk1 & Hmap & Hfold).
    rewrite Emk in Hk1. destruct (v_mark a0) as [| |h0] eqn:K0; try discriminate.
    destruct (v_mark (visit f succ (v_st a0) s)) as [| |b] eqn:Kr; try discriminate.
    simpl in Hk1. injection Hk1 as <-.
    exists h0, (b :: hs). split; [reflexivity|]. split; [|simpl; assumption].
    simpl. f_equal; [|assumption].
    eapply hval_ext; [exact He2|]. rewrite Est. apply Hm1. reflexivity.
Qed.

Lemma visit_ok : forall f, visit_good f.
Proof.
  induction f as [|f IH]; intros st m Hinv Hm.
  - simpl. split; [apply ext_refl|]. split; [assumption|]. intros h Hh. discriminate.
  - rewrite visit_S. destruct (find_mark st m) as [k|] eqn:F.
    + simpl. split; [apply ext_refl|]. split; [assumption|]. intros h ->. unfold hval. rewrite F. reflexivity.
    + set (a0 := mk_vres ((m, InProgress) :: st) (Height 0) 1).
      assert (Hn : hval st m = None) by (unfold hval; rewrite F; reflexivity).
      assert (E0 : ext st (v_st a0)).
      { intros x k Hx. unfold a0. cbn [v_st]. rewrite find_cons_other; [assumption|]. intro; subst. congruence. }
      assert (I0 : inv (v_st a0)).
      { destruct Hinv as (Hv & Hk). split.
        - apply valid_cons; [assumption|assumption|]. intros h Hh. discriminate.
        - intros x k. simpl. destruct (Nat.eqb_spec m x); [intros _; subst; assumption|apply Hk]. }
      destruct (fold_ok f IH (succ m) a0 I0) as (He & Hi & Hmk); [intros s Hs; eapply Hclosed; eassumption|].
      set (a := fold_left (visit_step (visit f succ)) (succ m) a0) in *.
      cbn [v_st v_mark v_cost].
      assert (Hip : find_mark (v_st a) m = Some InProgress) by (apply He; apply find_cons_same).
      assert (Hna : hval (v_st a) m = None) by (unfold hval; rewrite Hip; reflexivity).
      split; [|split].
      * intros x k Hx. assert (x <> m) by (intro; subst; congruence).
        rewrite find_cons_other by assumption. apply He. unfold a0. cbn [v_st]. rewrite find_cons_other by assumption. assumption.
      * destruct Hi as (Hv & Hk). split.
        -- apply valid_cons; [assumption|assumption|]. intros h Hh.
           destruct (Hmk h Hh) as (h0 & hs & K0 & Hmap & Hfold). simpl in K0. injection K0 as <-. exists hs. auto.
        -- intros x k. simpl. destruct (Nat.eqb_spec m x); [intros _; subst; assumption|apply Hk].
      * intros h Hh. unfold hval. rewrite find_cons_same. rewrite Hh. reflexivity.
Qed.

Lemma inv_nil : inv [].
Proof. split; [intros m h H; discriminate|intros x k H; discriminate]. Qed.

Lemma visit_all_ok : forall fuel l st c, inv st -> incl l nodes ->
  ext st (fst (fold_left (visit_all_step fuel succ) l (st, c))) /\
  inv (fst (fold_left (visit_all_step fuel succ) l (st, c))).
Proof.
  intros fuel. induction l as [|m l IH]; intros st c Hinv Hincl.
  - simpl. split; [apply ext_refl|assumption].
  - simpl fold_left. change (visit_all_step fuel succ (st, c) m) with (v_st (visit fuel succ st m), c + v_cost (visit fuel succ st m)).
    destruct (visit_ok fuel st m Hinv (Hincl m (or_introl eq_refl))) as (He & Hi & _).
    destruct (IH (v_st (visit fuel succ st m)) (c + v_cost (visit fuel succ st m)) Hi) as (He2 & Hi2).
    + intros x Hx. apply Hincl. right. assumption.
    + split; [eapply ext_trans; eassumption|assumption].
Qed.

Lemma heights_valid : valid succ (fst (acyclic_chain_heights succ nodes)) /\
  (forall m h, fst (acyclic_chain_heights succ nodes) m = Some h -> In m nodes).
Proof.
  unfold acyclic_chain_heights, visit_all. cbn [fst].
  destruct (visit_all_ok (S (length nodes)) nodes [] 0 inv_nil (fun x H => H)) as (_ & Hv & Hk).
  split; [assumption|]. intros m h H. unfold hval in H.
  destruct (find_mark _ m) as [k|] eqn:F; [|discriminate]. eapply Hk. eassumption.
Qed.

(* calculateMaxDepth returns what it returned before the repair: on EVERY graph, cyclic or not, in every order of the maps *)
Theorem max_depth_value_unchanged : max_depth_new succ nodes = max_depth succ nodes.
Proof.
  unfold max_depth_new. destruct heights_valid as (Hv & Hk).
  apply max_depth_table; assumption.
Qed.

Theorem new_calls_le_enum : max_depth_steps succ nodes <= snd (acyclic_chain_heights succ nodes) + max_depth_steps_enum succ nodes.
Proof.
  unfold max_depth_steps, max_depth_steps_enum. apply Nat.add_le_mono_l. apply list_sum_le. intros. apply new_calls_le_enum_from.
Qed.

(* ------------------------------------------------------------------------------------------ *)
(* 3. cost of acyclicChainHeights: at most modules + imports calls of visit, on every graph     *)
(* ------------------------------------------------------------------------------------------ *)
Definition known (st : marks) (x : nat) : bool := match find_mark st x with Some _ => true | None => false end.
Definition phi_l (l : list nat) (st : marks) : nat := list_sum (map (fun x => if known st x then 0 else length (succ x)) l).
Definition phi := phi_l nodes.

Lemma phi_cons_le : forall l st m k, phi_l l ((m, k) :: st) <= phi_l l st.
Proof.
  intros. unfold phi_l. apply list_sum_le. intros x _. unfold known. simpl.
  destruct (Nat.eqb m x); [lia|]. destruct (find_mark st x); lia.
Qed.

Lemma phi_cons_fresh : forall l st m k, In m l -> find_mark st m = None ->
  phi_l l ((m, k) :: st) + length (succ m) <= phi_l l st.
Proof.
  induction l as [|x l IH]; intros st m k Hin F; [contradiction|].
  unfold phi_l in *. simpl map. simpl list_sum.
  destruct (Nat.eq_dec x m) as [->|Ne].
  - unfold known at 1 3. rewrite find_cons_same, F.
    pose proof (phi_cons_le l st m k) as P. unfold phi_l in P. lia.
  - destruct Hin as [Hx|Hin]; [congruence|].
    specialize (IH st m k Hin F).
    assert (Ek : known ((m, k) :: st) x = known st x) by (unfold known; rewrite find_cons_other by assumption; reflexivity).
    rewrite Ek. lia.
Qed.

Definition visit_cheap (f : nat) : Prop := forall st m, In m nodes ->
  v_cost (visit f succ st m) + phi (v_st (visit f succ st m)) <= 1 + phi st.

Lemma fold_cost : forall f, visit_cheap f -> forall l a0, incl l nodes ->
  v_cost (fold_left (visit_step (visit f succ)) l a0) + phi (v_st (fold_left (visit_step (visit f succ)) l a0))
  <= v_cost a0 + length l + phi (v_st a0).
Proof.
  intros f Hf. induction l as [|s l IH]; intros a0 Hincl; [simpl; lia|].
  simpl fold_left. set (a1 := visit_step (visit f succ) a0 s).
  assert (H1 : v_cost a1 + phi (v_st a1) <= v_cost a0 + 1 + phi (v_st a0)).
  { unfold a1, visit_step. cbn [v_cost v_st]. pose proof (Hf (v_st a0) s (Hincl s (or_introl eq_refl))). lia. }
  assert (H2 := IH a1 (fun x Hx => Hincl x (or_intror Hx))). simpl length. lia.
Qed.

Lemma visit_cost : forall f, visit_cheap f.
Proof.
  induction f as [|f IH]; intros st m Hm; [simpl; lia|].
  rewrite visit_S. destruct (find_mark st m) as [k|] eqn:F; [simpl; lia|].
  cbn [v_st v_mark v_cost].
  set (a0 := mk_vres ((m, InProgress) :: st) (Height 0) 1).
  pose proof (fold_cost f IH (succ m) a0 (fun s Hs => Hclosed m s Hm Hs)) as C.
  set (a := fold_left (visit_step (visit f succ)) (succ m) a0) in *.
  pose proof (phi_cons_le nodes (v_st a) m (v_mark a)) as P1.
  pose proof (phi_cons_fresh nodes st m InProgress Hm F) as P2.
  unfold phi in *. simpl in C. lia.
Qed.

Lemma visit_all_cost_gen : forall fuel l st c, incl l nodes ->
  snd (fold_left (visit_all_step fuel succ) l (st, c)) +
  phi (fst (fold_left (visit_all_step fuel succ) l (st, c)))
  <= c + length l + phi st.
Proof.
  intros fuel. induction l as [|m l IH]; intros st c Hincl; [simpl; lia|].
  simpl fold_left. change (visit_all_step fuel succ (st, c) m) with (v_st (visit fuel succ st m), c + v_cost (visit fuel succ st m)).
  pose proof (visit_cost fuel st m (Hincl m (or_introl eq_refl))) as V.
  specialize (IH (v_st (visit fuel succ st m)) (c + v_cost (visit fuel succ st m)) (fun x Hx => Hincl x (or_intror Hx))).
  simpl length. lia.
Qed.

Theorem visit_all_cost : snd (acyclic_chain_heights succ nodes) <= length nodes + edge_count succ nodes.
Proof.
  unfold acyclic_chain_heights, visit_all. cbn [snd].
  pose proof (visit_all_cost_gen (S (length nodes)) nodes [] 0 (fun x H => H)) as C.
  assert (E : phi [] = edge_count succ nodes) by reflexivity.
  rewrite E in C. eapply Nat.le_trans; [apply Nat.le_add_r|]. exact C.
Qed.

(* ------------------------------------------------------------------------------------------ *)
(* 4. on an acyclic graph every module gets a height                                            *)
(* ------------------------------------------------------------------------------------------ *)
Variable rank : nat -> nat.
Hypothesis Hrank : forall m s, In m nodes -> In s (succ m) -> rank s < rank m.

Definition no_rc (st : marks) : Prop := forall x, find_mark st x <> Some ReachesCycle.

Definition visit_full (f : nat) : Prop := forall st m, In m nodes -> rank m < f ->
  (forall x, find_mark st x = Some InProgress -> rank m < rank x) -> no_rc st ->
  (exists h, v_mark (visit f succ st m) = Height h) /\
  (forall x, find_mark (v_st (visit f succ st m)) x = Some InProgress -> find_mark st x = Some InProgress) /\
  no_rc (v_st (visit f succ st m)) /\
  find_mark (v_st (visit f succ st m)) m = Some (v_mark (visit f succ st m)).

Lemma fold_full : forall f, visit_full f -> forall st m, (forall x, find_mark st x = Some InProgress -> rank m < rank x) ->
  forall l a0, (forall s, In s l -> In s nodes /\ rank s < rank m /\ rank s < f) ->
  (exists h, v_mark a0 = Height h) ->
  (forall x, find_mark (v_st a0) x = Some InProgress -> x = m \/ find_mark st x = Some InProgress) -> no_rc (v_st a0) ->
  (exists h, v_mark (fold_left (visit_step (visit f succ)) l a0) = Height h) /\
  (forall x, find_mark (v_st (fold_left (visit_step (visit f succ)) l a0)) x = Some InProgress -> x = m \/ find_mark st x = Some InProgress) /\
  no_rc (v_st (fold_left (visit_step (visit f succ)) l a0)).
Proof.
  intros f Hf st m Hst. induction l as [|s l IH]; intros a0 Hl Hk Hip Hrc; [simpl; auto|].
  simpl fold_left. destruct (Hl s (or_introl eq_refl)) as (Hs1 & Hs2 & Hs3).
  destruct (Hf (v_st a0) s Hs1 Hs3) as ((b & Hb) & Hip1 & Hrc1 & _).
  - intros x Hx. destruct (Hip x Hx) as [->|Hx']; [assumption|]. specialize (Hst x Hx'). lia.
  - assumption.
  - apply IH.
    + intros x Hx. apply Hl. right. assumption.
    + destruct Hk as (h0 & Hk). exists (Nat.max h0 (S b)). unfold visit_step. cbn [v_mark]. rewrite Hk, Hb. reflexivity.
    + intros x Hx. apply Hip. apply Hip1. exact Hx.
    + exact Hrc1.
Qed.

Lemma visit_ranked : forall f, visit_full f.
Proof.
  induction f as [|f IH]; intros st m Hm Hf Hip Hrc; [lia|].
  rewrite visit_S. destruct (find_mark st m) as [k|] eqn:F.
  - cbn [v_st v_mark]. split; [|split; [auto|split; assumption]].
    destruct k as [| |h]; [specialize (Hip m F); lia|exfalso; exact (Hrc m F)|eauto].
  - cbn [v_st v_mark].
    set (a0 := mk_vres ((m, InProgress) :: st) (Height 0) 1).
    destruct (fold_full f IH st m Hip (succ m) a0) as ((h & Hh) & Hip1 & Hrc1).
    + intros s Hs. split; [eapply Hclosed; eassumption|]. pose proof (Hrank m s Hm Hs). lia.
    + exists 0. reflexivity.
    + intros x. simpl. destruct (Nat.eqb_spec m x); [auto|]. intro. right. assumption.
    + intros x. simpl. destruct (Nat.eqb_spec m x); [discriminate|apply Hrc].
    + set (a := fold_left (visit_step (visit f succ)) (succ m) a0) in *.
      split; [eauto|]. split; [|split].
      * intros x. simpl. destruct (Nat.eqb_spec m x) as [->|Ne]; [rewrite Hh; discriminate|].
        intro Hx. destruct (Hip1 x Hx) as [->|Hx']; [congruence|assumption].
      * intros x. simpl. destruct (Nat.eqb_spec m x) as [->|Ne]; [rewrite Hh; discriminate|apply Hrc1].
      * apply find_cons_same.
Qed.

Definition all_heights (st : marks) : Prop := forall x k, find_mark st x = Some k -> exists h, k = Height h.

Lemma visit_all_ranked : forall fuel, (forall m, In m nodes -> rank m < fuel) -> forall l st c, incl l nodes -> inv st -> all_heights st ->
  let st' := fst (fold_left (visit_all_step fuel succ) l (st, c)) in
  ext st st' /\ all_heights st' /\ (forall m, In m l -> exists h, hval st' m = Some h).
Proof.
  intros fuel Hfuel. induction l as [|m l IH]; intros st c Hincl Hinv Hall; cbv zeta.
  - simpl. split; [apply ext_refl|]. split; [assumption|]. intros m [].
  - simpl fold_left. change (visit_all_step fuel succ (st, c) m) with (v_st (visit fuel succ st m), c + v_cost (visit fuel succ st m)).
    assert (Hm : In m nodes) by (apply Hincl; left; reflexivity).
    destruct (visit_ok fuel st m Hinv Hm) as (He & Hi & Hmk).
    destruct (visit_ranked fuel st m Hm (Hfuel m Hm)) as ((h & Hh) & Hip & Hrc & Hfm).
    { intros x Hx. destruct (Hall _ _ Hx) as (h & Eh). discriminate. }
    { intros x Hx. destruct (Hall _ _ Hx) as (h & Eh). discriminate. }
    assert (Hall1 : all_heights (v_st (visit fuel succ st m))).
    { intros x k Hx. destruct k as [| |hk]; [|exfalso; exact (Hrc x Hx)|eauto].
      apply Hip in Hx. destruct (Hall _ _ Hx) as (h' & Eh). discriminate. }
    specialize (IH (v_st (visit fuel succ st m)) (c + v_cost (visit fuel succ st m)) (fun x Hx => Hincl x (or_intror Hx)) Hi Hall1).
    cbv zeta in IH. destruct IH as (He2 & Hall2 & Hin2).
    split; [eapply ext_trans; eassumption|]. split; [assumption|].
    intros x [<-|Hx]; [|apply Hin2; assumption].
    exists h. eapply hval_ext; [exact He2|]. apply Hmk. exact Hh.
Qed.

Hypothesis Hrank_bound : forall m, In m nodes -> rank m < length nodes.

Lemma heights_complete : forall m, In m nodes -> exists h, fst (acyclic_chain_heights succ nodes) m = Some h.
Proof.
  unfold acyclic_chain_heights, visit_all. cbn [fst].
  assert (Hfuel : forall m, In m nodes -> rank m < S (length nodes)) by (intros m Hm; specialize (Hrank_bound m Hm); lia).
  destruct (visit_all_ranked (S (length nodes)) Hfuel nodes [] 0 (fun x H => H) inv_nil) as (_ & _ & H).
  - intros x k Hx. discriminate.
  - exact H.
Qed.

(* acyclic graph: one call of calculateDepthFromModule per module, at most modules + imports calls of visit *)
Theorem max_depth_steps_linear : max_depth_steps succ nodes <= 2 * length nodes + edge_count succ nodes.
Proof.
  unfold max_depth_steps.
  assert (E : list_sum (map (fun m => snd (depth_from_new (S (length nodes)) (fst (acyclic_chain_heights succ nodes)) succ [] m 0)) nodes)
              = list_sum (map (fun _ => 1) nodes)).
  { f_equal. apply map_ext_in. intros m Hm. destruct (heights_complete m Hm) as (h & Hh).
    rewrite depth_from_new_S. simpl existsb. cbv iota. rewrite Hh. reflexivity. }
  rewrite E. assert (L : list_sum (map (fun _ : nat => 1) nodes) = length nodes).
  { clear. induction nodes; simpl; auto. }
  rewrite L. pose proof visit_all_cost. lia.
Qed.
End Visit.

(* ------------------------------------------------------------------------------------------ *)
(* 5. the complete DAG: what the enumeration cost (finding F21) and what the code costs now     *)
(* ------------------------------------------------------------------------------------------ *)
Lemma pow2_pos m : 1 <= 2 ^ m.
Proof. induction m; simpl; lia. Qed.

(* sum_{j = c+1}^{c+m} 2^(c+m-j) = 2^m - 1 *)
Lemma pow_sum c m : list_sum (map (fun j => 2 ^ (c + m - j)) (seq (S c) m)) = 2 ^ m - 1.
Proof.
  revert c. induction m as [|m IH]; intro c; simpl; [reflexivity|].
  replace (c + S m - S c) with m by lia.
  assert (E : map (fun j => 2 ^ (c + S m - j)) (seq (S (S c)) m) = map (fun j => 2 ^ (S c + m - j)) (seq (S (S c)) m)).
  { apply map_ext. intro j. f_equal. lia. }
  rewrite E, IH. pose proof (pow2_pos m). lia.
Qed.

Lemma visited_below_not_found cur visited :
  (forall v, In v visited -> v < cur) -> existsb (Nat.eqb cur) visited = false.
Proof.
  intro H. destruct (existsb (Nat.eqb cur) visited) eqn:E; [|reflexivity].
  apply existsb_eqb_true in E. specialize (H _ E). lia.
Qed.

Lemma calls_lower n : forall k cur fuel visited d,
  cur + k = n - 1 -> cur < n -> k < fuel -> (forall v, In v visited -> v < cur) ->
  2 ^ k <= snd (depth_from fuel (complete_succ n) visited cur d).
Proof.
  induction k as [k IH] using lt_wf_ind. intros cur fuel visited d Hk Hlt Hf Hv.
  destruct fuel as [|f]; [lia|]. simpl. rewrite (visited_below_not_found _ _ Hv). simpl.
  change (complete_succ n cur) with (seq (S cur) (n - 1 - cur)). replace (n - 1 - cur) with k by lia.
  rewrite map_map.
  assert (L : list_sum (map (fun j => 2 ^ (cur + k - j)) (seq (S cur) k)) <=
              list_sum (map (fun x => snd (depth_from f (complete_succ n) (cur :: visited) x (S d))) (seq (S cur) k))).
  { apply list_sum_le. intros j Hj. apply in_seq in Hj.
    apply (IH (cur + k - j)); try lia.
    intros v Hin. destruct Hin as [E|Hin]; [ subst v; destruct Hj; lia | pose proof (Hv _ Hin); destruct Hj; lia ]. }
  rewrite pow_sum in L. pose proof (pow2_pos k). lia.
Qed.

(* the enumeration alone (the code before the repair): at least 2^(n-1) calls from module 0 of the complete DAG *)
Theorem depth_exponential n : 1 <= n ->
  2 ^ (n - 1) <= snd (depth_from (S n) (complete_succ n) [] 0 0).
Proof.
  intro H. apply (calls_lower n (n - 1) 0); try lia. intros v [].
Qed.

Lemma complete_ranked : forall n, ranked (complete_succ n) (seq 0 n) (fun i => n - 1 - i).
Proof.
  intro n. unfold ranked, closed, complete_succ. rewrite seq_length. split; [|split].
  - intros m s Hm Hs. apply in_seq in Hm. apply in_seq in Hs. apply in_seq. lia.
  - intros m s Hm Hs. apply in_seq in Hm. apply in_seq in Hs. lia.
  - intros m Hm. apply in_seq in Hm. lia.
Qed.

Lemma complete_edges_aux : forall m a, 2 * list_sum (map (fun i => a + m - 1 - i) (seq a m)) = m * (m - 1).
Proof.
  induction m as [|m IH]; intro a; [reflexivity|].
  simpl seq. simpl map. simpl list_sum.
  assert (E : map (fun i => a + S m - 1 - i) (seq (S a) m) = map (fun i => S a + m - 1 - i) (seq (S a) m)).
  { apply map_ext. intro. lia. }
  rewrite E. specialize (IH (S a)). replace (a + S m - 1 - a) with m by lia. nia.
Qed.

Lemma complete_edges : forall n, 2 * edge_count (complete_succ n) (seq 0 n) = n * (n - 1).
Proof.
  intro n. unfold edge_count, complete_succ. rewrite <- (complete_edges_aux n 0). f_equal. f_equal.
  apply map_ext. intro i. rewrite seq_length. lia.
Qed.

Theorem ranked_steps_linear : forall succ nodes rank, ranked succ nodes rank ->
  max_depth_steps succ nodes <= 2 * length nodes + edge_count succ nodes.
Proof.
  intros succ nodes rank (Hc & Hr & Hb). exact (max_depth_steps_linear succ nodes Hc rank Hr Hb).
Qed.

Theorem complete_dag_steps : forall n, 2 * max_depth_steps (complete_succ n) (seq 0 n) <= 4 * n + n * (n - 1).
Proof.
  intro n. pose proof (ranked_steps_linear _ _ _ (complete_ranked n)) as H. rewrite seq_length in H.
  pose proof (complete_edges n). lia.
Qed.

(* ------------------------------------------------------------------------------------------ *)
(* 6. what is still enumerated: modules that reach an import cycle                              *)
(* ------------------------------------------------------------------------------------------ *)
(* every module imports every other one: no module gets a height, every simple path is walked *)
(* every module imports every other one: no module gets a height, every simple path is still walked.
   steps for 4, 5, 6, 7 modules (12, 20, 30, 42 imports) *)
Lemma clique_steps :
  map (fun n => N.of_nat (max_depth_steps (clique_succ n) (seq 0 n))) [4; 5; 6; 7] = [212; 1330; 9822; 82250]%N.
Proof. vm_compute. reflexivity. Qed.

(* WHICH modules get a height: exactly those from which no import cycle can be reached, and the height is the length of the
   longest chain below them — checked on every graph with 4 modules (all 4096 sets of imports; self-imports are never edges). *)
Fixpoint reachb (fuel : nat) (succ : nat -> list nat) (i j : nat) : bool :=
  match fuel with
  | O => false
  | S f => existsb (fun s => Nat.eqb s j || reachb f succ s j) (succ i)
  end.

Definition reaches_cycle (n : nat) (succ : nat -> list nat) (m : nat) : bool :=
  existsb (fun x => (Nat.eqb m x || reachb n succ m x) && reachb n succ x x) (seq 0 n).

(* graph number k on n modules: bit (i*(n-1) + j') of k says whether i imports the j'-th other module *)
Definition coded_succ (n : nat) (k : N) (i : nat) : list nat :=
  filter (fun j => negb (Nat.eqb i j) && N.testbit k (N.of_nat (i * (n - 1) + (if Nat.ltb j i then j else j - 1)))) (seq 0 n).

Definition heights_exact_on (n : nat) (k : N) : bool :=
  let succ := coded_succ n k in
  let ht := fst (acyclic_chain_heights succ (seq 0 n)) in
  forallb (fun m => match ht m with
                    | Some h => negb (reaches_cycle n succ m) && Nat.eqb h (fst (depth_from (S n) succ [] m 0))
                    | None => reaches_cycle n succ m
                    end) (seq 0 n).

Lemma heights_exact_bounded4 : forallb (fun k => heights_exact_on 4 (N.of_nat k)) (seq 0 4096) = true.
Proof. vm_compute. reflexivity. Qed.
