(* C12 — statements about the import graph: witnesses of the recorded deviations, regression
   examples of the repaired defects, independence of a file's resolution from the other files,
   and the bounded agreement theorem. *)
From Coq Require Import NArith List Bool Arith.
From PV Require Import Deps.PyImport Deps.Imports Deps.ImportsWf.
Import ListNotations.
Local Open Scope N_scope.

Definition mk (o : N) : iname := Build_iname o o.
Definition stmt (f : form) : import_stmt := Build_import_stmt f false PModule.
Definition md (p : path) (pkg : bool) (imps : list import_stmt) : pymodule := Build_pymodule p pkg imps None.

(* names: a=1 b=2 util=3 main=4 m=5 fa=6 hidden=7 top=8 *)

(* F31: pkg a, a/util.py, a/main.py: "import util" *)
Definition w_implicit : project :=
  [md [1] true []; md [1; 3] false []; md [1; 4] false [stmt (ImportAbs [3])]].
(* F32: a/__init__.py: "from .util import fa" *)
Definition w_init_own : project :=
  [md [1] true [stmt (ImportRel 1 [3] [mk 6])]; md [1; 3] false []].
(* F33: a/__init__.py: "from .m import hidden" with __all__ = ["fa"]; top.py: "from a import hidden" *)
Definition w_all_hides : project :=
  [Build_pymodule [1] true [stmt (ImportRel 1 [5] [mk 7])] (Some [6]); md [1; 5] false [];
   md [8] false [stmt (ImportFrom [1] [mk 7])]].
(* F34: a/__init__.py: "from b.m import fa"; top.py: "from a import fa" *)
Definition w_cross : project :=
  [md [1] true [stmt (ImportFrom [2; 5] [mk 6])]; md [2] true []; md [2; 5] false [];
   md [8] false [stmt (ImportFrom [1] [mk 6])]].

Definition refutes (pr : project) : bool :=
  project_shape pr && negb (same_edges (edges_model pr) (edges_py pr)).

Lemma refuted_implicit_relative : exists pr, project_shape pr = true /\ same_edges (edges_model pr) (edges_py pr) = false /\
  edges_py pr = [] /\ edges_model pr = [([1; 4], [1; 3])].
Proof. exists w_implicit. vm_compute. auto. Qed.

Lemma refuted_init_own_submodule : exists pr, project_shape pr = true /\ same_edges (edges_model pr) (edges_py pr) = false /\
  edges_py pr = [([1], [1; 3])] /\ edges_model pr = [].
Proof. exists w_init_own. vm_compute. auto. Qed.

Lemma refuted_all_hides : exists pr, project_shape pr = true /\ same_edges (edges_model pr) (edges_py pr) = false /\
  has_edge (edges_py pr) ([8], [1; 5]) = true /\ edges_model pr = [([8], [1])].
Proof. exists w_all_hides. vm_compute. auto. Qed.

Lemma refuted_cross_package_reexport : exists pr, project_shape pr = true /\ same_edges (edges_model pr) (edges_py pr) = false /\
  has_edge (edges_py pr) ([8], [2; 5]) = true /\ has_edge (edges_model pr) ([8], [1]) = true.
Proof. exists w_cross. vm_compute. auto. Qed.

(* ---- the repaired defects: the former witnesses now agree with the specification ------------- *)
(* F5: a/util.py, b/util.py, a/main.py and b/main.py both "from . import util" *)
Definition w_cache : project :=
  [md [1] true []; md [1; 3] false []; md [1; 4] false [stmt (ImportRel 1 [] [mk 3])];
   md [2] true []; md [2; 3] false []; md [2; 4] false [stmt (ImportRel 1 [] [mk 3])]].
(* F17: imports under else / except / finally *)
Definition w_position : project :=
  [md [8] false [Build_import_stmt (ImportAbs [3]) false PElse; Build_import_stmt (ImportAbs [4]) false PExcept;
                 Build_import_stmt (ImportAbs [5]) false PFinally];
   md [3] false []; md [4] false []; md [5] false []].
(* F29: a/sub/x.py "from .. import util", "from ..m import fa"; top-level util.py and m.py must not be taken *)
Definition w_level : project :=
  [md [1] true []; md [1; 3] false []; md [1; 5] false []; md [1; 9] true [];
   md [1; 9; 10] false [stmt (ImportRel 2 [] [mk 3]); stmt (ImportRel 2 [5] [mk 6])]; md [3] false []; md [5] false []].

Lemma repaired_witnesses_agree :
  forallb (fun pr => wf_project pr && same_edges (edges_model pr) (edges_py pr)) [w_cache; w_position; w_level] = true /\
  edges_model w_cache = [([1; 4], [1; 3]); ([2; 4], [2; 3])] /\
  edges_model w_position = [([8], [3]); ([8], [4]); ([8], [5])] /\
  edges_model w_level = [([1; 9; 10], [1; 3]); ([1; 9; 10], [1; 5])].
Proof. vm_compute. auto. Qed.

(* ---- resolution of one file is never influenced by another file ------------------------------ *)
(* what an import resolves to depends on the project's files and the importing module only: the graph
   built so far (the only state shared between files) enters through its node set, which is fixed
   before any file is analysed and never changes *)
Lemma resolved_modules_state_independent : forall pr g g' m ii,
  g_nodes g = g_nodes g' -> resolved_modules pr g m ii = resolved_modules pr g' m ii.
Proof. intros pr g g' m ii H. unfold resolved_modules. rewrite H. reflexivity. Qed.

Lemma AddDependency_nodes : forall g a b, g_nodes (AddDependency g a b) = g_nodes g.
Proof.
  intros. unfold AddDependency.
  destruct (negb (mem_path a (g_nodes g) && mem_path b (g_nodes g))); auto.
  destruct (path_eqb a b); auto. destruct (has_edge (g_edges g) (a, b)); auto.
Qed.

Lemma fold_nodes : forall {B} (f : graph -> B -> graph) l g,
  (forall g b, g_nodes (f g b) = g_nodes g) -> g_nodes (fold_left f l g) = g_nodes g.
Proof. intros B f l. induction l; simpl; intros; auto. rewrite IHl by assumption. apply H. Qed.

Lemma analyze_nodes : forall pr g m, g_nodes (analyzeModuleDependencies pr g m) = g_nodes g.
Proof.
  intros. unfold analyzeModuleDependencies. destruct (shadowed pr m); [reflexivity|].
  apply fold_nodes. intros g0 ii. unfold analyze_import.
  destruct (ii_tc ii); auto. apply fold_nodes. intros g1 r.
  destruct (m_is_pkg m && strict_prefixb (m_path m) r); auto. apply AddDependency_nodes.
Qed.

Lemma per_file_independent : forall pr before before' m ii,
  resolved_modules pr (fold_left (analyzeModuleDependencies pr) before (empty_graph pr)) m ii =
  resolved_modules pr (fold_left (analyzeModuleDependencies pr) before' (empty_graph pr)) m ii.
Proof.
  intros. apply resolved_modules_state_independent.
  rewrite !fold_nodes; auto; intros; apply analyze_nodes.
Qed.

(* ---- bounded agreement ----------------------------------------------------------------------- *)
(* edges pyscn leaves out on purpose (F32): from a package's __init__ to modules below the package *)
Definition drop_own (pr : project) (es : list edge) : list edge :=
  filter (fun e => negb (init_file_exists pr (fst e) && strict_prefixb (fst e) (snd e))) es.

Definition wf_mod_own (pr : project) : bool :=
  project_shape pr && negb (class_implicit_relative pr) && negb (class_all_hides pr) && negb (class_irregular_reexport pr).

(* layout: a/{__init__ (re-exports fa, gb from impl), util, impl, main, sub/{__init__, util, leaf, deep/{__init__, bottom}}},
   b/{__init__, util, main}, top.py, util2.py.
   a=1 b=2 util=3 main=4 impl=5 fa=6 gb=7 top=8 sub=9 leaf=10 deep=11 bottom=12 util2=13 fb=14 nosuch=15 *)
Definition layout : project :=
  [md [1] true [stmt (ImportRel 1 [5] [mk 6; Build_iname 14 7])]; md [1; 3] false []; md [1; 5] false []; md [1; 4] false [];
   md [1; 9] true []; md [1; 9; 3] false []; md [1; 9; 10] false []; md [1; 9; 11] true []; md [1; 9; 11; 12] false [];
   md [2] true []; md [2; 3] false []; md [2; 4] false []; md [8] false []; md [13] false []].

Definition cand_paths : list path :=
  module_names layout ++ [[15]; [3]; [4]; [1; 15]; [9]; [9; 10]; [1000]; [1000; 3]].
Definition rel_paths : list path := [[]; [3]; [5]; [9]; [9; 10]; [11; 12]; [15]; [1; 3]].
Definition cand_names : list name := [3; 4; 6; 7; 9; 10; 15].

Definition forms : list form :=
  map ImportAbs cand_paths ++
  flat_map (fun p => map (fun n => ImportFrom p [mk n]) cand_names ++ [ImportFrom p [mk 3; mk 6; mk 9]]) cand_paths ++
  flat_map (fun lv => flat_map (fun p => map (fun n => ImportRel lv p [mk n]) cand_names ++ [ImportRel lv p [mk 3; mk 4]]) rel_paths)
           [1%nat; 2%nat; 3%nat; 4%nat].

Definition with_stmt (imp : path) (s : import_stmt) : project :=
  map (fun m => if path_eqb (m_path m) imp then Build_pymodule (m_path m) (m_is_pkg m) (m_imports m ++ [s]) (m_all m) else m) layout.

Definition agrees (pr : project) : bool :=
  implb (wf_mod_own pr) (same_edges (edges_model pr) (drop_own pr (edges_py pr))) &&
  implb (wf_project pr) (same_edges (edges_model pr) (edges_py pr)).

Definition bounded_domain_ok : bool :=
  forallb (fun imp => forallb (fun f =>
     agrees (with_stmt imp (Build_import_stmt f false PModule)) &&
     agrees (with_stmt imp (Build_import_stmt f true PIf)) &&
     agrees (with_stmt imp (Build_import_stmt f false PExcept))) forms) (module_names layout).

Definition bounded_domain_size : nat := (length forms * length layout * 3)%nat.
Definition bounded_domain_wf : nat :=
  length (filter (fun x => x) (flat_map (fun imp => map (fun f => wf_mod_own (with_stmt imp (Build_import_stmt f false PModule))) forms)
                                        (module_names layout))).

Lemma edges_bounded : bounded_domain_ok = true.
Proof. vm_compute. reflexivity. Qed.

Lemma bounded_domain_inhabited : Nat.leb 1000 bounded_domain_wf = true /\ wf_project w_cache = true /\ wf_mod_own layout = true.
Proof. vm_compute. repeat split. Qed.
