(* C11 — the Tarjan model (Deps/Tarjan.v) is exactly the specification (Deps/SccSpec.v), for
   EVERY graph and every map-iteration order: the recursion fuel |modules|+1 is never
   exhausted, the code never panics, every reported component is a maximal set of mutually
   reachable modules with two or more members, and every such set is reported exactly once.

   Route (Chen, Cohen, Lévy, Merz, Théry, "Formal Proofs of Tarjan's SCC Algorithm"): a state
   invariant [Inv gr st] relative to the ghost list [gr] of modules whose strongConnect call is
   still active (the DFS spine), a loop invariant [LoopInv] for the loop over the imports of a
   module, and a post-condition [Post] of strongConnect, proved together by induction on the
   fuel. *)
From Coq Require Import List NArith ZArith Bool Arith Lia Permutation ZifyBool ZifyNat ZifyN.
From PV Require Import Gen.DepsConst Deps.SccSpec Deps.SccSpecProofs Deps.Tarjan Deps.TarjanProofs Deps.TarjanInv.
Import ListNotations.
Local Open Scope Z_scope.

(* ---------- association lists ---------- *)
Lemma mget_mset_gen : forall {V} (m : list (N * V)) k v x,
  mget (mset m k v) x = if N.eqb k x then Some v else mget m x.
Proof. intros. unfold mget, mset. simpl. destruct (N.eqb k x); reflexivity. Qed.

Lemma minLowLink_min : forall a b, minLowLink a b = Z.min a b.
Proof. intros a b. unfold minLowLink. destruct (Z.ltb_spec a b); lia. Qed.

Lemma memb_cons : forall x a l, memb x (a :: l) = N.eqb x a || memb x l.
Proof. reflexivity. Qed.

Lemma mget_fold_false : forall l (inS : list (N * bool)) x,
  mget (fold_left (fun acc y => mset acc y false) l inS) x = if memb x l then Some false else mget inS x.
Proof.
  induction l as [|a l IH]; intros inS x; [reflexivity|].
  cbn [fold_left]. rewrite IH, memb_cons, mget_mset_gen.
  rewrite (N.eqb_sym x a). destruct (memb x l); destruct (N.eqb a x); reflexivity.
Qed.

(* ---------- the pop loop pops exactly down to [m] ---------- *)
Lemma pop_until_app : forall new m S inS comp, ~ In m new ->
  pop_until m (new ++ m :: S) inS comp =
  Some (S, fold_left (fun acc y => mset acc y false) (new ++ [m]) inS, comp ++ new ++ [m]).
Proof.
  induction new as [|a new IH]; intros m S inS comp Hn.
  - cbn [app pop_until fold_left]. rewrite N.eqb_refl. reflexivity.
  - cbn [app pop_until]. destruct (N.eqb_spec a m) as [E|E]; [exfalso; apply Hn; left; exact E|].
    rewrite IH by (intro H; apply Hn; right; exact H).
    cbn [fold_left app]. rewrite <- app_assoc. reflexivity.
Qed.

(* ---------- strictly decreasing lists (the stack, by index) ---------- *)
Fixpoint desc (f : N -> Z) (l : list N) : Prop :=
  match l with
  | [] => True
  | x :: r => (forall y, In y r -> f y < f x) /\ desc f r
  end.

Lemma desc_app : forall f l1 l2,
  desc f (l1 ++ l2) <-> desc f l1 /\ desc f l2 /\ (forall a b, In a l1 -> In b l2 -> f b < f a).
Proof.
  intros f. induction l1 as [|x l1 IH]; intros l2; cbn [app desc].
  - split; [intros H; repeat split; [exact H|intros a b []]|intros [_ [H _]]; exact H].
  - rewrite IH. split.
    + intros [Hx [H1 [H2 H12]]]. repeat split.
      * intros y Hy. apply Hx. apply in_app_iff. left; exact Hy.
      * exact H1.
      * exact H2.
      * intros a b [Ea|Ha] Hb; [subst; apply Hx; apply in_app_iff; right; exact Hb|apply H12; assumption].
    + intros [[Hx H1] [H2 H12]]. repeat split.
      * intros y Hy. apply in_app_iff in Hy. destruct Hy as [Hy|Hy]; [apply Hx; exact Hy|apply H12; [left; reflexivity|exact Hy]].
      * exact H1.
      * exact H2.
      * intros a b Ha Hb. apply H12; [right; exact Ha|exact Hb].
Qed.

Lemma desc_ext : forall f f' l, (forall x, In x l -> f' x = f x) -> desc f l -> desc f' l.
Proof.
  intros f f'. induction l as [|x l IH]; intros He H; cbn [desc] in *; [exact I|].
  destruct H as [Hx Hl]. split.
  - intros y Hy. rewrite (He x (or_introl eq_refl)), (He y (or_intror Hy)). apply Hx; exact Hy.
  - apply IH; [intros y Hy; apply He; right; exact Hy|exact Hl].
Qed.

Lemma desc_NoDup : forall f l, desc f l -> NoDup l.
Proof.
  intros f. induction l as [|x l IH]; intros H; [constructor|]. destruct H as [Hx Hl].
  constructor; [|apply IH; exact Hl]. intro Hin. specialize (Hx x Hin). lia.
Qed.

(* ---------- one step of the state ---------- *)
Definition visited (st : tstate) (x : N) : Prop := mget (t_indices st) x <> None.
Definition visitedb (st : tstate) (x : N) : bool := match mget (t_indices st) x with Some _ => true | None => false end.

Lemma visitedb_spec : forall st x, visitedb st x = true <-> visited st x.
Proof. intros st x. unfold visitedb, visited. destruct (mget (t_indices st) x); split; intros H; congruence. Qed.

Lemma visited_dec : forall st x, visited st x \/ ~ visited st x.
Proof. intros st x. unfold visited. destruct (mget (t_indices st) x); [left; discriminate|right; intro H; apply H; reflexivity]. Qed.

Lemma visited_enter : forall st m x, visited (enter st m) x <-> x = m \/ visited st x.
Proof.
  intros st m x. unfold visited, enter. cbn [t_indices]. rewrite mget_mset_gen.
  destruct (N.eqb_spec m x) as [E|E].
  - subst. split; [intros _; left; reflexivity|intros _; discriminate].
  - split; [intros H; right; exact H|intros [H|H]; [congruence|exact H]].
Qed.

Lemma idx_enter : forall st m x, get_index (enter st m) x = if N.eqb m x then t_index st else get_index st x.
Proof. intros. unfold get_index, enter. cbn [t_indices]. rewrite mget_mset_gen. destruct (N.eqb m x); reflexivity. Qed.

Lemma low_enter : forall st m x, get_low (enter st m) x = if N.eqb m x then t_index st else get_low st x.
Proof. intros. unfold get_low, enter. cbn [t_lowLinks]. rewrite mget_mset_gen. destruct (N.eqb m x); reflexivity. Qed.

Lemma instack_enter : forall st m x, in_stack (enter st m) x = if N.eqb m x then true else in_stack st x.
Proof. intros. unfold in_stack, enter. cbn [t_inStack]. rewrite mget_mset_gen. destruct (N.eqb m x); reflexivity. Qed.

Lemma low_set_low : forall st m v x, get_low (set_low st m v) x = if N.eqb m x then v else get_low st x.
Proof. intros. unfold get_low, set_low. cbn [t_lowLinks]. rewrite mget_mset_gen. destruct (N.eqb m x); reflexivity. Qed.

Lemma stack_enter : forall st m, t_stack (enter st m) = m :: t_stack st.
Proof. reflexivity. Qed.
Lemma index_enter : forall st m, t_index (enter st m) = t_index st + 1.
Proof. reflexivity. Qed.
Lemma comps_enter : forall st m, t_components (enter st m) = t_components st.
Proof. reflexivity. Qed.

(* ---------- the graph the detector walks, and the graph of the specification ---------- *)
Section Correct.
Variable g : digraph.
Variable mg : mgraph.

Definition deps_of (m : N) : list N := match get_node mg m with Some node => n_deps node | None => [] end.

(* every import the detector follows is an import of the specification's graph, and every
   import between two different modules is followed *)
Hypothesis W_deps_edge : forall m d, In d (deps_of m) -> edge g m d.
Hypothesis W_edge_deps : forall m d, edge g m d -> m <> d -> In d (deps_of m).

Notation idx := get_index.
Notation low := get_low.

Lemma edge_path : forall a b, edge g a b -> path g a b.
Proof. intros a b H. eapply path_step; [apply path_refl|exact H]. Qed.

Lemma path_closed : forall (P : N -> Prop), (forall x y, P x -> edge g x y -> P y) ->
  forall a b, path g a b -> P a -> P b.
Proof. intros P HP a b H. induction H as [v|a b c Hab IH Hbc]; intros Ha; [exact Ha|]. eapply HP; [apply IH; exact Ha|exact Hbc]. Qed.

Lemma edge_verts_r : forall a b, edge g a b -> In b (verts g).
Proof. intros a b [_ [_ H]]. exact H. Qed.

(* ---------- the state invariant; [gr] = modules whose strongConnect call is active ---------- *)
Record Inv (gr : list N) (st : tstate) : Prop := {
  I_verts : forall x, visited st x -> In x (verts g);
  I_bound : forall x, visited st x -> idx st x < t_index st;
  I_svis : forall x, In x (t_stack st) -> visited st x;
  I_inst : forall x, in_stack st x = true <-> In x (t_stack st);
  I_sdesc : desc (idx st) (t_stack st);
  I_gdesc : desc (idx st) gr;
  I_gstack : forall x, In x gr -> In x (t_stack st);
  (* a module whose call has returned has no import to an unvisited module *)
  I_black : forall x y, visited st x -> ~ In x gr -> edge g x y -> visited st y;
  (* every module on the stack reaches an active module not above it ... *)
  I_s2g : forall y, In y (t_stack st) -> exists z, In z gr /\ idx st z <= idx st y /\ path g y z;
  (* ... and every active module reaches every module of the stack not below it *)
  I_g2s : forall x y, In x gr -> In y (t_stack st) -> idx st x <= idx st y -> path g x y;
  (* popped modules only import popped modules *)
  I_done : forall x y, visited st x -> ~ In x (t_stack st) -> edge g x y -> visited st y /\ ~ In y (t_stack st);
  (* every reported component is the mutual-reachability class of each of its members *)
  I_comps : forall c x, In c (t_components st) -> In x c ->
              visited st x /\ ~ In x (t_stack st) /\ forall y, In y c <-> mutual g x y;
  (* the class of a popped module is reported unless it has a single member *)
  I_dcomp : forall x y, visited st x -> ~ In x (t_stack st) -> y <> x -> mutual g x y ->
              exists c, In c (t_components st) /\ In x c
}.

Lemma Inv_set_low : forall gr st m v, Inv gr st -> Inv gr (set_low st m v).
Proof. intros gr st m v H. destruct H. constructor; assumption. Qed.

Lemma Inv_enter : forall gr st m, Inv gr st -> ~ visited st m -> In m (verts g) ->
  (forall z, In z gr -> path g z m) -> Inv (m :: gr) (enter st m).
Proof.
  intros gr st m H Hm Hmv Hp.
  assert (Eold : forall x, visited st x -> idx (enter st m) x = idx st x).
  { intros x Hx. rewrite idx_enter. destruct (N.eqb_spec m x) as [E|E]; [subst; contradiction|reflexivity]. }
  assert (Enew : idx (enter st m) m = t_index st) by (rewrite idx_enter, N.eqb_refl; reflexivity).
  assert (Hms : ~ In m (t_stack st)) by (intro Hi; apply Hm; apply (I_svis _ _ H); exact Hi).
  assert (Hsold : forall x, In x (t_stack st) -> idx (enter st m) x = idx st x)
    by (intros x Hx; apply Eold; apply (I_svis _ _ H); exact Hx).
  assert (Hgold : forall x, In x gr -> idx (enter st m) x = idx st x)
    by (intros x Hx; apply Hsold; apply (I_gstack _ _ H); exact Hx).
  assert (Hslt : forall x, In x (t_stack st) -> idx (enter st m) x < idx (enter st m) m).
  { intros x Hx. rewrite Enew, (Hsold x Hx). apply (I_bound _ _ H). apply (I_svis _ _ H); exact Hx. }
  constructor.
  - intros x Hx. apply visited_enter in Hx. destruct Hx as [->|Hx]; [exact Hmv|apply (I_verts _ _ H); exact Hx].
  - intros x Hx. rewrite index_enter. apply visited_enter in Hx. destruct Hx as [->|Hx].
    + rewrite Enew. lia.
    + rewrite (Eold x Hx). pose proof (I_bound _ _ H x Hx). lia.
  - intros x Hx. rewrite stack_enter in Hx. apply visited_enter.
    destruct Hx as [<-|Hx]; [left; reflexivity|right; apply (I_svis _ _ H); exact Hx].
  - intros x. rewrite instack_enter, stack_enter. destruct (N.eqb_spec m x) as [E|E].
    + subst. split; [intros _; left; reflexivity|reflexivity].
    + rewrite (I_inst _ _ H). split; [intros Hx; right; exact Hx|intros [Hx|Hx]; [contradiction|exact Hx]].
  - rewrite stack_enter. cbn [desc]. split; [exact Hslt|].
    apply (desc_ext (idx st)); [exact Hsold|apply (I_sdesc _ _ H)].
  - cbn [desc]. split.
    + intros y Hy. apply Hslt. apply (I_gstack _ _ H); exact Hy.
    + apply (desc_ext (idx st)); [exact Hgold|apply (I_gdesc _ _ H)].
  - intros x [<-|Hx]; rewrite stack_enter; [left; reflexivity|right; apply (I_gstack _ _ H); exact Hx].
  - intros x y Hx Hng He. apply visited_enter. right. apply visited_enter in Hx.
    destruct Hx as [->|Hx]; [exfalso; apply Hng; left; reflexivity|].
    apply (I_black _ _ H x y Hx); [intro Hi; apply Hng; right; exact Hi|exact He].
  - intros y Hy. rewrite stack_enter in Hy. destruct Hy as [<-|Hy].
    + exists m. split; [left; reflexivity|split; [lia|apply path_refl]].
    + destruct (I_s2g _ _ H y Hy) as [z [Hz [Hle Hpz]]]. exists z. split; [right; exact Hz|].
      split; [rewrite (Hgold z Hz), (Hsold y Hy); exact Hle|exact Hpz].
  - intros x y Hx Hy Hle. rewrite stack_enter in Hy. destruct Hx as [<-|Hx]; destruct Hy as [<-|Hy].
    + apply path_refl.
    + specialize (Hslt y Hy). lia.
    + apply Hp; exact Hx.
    + apply (I_g2s _ _ H x y Hx Hy). rewrite <- (Hgold x Hx), <- (Hsold y Hy). exact Hle.
  - intros x y Hx Hns He. rewrite stack_enter in *. apply visited_enter in Hx.
    destruct Hx as [->|Hx]; [exfalso; apply Hns; left; reflexivity|].
    destruct (I_done _ _ H x y Hx (fun Hi => Hns (or_intror Hi)) He) as [Hy Hys].
    split; [apply visited_enter; right; exact Hy|].
    intros [E|Hi]; [subst; contradiction|contradiction].
  - intros c x Hc Hxc. rewrite comps_enter in Hc. destruct (I_comps _ _ H c x Hc Hxc) as [Hx [Hxs Hcl]].
    split; [apply visited_enter; right; exact Hx|]. split; [|exact Hcl].
    rewrite stack_enter. intros [E|Hi]; [subst; contradiction|contradiction].
  - intros x y Hx Hns Hne Hmu. rewrite comps_enter. rewrite stack_enter in Hns. apply visited_enter in Hx.
    destruct Hx as [->|Hx]; [exfalso; apply Hns; left; reflexivity|].
    apply (I_dcomp _ _ H x y Hx (fun Hi => Hns (or_intror Hi)) Hne Hmu).
Qed.

(* ---------- how a later state extends an earlier one ---------- *)
Record ext (st st' : tstate) : Prop := {
  E_vis : forall x, visited st x -> visited st' x;
  E_idx : forall x, visited st x -> idx st' x = idx st x;
  E_newidx : forall x, ~ visited st x -> visited st' x -> t_index st <= idx st' x;
  E_index : t_index st <= t_index st';
  E_stack : exists new, t_stack st' = new ++ t_stack st /\ forall x, In x new -> ~ visited st x
}.

Lemma ext_refl : forall st, ext st st.
Proof.
  intros st. constructor; try (intros; auto; fail).
  - intros x H1 H2. contradiction.
  - lia.
  - exists []. split; [reflexivity|intros x []].
Qed.

Lemma ext_trans : forall st1 st2 st3, ext st1 st2 -> ext st2 st3 -> ext st1 st3.
Proof.
  intros st1 st2 st3 A B. constructor.
  - intros x H. apply (E_vis _ _ B). apply (E_vis _ _ A). exact H.
  - intros x H. rewrite (E_idx _ _ B x (E_vis _ _ A x H)). apply (E_idx _ _ A x H).
  - intros x Hn Hv. destruct (visited_dec st2 x) as [H2|H2].
    + rewrite (E_idx _ _ B x H2). apply (E_newidx _ _ A x Hn H2).
    + pose proof (E_newidx _ _ B x H2 Hv). pose proof (E_index _ _ A). lia.
  - pose proof (E_index _ _ A). pose proof (E_index _ _ B). lia.
  - destruct (E_stack _ _ A) as [n1 [S1 N1]]. destruct (E_stack _ _ B) as [n2 [S2 N2]].
    exists (n2 ++ n1). split; [rewrite S2, S1, app_assoc; reflexivity|].
    intros x Hx. apply in_app_iff in Hx. destruct Hx as [Hx|Hx]; [|apply N1; exact Hx].
    intro Hv. apply (N2 x Hx). apply (E_vis _ _ A). exact Hv.
Qed.

Lemma ext_set_low : forall st m v, ext st (set_low st m v).
Proof. intros st m v. destruct (ext_refl st). constructor; assumption. Qed.

Definition lowpres (m : N) (st st' : tstate) : Prop := forall x, visited st x -> x <> m -> low st' x = low st x.

(* ---------- the number of unvisited modules bounds the recursion depth ---------- *)
Definition unv (st : tstate) : list N := filter (fun v => negb (visitedb st v)) (verts g).

Lemma unv_mono : forall st st', ext st st' -> (length (unv st') <= length (unv st))%nat.
Proof.
  intros st st' E. unfold unv. apply filter_mono_len. intros x _ Hx.
  apply negb_true_iff in Hx. apply negb_true_iff.
  destruct (visitedb st x) eqn:V; [|reflexivity]. apply visitedb_spec in V. apply (E_vis _ _ E) in V.
  apply visitedb_spec in V. congruence.
Qed.

Lemma filter_strict_len : forall (p q : N -> bool) l m,
  (forall x, In x l -> p x = true -> q x = true) -> In m l -> p m = false -> q m = true ->
  (length (filter p l) < length (filter q l))%nat.
Proof.
  induction l as [|a l IH]; intros m H Hm Hp Hq; [destruct Hm|].
  assert (Hl : (length (filter p l) <= length (filter q l))%nat)
    by (apply filter_mono_len; intros x Hx; apply H; right; exact Hx).
  cbn [filter]. destruct Hm as [E|Hm].
  - subst a. rewrite Hp, Hq. cbn [length]. lia.
  - assert (IH' : (length (filter p l) < length (filter q l))%nat)
      by (apply (IH m); [intros x Hx; apply H; right; exact Hx|exact Hm|exact Hp|exact Hq]).
    destruct (p a) eqn:Pa.
    + rewrite (H a (or_introl eq_refl) Pa). cbn [length]. lia.
    + destruct (q a); cbn [length]; lia.
Qed.

Lemma unv_enter : forall st m, In m (verts g) -> ~ visited st m ->
  (length (unv (enter st m)) < length (unv st))%nat.
Proof.
  intros st m Hm Hv. unfold unv. apply (filter_strict_len _ _ _ m).
  - intros x _ Hx. apply negb_true_iff in Hx. apply negb_true_iff.
    destruct (visitedb st x) eqn:V; [|reflexivity]. apply visitedb_spec in V.
    assert (V' : visited (enter st m) x) by (apply visited_enter; right; exact V).
    apply visitedb_spec in V'. congruence.
  - exact Hm.
  - apply negb_false_iff. apply visitedb_spec. apply visited_enter. left; reflexivity.
  - apply negb_true_iff. destruct (visitedb st m) eqn:V; [|reflexivity]. apply visitedb_spec in V. contradiction.
Qed.

(* ---------- the loop over the imports of [m]; [v] is the current lowLinks[m] ---------- *)
Record LoopInvV (m : N) (gr : list N) (ds : list N) (st : tstate) (v : Z) : Prop := {
  L_inv : Inv (m :: gr) st;
  L_le : v <= idx st m;
  L_wit : exists y, In y (t_stack st) /\ idx st y = v /\ path g m y;
  (* imports of the modules pushed above [m] into the stack reach no index below [v] *)
  L_xedge : forall a b, In a (t_stack st) -> idx st m < idx st a -> edge g a b -> In b (t_stack st) -> v <= idx st b;
  L_todo : forall d, In d ds -> edge g m d;
  L_proc : forall d, edge g m d -> In d ds \/ d = m \/ (visited st d /\ (In d (t_stack st) -> v <= idx st d))
}.

Definition LoopInv m gr ds st := LoopInvV m gr ds st (low st m).

Lemma LoopInv_set_low : forall m gr ds st v, LoopInvV m gr ds st v -> LoopInv m gr ds (set_low st m v).
Proof.
  intros m gr ds st v H. unfold LoopInv. rewrite low_set_low, N.eqb_refl.
  destruct H as [A B C D E F]. constructor; try assumption. apply Inv_set_low. exact A.
Qed.

(* ---------- what strongConnect m guarantees ---------- *)
Record Post (gr : list N) (m : N) (st st' : tstate) : Prop := {
  P_inv : Inv gr st';
  P_ext : ext st st';
  P_lowpres : forall x, visited st x -> low st' x = low st x;
  P_vis : visited st' m;
  P_low_le : low st' m <= idx st' m;
  P_on : In m (t_stack st') -> exists y, In y (t_stack st') /\ idx st' y = low st' m /\ path g m y;
  P_off : ~ In m (t_stack st') -> low st' m = idx st' m;
  P_xedge : forall a b, In a (t_stack st') -> ~ In a (t_stack st) -> edge g a b -> In b (t_stack st) ->
              low st' m <= idx st' b
}.

Definition sc_spec (rec : N -> tstate -> result) (bound : nat) : Prop :=
  forall m st gr, Inv gr st -> ~ visited st m -> In m (verts g) -> (forall z, In z gr -> path g z m) ->
    (length (unv st) <= bound)%nat -> exists st', rec m st = Ok st' /\ Post gr m st st'.

Lemma gray_le_top : forall m gr st z, Inv (m :: gr) st -> In z (m :: gr) -> idx st z <= idx st m.
Proof.
  intros m gr st z H Hz. pose proof (I_gdesc _ _ H) as D. cbn [desc] in D. destruct D as [D _].
  destruct Hz as [<-|Hz]; [lia|]. specialize (D z Hz). lia.
Qed.

Lemma gray_reach_top : forall m gr st z, Inv (m :: gr) st -> In z (m :: gr) -> path g z m.
Proof.
  intros m gr st z H Hz. apply (I_g2s _ _ H z m Hz).
  - apply (I_gstack _ _ H). left; reflexivity.
  - apply (gray_le_top m gr st z H Hz).
Qed.

(* the import [d] was unvisited and strongConnect d has returned *)
Lemma loop_step_rec : forall m gr d ds st st' v,
  LoopInvV m gr (d :: ds) st v -> ~ visited st d -> Post (m :: gr) d st st' ->
  LoopInvV m gr ds st' (Z.min v (low st' d)).
Proof.
  intros m gr d ds st st' v L Hdv HP.
  pose proof (L_inv _ _ _ _ _ L) as HI. pose proof (P_inv _ _ _ _ HP) as HI'. pose proof (P_ext _ _ _ _ HP) as E.
  destruct (E_stack _ _ E) as [new [Hs' Hnew]].
  assert (Hms : In m (t_stack st)) by (apply (I_gstack _ _ HI); left; reflexivity).
  assert (Hmv : visited st m) by (apply (I_svis _ _ HI); exact Hms).
  assert (Eim : idx st' m = idx st m) by (apply (E_idx _ _ E); exact Hmv).
  assert (Hed : edge g m d) by (apply (L_todo _ _ _ _ _ L); left; reflexivity).
  assert (Hmb : idx st m < t_index st) by (apply (I_bound _ _ HI); exact Hmv).
  assert (Hnewidx : forall x, In x new -> t_index st <= idx st' x).
  { intros x Hx. apply (E_newidx _ _ E); [apply Hnew; exact Hx|].
    apply (I_svis _ _ HI'). rewrite Hs'. apply in_app_iff. left; exact Hx. }
  assert (Hsold : forall x, In x (t_stack st) -> idx st' x = idx st x)
    by (intros x Hx; apply (E_idx _ _ E); apply (I_svis _ _ HI); exact Hx).
  pose proof (L_le _ _ _ _ _ L) as Hle.
  constructor.
  - exact HI'.
  - lia.
  - destruct (Z.le_gt_cases v (low st' d)) as [C|C].
    + destruct (L_wit _ _ _ _ _ L) as [y [Hy [Ey Hpy]]]. exists y. split; [rewrite Hs'; apply in_app_iff; right; exact Hy|].
      split; [rewrite (Hsold y Hy); lia|exact Hpy].
    + destruct (in_dec N.eq_dec d (t_stack st')) as [Hd|Hd].
      * destruct (P_on _ _ _ _ HP Hd) as [y [Hy [Ey Hpy]]]. exists y. split; [exact Hy|]. split; [lia|].
        eapply path_trans; [apply edge_path; exact Hed|exact Hpy].
      * pose proof (P_off _ _ _ _ HP Hd) as Eo.
        pose proof (E_newidx _ _ E d Hdv (P_vis _ _ _ _ HP)). lia.
  - intros a b Ha Hlt He Hb. rewrite Hs' in Ha, Hb. apply in_app_iff in Ha. apply in_app_iff in Hb.
    destruct Hb as [Hb|Hb].
    + specialize (Hnewidx b Hb). lia.
    + destruct Ha as [Ha|Ha].
      * assert (Hna : ~ In a (t_stack st)) by (intro Hi; apply (Hnew a Ha); apply (I_svis _ _ HI); exact Hi).
        assert (Ha' : In a (t_stack st')) by (rewrite Hs'; apply in_app_iff; left; exact Ha).
        pose proof (P_xedge _ _ _ _ HP a b Ha' Hna He Hb). lia.
      * rewrite (Hsold a Ha), Eim in Hlt. pose proof (L_xedge _ _ _ _ _ L a b Ha Hlt He Hb).
        rewrite (Hsold b Hb). lia.
  - intros e He. apply (L_todo _ _ _ _ _ L). right; exact He.
  - intros e He. destruct (L_proc _ _ _ _ _ L e He) as [[<-|Hi]|[Em|[Hv Hs]]].
    + right; right. split; [apply (P_vis _ _ _ _ HP)|]. intros _. pose proof (P_low_le _ _ _ _ HP). lia.
    + left; exact Hi.
    + right; left; exact Em.
    + right; right. split; [apply (E_vis _ _ E); exact Hv|]. intros Hi. rewrite Hs' in Hi. apply in_app_iff in Hi.
      destruct Hi as [Hi|Hi]; [exfalso; apply (Hnew e Hi); exact Hv|].
      rewrite (Hsold e Hi). specialize (Hs Hi). lia.
Qed.

(* the import [d] is visited and on the stack *)
Lemma loop_step_onstack : forall m gr d ds st v,
  LoopInvV m gr (d :: ds) st v -> In d (t_stack st) -> LoopInvV m gr ds st (Z.min v (idx st d)).
Proof.
  intros m gr d ds st v L Hd. pose proof (L_inv _ _ _ _ _ L) as HI.
  assert (Hed : edge g m d) by (apply (L_todo _ _ _ _ _ L); left; reflexivity).
  pose proof (L_le _ _ _ _ _ L) as Hle.
  constructor.
  - exact HI.
  - lia.
  - destruct (Z.le_gt_cases v (idx st d)) as [C|C].
    + destruct (L_wit _ _ _ _ _ L) as [y [Hy [Ey Hpy]]]. exists y. split; [exact Hy|]. split; [lia|exact Hpy].
    + exists d. split; [exact Hd|]. split; [lia|apply edge_path; exact Hed].
  - intros a b Ha Hlt He Hb. pose proof (L_xedge _ _ _ _ _ L a b Ha Hlt He Hb). lia.
  - intros e He. apply (L_todo _ _ _ _ _ L). right; exact He.
  - intros e He. destruct (L_proc _ _ _ _ _ L e He) as [[<-|Hi]|[Em|[Hv Hs]]].
    + right; right. split; [apply (I_svis _ _ HI); exact Hd|]. intros _. lia.
    + left; exact Hi.
    + right; left; exact Em.
    + right; right. split; [exact Hv|]. intros Hi. specialize (Hs Hi). lia.
Qed.

(* the import [d] is visited and already popped *)
Lemma loop_step_done : forall m gr d ds st v,
  LoopInvV m gr (d :: ds) st v -> visited st d -> ~ In d (t_stack st) -> LoopInvV m gr ds st v.
Proof.
  intros m gr d ds st v L Hv Hd. destruct L as [A B C D E F]. constructor; try assumption.
  - intros e He. apply E. right; exact He.
  - intros e He. destruct (F e He) as [[<-|Hi]|[Em|P]].
    + right; right. split; [exact Hv|]. intros Hi. contradiction.
    + left; exact Hi.
    + right; left; exact Em.
    + right; right. exact P.
Qed.

Lemma succ_loop_spec : forall rec bound m gr, sc_spec rec bound ->
  forall ds st, LoopInv m gr ds st -> (length (unv st) <= bound)%nat ->
  exists st2, succ_loop rec m ds st = Ok st2 /\ LoopInv m gr [] st2 /\ ext st st2 /\ lowpres m st st2.
Proof.
  intros rec bound m gr Hrec. induction ds as [|d ds IH]; intros st L Hb.
  - exists st. split; [reflexivity|]. split; [exact L|]. split; [apply ext_refl|]. intros x _ _. reflexivity.
  - pose proof (L_inv _ _ _ _ _ L) as HI.
    assert (Hed : edge g m d) by (apply (L_todo _ _ _ _ _ L); left; reflexivity).
    cbn [succ_loop]. destruct (mget (t_indices st) d) as [i|] eqn:Ed.
    + assert (Hdv : visited st d) by (unfold visited; rewrite Ed; discriminate).
      destruct (in_stack st d) eqn:Es.
      * apply (I_inst _ _ HI) in Es. rewrite minLowLink_min.
        pose proof (LoopInv_set_low _ _ _ _ _ (loop_step_onstack _ _ _ _ _ _ L Es)) as L'.
        destruct (IH _ L') as [st2 [R [L2 [E2 P2]]]].
        { rewrite (unv_mono _ _ (ext_set_low st m _)). exact Hb. }
        exists st2. split; [exact R|]. split; [exact L2|]. split.
        -- eapply ext_trans; [apply ext_set_low|exact E2].
        -- intros x Hx Hne. rewrite (P2 x Hx Hne). rewrite low_set_low.
           destruct (N.eqb_spec m x) as [E|E]; [congruence|reflexivity].
      * assert (Hns : ~ In d (t_stack st)) by (intro Hi; apply (I_inst _ _ HI) in Hi; congruence).
        apply (IH st); [|exact Hb]. exact (loop_step_done _ _ _ _ _ _ L Hdv Hns).
    + assert (Hdv : ~ visited st d) by (unfold visited; rewrite Ed; intro C; apply C; reflexivity).
      destruct (Hrec d st (m :: gr) HI Hdv (edge_verts_r _ _ Hed)) as [st' [R HP]].
      { intros z Hz. eapply path_trans; [apply (gray_reach_top m gr st z HI Hz)|apply edge_path; exact Hed]. }
      { exact Hb. }
      rewrite R. rewrite minLowLink_min.
      assert (Hmv : visited st m) by (apply (I_svis _ _ HI); apply (I_gstack _ _ HI); left; reflexivity).
      rewrite (P_lowpres _ _ _ _ HP m Hmv).
      pose proof (LoopInv_set_low _ _ _ _ _ (loop_step_rec _ _ _ _ _ _ _ L Hdv HP)) as L'.
      pose proof (P_ext _ _ _ _ HP) as E1.
      destruct (IH _ L') as [st2 [R2 [L2 [E2 P2]]]].
      { pose proof (unv_mono _ _ E1). pose proof (unv_mono _ _ (ext_set_low st' m (Z.min (low st m) (low st' d)))). lia. }
      exists st2. split; [exact R2|]. split; [exact L2|]. split.
      * eapply ext_trans; [exact E1|]. eapply ext_trans; [apply ext_set_low|exact E2].
      * intros x Hx Hne. rewrite (P2 x (E_vis _ _ E1 x Hx) Hne). rewrite low_set_low.
        destruct (N.eqb_spec m x) as [E|E]; [congruence|]. apply (P_lowpres _ _ _ _ HP x Hx).
Qed.
