(* C11 — the Tarjan model (Deps/Tarjan.v) is exactly the specification (Deps/SccSpec.v), for
   EVERY graph and every map-iteration order: the recursion fuel |modules|+1 is never
   exhausted, the code never panics, every reported component is a maximal set of mutually
   reachable modules with two or more members, and every such set is reported exactly once.

   Route (Chen, Cohen, Lévy, Merz, Théry, "Formal Proofs of Tarjan's SCC Algorithm"): a state
   invariant [Inv gr st] relative to the ghost list [gr] of modules whose strongConnect call is
   still active (the DFS spine), a loop invariant [LoopInv] for the loop over the imports of a
   module, and a post-condition [Post] of strongConnect, proved together by induction on the
   fuel. *)
From Coq Require Import List NArith ZArith Bool Arith Lia Permutation ZifyBool ZifyNat ZifyN.
From PV Require Import Gen.DepsConst Deps.SccSpec Deps.SccSpecProofs Deps.Tarjan Deps.TarjanProofs Deps.TarjanInv.
Import ListNotations.
Local Open Scope Z_scope.

(* ---------- association lists ---------- *)
Lemma mget_mset_gen : forall {V} (m : list (N * V)) k v x,
  mget (mset m k v) x = if N.eqb k x then Some v else mget m x.
Proof. intros. unfold mget, mset. simpl. destruct (N.eqb k x); reflexivity. Qed.

Lemma minLowLink_min : forall a b, minLowLink a b = Z.min a b.
Proof. intros a b. unfold minLowLink. destruct (Z.ltb_spec a b); lia. Qed.

Lemma memb_cons : forall x a l, memb x (a :: l) = N.eqb x a || memb x l.
Proof. reflexivity. Qed.

Lemma mget_fold_false : forall l (inS : list (N * bool)) x,
  mget (fold_left (fun acc y => mset acc y false) l inS) x = if memb x l then Some false else mget inS x.
Proof.
  induction l as [|a l IH]; intros inS x; [reflexivity|].
  cbn [fold_left]. rewrite IH, memb_cons, mget_mset_gen.
  rewrite (N.eqb_sym x a). destruct (memb x l); destruct (N.eqb a x); reflexivity.
Qed.

(* ---------- the pop loop pops exactly down to [m] ---------- *)
Lemma pop_until_app : forall new m S inS comp, ~ In m new ->
  pop_until m (new ++ m :: S) inS comp =
  Some (S, fold_left (fun acc y => mset acc y false) (new ++ [m]) inS, comp ++ new ++ [m]).
Proof.
  induction new as [|a new IH]; intros m S inS comp Hn.
  - cbn [app pop_until fold_left]. rewrite N.eqb_refl. reflexivity.
  - cbn [app pop_until]. destruct (N.eqb_spec a m) as [E|E]; [exfalso; apply Hn; left; exact E|].
    rewrite IH by (intro H; apply Hn; right; exact H).
    cbn [fold_left app]. rewrite <- app_assoc. reflexivity.
Qed.

(* ---------- strictly decreasing lists (the stack, by index) ---------- *)
Fixpoint desc (f : N -> Z) (l : list N) : Prop :=
  match l with
  | [] => True
  | x :: r => (forall y, In y r -> f y < f x) /\ desc f r
  end.

Lemma desc_app : forall f l1 l2,
  desc f (l1 ++ l2) <-> desc f l1 /\ desc f l2 /\ (forall a b, In a l1 -> In b l2 -> f b < f a).
Proof.
  intros f. induction l1 as [|x l1 IH]; intros l2; cbn [app desc].
  - split; [intros H; repeat split; [exact H|intros a b []]|intros [_ [H _]]; exact H].
  - rewrite IH. split.
    + intros [Hx [H1 [H2 H12]]]. repeat split.
      * intros y Hy. apply Hx. apply in_app_iff. left; exact Hy.
      * exact H1.
      * exact H2.
      * intros a b [Ea|Ha] Hb; [subst; apply Hx; apply in_app_iff; right; exact Hb|apply H12; assumption].
    + intros [[Hx H1] [H2 H12]]. repeat split.
      * intros y Hy. apply in_app_iff in Hy. destruct Hy as [Hy|Hy]; [apply Hx; exact Hy|apply H12; [left; reflexivity|exact Hy]].
      * exact H1.
      * exact H2.
      * intros a b Ha Hb. apply H12; [right; exact Ha|exact Hb].
Qed.

Lemma desc_ext : forall f f' l, (forall x, In x l -> f' x = f x) -> desc f l -> desc f' l.
Proof.
  intros f f'. induction l as [|x l IH]; intros He H; cbn [desc] in *; [exact I|].
  destruct H as [Hx Hl]. split.
  - intros y Hy. rewrite (He x (or_introl eq_refl)), (He y (or_intror Hy)). apply Hx; exact Hy.
  - apply IH; [intros y Hy; apply He; right; exact Hy|exact Hl].
Qed.

Lemma desc_NoDup : forall f l, desc f l -> NoDup l.
Proof.
  intros f. induction l as [|x l IH]; intros H; [constructor|]. destruct H as [Hx Hl].
  constructor; [|apply IH; exact Hl]. intro Hin. specialize (Hx x Hin). lia.
Qed.

(* ---------- one step of the state ---------- *)
Definition visited (st : tstate) (x : N) : Prop := mget (t_indices st) x <> None.
Definition visitedb (st : tstate) (x : N) : bool := match mget (t_indices st) x with Some _ => true | None => false end.

Lemma visitedb_spec : forall st x, visitedb st x = true <-> visited st x.
Proof. intros st x. unfold visitedb, visited. destruct (mget (t_indices st) x); split; intros H; congruence. Qed.

Lemma visited_dec : forall st x, visited st x \/ ~ visited st x.
Proof. intros st x. unfold visited. destruct (mget (t_indices st) x); [left; discriminate|right; intro H; apply H; reflexivity]. Qed.

Lemma visited_enter : forall st m x, visited (enter st m) x <-> x = m \/ visited st x.
Proof.
  intros st m x. unfold visited, enter. cbn [t_indices]. rewrite mget_mset_gen.
  destruct (N.eqb_spec m x) as [E|E].
  - subst. split; [intros _; left; reflexivity|intros _; discriminate].
  - split; [intros H; right; exact H|intros [H|H]; [congruence|exact H]].
Qed.

Lemma idx_enter : forall st m x, get_index (enter st m) x = if N.eqb m x then t_index st else get_index st x.
Proof. intros. unfold get_index, enter. cbn [t_indices]. rewrite mget_mset_gen. destruct (N.eqb m x); reflexivity. Qed.

Lemma low_enter : forall st m x, get_low (enter st m) x = if N.eqb m x then t_index st else get_low st x.
Proof. intros. unfold get_low, enter. cbn [t_lowLinks]. rewrite mget_mset_gen. destruct (N.eqb m x); reflexivity. Qed.

Lemma instack_enter : forall st m x, in_stack (enter st m) x = if N.eqb m x then true else in_stack st x.
Proof. intros. unfold in_stack, enter. cbn [t_inStack]. rewrite mget_mset_gen. destruct (N.eqb m x); reflexivity. Qed.

Lemma low_set_low : forall st m v x, get_low (set_low st m v) x = if N.eqb m x then v else get_low st x.
Proof. intros. unfold get_low, set_low. cbn [t_lowLinks]. rewrite mget_mset_gen. destruct (N.eqb m x); reflexivity. Qed.

Lemma stack_enter : forall st m, t_stack (enter st m) = m :: t_stack st.
Proof. reflexivity. Qed.
Lemma index_enter : forall st m, t_index (enter st m) = t_index st + 1.
Proof. reflexivity. Qed.
Lemma comps_enter : forall st m, t_components (enter st m) = t_components st.
Proof. reflexivity. Qed.

(* ---------- the graph the detector walks, and the graph of the specification ---------- *)
Section Correct.
Variable g : digraph.
Variable mg : mgraph.

Definition deps_of (m : N) : list N := match get_node mg m with Some node => n_deps node | None => [] end.

(* every import the detector follows is an import of the specification's graph, and every
   import between two different modules is followed *)
Hypothesis W_deps_edge : forall m d, In d (deps_of m) -> edge g m d.
Hypothesis W_edge_deps : forall m d, edge g m d -> m <> d -> In d (deps_of m).

Notation idx := get_index.
Notation low := get_low.

Lemma edge_path : forall a b, edge g a b -> path g a b.
Proof. intros a b H. eapply path_step; [apply path_refl|exact H]. Qed.

Lemma path_closed : forall (P : N -> Prop), (forall x y, P x -> edge g x y -> P y) ->
  forall a b, path g a b -> P a -> P b.
Proof. intros P HP a b H. induction H as [v|a b c Hab IH Hbc]; intros Ha; [exact Ha|]. eapply HP; [apply IH; exact Ha|exact Hbc]. Qed.

Lemma edge_verts_r : forall a b, edge g a b -> In b (verts g).
Proof. intros a b [_ [_ H]]. exact H. Qed.

(* ---------- the state invariant; [gr] = modules whose strongConnect call is active ---------- *)
Record Inv (gr : list N) (st : tstate) : Prop := {
  I_verts : forall x, visited st x -> In x (verts g);
  I_bound : forall x, visited st x -> idx st x < t_index st;
  I_svis : forall x, In x (t_stack st) -> visited st x;
  I_inst : forall x, in_stack st x = true <-> In x (t_stack st);
  I_sdesc : desc (idx st) (t_stack st);
  I_gdesc : desc (idx st) gr;
  I_gstack : forall x, In x gr -> In x (t_stack st);
  (* a module whose call has returned has no import to an unvisited module *)
  I_black : forall x y, visited st x -> ~ In x gr -> edge g x y -> visited st y;
  (* every module on the stack reaches an active module not above it ... *)
  I_s2g : forall y, In y (t_stack st) -> exists z, In z gr /\ idx st z <= idx st y /\ path g y z;
  (* ... and every active module reaches every module of the stack not below it *)
  I_g2s : forall x y, In x gr -> In y (t_stack st) -> idx st x <= idx st y -> path g x y;
  (* popped modules only import popped modules *)
  I_done : forall x y, visited st x -> ~ In x (t_stack st) -> edge g x y -> visited st y /\ ~ In y (t_stack st);
  (* every reported component is the mutual-reachability class of each of its members *)
  I_comps : forall c x, In c (t_components st) -> In x c ->
              visited st x /\ ~ In x (t_stack st) /\ forall y, In y c <-> mutual g x y;
  (* the class of a popped module is reported unless it has a single member *)
  I_dcomp : forall x y, visited st x -> ~ In x (t_stack st) -> y <> x -> mutual g x y ->
              exists c, In c (t_components st) /\ In x c
}.

Lemma Inv_set_low : forall gr st m v, Inv gr st -> Inv gr (set_low st m v).
Proof. intros gr st m v H. destruct H. constructor; assumption. Qed.

Lemma Inv_enter : forall gr st m, Inv gr st -> ~ visited st m -> In m (verts g) ->
  (forall z, In z gr -> path g z m) -> Inv (m :: gr) (enter st m).
Proof.
  intros gr st m H Hm Hmv Hp.
  assert (Eold : forall x, visited st x -> idx (enter st m) x = idx st x).
  { intros x Hx. rewrite idx_enter. destruct (N.eqb_spec m x) as [E|E]; [subst; contradiction|reflexivity]. }
  assert (Enew : idx (enter st m) m = t_index st) by (rewrite idx_enter, N.eqb_refl; reflexivity).
  assert (Hms : ~ In m (t_stack st)) by (intro Hi; apply Hm; apply (I_svis _ _ H); exact Hi).
  assert (Hsold : forall x, In x (t_stack st) -> idx (enter st m) x = idx st x)
    by (intros x Hx; apply Eold; apply (I_svis _ _ H); exact Hx).
  assert (Hgold : forall x, In x gr -> idx (enter st m) x = idx st x)
    by (intros x Hx; apply Hsold; apply (I_gstack _ _ H); exact Hx).
  assert (Hslt : forall x, In x (t_stack st) -> idx (enter st m) x < idx (enter st m) m).
  { intros x Hx. rewrite Enew, (Hsold x Hx). apply (I_bound _ _ H). apply (I_svis _ _ H); exact Hx. }
  constructor.
  - intros x Hx. apply visited_enter in Hx. destruct Hx as [->|Hx]; [exact Hmv|apply (I_verts _ _ H); exact Hx].
  - intros x Hx. rewrite index_enter. apply visited_enter in Hx. destruct Hx as [->|Hx].
    + rewrite Enew. lia.
    + rewrite (Eold x Hx). pose proof (I_bound _ _ H x Hx). lia.
  - intros x Hx. rewrite stack_enter in Hx. apply visited_enter.
    destruct Hx as [<-|Hx]; [left; reflexivity|right; apply (I_svis _ _ H); exact Hx].
  - intros x. rewrite instack_enter, stack_enter. destruct (N.eqb_spec m x) as [E|E].
    + subst. split; [intros _; left; reflexivity|reflexivity].
    + rewrite (I_inst _ _ H). split; [intros Hx; right; exact Hx|intros [Hx|Hx]; [contradiction|exact Hx]].
  - rewrite stack_enter. cbn [desc]. split; [exact Hslt|].
    apply (desc_ext (idx st)); [exact Hsold|apply (I_sdesc _ _ H)].
  - cbn [desc]. split.
    + intros y Hy. apply Hslt. apply (I_gstack _ _ H); exact Hy.
    + apply (desc_ext (idx st)); [exact Hgold|apply (I_gdesc _ _ H)].
  - intros x [<-|Hx]; rewrite stack_enter; [left; reflexivity|right; apply (I_gstack _ _ H); exact Hx].
  - intros x y Hx Hng He. apply visited_enter. right. apply visited_enter in Hx.
    destruct Hx as [->|Hx]; [exfalso; apply Hng; left; reflexivity|].
    apply (I_black _ _ H x y Hx); [intro Hi; apply Hng; right; exact Hi|exact He].
  - intros y Hy. rewrite stack_enter in Hy. destruct Hy as [<-|Hy].
    + exists m. split; [left; reflexivity|split; [lia|apply path_refl]].
    + destruct (I_s2g _ _ H y Hy) as [z [Hz [Hle Hpz]]]. exists z. split; [right; exact Hz|].
      split; [rewrite (Hgold z Hz), (Hsold y Hy); exact Hle|exact Hpz].
  - intros x y Hx Hy Hle. rewrite stack_enter in Hy. destruct Hx as [<-|Hx]; destruct Hy as [<-|Hy].
    + apply path_refl.
    + specialize (Hslt y Hy). lia.
    + apply Hp; exact Hx.
    + apply (I_g2s _ _ H x y Hx Hy). rewrite <- (Hgold x Hx), <- (Hsold y Hy). exact Hle.
  - intros x y Hx Hns He. rewrite stack_enter in *. apply visited_enter in Hx.
    destruct Hx as [->|Hx]; [exfalso; apply Hns; left; reflexivity|].
    destruct (I_done _ _ H x y Hx (fun Hi => Hns (or_intror Hi)) He) as [Hy Hys].
    split; [apply visited_enter; right; exact Hy|].
    intros [E|Hi]; [subst; contradiction|contradiction].
  - intros c x Hc Hxc. rewrite comps_enter in Hc. destruct (I_comps _ _ H c x Hc Hxc) as [Hx [Hxs Hcl]].
    split; [apply visited_enter; right; exact Hx|]. split; [|exact Hcl].
    rewrite stack_enter. intros [E|Hi]; [subst; contradiction|contradiction].
  - intros x y Hx Hns Hne Hmu. rewrite comps_enter. rewrite stack_enter in Hns. apply visited_enter in Hx.
    destruct Hx as [->|Hx]; [exfalso; apply Hns; left; reflexivity|].
    apply (I_dcomp _ _ H x y Hx (fun Hi => Hns (or_intror Hi)) Hne Hmu).
Qed.

(* ---------- how a later state extends an earlier one ---------- *)
Record ext (st st' : tstate) : Prop := {
  E_vis : forall x, visited st x -> visited st' x;
  E_idx : forall x, visited st x -> idx st' x = idx st x;
  E_newidx : forall x, ~ visited st x -> visited st' x -> t_index st <= idx st' x;
  E_index : t_index st <= t_index st';
  E_stack : exists new, t_stack st' = new ++ t_stack st /\ forall x, In x new -> ~ visited st x
}.

Lemma ext_refl : forall st, ext st st.
Proof.
  intros st. constructor; try (intros; auto; fail).
  - intros x H1 H2. contradiction.
  - lia.
  - exists []. split; [reflexivity|intros x []].
Qed.

Lemma ext_trans : forall st1 st2 st3, ext st1 st2 -> ext st2 st3 -> ext st1 st3.
Proof.
  intros st1 st2 st3 A B. constructor.
  - intros x H. apply (E_vis _ _ B). apply (E_vis _ _ A). exact H.
  - intros x H. rewrite (E_idx _ _ B x (E_vis _ _ A x H)). apply (E_idx _ _ A x H).
  - intros x Hn Hv. destruct (visited_dec st2 x) as [H2|H2].
    + rewrite (E_idx _ _ B x H2). apply (E_newidx _ _ A x Hn H2).
    + pose proof (E_newidx _ _ B x H2 Hv). pose proof (E_index _ _ A). lia.
  - pose proof (E_index _ _ A). pose proof (E_index _ _ B). lia.
  - destruct (E_stack _ _ A) as [n1 [S1 N1]]. destruct (E_stack _ _ B) as [n2 [S2 N2]].
    exists (n2 ++ n1). split; [rewrite S2, S1, app_assoc; reflexivity|].
    intros x Hx. apply in_app_iff in Hx. destruct Hx as [Hx|Hx]; [|apply N1; exact Hx].
    intro Hv. apply (N2 x Hx). apply (E_vis _ _ A). exact Hv.
Qed.

Lemma ext_set_low : forall st m v, ext st (set_low st m v).
Proof. intros st m v. destruct (ext_refl st). constructor; assumption. Qed.

Definition lowpres (m : N) (st st' : tstate) : Prop := forall x, visited st x -> x <> m -> low st' x = low st x.

(* ---------- the number of unvisited modules bounds the recursion depth ---------- *)
Definition unv (st : tstate) : list N := filter (fun v => negb (visitedb st v)) (verts g).

Lemma unv_mono : forall st st', ext st st' -> (length (unv st') <= length (unv st))%nat.
Proof.
  intros st st' E. unfold unv. apply filter_mono_len. intros x _ Hx.
  apply negb_true_iff in Hx. apply negb_true_iff.
  destruct (visitedb st x) eqn:V; [|reflexivity]. apply visitedb_spec in V. apply (E_vis _ _ E) in V.
  apply visitedb_spec in V. congruence.
Qed.

Lemma filter_strict_len : forall (p q : N -> bool) l m,
  (forall x, In x l -> p x = true -> q x = true) -> In m l -> p m = false -> q m = true ->
  (length (filter p l) < length (filter q l))%nat.
Proof.
  induction l as [|a l IH]; intros m H Hm Hp Hq; [destruct Hm|].
  assert (Hl : (length (filter p l) <= length (filter q l))%nat)
    by (apply filter_mono_len; intros x Hx; apply H; right; exact Hx).
  cbn [filter]. destruct Hm as [E|Hm].
  - subst a. rewrite Hp, Hq. cbn [length]. lia.
  - assert (IH' : (length (filter p l) < length (filter q l))%nat)
      by (apply (IH m); [intros x Hx; apply H; right; exact Hx|exact Hm|exact Hp|exact Hq]).
    destruct (p a) eqn:Pa.
    + rewrite (H a (or_introl eq_refl) Pa). cbn [length]. lia.
    + destruct (q a); cbn [length]; lia.
Qed.

Lemma unv_enter : forall st m, In m (verts g) -> ~ visited st m ->
  (length (unv (enter st m)) < length (unv st))%nat.
Proof.
  intros st m Hm Hv. unfold unv. apply (filter_strict_len _ _ _ m).
  - intros x _ Hx. apply negb_true_iff in Hx. apply negb_true_iff.
    destruct (visitedb st x) eqn:V; [|reflexivity]. apply visitedb_spec in V.
    assert (V' : visited (enter st m) x) by (apply visited_enter; right; exact V).
    apply visitedb_spec in V'. congruence.
  - exact Hm.
  - apply negb_false_iff. apply visitedb_spec. apply visited_enter. left; reflexivity.
  - apply negb_true_iff. destruct (visitedb st m) eqn:V; [|reflexivity]. apply visitedb_spec in V. contradiction.
Qed.

(* ---------- the loop over the imports of [m]; [v] is the current lowLinks[m] ---------- *)
Record LoopInvV (m : N) (gr : list N) (ds : list N) (st : tstate) (v : Z) : Prop := {
  L_inv : Inv (m :: gr) st;
  L_le : v <= idx st m;
  L_wit : exists y, In y (t_stack st) /\ idx st y = v /\ path g m y;
  (* imports of the modules pushed above [m] into the stack reach no index below [v] *)
  L_xedge : forall a b, In a (t_stack st) -> idx st m < idx st a -> edge g a b -> In b (t_stack st) -> v <= idx st b;
  L_todo : forall d, In d ds -> edge g m d;
  L_proc : forall d, edge g m d -> In d ds \/ d = m \/ (visited st d /\ (In d (t_stack st) -> v <= idx st d))
}.

Definition LoopInv m gr ds st := LoopInvV m gr ds st (low st m).

Lemma LoopInv_set_low : forall m gr ds st v, LoopInvV m gr ds st v -> LoopInv m gr ds (set_low st m v).
Proof.
  intros m gr ds st v H. unfold LoopInv. rewrite low_set_low, N.eqb_refl.
  destruct H as [A B C D E F]. constructor; try assumption. apply Inv_set_low. exact A.
Qed.

(* ---------- what strongConnect m guarantees ---------- *)
Record Post (gr : list N) (m : N) (st st' : tstate) : Prop := {
  P_inv : Inv gr st';
  P_ext : ext st st';
  P_lowpres : forall x, visited st x -> low st' x = low st x;
  P_vis : visited st' m;
  P_low_le : low st' m <= idx st' m;
  P_on : In m (t_stack st') -> exists y, In y (t_stack st') /\ idx st' y = low st' m /\ path g m y;
  P_off : ~ In m (t_stack st') -> low st' m = idx st' m;
  P_xedge : forall a b, In a (t_stack st') -> ~ In a (t_stack st) -> edge g a b -> In b (t_stack st) ->
              low st' m <= idx st' b
}.

Definition sc_spec (rec : N -> tstate -> result) (bound : nat) : Prop :=
  forall m st gr, Inv gr st -> ~ visited st m -> In m (verts g) -> (forall z, In z gr -> path g z m) ->
    (length (unv st) <= bound)%nat -> exists st', rec m st = Ok st' /\ Post gr m st st'.

Lemma gray_le_top : forall m gr st z, Inv (m :: gr) st -> In z (m :: gr) -> idx st z <= idx st m.
Proof.
  intros m gr st z H Hz. pose proof (I_gdesc _ _ H) as D. cbn [desc] in D. destruct D as [D _].
  destruct Hz as [<-|Hz]; [lia|]. specialize (D z Hz). lia.
Qed.

Lemma gray_reach_top : forall m gr st z, Inv (m :: gr) st -> In z (m :: gr) -> path g z m.
Proof.
  intros m gr st z H Hz. apply (I_g2s _ _ H z m Hz).
  - apply (I_gstack _ _ H). left; reflexivity.
  - apply (gray_le_top m gr st z H Hz).
Qed.

(* the import [d] was unvisited and strongConnect d has returned *)
Lemma loop_step_rec : forall m gr d ds st st' v,
  LoopInvV m gr (d :: ds) st v -> ~ visited st d -> Post (m :: gr) d st st' ->
  LoopInvV m gr ds st' (Z.min v (low st' d)).
Proof.
  intros m gr d ds st st' v L Hdv HP.
  pose proof (L_inv _ _ _ _ _ L) as HI. pose proof (P_inv _ _ _ _ HP) as HI'. pose proof (P_ext _ _ _ _ HP) as E.
  destruct (E_stack _ _ E) as [new [Hs' Hnew]].
  assert (Hms : In m (t_stack st)) by (apply (I_gstack _ _ HI); left; reflexivity).
  assert (Hmv : visited st m) by (apply (I_svis _ _ HI); exact Hms).
  assert (Eim : idx st' m = idx st m) by (apply (E_idx _ _ E); exact Hmv).
  assert (Hed : edge g m d) by (apply (L_todo _ _ _ _ _ L); left; reflexivity).
  assert (Hmb : idx st m < t_index st) by (apply (I_bound _ _ HI); exact Hmv).
  assert (Hnewidx : forall x, In x new -> t_index st <= idx st' x).
  { intros x Hx. apply (E_newidx _ _ E); [apply Hnew; exact Hx|].
    apply (I_svis _ _ HI'). rewrite Hs'. apply in_app_iff. left; exact Hx. }
  assert (Hsold : forall x, In x (t_stack st) -> idx st' x = idx st x)
    by (intros x Hx; apply (E_idx _ _ E); apply (I_svis _ _ HI); exact Hx).
  pose proof (L_le _ _ _ _ _ L) as Hle.
  constructor.
  - exact HI'.
  - lia.
  - destruct (Z.le_gt_cases v (low st' d)) as [C|C].
    + destruct (L_wit _ _ _ _ _ L) as [y [Hy [Ey Hpy]]]. exists y. split; [rewrite Hs'; apply in_app_iff; right; exact Hy|].
      split; [rewrite (Hsold y Hy); lia|exact Hpy].
    + destruct (in_dec N.eq_dec d (t_stack st')) as [Hd|Hd].
      * destruct (P_on _ _ _ _ HP Hd) as [y [Hy [Ey Hpy]]]. exists y. split; [exact Hy|]. split; [lia|].
        eapply path_trans; [apply edge_path; exact Hed|exact Hpy].
      * pose proof (P_off _ _ _ _ HP Hd) as Eo.
        pose proof (E_newidx _ _ E d Hdv (P_vis _ _ _ _ HP)). lia.
  - intros a b Ha Hlt He Hb. rewrite Hs' in Ha, Hb. apply in_app_iff in Ha. apply in_app_iff in Hb.
    destruct Hb as [Hb|Hb].
    + specialize (Hnewidx b Hb). lia.
    + destruct Ha as [Ha|Ha].
      * assert (Hna : ~ In a (t_stack st)) by (intro Hi; apply (Hnew a Ha); apply (I_svis _ _ HI); exact Hi).
        assert (Ha' : In a (t_stack st')) by (rewrite Hs'; apply in_app_iff; left; exact Ha).
        pose proof (P_xedge _ _ _ _ HP a b Ha' Hna He Hb). lia.
      * rewrite (Hsold a Ha), Eim in Hlt. pose proof (L_xedge _ _ _ _ _ L a b Ha Hlt He Hb).
        rewrite (Hsold b Hb). lia.
  - intros e He. apply (L_todo _ _ _ _ _ L). right; exact He.
  - intros e He. destruct (L_proc _ _ _ _ _ L e He) as [[<-|Hi]|[Em|[Hv Hs]]].
    + right; right. split; [apply (P_vis _ _ _ _ HP)|]. intros _. pose proof (P_low_le _ _ _ _ HP). lia.
    + left; exact Hi.
    + right; left; exact Em.
    + right; right. split; [apply (E_vis _ _ E); exact Hv|]. intros Hi. rewrite Hs' in Hi. apply in_app_iff in Hi.
      destruct Hi as [Hi|Hi]; [exfalso; apply (Hnew e Hi); exact Hv|].
      rewrite (Hsold e Hi). specialize (Hs Hi). lia.
Qed.

(* the import [d] is visited and on the stack *)
Lemma loop_step_onstack : forall m gr d ds st v,
  LoopInvV m gr (d :: ds) st v -> In d (t_stack st) -> LoopInvV m gr ds st (Z.min v (idx st d)).
Proof.
  intros m gr d ds st v L Hd. pose proof (L_inv _ _ _ _ _ L) as HI.
  assert (Hed : edge g m d) by (apply (L_todo _ _ _ _ _ L); left; reflexivity).
  pose proof (L_le _ _ _ _ _ L) as Hle.
  constructor.
  - exact HI.
  - lia.
  - destruct (Z.le_gt_cases v (idx st d)) as [C|C].
    + destruct (L_wit _ _ _ _ _ L) as [y [Hy [Ey Hpy]]]. exists y. split; [exact Hy|]. split; [lia|exact Hpy].
    + exists d. split; [exact Hd|]. split; [lia|apply edge_path; exact Hed].
  - intros a b Ha Hlt He Hb. pose proof (L_xedge _ _ _ _ _ L a b Ha Hlt He Hb). lia.
  - intros e He. apply (L_todo _ _ _ _ _ L). right; exact He.
  - intros e He. destruct (L_proc _ _ _ _ _ L e He) as [[<-|Hi]|[Em|[Hv Hs]]].
    + right; right. split; [apply (I_svis _ _ HI); exact Hd|]. intros _. lia.
    + left; exact Hi.
    + right; left; exact Em.
    + right; right. split; [exact Hv|]. intros Hi. specialize (Hs Hi). lia.
Qed.

(* the import [d] is visited and already popped *)
Lemma loop_step_done : forall m gr d ds st v,
  LoopInvV m gr (d :: ds) st v -> visited st d -> ~ In d (t_stack st) -> LoopInvV m gr ds st v.
Proof.
  intros m gr d ds st v L Hv Hd. destruct L as [A B C D E F]. constructor; try assumption.
  - intros e He. apply E. right; exact He.
  - intros e He. destruct (F e He) as [[<-|Hi]|[Em|P]].
    + right; right. split; [exact Hv|]. intros Hi. contradiction.
    + left; exact Hi.
    + right; left; exact Em.
    + right; right. exact P.
Qed.

Lemma succ_loop_spec : forall rec bound m gr, sc_spec rec bound ->
  forall ds st, LoopInv m gr ds st -> (length (unv st) <= bound)%nat ->
  exists st2, succ_loop rec m ds st = Ok st2 /\ LoopInv m gr [] st2 /\ ext st st2 /\ lowpres m st st2.
Proof.
  intros rec bound m gr Hrec. induction ds as [|d ds IH]; intros st L Hb.
  - exists st. split; [reflexivity|]. split; [exact L|]. split; [apply ext_refl|]. intros x _ _. reflexivity.
  - pose proof (L_inv _ _ _ _ _ L) as HI.
    assert (Hed : edge g m d) by (apply (L_todo _ _ _ _ _ L); left; reflexivity).
    cbn [succ_loop]. destruct (mget (t_indices st) d) as [i|] eqn:Ed.
    + assert (Hdv : visited st d) by (unfold visited; rewrite Ed; discriminate).
      destruct (in_stack st d) eqn:Es.
      * apply (I_inst _ _ HI) in Es. rewrite minLowLink_min.
        pose proof (LoopInv_set_low _ _ _ _ _ (loop_step_onstack _ _ _ _ _ _ L Es)) as L'.
        destruct (IH _ L') as [st2 [R [L2 [E2 P2]]]].
        { rewrite (unv_mono _ _ (ext_set_low st m _)). exact Hb. }
        exists st2. split; [exact R|]. split; [exact L2|]. split.
        -- eapply ext_trans; [apply ext_set_low|exact E2].
        -- intros x Hx Hne. rewrite (P2 x Hx Hne). rewrite low_set_low.
           destruct (N.eqb_spec m x) as [E|E]; [congruence|reflexivity].
      * assert (Hns : ~ In d (t_stack st)) by (intro Hi; apply (I_inst _ _ HI) in Hi; congruence).
        apply (IH st); [|exact Hb]. exact (loop_step_done _ _ _ _ _ _ L Hdv Hns).
    + assert (Hdv : ~ visited st d) by (unfold visited; rewrite Ed; intro C; apply C; reflexivity).
      destruct (Hrec d st (m :: gr) HI Hdv (edge_verts_r _ _ Hed)) as [st' [R HP]].
      { intros z Hz. eapply path_trans; [apply (gray_reach_top m gr st z HI Hz)|apply edge_path; exact Hed]. }
      { exact Hb. }
      rewrite R. rewrite minLowLink_min.
      assert (Hmv : visited st m) by (apply (I_svis _ _ HI); apply (I_gstack _ _ HI); left; reflexivity).
      rewrite (P_lowpres _ _ _ _ HP m Hmv).
      pose proof (LoopInv_set_low _ _ _ _ _ (loop_step_rec _ _ _ _ _ _ _ L Hdv HP)) as L'.
      pose proof (P_ext _ _ _ _ HP) as E1.
      destruct (IH _ L') as [st2 [R2 [L2 [E2 P2]]]].
      { pose proof (unv_mono _ _ E1). pose proof (unv_mono _ _ (ext_set_low st' m (Z.min (low st m) (low st' d)))). lia. }
      exists st2. split; [exact R2|]. split; [exact L2|]. split.
      * eapply ext_trans; [exact E1|]. eapply ext_trans; [apply ext_set_low|exact E2].
      * intros x Hx Hne. rewrite (P2 x (E_vis _ _ E1 x Hx) Hne). rewrite low_set_low.
        destruct (N.eqb_spec m x) as [E|E]; [congruence|]. apply (P_lowpres _ _ _ _ HP x Hx).
Qed.

(* ---------- after the loop: "if lowLinks[module] == indices[module] { pop }" ---------- *)
Lemma two_distinct_length : forall (l : list N) x y, In x l -> In y l -> x <> y -> (2 <= length l)%nat.
Proof.
  intros l x y Hx Hy Hne. destruct l as [|a [|b l]]; cbn [length]; try lia.
  - destruct Hx.
  - destruct Hx as [<-|[]]. destruct Hy as [<-|[]]. congruence.
Qed.

Lemma enter_facts : forall st m st2, ext (enter st m) st2 -> ~ visited st m ->
  (forall x, visited st x -> visited st2 x) /\
  (forall x, visited st x -> idx st2 x = idx st x) /\
  (forall x, ~ visited st x -> visited st2 x -> t_index st <= idx st2 x) /\
  t_index st <= t_index st2 /\
  exists new, t_stack st2 = new ++ m :: t_stack st /\ forall x, In x new -> ~ visited st x.
Proof.
  intros st m st2 E Hm.
  assert (Vm : visited (enter st m) m) by (apply visited_enter; left; reflexivity).
  split; [|split; [|split; [|split]]].
  - intros x Hx. apply (E_vis _ _ E). apply visited_enter. right; exact Hx.
  - intros x Hx. rewrite (E_idx _ _ E) by (apply visited_enter; right; exact Hx).
    rewrite idx_enter. destruct (N.eqb_spec m x) as [Q|Q]; [subst; contradiction|reflexivity].
  - intros x Hn Hv. destruct (N.eq_dec x m) as [->|Hxm].
    + rewrite (E_idx _ _ E m Vm). rewrite idx_enter, N.eqb_refl. lia.
    + assert (Hn' : ~ visited (enter st m) x) by (intro C; apply visited_enter in C; destruct C; contradiction).
      pose proof (E_newidx _ _ E x Hn' Hv) as Q. rewrite index_enter in Q. lia.
  - pose proof (E_index _ _ E) as Q. rewrite index_enter in Q. lia.
  - destruct (E_stack _ _ E) as [new [Hs Hnew]]. exists new. split; [rewrite Hs, stack_enter; reflexivity|].
    intros x Hx Hv. apply (Hnew x Hx). apply visited_enter. right; exact Hv.
Qed.

Lemma finish_nopop : forall gr m st st2,
  LoopInv m gr [] st2 -> ext (enter st m) st2 -> lowpres m (enter st m) st2 -> ~ visited st m ->
  low st2 m <> idx st2 m -> Post gr m st st2.
Proof.
  intros gr m st st2 L E LP Hm Hne. unfold LoopInv in L.
  pose proof (L_inv _ _ _ _ _ L) as HI. pose proof (L_le _ _ _ _ _ L) as Hle.
  destruct (enter_facts st m st2 E Hm) as [Fv [Fi [Fn [Ft [new [Hs2 Hnew]]]]]].
  pose proof (I_sdesc _ _ HI) as Hdesc. rewrite Hs2 in Hdesc. apply desc_app in Hdesc.
  destruct Hdesc as [Dn [Dm Dnm]]. cbn [desc] in Dm. destruct Dm as [DmS DS].
  assert (Hms2 : In m (t_stack st2)) by (apply (I_gstack _ _ HI); left; reflexivity).
  assert (Hnew_gt : forall a, In a new -> idx st2 m < idx st2 a) by (intros a Ha; apply Dnm; [exact Ha|left; reflexivity]).
  destruct (L_wit _ _ _ _ _ L) as [y0 [Hy0 [Ey0 Hpy0]]].
  assert (HI' : Inv gr st2).
  { constructor; [apply (I_verts _ _ HI)|apply (I_bound _ _ HI)|apply (I_svis _ _ HI)|apply (I_inst _ _ HI)|apply (I_sdesc _ _ HI)
                 | | | | | |apply (I_done _ _ HI)|apply (I_comps _ _ HI)|apply (I_dcomp _ _ HI)].
    - pose proof (I_gdesc _ _ HI) as D. cbn [desc] in D. apply D.
    - intros x Hx. apply (I_gstack _ _ HI). right; exact Hx.
    - intros x y Hx Hng He. destruct (N.eq_dec x m) as [->|Hxm].
      + destruct (L_proc _ _ _ _ _ L y He) as [[]|[->|[Hv _]]]; [apply (I_svis _ _ HI); exact Hms2|exact Hv].
      + apply (I_black _ _ HI x y Hx); [intros [Q|Hi]; [congruence|contradiction]|exact He].
    - intros y Hy. destruct (I_s2g _ _ HI y Hy) as [z [[<-|Hz] [Hle' Hp]]].
      + destruct (I_s2g _ _ HI y0 Hy0) as [z0 [[<-|Hz0] [Hle0 Hp0]]]; [lia|].
        exists z0. split; [exact Hz0|]. split; [lia|].
        eapply path_trans; [exact Hp|]. eapply path_trans; [exact Hpy0|exact Hp0].
      + exists z. split; [exact Hz|]. split; [exact Hle'|exact Hp].
    - intros x y Hx. apply (I_g2s _ _ HI). right; exact Hx. }
  constructor.
  - exact HI'.
  - constructor; [exact Fv|exact Fi|exact Fn|exact Ft|].
    exists (new ++ [m]). split; [rewrite Hs2, <- app_assoc; reflexivity|].
    intros x Hx. apply in_app_iff in Hx. destruct Hx as [Hx|[<-|[]]]; [apply Hnew; exact Hx|exact Hm].
  - intros x Hx. assert (Hxm : x <> m) by (intro Q; subst; contradiction).
    rewrite (LP x) by (try apply visited_enter; auto). rewrite low_enter.
    destruct (N.eqb_spec m x) as [Q|Q]; [congruence|reflexivity].
  - apply (I_svis _ _ HI). exact Hms2.
  - exact Hle.
  - intros _. exists y0. split; [exact Hy0|]. split; [exact Ey0|exact Hpy0].
  - intros Hn. contradiction.
  - intros a b Ha Hna He Hb.
    assert (Hb2 : In b (t_stack st2)) by (rewrite Hs2; apply in_app_iff; right; right; exact Hb).
    pose proof Ha as Ha2. rewrite Hs2 in Ha. apply in_app_iff in Ha. destruct Ha as [Ha|[<-|Ha]].
    + apply (L_xedge _ _ _ _ _ L a b Ha2 (Hnew_gt a Ha) He Hb2).
    + destruct (L_proc _ _ _ _ _ L b He) as [[]|[->|[_ Hs]]]; [specialize (DmS m Hb); lia|apply Hs; exact Hb2].
    + contradiction.
Qed.

Lemma finish_pop : forall gr m st st2,
  LoopInv m gr [] st2 -> ext (enter st m) st2 -> lowpres m (enter st m) st2 -> ~ visited st m ->
  low st2 m = idx st2 m -> exists st', finish m st2 = Ok st' /\ Post gr m st st'.
Proof.
  intros gr m st st2 L E LP Hm Heq. unfold LoopInv in L. rewrite Heq in L.
  pose proof (L_inv _ _ _ _ _ L) as HI.
  destruct (enter_facts st m st2 E Hm) as [Fv [Fi [Fn [Ft [new [Hs2 Hnew]]]]]].
  pose proof (I_sdesc _ _ HI) as Hdesc. rewrite Hs2 in Hdesc. apply desc_app in Hdesc.
  destruct Hdesc as [Dn [Dm Dnm]]. cbn [desc] in Dm. destruct Dm as [DmS DS].
  assert (Hms2 : In m (t_stack st2)) by (apply (I_gstack _ _ HI); left; reflexivity).
  assert (Hnew_gt : forall a, In a new -> idx st2 m < idx st2 a) by (intros a Ha; apply Dnm; [exact Ha|left; reflexivity]).
  set (C := new ++ [m]).
  assert (HinS2 : forall x, In x (t_stack st2) <-> In x C \/ In x (t_stack st)).
  { intros x. rewrite Hs2. unfold C. rewrite !in_app_iff. cbn [In]. tauto. }
  assert (Hge : forall x, In x C -> idx st2 m <= idx st2 x).
  { intros x Hx. unfold C in Hx. apply in_app_iff in Hx. destruct Hx as [Hx|[<-|[]]]; [specialize (Hnew_gt x Hx)|]; lia. }
  assert (HCS : forall x, In x C -> ~ In x (t_stack st)).
  { intros x Hx Hi. specialize (Hge x Hx). specialize (DmS x Hi). lia. }
  assert (Hgr_lt : forall z, In z gr -> idx st2 z < idx st2 m).
  { pose proof (I_gdesc _ _ HI) as D. cbn [desc] in D. apply D. }
  assert (HmC : In m C) by (unfold C; apply in_app_iff; right; left; reflexivity).
  assert (HCvis : forall x, In x C -> visited st2 x) by (intros x Hx; apply (I_svis _ _ HI); apply HinS2; left; exact Hx).
  (* imports of the popped modules stay among the popped modules *)
  assert (F1 : forall a b, In a C -> edge g a b -> visited st2 b /\ (In b C \/ ~ In b (t_stack st2))).
  { intros a b Ha He. pose proof Ha as HaC. unfold C in Ha. apply in_app_iff in Ha. destruct Ha as [Ha|[<-|[]]].
    - specialize (Hnew_gt a Ha).
      assert (Hng : ~ In a (m :: gr)) by (intros [Q|Hz]; [subst; lia|specialize (Hgr_lt a Hz); lia]).
      split; [apply (I_black _ _ HI a b (HCvis a HaC) Hng He)|].
      destruct (in_dec N.eq_dec b (t_stack st2)) as [Hb|Hb]; [|right; exact Hb].
      left. pose proof Hb as Hb2. apply HinS2 in Hb. destruct Hb as [Hb|Hb]; [exact Hb|].
      pose proof (L_xedge _ _ _ _ _ L a b (proj2 (HinS2 a) (or_introl HaC)) Hnew_gt He Hb2). specialize (DmS b Hb). lia.
    - destruct (L_proc _ _ _ _ _ L b He) as [[]|[->|[Hv Hs]]].
      + split; [apply HCvis; exact HmC|left; exact HmC].
      + split; [exact Hv|]. destruct (in_dec N.eq_dec b (t_stack st2)) as [Hb|Hb]; [|right; exact Hb].
        left. specialize (Hs Hb). apply HinS2 in Hb. destruct Hb as [Hb|Hb]; [exact Hb|]. specialize (DmS b Hb). lia. }
  (* the popped modules are mutually reachable *)
  assert (F2 : forall a, In a C -> mutual g m a).
  { intros a Ha. assert (Ha2 : In a (t_stack st2)) by (apply HinS2; left; exact Ha). split.
    - apply (I_g2s _ _ HI m a); [left; reflexivity|exact Ha2|apply Hge; exact Ha].
    - destruct (I_s2g _ _ HI a Ha2) as [z [[<-|Hz] [Hle' Hp]]]; [exact Hp|].
      eapply path_trans; [exact Hp|]. apply (I_g2s _ _ HI z m); [right; exact Hz|exact Hms2|].
      specialize (Hgr_lt z Hz). lia. }
  assert (D' : forall x y, visited st2 x -> ~ In x (t_stack st) -> edge g x y -> visited st2 y /\ ~ In y (t_stack st)).
  { intros x y Hx Hns He. destruct (in_dec N.eq_dec x (t_stack st2)) as [Hx2|Hx2].
    - apply HinS2 in Hx2. destruct Hx2 as [HxC|Hi]; [|contradiction].
      destruct (F1 x y HxC He) as [Hy [HyC|Hy2]]; (split; [exact Hy|]).
      + apply HCS; exact HyC.
      + intro Hi. apply Hy2. apply HinS2. right; exact Hi.
    - destruct (I_done _ _ HI x y Hx Hx2 He) as [Hy Hy2]. split; [exact Hy|].
      intro Hi. apply Hy2. apply HinS2. right; exact Hi. }
  (* and no other module is mutually reachable with them *)
  assert (Max : forall y, mutual g m y -> In y C).
  { intros y [Hmy Hym].
    assert (Py : visited st2 y /\ ~ In y (t_stack st)).
    { apply (path_closed (fun x => visited st2 x /\ ~ In x (t_stack st))) with (a := m); [|exact Hmy|].
      - intros x x' [Hx Hxs] He. apply (D' x x' Hx Hxs He).
      - split; [apply HCvis; exact HmC|apply HCS; exact HmC]. }
    destruct Py as [Hy Hys]. destruct (in_dec N.eq_dec y (t_stack st2)) as [Hy2|Hy2].
    - apply HinS2 in Hy2. destruct Hy2 as [HyC|Hi]; [exact HyC|contradiction].
    - exfalso.
      assert (Pm : visited st2 m /\ ~ In m (t_stack st2)).
      { apply (path_closed (fun x => visited st2 x /\ ~ In x (t_stack st2))) with (a := y); [|exact Hym|].
        - intros x x' [Hx Hxs] He. apply (I_done _ _ HI x x' Hx Hxs He).
        - split; assumption. }
      destruct Pm as [_ Q]. apply Q. exact Hms2. }
  assert (Hmnew : ~ In m new) by (intro Hi; specialize (Hnew_gt m Hi); lia).
  unfold finish. rewrite (proj2 (Z.eqb_eq _ _) Heq). rewrite Hs2, (pop_until_app new m (t_stack st) (t_inStack st2) [] Hmnew).
  cbn [app]. rewrite keep_component_spec. fold C.
  set (inS' := fold_left (fun acc y => mset acc y false) C (t_inStack st2)).
  set (comps' := if (2 <=? length C)%nat then t_components st2 ++ [sort_names C] else t_components st2).
  eexists. split; [reflexivity|].
  set (st' := Build_tstate (t_index st2) (t_stack st) inS' (t_indices st2) (t_lowLinks st2) comps').
  assert (Hinst' : forall x, in_stack st' x = if memb x C then false else in_stack st2 x).
  { intros x. unfold in_stack, st'. cbn [t_inStack]. unfold inS'. rewrite mget_fold_false. destruct (memb x C); reflexivity. }
  assert (HsC : forall x, In x (sort_names C) <-> In x C).
  { intros x. split; apply Permutation_in; [|symmetry]; apply sort_names_perm. }
  assert (HI' : Inv gr st').
  { constructor.
    - exact (I_verts _ _ HI).
    - exact (I_bound _ _ HI).
    - intros x Hx. change (In x (t_stack st)) in Hx. change (visited st2 x). apply (I_svis _ _ HI). apply HinS2; right; exact Hx.
    - intros x. rewrite Hinst'. change (t_stack st') with (t_stack st). destruct (memb x C) eqn:Mx.
      + apply memb_In in Mx. split; [discriminate|intros Hi; exfalso; exact (HCS x Mx Hi)].
      + apply memb_false in Mx. rewrite (I_inst _ _ HI). rewrite HinS2. tauto.
    - exact DS.
    - pose proof (I_gdesc _ _ HI) as D. cbn [desc] in D. exact (proj2 D).
    - intros x Hx. change (In x (t_stack st)).
      assert (Hx2 : In x (t_stack st2)) by (apply (I_gstack _ _ HI); right; exact Hx).
      apply HinS2 in Hx2. destruct Hx2 as [HxC|Hi]; [|exact Hi].
      specialize (Hge x HxC). specialize (Hgr_lt x Hx). lia.
    - intros x y Hx Hng He. change (visited st2 x) in Hx. change (visited st2 y).
      destruct (N.eq_dec x m) as [->|Hxm]; [apply (F1 m y HmC He)|].
      apply (I_black _ _ HI x y Hx); [intros [Q|Hi]; [congruence|contradiction]|exact He].
    - intros y Hy. change (In y (t_stack st)) in Hy.
      destruct (I_s2g _ _ HI y (proj2 (HinS2 y) (or_intror Hy))) as [z [[<-|Hz] [Hle' Hp]]].
      + specialize (DmS y Hy). lia.
      + exists z. split; [exact Hz|]. split; [exact Hle'|exact Hp].
    - intros x y Hx Hy Hle'. change (In y (t_stack st)) in Hy.
      apply (I_g2s _ _ HI x y); [right; exact Hx|apply HinS2; right; exact Hy|exact Hle'].
    - exact D'.
    - intros c x Hc Hxc. change (In c comps') in Hc. change (t_stack st') with (t_stack st). change (visited st' x) with (visited st2 x).
      assert (Old : In c (t_components st2) -> visited st2 x /\ ~ In x (t_stack st) /\ (forall y, In y c <-> mutual g x y)).
      { intros Hc'. destruct (I_comps _ _ HI c x Hc' Hxc) as [Hx [Hxs Hcl]]. split; [exact Hx|]. split; [|exact Hcl].
        intro Hi. apply Hxs. apply HinS2. right; exact Hi. }
      unfold comps' in Hc. destruct (2 <=? length C)%nat; [|exact (Old Hc)].
      apply in_app_iff in Hc. destruct Hc as [Hc|[<-|[]]]; [exact (Old Hc)|].
      apply HsC in Hxc. split; [apply HCvis; exact Hxc|]. split; [apply HCS; exact Hxc|].
      intros y. rewrite HsC. split.
      + intros Hy. eapply mutual_trans; [apply mutual_sym; apply F2; exact Hxc|apply F2; exact Hy].
      + intros Hmu. apply Max. eapply mutual_trans; [apply F2; exact Hxc|exact Hmu].
    - intros x y Hx Hns Hne Hmu. change (visited st2 x) in Hx. change (~ In x (t_stack st)) in Hns.
      change (t_components st') with comps'.
      destruct (in_dec N.eq_dec x (t_stack st2)) as [Hx2|Hx2].
      + apply HinS2 in Hx2. destruct Hx2 as [HxC|Hi]; [|contradiction].
        assert (HyC : In y C) by (apply Max; eapply mutual_trans; [apply F2; exact HxC|exact Hmu]).
        pose proof (two_distinct_length C y x HyC HxC Hne) as Hlen. apply Nat.leb_le in Hlen.
        exists (sort_names C). unfold comps'. rewrite Hlen. split; [apply in_app_iff; right; left; reflexivity|apply HsC; exact HxC].
      + destruct (I_dcomp _ _ HI x y Hx Hx2 Hne Hmu) as [c [Hc Hxc]]. exists c. split; [|exact Hxc].
        unfold comps'. destruct (2 <=? length C)%nat; [apply in_app_iff; left|]; exact Hc. }
  constructor.
  - exact HI'.
  - constructor; [exact Fv|exact Fi|exact Fn|exact Ft|]. exists []. split; [reflexivity|intros x []].
  - intros x Hx. change (low st' x) with (low st2 x). assert (Hxm : x <> m) by (intro Q; subst; contradiction).
    rewrite (LP x) by (try apply visited_enter; auto). rewrite low_enter.
    destruct (N.eqb_spec m x) as [Q|Q]; [congruence|reflexivity].
  - change (visited st2 m). apply HCvis; exact HmC.
  - change (low st2 m <= idx st2 m). lia.
  - intros Hi. change (In m (t_stack st)) in Hi. exfalso. exact (HCS m HmC Hi).
  - intros _. exact Heq.
  - intros a b Ha Hna. exfalso. exact (Hna Ha).
Qed.

(* ---------- strongConnect: fuel = number of unvisited modules suffices ---------- *)
Lemma strongConnect_spec : forall fuel, sc_spec (strongConnect fuel mg) fuel.
Proof.
  induction fuel as [|fuel IH]; intros m st gr HI Hm Hmv Hp Hb.
  - exfalso.
    assert (Hin : In m (unv st)).
    { unfold unv. apply filter_In. split; [exact Hmv|]. apply negb_true_iff.
      destruct (visitedb st m) eqn:V; [apply visitedb_spec in V; contradiction|reflexivity]. }
    destruct (unv st); [destruct Hin|cbn [length] in Hb; lia].
  - cbn [strongConnect]. fold (deps_of m).
    assert (L0 : LoopInv m gr (deps_of m) (enter st m)).
    { unfold LoopInv. rewrite low_enter, N.eqb_refl.
      pose proof (Inv_enter gr st m HI Hm Hmv Hp) as HI1.
      assert (Ei : idx (enter st m) m = t_index st) by (rewrite idx_enter, N.eqb_refl; reflexivity).
      constructor.
      - exact HI1.
      - lia.
      - exists m. split; [rewrite stack_enter; left; reflexivity|]. split; [exact Ei|apply path_refl].
      - intros a b Ha Hlt. exfalso. rewrite stack_enter in Ha. destruct Ha as [<-|Ha]; [lia|].
        pose proof (I_sdesc _ _ HI1) as D. rewrite stack_enter in D. cbn [desc] in D. destruct D as [D _].
        specialize (D a Ha). lia.
      - intros d Hd. apply W_deps_edge. exact Hd.
      - intros d He. destruct (N.eq_dec m d) as [Q|Q]; [right; left; symmetry; exact Q|left; apply W_edge_deps; assumption]. }
    destruct (succ_loop_spec (strongConnect fuel mg) fuel m gr IH (deps_of m) (enter st m) L0) as [st2 [R [L2 [E2 P2]]]].
    { pose proof (unv_enter st m Hmv Hm). lia. }
    rewrite R. destruct (Z.eq_dec (low st2 m) (idx st2 m)) as [Q|Q].
    + apply (finish_pop gr m st st2 L2 E2 P2 Hm Q).
    + exists st2. split; [|apply (finish_nopop gr m st st2 L2 E2 P2 Hm Q)].
      unfold finish. rewrite (proj2 (Z.eqb_neq _ _) Q). reflexivity.
Qed.

(* ---------- findStronglyConnectedComponents ---------- *)
Lemma Inv_reset : Inv [] resetState.
Proof.
  assert (V : forall x, ~ visited resetState x) by (intros x H; apply H; reflexivity).
  constructor; try (intros x H; exfalso; exact (V x H)); try (intros x y H; exfalso; exact (V x H)).
  - intros x []. 
  - intros x. split; [discriminate|intros []].
  - exact I.
  - exact I.
  - intros x [].
  - intros y [].
  - intros x y [].
  - intros c x [].
Qed.

Lemma unv_le : forall st, (length (unv st) <= length (verts g))%nat.
Proof. intros st. unfold unv. apply filter_length_le. Qed.

Lemma find_sccs_loop_spec : forall fuel, (length (verts g) <= fuel)%nat ->
  forall roots st, (forall n, In n roots -> In (n_name n) (verts g)) -> Inv [] st ->
  exists st', find_sccs_loop fuel mg roots st = Ok st' /\ Inv [] st' /\ ext st st' /\
              forall n, In n roots -> visited st' (n_name n).
Proof.
  intros fuel Hf. induction roots as [|n rest IH]; intros st Hr HI.
  - exists st. split; [reflexivity|]. split; [exact HI|]. split; [apply ext_refl|intros n []].
  - cbn [find_sccs_loop]. destruct (mget (t_indices st) (n_name n)) as [i|] eqn:En.
    + destruct (IH st (fun k Hk => Hr k (or_intror Hk)) HI) as [st' [R [HI' [E Hv]]]].
      exists st'. split; [exact R|]. split; [exact HI'|]. split; [exact E|].
      intros k [<-|Hk]; [|apply Hv; exact Hk]. apply (E_vis _ _ E). unfold visited. rewrite En. discriminate.
    + assert (Hnv : ~ visited st (n_name n)) by (unfold visited; rewrite En; intro C; apply C; reflexivity).
      destruct (strongConnect_spec fuel (n_name n) st [] HI Hnv (Hr n (or_introl eq_refl))) as [st1 [R1 HP]].
      { intros z []. }
      { pose proof (unv_le st). lia. }
      rewrite R1. destruct (IH st1 (fun k Hk => Hr k (or_intror Hk)) (P_inv _ _ _ _ HP)) as [st' [R [HI' [E Hv]]]].
      exists st'. split; [exact R|]. split; [exact HI'|]. split; [eapply ext_trans; [apply (P_ext _ _ _ _ HP)|exact E]|].
      intros k [<-|Hk]; [|apply Hv; exact Hk]. apply (E_vis _ _ E). apply (P_vis _ _ _ _ HP).
Qed.

(* ---------- the reported components against the specification ---------- *)
Hypothesis W_nodup : NoDup (verts g).
Hypothesis W_names : forall n, In n mg -> In (n_name n) (verts g).
Hypothesis W_all : forall v, In v (verts g) -> exists n, In n mg /\ n_name n = v.
Hypothesis W_len : (length (verts g) <= length mg)%nat.

Lemma NoDup_app_disj : forall (a b : list N) x, NoDup (a ++ b) -> In x a -> In x b -> False.
Proof.
  induction a as [|y a IH]; intros b x H Ha Hb; [destruct Ha|]. cbn [app] in H. inversion H as [|? ? Hy Hn]; subst.
  destruct Ha as [<-|Ha]; [apply Hy; apply in_app_iff; right; exact Hb|exact (IH b x Hn Ha Hb)].
Qed.

Lemma nodup_map_norm : forall l : list (list N), NoDup (concat l) ->
  (forall c, In c l -> (exists x, In x c) /\ forall x, In x c -> In x (verts g)) -> NoDup (map (norm g) l).
Proof.
  induction l as [|c l IH]; intros Hn Hc; cbn [map]; [constructor|]. cbn [concat] in Hn. constructor.
  - intro Hin. apply in_map_iff in Hin. destruct Hin as [c2 [E2 Hc2]].
    destruct (Hc c (or_introl eq_refl)) as [[x Hx] Hv].
    assert (Hx2 : In x (norm g c2)) by (rewrite E2; apply norm_In; split; [apply Hv; exact Hx|exact Hx]).
    apply norm_In in Hx2. destruct Hx2 as [_ Hx2].
    apply (NoDup_app_disj c (concat l) x Hn Hx). apply in_concat. exists c2. split; assumption.
  - apply IH; [apply NoDup_app_remove_l in Hn; exact Hn|intros c' Hc'; apply Hc; right; exact Hc'].
Qed.

Theorem tarjan_exact_wf : exists out, tarjan mg = Some out /\
  Permutation (map (norm g) out) (scc_spec g) /\
  Forall (fun c => NoDup c /\ forall x, In x c -> In x (verts g)) out.
Proof.
  destruct (find_sccs_loop_spec (tarjan_fuel mg)) with (roots := mg) (st := resetState) as [st' [R [HI [_ Hall]]]].
  { unfold tarjan_fuel. lia. }
  { exact W_names. }
  { exact Inv_reset. }
  assert (T : tarjan mg = Some (t_components st')) by (unfold tarjan, findStronglyConnectedComponents; rewrite R; reflexivity).
  exists (t_components st'). split; [exact T|].
  destruct (tarjan_components_partial mg _ T) as [Hbig Hnd]. destruct (tarjan_components_disjoint mg _ T) as [Hcnd _].
  assert (Hstack : t_stack st' = []).
  { destruct (t_stack st') as [|y s] eqn:Es; [reflexivity|]. destruct (I_s2g _ _ HI y) as [z [[] _]]. rewrite Es. left; reflexivity. }
  assert (Hvis : forall v, In v (verts g) -> visited st' v).
  { intros v Hv. destruct (W_all v Hv) as [n [Hn <-]]. apply Hall. exact Hn. }
  assert (Hcls : forall c x, In c (t_components st') -> In x c -> In x (verts g) /\ forall y, In y c <-> mutual g x y).
  { intros c x Hc Hx. destruct (I_comps _ _ HI c x Hc Hx) as [Hv [_ Hcl]]. split; [apply (I_verts _ _ HI); exact Hv|exact Hcl]. }
  assert (Hsub : forall c, In c (t_components st') -> forall x, In x c -> In x (verts g)).
  { intros c Hc x Hx. apply (Hcls c x Hc Hx). }
  rewrite Forall_forall in Hbig.
  split; [|apply Forall_forall; intros c Hc; split; [apply Hcnd; exact Hc|apply Hsub; exact Hc]].
  apply NoDup_Permutation.
  - apply nodup_map_norm; [exact Hnd|]. intros c Hc. split; [|apply Hsub; exact Hc].
    specialize (Hbig c Hc). destruct c as [|x r]; [cbn [length] in Hbig; lia|exists x; left; reflexivity].
  - apply scc_spec_nodup. exact W_nodup.
  - intros c'. split.
    + intros Hin. apply in_map_iff in Hin. destruct Hin as [c [<- Hc]]. apply scc_spec_char. split.
      * rewrite norm_length; [apply Hbig; exact Hc|exact W_nodup|apply Hcnd; exact Hc|apply Hsub; exact Hc].
      * split; [apply (filter_canonical g)|]. split.
        -- intros x y Hx Hy. apply norm_In in Hx. apply norm_In in Hy. apply (Hcls c x Hc (proj2 Hx)). exact (proj2 Hy).
        -- intros x w Hx Hw Hmu. apply norm_In in Hx. apply norm_In. split; [exact Hw|].
           apply (Hcls c x Hc (proj2 Hx)). exact Hmu.
    + intros Hin. apply scc_spec_char in Hin. destruct Hin as [Hl [Hn [Hmut Hmax]]].
      assert (Hnd' : NoDup c') by (rewrite Hn; unfold norm; apply NoDup_filter'; exact W_nodup).
      assert (Hex : exists x, In x c') by (destruct c' as [|x r]; [cbn [length] in Hl; lia|exists x; left; reflexivity]).
      destruct Hex as [x Hx]. destruct (nodup_two c' x Hnd' Hl Hx) as [y [Hy Hxy]].
      assert (Hxv : In x (verts g)) by (rewrite Hn in Hx; apply norm_In in Hx; apply Hx).
      assert (Hxs : ~ In x (t_stack st')) by (rewrite Hstack; intros []).
      destruct (I_dcomp _ _ HI x y (Hvis x Hxv) Hxs (fun Q => Hxy (eq_sym Q)) (Hmut x y Hx Hy)) as [c [Hc Hxc]].
      apply in_map_iff. exists c. split; [|exact Hc].
      transitivity (norm g c'); [|symmetry; exact Hn].
      unfold norm. apply filter_ext_in. intros v Hv. apply bool_eq_iff. rewrite !memb_In.
      destruct (Hcls c x Hc Hxc) as [_ Hcl]. rewrite Hcl. split.
      * intros Hmu. apply (Hmax x v Hx Hv Hmu).
      * intros Hvc. apply Hmut; assumption.
Qed.
End Correct.
