(* Proofs about Deps/SccSpec.v: the closure decides reachability, [scc_spec] lists exactly
   the mutual-reachability classes with >= 2 members, classes are disjoint, and the
   certificate checker is sound. All statements are for every digraph (no size bound). *)
From Coq Require Import List NArith Bool Arith Lia Permutation.
From PV Require Import Deps.SccSpec.
Import ListNotations.

(* ---------- booleans ---------- *)
Lemma memb_In : forall x l, memb x l = true <-> In x l.
Proof.
  intros x l. unfold memb. rewrite existsb_exists. split.
  - intros [y [Hy He]]. apply N.eqb_eq in He. subst. exact Hy.
  - intros H. exists x. split; [exact H | apply N.eqb_refl].
Qed.

Lemma memb_false : forall x l, memb x l = false <-> ~ In x l.
Proof.
  intros x l. rewrite <- memb_In. destruct (memb x l); intuition congruence.
Qed.

Lemma bool_eq_iff : forall a b : bool, (a = true <-> b = true) -> a = b.
Proof. intros [|] [|] H; try reflexivity; [symmetry|]; apply H; reflexivity. Qed.

Lemma memb_filter : forall p l b, In b l -> memb b (filter p l) = p b.
Proof.
  intros p l b Hb. apply bool_eq_iff. rewrite memb_In, filter_In. tauto.
Qed.

(* ---------- filters of one list with comparable predicates ---------- *)
Lemma filter_mono_len : forall (p q : N -> bool) l,
  (forall x, In x l -> p x = true -> q x = true) ->
  length (filter p l) <= length (filter q l).
Proof.
  induction l as [|a l IH]; intros H; simpl; [lia|].
  assert (IH' : length (filter p l) <= length (filter q l)) by (apply IH; intros; apply H; simpl; auto).
  destruct (p a) eqn:Hp.
  - rewrite (H a (or_introl eq_refl) Hp). simpl. lia.
  - destruct (q a); simpl; lia.
Qed.

Lemma filter_mono_eq : forall (p q : N -> bool) l,
  (forall x, In x l -> p x = true -> q x = true) ->
  length (filter p l) = length (filter q l) -> filter p l = filter q l.
Proof.
  induction l as [|a l IH]; intros H Hl; simpl in *; [reflexivity|].
  assert (Hm : length (filter p l) <= length (filter q l))
    by (apply filter_mono_len; intros; apply H; auto).
  assert (H' : forall x, In x l -> p x = true -> q x = true) by (intros; apply H; auto).
  destruct (p a) eqn:Hp.
  - rewrite (H a (or_introl eq_refl) Hp) in *. simpl in Hl. f_equal. apply IH; [exact H'|lia].
  - destruct (q a); simpl in Hl.
    + lia.
    + apply IH; [exact H'|lia].
Qed.

Lemma filter_length_le : forall (p : N -> bool) l, length (filter p l) <= length l.
Proof. induction l; simpl; [lia|]. destruct (p a); simpl; lia. Qed.

Lemma nodup_app_disjoint : forall (a b : list N), NoDup a -> NoDup b -> (forall x, In x a -> ~ In x b) -> NoDup (a ++ b).
Proof.
  induction a as [|x a IH]; intros b Ha Hb Hd; simpl; [exact Hb|]. inversion Ha; subst. constructor.
  - rewrite in_app_iff. intros [Hi|Hi]; [contradiction|]. apply (Hd x); [left; reflexivity|exact Hi].
  - apply IH; [assumption|assumption|]. intros y Hy. apply Hd. right; exact Hy.
Qed.

Lemma nodup_concat_disjoint : forall (l : list (list N)), NoDup l -> (forall c, In c l -> NoDup c) ->
  (forall c1 c2 x, In c1 l -> In c2 l -> In x c1 -> In x c2 -> c1 = c2) -> NoDup (concat l).
Proof.
  induction l as [|c l IH]; intros Hd Hc Hj; simpl; [constructor|]. inversion Hd; subst.
  apply nodup_app_disjoint.
  - apply Hc. left; reflexivity.
  - apply IH; [assumption| |].
    + intros; apply Hc; right; assumption.
    + intros c1 c2 x Hi1 Hi2. apply Hj; right; assumption.
  - intros x Hxc Hxl. apply in_concat in Hxl. destruct Hxl as [c' [Hc' Hxc']].
    assert (c = c') by (apply (Hj c c' x); [left; reflexivity|right; exact Hc'|exact Hxc|exact Hxc']).
    subst. contradiction.
Qed.

(* ---------- paths ---------- *)
Lemma path_trans : forall g a b c, path g a b -> path g b c -> path g a c.
Proof.
  intros g a b c Hab Hbc. induction Hbc.
  - exact Hab.
  - eapply path_step; [apply IHHbc; exact Hab | exact H].
Qed.

Lemma path_in_verts : forall g a b, path g a b -> In a (verts g) -> In b (verts g).
Proof. intros g a b H. induction H; intros; [assumption|]. destruct H0 as [_ [_ Hc]]. exact Hc. Qed.

Lemma mutual_refl : forall g a, mutual g a a.
Proof. intros; split; apply path_refl. Qed.
Lemma mutual_sym : forall g a b, mutual g a b -> mutual g b a.
Proof. intros g a b [H1 H2]; split; assumption. Qed.
Lemma mutual_trans : forall g a b c, mutual g a b -> mutual g b c -> mutual g a c.
Proof. intros g a b c [H1 H2] [H3 H4]; split; eapply path_trans; eassumption. Qed.

(* ---------- the closure ---------- *)
Section Closure.
Variable g : digraph.

Definition canonical (X : list N) : Prop := X = filter (fun b => memb b X) (verts g).
Definition closed (X : list N) : Prop := forall a b, In a X -> edge g a b -> In b X.

Lemma filter_canonical : forall p, canonical (filter p (verts g)).
Proof.
  intros p. unfold canonical. apply filter_ext_in. intros b Hb. symmetry. apply memb_filter. exact Hb.
Qed.

Lemma canonical_in_verts : forall X x, canonical X -> In x X -> In x (verts g).
Proof. intros X x Hc Hx. rewrite Hc in Hx. apply filter_In in Hx. tauto. Qed.

Lemma expand_canonical : forall X, canonical (expand g X).
Proof. intros; apply filter_canonical. Qed.

Lemma succs_In : forall a b, In b (succs g a) <-> In (a, b) (edges g).
Proof.
  intros a b. unfold succs. rewrite in_map_iff. split.
  - intros [[x y] [Hy Hf]]. simpl in Hy. subst y. apply filter_In in Hf. destruct Hf as [Hf He].
    simpl in He. apply N.eqb_eq in He. subst. exact Hf.
  - intros H. exists (a, b). split; [reflexivity|]. apply filter_In. split; [exact H|]. simpl. apply N.eqb_refl.
Qed.

Lemma expand_In : forall X b, In b (expand g X) <->
  In b (verts g) /\ (In b X \/ exists a, In a X /\ In (a, b) (edges g)).
Proof.
  intros X b. unfold expand. rewrite filter_In, orb_true_iff, !memb_In, in_flat_map.
  split; intros [Hv H]; (split; [exact Hv|]); destruct H as [H|[a [Ha Hb]]]; auto; right; exists a;
    (split; [exact Ha|]); apply succs_In; exact Hb.
Qed.

Lemma expand_len : forall X, canonical X -> length X <= length (expand g X).
Proof.
  intros X Hc. unfold canonical in Hc.
  assert (H : length (filter (fun b => memb b X) (verts g)) <= length (expand g X)).
  { unfold expand. apply filter_mono_len. intros x _ Hx. rewrite Hx. reflexivity. }
  rewrite <- Hc in H. exact H.
Qed.

Lemma expand_fix : forall X, canonical X -> length (expand g X) = length X -> expand g X = X.
Proof.
  intros X Hc Hl. unfold canonical in Hc.
  assert (H : filter (fun b => memb b X) (verts g) = expand g X).
  { unfold expand. apply filter_mono_eq.
    - intros x _ Hx. rewrite Hx. reflexivity.
    - fold (expand g X). rewrite <- Hc. symmetry. exact Hl. }
  rewrite <- Hc in H. symmetry. exact H.
Qed.

Lemma fix_closed : forall X, expand g X = X -> closed X.
Proof.
  intros X Hf a b Ha [He [_ Hb]]. rewrite <- Hf. apply expand_In. split; [exact Hb|].
  right. exists a. split; assumption.
Qed.

Lemma closure_closed : forall n X, canonical X -> length (verts g) <= n + length X -> closed (closure g n X).
Proof.
  induction n as [|n IH]; intros X Hc Hn.
  - simpl. apply fix_closed. apply expand_fix; [exact Hc|].
    pose proof (expand_len X Hc). pose proof (filter_length_le (fun b => memb b X || memb b (flat_map (succs g) X)) (verts g)).
    unfold expand in *. simpl in Hn. lia.
  - simpl. destruct (Nat.eqb (length (expand g X)) (length X)) eqn:E.
    + apply Nat.eqb_eq in E. apply fix_closed. apply expand_fix; assumption.
    + apply Nat.eqb_neq in E. apply IH; [apply expand_canonical|].
      pose proof (expand_len X Hc). lia.
Qed.

Lemma closure_incl : forall n X x, canonical X -> In x X -> In x (closure g n X).
Proof.
  induction n as [|n IH]; intros X x Hc Hx; simpl; [exact Hx|].
  destruct (Nat.eqb (length (expand g X)) (length X)); [exact Hx|].
  apply IH; [apply expand_canonical|]. apply expand_In. split; [eapply canonical_in_verts; eassumption|auto].
Qed.

Lemma closure_sound : forall v n X, (forall x, In x X -> In x (verts g) /\ path g v x) ->
  forall x, In x (closure g n X) -> In x (verts g) /\ path g v x.
Proof.
  intros v. induction n as [|n IH]; intros X HX x Hx; simpl in Hx; [auto|].
  destruct (Nat.eqb (length (expand g X)) (length X)); [auto|].
  apply (IH (expand g X)); [|exact Hx].
  intros y Hy. apply expand_In in Hy. destruct Hy as [Hv [Hy|[a [Ha He]]]].
  - apply HX; exact Hy.
  - split; [exact Hv|]. destruct (HX a Ha) as [Hav Hp]. eapply path_step; [exact Hp|]. repeat split; assumption.
Qed.

Lemma reach_set_verts : forall v w, In w (reach_set g v) -> In w (verts g).
Proof.
  intros v w H. unfold reach_set in H. eapply (closure_sound v) in H; [tauto|].
  intros x Hx. apply filter_In in Hx. destruct Hx as [Hx He]. apply N.eqb_eq in He. subst. split; [exact Hx|apply path_refl].
Qed.

(* the closure decides reachability *)
Theorem reach_set_spec : forall v w, In v (verts g) -> (In w (reach_set g v) <-> path g v w).
Proof.
  intros v w Hv. split.
  - intros H. unfold reach_set in H. eapply (closure_sound v) in H; [tauto|].
    intros x Hx. apply filter_In in Hx. destruct Hx as [Hx He]. apply N.eqb_eq in He. subst. split; [exact Hx|apply path_refl].
  - intros H. induction H.
    + unfold reach_set. apply closure_incl; [apply filter_canonical|]. apply filter_In. split; [exact Hv|apply N.eqb_refl].
    + assert (Hc : closed (reach_set g a)).
      { unfold reach_set. apply closure_closed; [apply filter_canonical|lia]. }
      eapply Hc; [apply IHpath; exact Hv | exact H0].
Qed.

Lemma lookup_reach_table : forall v, In v (verts g) -> lookup_set (reach_table g) v = reach_set g v.
Proof.
  intros v. unfold reach_table, lookup_set. induction (verts g) as [|a l IH]; intros H; [destruct H|].
  simpl. destruct (N.eqb a v) eqn:E.
  - apply N.eqb_eq in E. subst. reflexivity.
  - destruct H as [H|H]; [subst; rewrite N.eqb_refl in E; discriminate|]. apply IH; exact H.
Qed.

Lemma mutualb_spec : forall v w, In v (verts g) -> In w (verts g) ->
  (mutualb_tbl (reach_table g) v w = true <-> mutual g v w).
Proof.
  intros v w Hv Hw. unfold mutualb_tbl, mutual.
  rewrite andb_true_iff, !memb_In, !lookup_reach_table by assumption.
  rewrite !reach_set_spec by assumption. tauto.
Qed.

Lemma scc_of_In : forall v w, In v (verts g) -> (In w (scc_of g v) <-> In w (verts g) /\ mutual g v w).
Proof.
  intros v w Hv. unfold scc_of, scc_of_tbl. rewrite filter_In. split; intros [Hw H]; (split; [exact Hw|]);
    apply mutualb_spec; assumption.
Qed.

Lemma scc_of_norm : forall v, norm g (scc_of g v) = scc_of g v.
Proof. intros v. unfold norm. symmetry. apply (filter_canonical (mutualb_tbl (reach_table g) v)). Qed.

Lemma scc_of_eq : forall v w, In v (verts g) -> In w (verts g) -> mutual g v w -> scc_of g v = scc_of g w.
Proof.
  intros v w Hv Hw Hm. unfold scc_of, scc_of_tbl. apply filter_ext_in. intros x Hx.
  apply bool_eq_iff. rewrite !mutualb_spec by assumption. split; intros H.
  - eapply mutual_trans; [apply mutual_sym; exact Hm|exact H].
  - eapply mutual_trans; eassumption.
Qed.

Lemma first_is_spec : forall v c, first_is v c = true <-> exists r, c = v :: r.
Proof.
  intros v [|x r]; simpl; split.
  - discriminate.
  - intros [r' H]; discriminate.
  - intros H; apply N.eqb_eq in H; subst; eauto.
  - intros [r' H]; inversion H; apply N.eqb_refl.
Qed.

(* raw membership in the spec *)
Lemma scc_spec_In_raw : forall c, In c (scc_spec g) <->
  exists v, In v (verts g) /\ c = scc_of g v /\ first_is v c = true /\ 2 <= length c.
Proof.
  intros c. unfold scc_spec. rewrite filter_In, in_flat_map. fold (scc_of g). split.
  - intros [[v [Hv Hc]] Hl]. fold (scc_of g v) in Hc. apply Nat.leb_le in Hl.
    destruct (first_is v (scc_of g v)) eqn:F; [|destruct Hc].
    destruct Hc as [Hc|[]]. subst c. exists v. auto.
  - intros [v [Hv [Hc [F Hl]]]]. split; [|apply Nat.leb_le; exact Hl].
    exists v. split; [exact Hv|]. fold (scc_of g v). rewrite <- Hc, F. left; reflexivity.
Qed.

(* [c] is a maximal set of mutually reachable modules, listed in the order of [verts g] *)
Definition is_class (c : list N) : Prop :=
  c = norm g c /\
  (forall x y, In x c -> In y c -> mutual g x y) /\
  (forall x w, In x c -> In w (verts g) -> mutual g x w -> In w c).

Lemma norm_In : forall c x, In x (norm g c) <-> In x (verts g) /\ In x c.
Proof. intros. unfold norm. rewrite filter_In, memb_In. tauto. Qed.

(* membership characterisation: the reported classes are exactly the maximal sets of
   mutually reachable modules with two or more members *)
Theorem scc_spec_char : forall c, In c (scc_spec g) <-> (2 <= length c /\ is_class c).
Proof.
  intros c. rewrite scc_spec_In_raw. split.
  - intros [v [Hv [Hc [F Hl]]]]. split; [exact Hl|]. subst c. split; [symmetry; apply scc_of_norm|]. split.
    + intros x y Hx Hy. apply scc_of_In in Hx; [|exact Hv]. apply scc_of_In in Hy; [|exact Hv].
      eapply mutual_trans; [apply mutual_sym; apply Hx|apply Hy].
    + intros x w Hx Hw Hm. apply scc_of_In in Hx; [|exact Hv]. apply scc_of_In; [exact Hv|].
      split; [exact Hw|]. eapply mutual_trans; [apply Hx|exact Hm].
  - intros [Hl [Hn [Hmut Hmax]]]. destruct c as [|v r]; [simpl in Hl; lia|].
    assert (Hvc : In v (v :: r)) by (left; reflexivity).
    assert (Hv : In v (verts g)) by (rewrite Hn in Hvc; apply norm_In in Hvc; tauto).
    exists v. split; [exact Hv|]. split; [|split; [simpl; apply N.eqb_refl|exact Hl]].
    rewrite Hn at 1. unfold norm, scc_of, scc_of_tbl. apply filter_ext_in. intros x Hx.
    apply bool_eq_iff. rewrite memb_In, mutualb_spec by assumption. split.
    + intros H. apply Hmut; assumption.
    + intros H. eapply Hmax; eassumption.
Qed.

(* two different modules are listed in the same cycle iff each can reach the other *)
Theorem scc_spec_same_cycle : forall a b, In a (verts g) -> In b (verts g) -> a <> b ->
  ((exists c, In c (scc_spec g) /\ In a c /\ In b c) <-> mutual g a b).
Proof.
  intros a b Ha Hb Hab. split.
  - intros [c [Hc [Hac Hbc]]]. apply scc_spec_char in Hc. destruct Hc as [_ [_ [Hm _]]]. apply Hm; assumption.
  - intros Hm. set (c := scc_of g a).
    assert (Hac : In a c) by (apply scc_of_In; [exact Ha|split; [exact Ha|apply mutual_refl]]).
    assert (Hbc : In b c) by (apply scc_of_In; [exact Ha|split; assumption]).
    exists c. split; [|split; assumption].
    apply scc_spec_In_raw. destruct c as [|v r] eqn:Ec; [destruct Hac|].
    assert (Hvc : In v (scc_of g a)) by (unfold c in Ec; rewrite Ec; left; reflexivity).
    apply scc_of_In in Hvc; [|exact Ha]. destruct Hvc as [Hv Hav].
    exists v. split; [exact Hv|]. split; [|split].
    + unfold c in Ec. rewrite <- Ec. apply scc_of_eq; assumption.
    + simpl. apply N.eqb_refl.
    + destruct r as [|x r]; [|simpl; lia]. simpl in Hac, Hbc. destruct Hac as [Hac|[]]. destruct Hbc as [Hbc|[]]. congruence.
Qed.

Lemma nodup_two : forall (c : list N) a, NoDup c -> 2 <= length c -> In a c -> exists b, In b c /\ a <> b.
Proof.
  intros c a Hn Hl Ha. destruct c as [|x [|y r]]; simpl in Hl; try lia.
  inversion Hn as [|? ? Hx _]; subst.
  destruct (N.eq_dec a x) as [E|E].
  - subst. exists y. split; [simpl; auto|]. intro; subst. apply Hx. left; reflexivity.
  - exists x. split; [left; reflexivity|exact E].
Qed.

Lemma NoDup_filter' : forall (p : N -> bool) l, NoDup l -> NoDup (filter p l).
Proof.
  induction l as [|a l IH]; intros H; simpl; [constructor|]. inversion H; subst.
  destruct (p a); [constructor|]; auto. rewrite filter_In. tauto.
Qed.

Lemma scc_spec_class_nodup : NoDup (verts g) -> forall c, In c (scc_spec g) -> NoDup c.
Proof.
  intros Hn c Hc. apply scc_spec_In_raw in Hc. destruct Hc as [v [_ [Hc _]]]. subst c.
  unfold scc_of, scc_of_tbl. apply NoDup_filter'. exact Hn.
Qed.

(* a module is in some reported cycle iff it is mutually reachable with a different module *)
Theorem scc_spec_in_some_cycle : NoDup (verts g) -> forall a, In a (verts g) ->
  ((exists c, In c (scc_spec g) /\ In a c) <-> exists b, In b (verts g) /\ a <> b /\ mutual g a b).
Proof.
  intros Hn a Ha. split.
  - intros [c [Hc Hac]]. pose proof (scc_spec_class_nodup Hn c Hc) as Hnc.
    apply scc_spec_char in Hc. destruct Hc as [Hl [Hnm [Hm _]]].
    destruct (nodup_two c a Hnc Hl Hac) as [b [Hb Hab]]. exists b. split; [|split; [exact Hab|apply Hm; assumption]].
    rewrite Hnm in Hb. apply norm_In in Hb. tauto.
  - intros [b [Hb [Hab Hm]]]. destruct (proj2 (scc_spec_same_cycle a b Ha Hb Hab) Hm) as [c [Hc [Hac _]]]. eauto.
Qed.

(* different reported cycles share no module *)
Theorem scc_spec_disjoint : forall c1 c2 x, In c1 (scc_spec g) -> In c2 (scc_spec g) ->
  In x c1 -> In x c2 -> c1 = c2.
Proof.
  intros c1 c2 x H1 H2 Hx1 Hx2.
  apply scc_spec_In_raw in H1. destruct H1 as [v1 [Hv1 [E1 _]]].
  apply scc_spec_In_raw in H2. destruct H2 as [v2 [Hv2 [E2 _]]]. subst.
  apply scc_of_In in Hx1; [|exact Hv1]. apply scc_of_In in Hx2; [|exact Hv2].
  apply scc_of_eq; try assumption. eapply mutual_trans; [apply Hx1|apply mutual_sym; apply Hx2].
Qed.

(* no cycle is listed twice *)
Theorem scc_spec_nodup : NoDup (verts g) -> NoDup (scc_spec g).
Proof.
  intros Hn. unfold scc_spec.
  set (f := fun v => let c := scc_of_tbl g (reach_table g) v in if first_is v c then [c] else []).
  assert (H : forall l, NoDup l -> NoDup (flat_map f l)).
  { induction l as [|a l IH]; intros Hl; simpl; [constructor|]. inversion Hl; subst.
    unfold f at 1. cbv zeta. destruct (first_is a (scc_of_tbl g (reach_table g) a)) eqn:F; simpl; [|auto].
    constructor; [|auto]. intro Hin. apply in_flat_map in Hin. destruct Hin as [b [Hb Hfb]].
    unfold f in Hfb. cbv zeta in Hfb. destruct (first_is b (scc_of_tbl g (reach_table g) b)) eqn:Fb; [|destruct Hfb].
    destruct Hfb as [Hfb|[]]. apply first_is_spec in F. apply first_is_spec in Fb.
    destruct F as [r1 E1]. destruct Fb as [r2 E2]. rewrite E1, E2 in Hfb. inversion Hfb. subst. contradiction. }
  apply NoDup_filter. apply H. exact Hn.
Qed.

(* modules in cycles = sum of the cycle sizes (by definition) and they are distinct modules *)
Theorem spec_modules_in_cycles_sum : spec_modules_in_cycles g = list_sum (spec_sizes g).
Proof.
  unfold spec_modules_in_cycles, spec_sizes. induction (scc_spec g) as [|c l IH]; simpl; [reflexivity|].
  rewrite app_length, IH. reflexivity.
Qed.

Theorem spec_modules_in_cycles_nodup : NoDup (verts g) -> NoDup (concat (scc_spec g)).
Proof.
  intros Hn. apply nodup_concat_disjoint.
  - apply scc_spec_nodup; exact Hn.
  - apply scc_spec_class_nodup; exact Hn.
  - apply scc_spec_disjoint.
Qed.

End Closure.

(* ---------- the certificate checker ---------- *)
Lemma list_eqb_eq : forall a b, list_eqb a b = true <-> a = b.
Proof.
  induction a as [|x a IH]; destruct b as [|y b]; simpl; split; intros H; try discriminate; try reflexivity.
  - apply andb_true_iff in H. destruct H as [H1 H2]. apply N.eqb_eq in H1. apply IH in H2. subst. reflexivity.
  - inversion H; subst. rewrite N.eqb_refl. simpl. apply IH. reflexivity.
Qed.

Lemma remove_first_perm : forall c l r, remove_first c l = Some r -> Permutation l (c :: r).
Proof.
  induction l as [|d l IH]; intros r H; simpl in H; [discriminate|].
  destruct (list_eqb c d) eqn:E.
  - apply list_eqb_eq in E. inversion H; subst. reflexivity.
  - destruct (remove_first c l) as [r'|]; [|discriminate]. inversion H; subst.
    rewrite (IH r' eq_refl). apply perm_swap.
Qed.

Lemma perm_eqb_sound : forall a b, perm_eqb a b = true -> Permutation a b.
Proof.
  induction a as [|c a IH]; intros b H; simpl in H.
  - destruct b; [constructor|discriminate].
  - destruct (remove_first c b) as [b'|] eqn:E; [|discriminate].
    apply remove_first_perm in E. rewrite E. constructor. apply IH. exact H.
Qed.

Lemma nodupb_sound : forall l, nodupb l = true -> NoDup l.
Proof.
  induction l as [|x l IH]; simpl; intros H; [constructor|]. apply andb_true_iff in H. destruct H as [H1 H2].
  constructor; [|auto]. apply negb_true_iff in H1. apply memb_false in H1. exact H1.
Qed.

(* every list of cycles the checker accepts is the specification, up to the order of the
   cycles and the order of the modules inside each cycle; no module is repeated and every
   module is a module of the project *)
Theorem check_sccs_sound : forall g out, check_sccs g out = true ->
  Permutation (map (norm g) out) (scc_spec g) /\
  Forall (fun c => NoDup c /\ forall x, In x c -> In x (verts g)) out.
Proof.
  intros g out H. unfold check_sccs, check_sccs_with in H. apply andb_true_iff in H. destruct H as [H1 H2]. split.
  - apply perm_eqb_sound. exact H2.
  - apply Forall_forall. intros c Hc. rewrite forallb_forall in H1. specialize (H1 c Hc).
    apply andb_true_iff in H1. destruct H1 as [Hn Hv]. split; [apply nodupb_sound; exact Hn|].
    intros x Hx. rewrite forallb_forall in Hv. apply memb_In. apply Hv. exact Hx.
Qed.

(* semantic reading of an accepted output: two different modules are reported in one cycle
   iff each can reach the other *)
Theorem check_sccs_same_cycle : forall g out, check_sccs g out = true ->
  forall a b, In a (verts g) -> In b (verts g) -> a <> b ->
  ((exists c, In c out /\ In a c /\ In b c) <-> mutual g a b).
Proof.
  intros g out H a b Ha Hb Hab. destruct (check_sccs_sound g out H) as [Hp Hf].
  rewrite <- (scc_spec_same_cycle g a b Ha Hb Hab). rewrite Forall_forall in Hf. split.
  - intros [c [Hc [Hac Hbc]]]. exists (norm g c). split; [|split; apply norm_In; auto].
    eapply Permutation_in; [exact Hp|]. apply in_map. exact Hc.
  - intros [c [Hc [Hac Hbc]]]. apply (Permutation_in _ (Permutation_sym Hp)) in Hc.
    apply in_map_iff in Hc. destruct Hc as [c0 [E Hc0]]. subst c. exists c0.
    apply norm_In in Hac. apply norm_In in Hbc. tauto.
Qed.

(* sizes: an accepted output has as many cycles as the spec and each cycle has the size of
   its class *)
Lemma norm_length : forall g c, NoDup (verts g) -> NoDup c -> (forall x, In x c -> In x (verts g)) ->
  length (norm g c) = length c.
Proof.
  intros g c Hv Hc Hin. apply Nat.le_antisymm.
  - apply NoDup_incl_length; [apply NoDup_filter'; exact Hv|]. intros x Hx. apply norm_In in Hx. tauto.
  - apply NoDup_incl_length; [exact Hc|]. intros x Hx. apply norm_In. auto.
Qed.

Theorem check_sccs_counts : forall g out, NoDup (verts g) -> check_sccs g out = true ->
  length out = spec_cycle_count g /\
  length (concat out) = spec_modules_in_cycles g /\
  Permutation (map (@length N) out) (spec_sizes g).
Proof.
  intros g out Hv H. destruct (check_sccs_sound g out H) as [Hp Hf].
  assert (Hs : Permutation (map (@length N) out) (spec_sizes g)).
  { unfold spec_sizes. rewrite <- Hp. rewrite map_map.
    assert (E : map (@length N) out = map (fun x => length (norm g x)) out).
    { apply map_ext_in. intros c Hc. rewrite Forall_forall in Hf. destruct (Hf c Hc). symmetry. apply norm_length; assumption. }
    rewrite E. reflexivity. }
  split; [|split; [|exact Hs]].
  - unfold spec_cycle_count. rewrite <- (Permutation_length Hp). rewrite map_length. reflexivity.
  - rewrite spec_modules_in_cycles_sum.
    assert (E : forall l : list (list N), length (concat l) = list_sum (map (@length N) l)).
    { induction l; simpl; [reflexivity|]. rewrite app_length. congruence. }
    rewrite E. clear E. induction Hs; simpl; lia.
Qed.
