#!/usr/bin/env python3
"""CPython oracle runner. stdin: JSON {"files": [path...], "oracles": [[...], ...]}.
stdout: JSON {path: {def_line: [[trace, outcome] per oracle]}} — every function/method code
object found in the module (at any depth) is run standalone under every oracle."""
import json
import os
import sys
import types

sys.path.insert(0, os.path.join(os.path.dirname(os.path.abspath(__file__)), "pyrt"))
import rt  # noqa: E402

sys.setrecursionlimit(10000)


def code_objects(code, out):
    for c in code.co_consts:
        if isinstance(c, types.CodeType):
            is_func = bool(c.co_flags & 0x2) and not c.co_name.startswith("<")   # CO_NEWLOCALS, not comprehension/lambda
            if is_func:
                out.append(c)
            code_objects(c, out)


def main():
    req = json.load(sys.stdin)
    res = {}
    for path in req["files"]:
        src = open(path).read()
        code = compile(src, path, "exec")
        fns = []
        code_objects(code, fns)
        glob = {"__name__": "gen", "__builtins__": __builtins__}
        exec("from rt import *", glob)
        per = {}
        for c in fns:
            runs = []
            for orc in req["oracles"]:
                rt.reset(orc)
                f = types.FunctionType(c, glob, c.co_name, (None,) if c.co_argcount else None)
                try:
                    f()
                    out = "ok"
                except rt.E:
                    out = "exc"
                except RecursionError:
                    out = "recursion"
                runs.append([list(rt.trace), out])
            per[str(c.co_firstlineno)] = runs
        res[path] = per
    json.dump(res, sys.stdout)


if __name__ == "__main__":
    main()
