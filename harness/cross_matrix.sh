#!/bin/bash
# usage: cross_matrix.sh [seed-dir ...] : every archived seeded change against every quick check (one line per seed x check).
# Run through `vp run` with VERIF_REPO=$VP_RUN_REPO so that /repo itself is never touched.
cd "$(dirname "$0")/.."
seeds=("$@"); [ ${#seeds[@]} -eq 0 ] && seeds=($(ls seeded))
python3 harness/setup.py >/dev/null 2>&1
for s in "${seeds[@]}"; do
  echo "== seeded/$s"
  python3 harness/try_seed.py seeded/$s/patch.diff C01 C02 C03 C04 C05 C06 C07 C08 C09 C10 C11 C12 C13 C14 C15 C16 C17 C18 C19 C20 2>&1 | grep -v conda | cut -c1-260
done
