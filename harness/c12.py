"""C12 — the import graph and the module metrics reflect Python's import semantics.

Generated package layouts x import forms x statement positions x TYPE_CHECKING guards are written to disk and
given to the production dependency analysis (hook op "imports" = service.AnalyzeDependencies; a sample also through
`pyscn analyze --json --select deps`).  The same projects are evaluated in Coq: the specification (Deps/PyImport.v,
edges_py), the model of the code (Deps/Imports.v, edges_model; Deps/Metrics.v) and the deviation classes
(Deps/ImportsWf.v).  The specification is tied to CPython: every generated import statement is executed by python3
in the name space of its module and the modules its names come from are compared with resolve_py.  Per project:
  impl edges != spec edges, impl == model, a recorded deviation class present  -> KNOWN-FINDING
  impl edges != spec edges otherwise                                           -> VIOLATION
  impl == spec but != model                                                    -> broken tie
  fan-in/fan-out/instability/distance/max-depth checked on the implementation's own graph (spec) and against the model
"""
import json
import os
import re
import subprocess
import sys
from fractions import Fraction

import lib
from lib import clist
import c12x

REQ = ("From Coq Require Import NArith ZArith QArith List Bool.\nImport ListNotations.\n"
       "From PV Require Import Deps.PyImport Deps.Imports Deps.Metrics Deps.ImportsWf Deps.ImportsRun.\nOpen Scope N_scope.")

POSITIONS = ["PModule", "PDef", "PClass", "PIf", "PElif", "PElse", "PTry", "PExcept", "PTryElse", "PFinally", "PWith",
             "PLoop", "PLoopElse", "PMatch"]
CLASS_NAMES = {1: "implicit-relative-import", 2: "init-own-submodule", 3: "all-hides-reexport", 4: "irregular-reexport"}
ATTRS = ["fa", "fb", "fc"]
ABSTRACT_NAMES = ["StoreBase", "IReader", "ShapeInterface"]
THIRD = ["numpy", "requests", "yaml"]
MODPOOL = ["util", "core", "models", "helpers", "api", "conf", "svc", "cli"]
PKGPOOL = ["alpha", "beta", "gamma"]
SUBPOOL = ["sub", "inner"]


# ----------------------------------------------------------------------------------------------
# names <-> codes
# ----------------------------------------------------------------------------------------------
class Names:
    def __init__(self, stdlib):
        self.code = {}
        self.rev = {}
        self.next = 1
        self.code["*"] = 900000          # Deps/ImportsOpt.v: star
        self.rev[900000] = "*"
        for i, s in enumerate(stdlib):
            self.code[s] = 1000 + i
            self.rev[1000 + i] = s

    def c(self, s):
        if s not in self.code:
            self.code[s] = self.next
            self.rev[self.next] = s
            self.next += 1
        return self.code[s]

    def path(self, p):
        return "[" + "; ".join(str(self.c(x)) for x in p) + "]"

    def unpath(self, codes):
        return ".".join(self.rev[c] for c in codes)


def read_stdlib():
    src = open(os.path.join(lib.COQ, "Gen", "ImportsConst.v")).read()
    line = [l for l in src.splitlines() if l.startswith("Definition stdlib_modules")][0]
    import re
    return re.findall(r'"([^"]+)"', line)


# ----------------------------------------------------------------------------------------------
# project representation
#   module: dict(path=tuple, pkg=bool, stmts=[stmt], all=None|[names], abstract=int, extra_public=int)
#   stmt: dict(kind='abs'|'from'|'rel', path=tuple, names=[(orig, bound)], level=int, tc=bool, pos=str, alias=None|str,
#              tc_else=bool, tc_spelling=str)
# ----------------------------------------------------------------------------------------------
def st(kind, path=(), names=(), level=0, tc=False, pos="PModule", alias=None, tc_else=False, join_next=False, guard=None,
       guard_pos="if"):
    """guard: a condition that mentions TYPE_CHECKING (nested tuples, see guard_text); the statement stands in the body of
    `if <guard>:` (guard_pos 'if'), of `elif <guard>:` after a false `if`, in the else branch of `if <guard>:` ('else') or in an
    `elif FLAG:` branch of `if <guard>:` ('orelif')."""
    return dict(kind=kind, path=tuple(path), names=[(n if isinstance(n, tuple) else (n, n)) for n in names], level=level,
                tc=tc, pos=pos, alias=alias, tc_else=tc_else, join_next=join_next, guard=guard, guard_pos=guard_pos)


# ---- conditions that mention TYPE_CHECKING (Deps/TcGuard.v gexpr) --------------------------------
def guard_text(g, top=True, oracle=False):
    k = g[0]
    if k == "tc":
        return "TYPE_CHECKING"
    if k == "tca":
        return "TYPE_CHECKING" if oracle else "typing.TYPE_CHECKING"
    if k == "flag":
        return "FLAG" if g[1] else "NOFLAG"
    if k == "const":
        return "True" if g[1] else "False"
    if k == "paren":                      # an extra pair of parentheses (the model looks through them)
        return "(" + guard_text(g[1], True, oracle) + ")"
    if k == "not":
        t = "not " + guard_text(g[1], False, oracle)
    else:
        op = {"and": "and", "or": "or", "eq": "==", "is": "is", "ne": "!=", "isnot": "is not"}[k]
        t = "%s %s %s" % (guard_text(g[1], False, oracle), op, guard_text(g[2], False, oracle))
    return t if top else "(" + t + ")"


def guard_coq(g):
    k = g[0]
    if k == "tc":
        return "GTc"
    if k == "tca":
        return "GTcAttr"
    if k == "flag":
        return "(GFlag %s)" % ("true" if g[1] else "false")
    if k == "const":
        return "(GConst %s)" % ("true" if g[1] else "false")
    if k == "paren":
        return guard_coq(g[1])
    if k == "not":
        return "(GNot %s)" % guard_coq(g[1])
    c = {"and": "GAnd", "or": "GOr", "eq": "GEq", "is": "GEq", "ne": "GNe", "isnot": "GNe"}[k]
    return "(%s %s %s)" % (c, guard_coq(g[1]), guard_coq(g[2]))


def guard_python(g):
    """python3's value of the condition at run time"""
    import types
    return bool(eval(guard_text(g), {"TYPE_CHECKING": False, "FLAG": True, "NOFLAG": False,
                                     "typing": types.SimpleNamespace(TYPE_CHECKING=False)}))


def tc_terms(s):
    """(the analyser's, Python's) answer to 'type-checking only?' as Coq terms"""
    if s.get("guard") is None:
        t = "true" if s["tc"] else "false"
        return t, t
    g = guard_coq(s["guard"])
    if s["guard_pos"] in ("else", "orelif"):
        return "(model_tc_else %s)" % g, "(spec_tc_else %s)" % g
    return "(model_tc %s)" % g, "(spec_tc %s)" % g


def stmt_text(s, nxt=None):
    if s["kind"] == "abs":
        t = "import " + ".".join(s["path"]) + ((" as " + s["alias"]) if s["alias"] else "")
        if nxt is not None:
            t += ", " + ".".join(nxt["path"]) + ((" as " + nxt["alias"]) if nxt["alias"] else "")
        return t
    names = ", ".join(o if o == b else "%s as %s" % (o, b) for o, b in s["names"])
    if s["kind"] == "from":
        return "from %s import %s" % (".".join(s["path"]), names)
    return "from %s%s import %s" % ("." * s["level"], ".".join(s["path"]), names)


def block(pos, body, k):
    """body: list of lines; returns lines placing them at the given position."""
    ind = ["    " + l for l in body]
    if pos == "PModule":
        return body
    if pos == "PDef":
        return ["def _f%d():" % k] + ind
    if pos == "PClass":
        return ["class _C%d:" % k] + ind
    if pos == "PIf":
        return ["if FLAG:"] + ind
    if pos == "PElif":
        return ["if NOFLAG:", "    pass", "elif FLAG:"] + ind
    if pos == "PElse":
        return ["if NOFLAG:", "    pass", "else:"] + ind
    if pos == "PTry":
        return ["try:"] + ind + ["except ArithmeticError:", "    pass"]
    if pos == "PExcept":
        return ["try:", "    raise ValueError()", "except ValueError:"] + ind
    if pos == "PTryElse":
        return ["try:", "    pass", "except ValueError:", "    pass", "else:"] + ind
    if pos == "PFinally":
        return ["try:", "    pass", "finally:"] + ind
    if pos == "PWith":
        return ["with open(__file__):"] + ind
    if pos == "PLoop":
        return ["for _i in (1,):"] + ind
    if pos == "PLoopElse":
        return ["for _i in ():", "    pass", "else:"] + ind
    if pos == "PMatch":
        return ["match 1:", "    case 1:"] + ["    " + l for l in ind]
    raise ValueError(pos)


def render_module(m, oracle=False):
    """oracle=True: the copy python3 imports — plain modules keep only their definitions, __init__ files keep
    their from-imports (they define the package's name space), each guarded against ImportError."""
    lines = ["import typing", "FLAG = True", "NOFLAG = False", "TYPE_CHECKING = False", ""]
    if oracle:
        lines[0] = "typing = None"
    elif m.get("broken"):
        # a file that does not parse: the analysis skips it (module_analyzer.go analyzeModuleDependencies returns the
        # parser's error and AnalyzeFiles goes on with the next file)
        return "import typing\ndef broken(:\n    pass\n" + "".join("import %s\n" % ".".join(t) for t in m["broken"])
    for a in ATTRS:
        lines += ["def %s():" % a, "    return 1", ""]
    for i in range(m.get("abstract", 0)):
        lines += ["class %s:" % ABSTRACT_NAMES[i], "    pass", ""]
    for i in range(m.get("extra_public", 0)):
        lines += ["class Concrete%d:" % i, "    pass", ""]
    for a in m.get("defs", ()):                      # further public functions (names that collide with a submodule)
        lines += ["def %s():" % a, "    return 1", ""]
    if m["all"] is not None:
        lines.append("__all__ = [%s]" % ", ".join('"%s"' % n for n in m["all"]))
    stmts = m["stmts"]
    k = 0
    i = 0
    while i < len(stmts):
        s = stmts[i]
        nxt = None
        if s.get("join_next") and i + 1 < len(stmts):
            nxt = stmts[i + 1]
            i += 1
        i += 1
        k += 1
        if oracle and (not m["pkg"] or s["kind"] == "abs"):
            continue
        body = [stmt_text(s, nxt)]
        if oracle:
            body = ["try:", "    " + body[0], "except Exception:", "    pass"]
        if s.get("guard") is not None:
            cond = guard_text(s["guard"], oracle=oracle)
            inner = ["    " + l for l in block(s["pos"], body, k)]
            if s["guard_pos"] == "if":
                out = ["if %s:" % cond] + inner
            elif s["guard_pos"] == "elif":
                out = ["if NOFLAG:", "    pass", "elif %s:" % cond] + inner
            elif s["guard_pos"] == "orelif":
                out = ["if %s:" % cond, "    pass", "elif FLAG:"] + inner
            else:
                out = ["if %s:" % cond, "    pass", "else:"] + inner
        elif s["tc_else"]:
            out = ["if TYPE_CHECKING:", "    pass", "else:"] + ["    " + l for l in block(s["pos"], body, k)]
        elif s["tc"]:
            guard = "if typing.TYPE_CHECKING:" if (k % 3 == 0 and not oracle) else "if TYPE_CHECKING:"
            out = [guard] + ["    " + l for l in block(s["pos"], body, k)]
        elif k % 4 == 2:
            # a guard that mentions TYPE_CHECKING but runs at run time: the import is a runtime import
            guard = "if not typing.TYPE_CHECKING:" if (k % 8 == 6 and not oracle) else "if not TYPE_CHECKING:"
            out = [guard] + ["    " + l for l in block(s["pos"], body, k)]
        else:
            out = block(s["pos"], body, k)
        lines += out
    return "\n".join(lines) + "\n"


def model_stmts(m):
    """the statements the Coq side sees: 'import typing' of the header first"""
    return [st("abs", ("typing",))] + m["stmts"]


def file_of(m):
    return os.path.join(*m["path"], "__init__.py") if m["pkg"] else os.path.join(*m["path"][:-1], m["path"][-1] + ".py")


def write_project(mods, d, oracle=False, marker="requirements.txt", marker_dir=None):
    os.makedirs(d, exist_ok=True)
    md = marker_dir or d
    if marker == ".git":                                          # project-root markers of findProjectRoot
        os.makedirs(os.path.join(md, ".git"), exist_ok=True)
    else:
        with open(os.path.join(md, marker), "w") as f:
            f.write("")
    for m in mods:
        p = os.path.join(d, file_of(m))
        os.makedirs(os.path.dirname(p), exist_ok=True)
        with open(p, "w") as f:
            f.write(render_module(m, oracle))


# ----------------------------------------------------------------------------------------------
# Coq terms
# ----------------------------------------------------------------------------------------------
def coq_stmt(nm, s, side=None):
    names = clist(["mk_in %d %d" % (nm.c(o), nm.c(b)) for o, b in s["names"]])
    if s["kind"] == "abs":
        f = "ImportAbs %s" % nm.path(s["path"])
    elif s["kind"] == "from":
        f = "ImportFrom %s %s" % (nm.path(s["path"]), names)
    else:
        f = "ImportRel %d%%nat %s %s" % (s["level"], nm.path(s["path"]), names)
    tc = "true" if s["tc"] else "false"
    if side is not None:
        tc = tc_terms(s)[0 if side == "model" else 1]
    return "mk_stmt (%s) %s %s" % (f, tc, s["pos"])


def coq_project(nm, mods, side=None):
    """side None: the plain project; 'model' / 'spec': guarded statements carry the analyser's / Python's reading,
    a module that does not parse has no statements"""
    items = []
    for m in mods:
        al = "None" if m["all"] is None else "(Some %s)" % ("[" + "; ".join(str(nm.c(x)) for x in m["all"]) + "]")
        stmts = [] if m.get("broken") else model_stmts(m)
        items.append("mk_mod %s %s %s %s" % (nm.path(m["path"]), "true" if m["pkg"] else "false",
                                            clist([coq_stmt(nm, s, side) for s in stmts]), al))
    return clist(items)


# ----------------------------------------------------------------------------------------------
# generators
# ----------------------------------------------------------------------------------------------
def mod(path, pkg=False, stmts=None, all_=None, abstract=0, extra_public=0, defs=()):
    return dict(path=tuple(path), pkg=pkg, stmts=stmts or [], all=all_, abstract=abstract, extra_public=extra_public, defs=tuple(defs))


def base_layout(rng, mode):
    """2-3 packages (base names reused), a nested subpackage chain, top-level modules."""
    mods = []
    pk = rng.sample(PKGPOOL, rng.choice([2, 2, 3]))
    shared = rng.sample(MODPOOL, 2)
    for p in pk:
        mods.append(mod((p,), pkg=True))
        names = set(shared if rng.random() < 0.8 else []) | set(rng.sample(MODPOOL, rng.choice([1, 2])))
        for n in sorted(names):
            mods.append(mod((p, n)))
        if rng.random() < 0.6:
            sp = rng.choice(SUBPOOL)
            mods.append(mod((p, sp), pkg=True))
            for n in rng.sample(MODPOOL, rng.choice([1, 2])):
                mods.append(mod((p, sp, n)))
            if rng.random() < 0.4:
                mods.append(mod((p, sp, "deep"), pkg=True))
                mods.append(mod((p, sp, "deep", rng.choice(MODPOOL))))
    tops = rng.sample(["main", "app", "setup_env", "tools"] + (MODPOOL if mode == "implicit" else []), rng.choice([1, 2, 3]))
    for t in tops:
        if not any(m["path"] == (t,) for m in mods):
            mods.append(mod((t,)))
    return mods


def children(mods, p):
    return [m["path"][-1] for m in mods if len(m["path"]) == len(p) + 1 and m["path"][:-1] == tuple(p)]


def bound_in_init(mods, p):
    for m in mods:
        if m["path"] == tuple(p) and m["pkg"]:
            return [b for s in m["stmts"] if s["kind"] != "abs" for (_, b) in s["names"]]
    return []


def rand_names(rng, mods, target):
    pool = list(ATTRS) + children(mods, target) * 2 + bound_in_init(mods, target) * 2
    k = rng.choice([1, 1, 2, 3])
    names = []
    for n in rng.sample(pool, min(k, len(pool))):
        if n not in [x[0] for x in names]:
            names.append((n, n) if rng.random() < 0.8 else (n, "z_" + n))
    return names


def rand_position(rng):
    return rng.choice(POSITIONS + ["PModule"] * 6)


def add_reexports(rng, mods, mode):
    for m in mods:
        if not m["pkg"] or rng.random() < 0.35:
            continue
        P = m["path"]
        kids = [k for k in children(mods, P) if not any(x["path"] == P + (k,) and x["pkg"] for x in mods)]
        bound = []
        for _ in range(rng.choice([1, 2, 3])):
            if not kids:
                break
            src = rng.choice(kids)
            a = rng.choice(ATTRS)
            b = a if rng.random() < 0.5 else "g" + a[1] + src[0]
            if b in bound:
                continue
            bound.append(b)
            if rng.random() < 0.6:
                m["stmts"].append(st("rel", (src,), [(a, b)], level=1))
            else:
                m["stmts"].append(st("from", P + (src,), [(a, b)]))
        if rng.random() < 0.3 and kids:
            k = rng.choice(kids)
            m["stmts"].append(st("rel", (), [(k, k)], level=1))          # from . import submodule
            bound.append(k)
        if len(P) >= 2 and rng.random() < 0.3:
            sib = [k for k in children(mods, P[:-1]) if k != P[-1] and not any(x["path"] == P[:-1] + (k,) and x["pkg"] for x in mods)]
            if sib and mode == "irregular":
                pass
        if mode == "allhide" and bound and rng.random() < 0.8:
            m["all"] = [b for b in bound[:-1]] or ["fa_other"]
        elif rng.random() < 0.4:
            m["all"] = list(bound) if rng.random() < 0.7 else []
        if mode == "irregular" and rng.random() < 0.8:
            others = [x for x in mods if not x["pkg"] and x["path"][:len(P)] != P]
            kind = rng.choice(["cross", "tc", "def", "alias_sub", "missing"])
            if kind == "cross" and others:
                o = rng.choice(others)
                m["stmts"].append(st("from", o["path"], [("fb", "xfb")]))
            elif kind == "tc" and kids:
                m["stmts"].append(st("rel", (rng.choice(kids),), [("fc", "tfc")], level=1, tc=True))
            elif kind == "def" and kids:
                m["stmts"].append(st("rel", (rng.choice(kids),), [("fc", "dfc")], level=1, pos=rng.choice(["PDef", "PClass"])))
            elif kind == "alias_sub" and kids:
                k = rng.choice(kids)
                m["stmts"].append(st("rel", (), [(k, "al_" + k)], level=1))
            elif kind == "missing":
                m["stmts"].append(st("rel", ("nomod",), [("fa", "mfa")], level=1))


def rand_import(rng, mods, m, mode):
    P = m["path"] if m["pkg"] else m["path"][:-1]
    others = [x for x in mods if x["path"] != m["path"]]
    r = rng.random()
    tc = rng.random() < 0.15
    tc_else = (not tc) and rng.random() < 0.05
    pos = rand_position(rng)
    if m["pkg"]:
        # an __init__ binds what it imports into the package's name space; chains of such bindings between packages
        # make Python's result depend on the order of execution, so a package only takes attributes of plain modules
        plain = [x for x in others if not x["pkg"]]
        up = len(P) - 1 if len(P) >= 2 else len(P)      # a top-level package cannot reach above itself
        inside = [x for x in plain if x["path"][:up] == P[:up] and len(x["path"]) > up]
        if r < 0.4 or not inside:
            t = rng.choice(others)["path"]
            if not abs_safe(mods, P, t):
                t = ("numpy",)
            return st("abs", t, pos=pos, tc=tc)
        x = rng.choice(inside)["path"]
        names = [(a, a if rng.random() < 0.6 else "w" + a) for a in rng.sample(ATTRS, rng.choice([1, 2]))]
        if x[:len(P)] == P:
            return st("rel", x[len(P):], names, level=1)
        return st("rel", x[len(P) - 1:], names, level=2)
    if r < 0.22:                                            # import a.b.c [as x]
        t = rng.choice(others)["path"]
        if mode == "implicit" and len(P) >= 1 and rng.random() < 0.6:
            sib = children(mods, P) + (children(mods, P[:-1]) if len(P) >= 2 else [])
            if sib:
                t = (rng.choice(sib),)
        elif mode != "implicit" and not abs_safe(mods, P, t):
            t = ("numpy",)
        return st("abs", t, tc=tc, pos=pos, alias=("al%d" % rng.randint(0, 9)) if rng.random() < 0.3 else None, tc_else=tc_else)
    if r < 0.30:                                            # stdlib / third party / missing
        t = rng.choice([("os",), ("json",), ("os", "path"), ("collections", "abc"), (rng.choice(THIRD),), ("nosuch", "mod"),
                        ("xml", "dom")])
        if rng.random() < 0.5:
            return st("abs", t, tc=tc, pos=pos)
        return st("from", t, [("thing", "thing")], tc=tc, pos=pos)
    if r < 0.55:                                            # from a.b import c, d
        t = rng.choice(others)["path"]
        if mode == "implicit" and len(P) >= 1 and rng.random() < 0.5:
            sib = children(mods, P)
            if sib:
                t = (rng.choice(sib),)
        elif mode != "implicit" and not abs_safe(mods, P, t):
            t = ("requests",)
        return st("from", t, rand_names(rng, mods, t) or [("fa", "fa")], tc=tc, pos=pos, tc_else=tc_else)
    # relative
    level = rng.choice([1, 1, 1, 2, 2, 3, 4])
    base = P[:len(P) - (level - 1)] if level - 1 < len(P) else None
    if base:
        kids = children(mods, base)
        if kids and rng.random() < 0.6:
            k = rng.choice(kids)
            sub = (k,)
            if any(x["path"] == tuple(base) + (k,) and x["pkg"] for x in mods) and rng.random() < 0.4:
                kk = children(mods, tuple(base) + (k,))
                if kk:
                    sub = (k, rng.choice(kk))
            return st("rel", sub, rand_names(rng, mods, tuple(base) + sub) or [("fa", "fa")], level=level, tc=tc, pos=pos, tc_else=tc_else)
        ns = rand_names(rng, mods, base) or [("fa", "fa")]
        if m["pkg"] and tuple(base) == tuple(P):
            ns = [(o, o) for o, _ in ns]          # a package re-importing its own names: no aliases (two-level re-export)
        return st("rel", (), ns, level=level, tc=tc, pos=pos, tc_else=tc_else)
    return st("rel", rng.choice([(), ("util",)]), [("fa", "fa")], level=level, tc=tc, pos=pos)


def abs_safe(mods, P, t):
    """absolute import of t from a file in directory P is not an implicit relative import (class 1)"""
    paths = {m["path"] for m in mods}
    if not P:
        return True
    if tuple(P) + tuple(t) in paths:
        return False
    if tuple(t) not in paths and len(P) >= 2 and tuple(P[:-1]) + tuple(t) in paths:
        return False
    return True


def random_project(rng, mode):
    mods = base_layout(rng, mode)
    add_reexports(rng, mods, mode)
    for m in mods:
        for _ in range(rng.choice([0, 1, 1, 2, 3, 4])):
            m["stmts"].append(rand_import(rng, mods, m, mode))
        if len(m["stmts"]) >= 2 and rng.random() < 0.15:
            for i in range(len(m["stmts"]) - 1):
                a, b = m["stmts"][i], m["stmts"][i + 1]
                if a["kind"] == b["kind"] == "abs" and (a["tc"], a["pos"], a["tc_else"]) == (b["tc"], b["pos"], b["tc_else"]):
                    a["join_next"] = True                    # import x, y as z on one line
                    break
        if m["pkg"] and m["all"] and mode != "allhide":
            m["all"] = sorted(set(m["all"]) | set(bound_in_init(mods, m["path"])))     # __all__ lists every re-exported name
        m["abstract"] = rng.choice([0, 0, 0, 1, 2, 3])
        m["extra_public"] = rng.choice([0, 0, 1, 2])
    return mods


def positions_project(tc_spelled=False):
    """every position x {runtime, TYPE_CHECKING body, else of TYPE_CHECKING}: one distinct target each"""
    mods, stmts = [], []
    k = 0
    for pos in POSITIONS:
        for variant in ("run", "tc", "tc_else"):
            k += 1
            t = "t%02d" % k
            mods.append(mod((t,)))
            kind = k % 3
            if kind == 0:
                s = st("abs", (t,), pos=pos)
            elif kind == 1:
                s = st("from", (t,), [("fa", "fa")], pos=pos)
            else:
                s = st("abs", (t,), pos=pos, alias="x%d" % k)
            s["tc"] = variant == "tc"
            s["tc_else"] = variant == "tc_else"
            stmts.append(s)
    mods.append(mod(("pkg",), pkg=True))
    inner = []
    k = 0
    for pos in POSITIONS:
        for variant in ("run", "tc"):
            k += 1
            t = "r%02d" % k
            mods.append(mod(("pkg", t)))
            inner.append(st("rel", () if k % 2 else (t,), [(t, t)] if k % 2 else [("fb", "fb")], level=1, pos=pos, tc=variant == "tc"))
    mods.append(mod(("pkg", "walker"), stmts=inner))
    mods.append(mod(("walker",), stmts=stmts))
    return mods


def forms_projects():
    """fixed layout with same-named modules in different packages; one importer statement per project"""
    def layout():
        return [mod(("a",), pkg=True, stmts=[st("rel", ("impl",), [("fa", "fa"), ("fb", "gb")], level=1),
                                             st("from", ("a", "impl"), [("fc", "fc")])]),
                mod(("a", "util")), mod(("a", "impl")), mod(("a", "main")),
                mod(("a", "sub"), pkg=True), mod(("a", "sub", "util")), mod(("a", "sub", "leaf")),
                mod(("a", "sub", "deep"), pkg=True), mod(("a", "sub", "deep", "bottom")),
                mod(("b",), pkg=True), mod(("b", "util")), mod(("b", "main")), mod(("b", "other")),
                mod(("top",)), mod(("util2",))]
    forms = [
        st("abs", ("a", "util")), st("abs", ("b", "util"), alias="bu"), st("abs", ("a", "sub", "deep", "bottom")),
        st("abs", ("a",)), st("abs", ("a", "sub")), st("abs", ("top",)), st("abs", ("a", "nosuch")), st("abs", ("os", "path")),
        st("abs", ("numpy",)), st("abs", ("json",)),
        st("from", ("a",), ["util"]), st("from", ("a",), ["sub"]), st("from", ("a",), ["fa"]), st("from", ("a",), [("gb", "gb")]),
        st("from", ("a",), ["fc", "util", "fb"]), st("from", ("a", "util"), ["fa"]), st("from", ("a", "sub"), ["util", "leaf"]),
        st("from", ("a", "sub"), ["deep"]), st("from", ("b",), [("util", "bu"), "other"]), st("from", ("top",), ["fa"]),
        st("from", ("a", "sub", "deep"), ["bottom"]), st("from", ("typing",), ["thing"]), st("from", ("requests",), ["thing"]),
        st("rel", (), ["util"], level=1), st("rel", (), ["util", "main"], level=1), st("rel", ("util",), ["fa"], level=1),
        st("rel", (), ["util"], level=2), st("rel", ("util",), ["fb"], level=2), st("rel", (), ["sub"], level=2),
        st("rel", ("sub",), ["leaf"], level=2), st("rel", ("sub", "leaf"), ["fa"], level=2), st("rel", (), ["fa"], level=1),
        st("rel", (), ["util"], level=3), st("rel", ("impl",), ["fa"], level=3), st("rel", (), ["util"], level=4),
        st("rel", ("main",), ["fa"], level=1), st("rel", (), ["a"], level=3), st("rel", (), ["nothing_here"], level=5),
    ]
    importers = [("top2",), ("b", "main"), ("a", "main"), ("a", "sub", "leaf"), ("a", "sub", "deep", "bottom"), ("b", "newmod")]
    out = []
    for i, f in enumerate(forms):
        for j, imp in enumerate(importers):
            if (i + j) % 2 and not (f["kind"] == "rel"):
                continue
            mods = layout()
            s = dict(f)
            target = [m for m in mods if m["path"] == imp]
            if target:
                target[0]["stmts"].append(s)
            else:
                mods.append(mod(imp, stmts=[s]))
            out.append(mods)
    # importer is an __init__ (base package = itself)
    for f in (st("rel", (), ["util"], level=1), st("rel", ("util",), ["fa"], level=2), st("rel", (), ["main"], level=2),
              st("abs", ("b", "util")), st("from", ("b",), ["util"]), st("rel", ("deep",), ["bottom"], level=1)):
        mods = layout()
        [m for m in mods if m["path"] == ("a", "sub")][0]["stmts"].append(dict(f))
        out.append(mods)
    return out


def chain_project(rng, n, cyclic):
    mods = [mod(("c%d" % i,)) for i in range(n)]
    for i in range(n - 1):
        mods[i]["stmts"].append(st("abs", ("c%d" % (i + 1),), pos=rand_position(rng)))
    for _ in range(rng.choice([0, 1, 2, 3])):
        i, j = sorted(rng.sample(range(n), 2))
        mods[i]["stmts"].append(st("from", ("c%d" % j,), ["fa"]))
    if cyclic:
        i, j = sorted(rng.sample(range(n), 2))
        mods[j]["stmts"].append(st("abs", ("c%d" % i,)))
    rng.shuffle(mods)
    return mods


# ----------------------------------------------------------------------------------------------
# name collisions: a re-exported name that is also a submodule; module names that are string prefixes of one another
# ----------------------------------------------------------------------------------------------
COLLIDE_REEXPORTS = ["none", "rel", "abs", "same", "bound", "later", "earlier", "deep"]
COLLIDE_ALL = ["absent", "complete", "empty"]
COLLIDE_WORDS = ["config", "settings", "registry", "state", "loader", "schema"]


def collide_project(rng, how, all_mode, outer):
    """Package P with the plain submodules helpers, other, sub.leaf and two submodules P/<w1>.py, P/<w2>.py whose names
    collide with a name that P/__init__.py may bind by a from-import: w1 without alias (`from .helpers import w1`; helpers,
    other, sub.leaf and the submodule w1 define a function w1, P itself does not), w2 under an alias (`from .helpers import fb as w2`).
    how: none     nothing re-exported: `from P import n` is the submodule P.n
         rel/abs  the name is taken from P.helpers by a relative / absolute from-import: Python binds that object in P and never
                  imports the submodule of the same name
         same     the name is taken from the submodule of the same name
         bound    `from . import n`: the submodule itself is bound
         later / earlier   two re-exports of the name, P.helpers last / first (the last binding wins)
         deep     the name comes from a module of a subpackage (P.sub.leaf)
    all_mode: __all__ absent, listing every bound name (and a submodule), or empty (F33 needs a non-empty incomplete one).
    Every import form that can ask P for the name has its own importing module, outside and inside the package.
    No other statement imports a colliding submodule by its dotted name (that would rebind the attribute of P at run time and
    make Python's answer depend on the order in which the modules are executed)."""
    P = (outer, "pkg") if outer else ("pkg",)
    w1, w2 = rng.sample(COLLIDE_WORDS, 2)
    colliding = [(w1, w1), (rng.choice(ATTRS), w2)]                   # (name in the source module, name bound in P)

    def reexport(src, o, b, absolute=False):
        if absolute:
            return st("from", P + tuple(src), [(o, b)])
        return st("rel", tuple(src), [(o, b)], level=1)

    per_name = []
    for j, (o, b) in enumerate(colliding):
        if how == "rel":
            per_name.append([reexport(("helpers",), o, b)])
        elif how == "abs":
            per_name.append([reexport(("helpers",), o, b, absolute=True)])
        elif how == "same":
            per_name.append([reexport((b,), o, b, absolute=bool(j))])
        elif how == "bound":
            per_name.append([st("rel", (), [(b, b)], level=1)])
        elif how == "later":
            per_name.append([reexport(("other",), o, b, absolute=bool(j)), reexport(("helpers",), o, b)])
        elif how == "earlier":
            per_name.append([reexport(("helpers",), o, b), reexport(("other",), o, b, absolute=bool(j))])
        elif how == "deep":
            per_name.append([reexport(("sub", "leaf"), o, b, absolute=bool(j))])
    if rng.random() < 0.5:
        per_name.reverse()                                              # the two names are independent of each other
    init = [s for group in per_name for s in group]
    bound = [b for _, b in colliding]
    all_ = None if all_mode == "absent" else ([] if all_mode == "empty" else sorted(bound + ["helpers"]))
    mods = [mod(P, pkg=True, stmts=init, all_=all_), mod(P + ("helpers",), defs=[w1]), mod(P + ("other",), defs=[w1]),
            mod(P + (w1,), defs=[w1]), mod(P + (w2,)), mod(P + ("sub",), pkg=True), mod(P + ("sub", "leaf"), defs=[w1])]
    if outer:
        mods.append(mod((outer,), pkg=True))
    for j, (o, n) in enumerate(colliding):
        n2 = colliding[1 - j][1]
        forms = [
            (("main%d" % j,), st("from", P, [n])),
            (("alias%d" % j,), st("from", P, [(n, "x_" + n)])),
            (("two%d" % j,), st("from", P, [n, "other"])),
            (("both%d" % j,), st("from", P, [(n2, "y"), n])),
            (("late%d" % j,), st("from", P, [n], pos=rng.choice(["PDef", "PTry", "PIf", "PElse"]))),
            (P + ("user%d" % j,), st("rel", (), [n], level=1)),
            (P + ("ualias%d" % j,), st("rel", (), [(n, "x_" + n)], level=1)),
            (P + ("uabs%d" % j,), st("from", P, [n])),
            (P + ("sub", "up%d" % j), st("rel", (), [n], level=2)),
            (P + ("sub", "upalias%d" % j), st("rel", (), [(n, "z"), "helpers"], level=2)),
        ]
        if outer:
            forms.append(((outer, "cousin%d" % j), st("rel", ("pkg",), [n], level=1)))
        for path, s in forms:
            mods.append(mod(path, stmts=[s]))
    rng.shuffle(mods)
    return mods


def collide_projects(rng):
    out = []
    for how in COLLIDE_REEXPORTS:
        for a in COLLIDE_ALL:
            out.append(collide_project(rng, how, a, None))
        out.append(collide_project(rng, how, "absent", "outer"))
    return out


PREFIX_STEMS = ["core", "api", "app", "data"]
PREFIX_TAILS = ["_utils", "lib", "2", "s", "_"]


def rel_form(rng, base, T, take_submodule):
    """the relative from-import that reaches module T from a file of package `base` (None if T is not below a package the
    file lies in): `from ..a import last` (take_submodule) or `from ..a.last import attr`"""
    for level in range(1, len(base) + 1):
        anchor = base[:len(base) - (level - 1)]
        if T[:len(anchor)] != anchor or len(anchor) >= len(T):
            continue
        if take_submodule:
            return st("rel", T[len(anchor):-1], [T[-1]], level=level)
        return st("rel", T[len(anchor):], [rng.choice(ATTRS)], level=level)
    return None


def prefix_projects(rng):
    """Modules whose dotted names are string prefixes of one another without one lying below the other: package S next to
    the modules S<tail>.py and the package S<tail>/ (and the module named by S minus its last letter), the same one level down
    (S.api/ next to S.api_client.py and S.apix/).  Every module imports every other one, __init__ files included
    (an __init__ takes modules from outside by `import x` only: a from-import there would re-export the name, F34).
    The imports of one project follow one order of the modules (a -> b only if a comes before b: the analysis enumerates
    simple paths through import cycles, a complete digraph on 12 modules does not finish); the two orders of a pair of
    variants cover every ordered pair.  Variants 0-3: `import t` / `from t import attr` alternating and the other way round,
    each in both orders; 4/5: `from parent import last` and the relative forms where the target has a parent package, both
    orders; 6: each __init__ imports its own submodules as well (these edges are dropped on purpose, F32: exactly these and no
    other) and a third of the other imports."""
    S = rng.choice(PREFIX_STEMS)
    t1, t2, t3 = rng.sample(PREFIX_TAILS, 3)
    inner = rng.choice([x for x in ("api", "net", "rpc") if x != S])
    paths = [((S,), True), ((S, "engine"), False), ((S + t1,), False), ((S + t2,), True), ((S + t2, "x"), False), ((S + t3,), False),
             ((S[:-1],), False), ((S, inner), True), ((S, inner, "v1"), False), ((S, inner + "_client"), False),
             ((S, inner + "x"), True), ((S, inner + "x", "m"), False)]
    is_pkg = dict(paths)
    out = []
    rank = list(range(len(paths)))
    rng.shuffle(rank)
    for variant in range(7):
        mods = [mod(p, pkg=pk) for p, pk in paths]
        forward = variant % 2 == 0
        variant = {0: 0, 1: 0, 2: 1, 3: 1, 4: 2, 5: 2, 6: 3}[variant]
        for i, m in enumerate(mods):
            A = m["path"]
            base = A if m["pkg"] else A[:-1]                       # the package `from . import` refers to
            for j, (T, _) in enumerate(paths):
                if T == A:
                    continue
                own = m["pkg"] and T[:len(A)] == A
                if (own and variant != 3) or (variant == 3 and not own and (i + j) % 3) or ((rank[i] < rank[j]) != forward and not own):
                    continue
                s = None
                if own and not is_pkg[T] and (i + j) % 2 == 0:
                    s = st("rel", T[len(A):], [rng.choice(ATTRS)], level=1)       # a regular re-export
                elif m["pkg"]:
                    s = st("abs", T)
                elif variant == 2 and len(T) >= 2:
                    if (i + j) % 2 == 0:
                        s = rel_form(rng, base, T, (i + j) % 4 == 0)
                    s = s or st("from", T[:-1], [T[-1]])
                elif (i + j + variant) % 2:
                    s = st("abs", T)
                else:
                    s = st("from", T, [rng.choice(ATTRS)])
                if (i + j) % 5 == 0 and not (m["pkg"] and s["kind"] == "rel"):      # a re-export binds at module level
                    s["pos"] = rand_position(rng)
                m["stmts"].append(s)
        rng.shuffle(mods)
        out.append(mods)
    return out


# ----------------------------------------------------------------------------------------------
# CPython oracle
# ----------------------------------------------------------------------------------------------
ORACLE = r'''
import sys, json, types, os
root = sys.argv[1]
sys.path.insert(0, root)
sys.dont_write_bytecode = True
cases = json.load(open(sys.argv[2]))
out = []
def inproj(modname):
    m = sys.modules.get(modname)
    f = getattr(m, "__file__", None)
    return bool(f) and os.path.abspath(f).startswith(root + os.sep)
for c in cases:
    ns = {"__name__": c["name"], "__package__": c["package"], "__builtins__": __builtins__}
    res = []
    try:
        exec(c["text"], ns)
    except ImportError as e:
        # "cannot import name": the module the names are taken from was loaded, a name is missing.
        # The statement then depends on that module for the missing name.
        if c["kind"] == "abs" or not str(e).startswith("cannot import name"):
            out.append({"error": type(e).__name__})
            continue
        import importlib, importlib.util
        try:
            target = importlib.util.resolve_name(c["spec"], c["package"]) if c["spec"].startswith(".") else c["spec"]
            tm = importlib.import_module(target)
        except BaseException as e2:
            out.append({"error": type(e2).__name__})
            continue
        for o_name in c["orig"]:
            o = getattr(tm, o_name, None)
            if o is None:
                try:
                    o = importlib.import_module(target + "." + o_name)
                except BaseException:
                    o = None
            if o is None:
                mn = target
            else:
                mn = o.__name__ if isinstance(o, types.ModuleType) else getattr(o, "__module__", None)
            if mn and inproj(mn):
                res.append(mn)
        out.append({"resolved": res})
        continue
    except BaseException as e:
        out.append({"error": type(e).__name__})
        continue
    if c["kind"] == "abs":
        if inproj(c["target"]):
            res.append(c["target"])
    elif c["bound"] == ["*"]:
        import importlib.util
        target = importlib.util.resolve_name(c["spec"], c["package"]) if c["spec"].startswith(".") else c["spec"]
        if inproj(target):
            res.append(target)
    else:
        for b in c["bound"]:
            o = ns.get(b)
            mn = o.__name__ if isinstance(o, types.ModuleType) else getattr(o, "__module__", None)
            if mn and inproj(mn):
                res.append(mn)
    out.append({"resolved": res})
json.dump(out, sys.stdout)
'''


def cpython_oracle(mods, d):
    """For every statement of every module: the project modules its names come from, according to python3."""
    od = os.path.join(d, "oracle")
    write_project(mods, od, oracle=True)
    cases = []
    for m in mods:
        name = ".".join(m["path"])
        package = name if m["pkg"] else ".".join(m["path"][:-1])
        for s in model_stmts(m):
            c = {"name": name, "package": package, "kind": s["kind"], "text": stmt_text(dict(s, alias=None) if s["kind"] == "abs" else s)}
            if s["kind"] == "abs":
                c["target"] = ".".join(s["path"])
            else:
                c["bound"] = [b for _, b in s["names"]]
                c["orig"] = [o for o, _ in s["names"]]
                c["spec"] = "." * s["level"] + ".".join(s["path"])
            cases.append(c)
    with open(os.path.join(od, "_cases.json"), "w") as f:
        json.dump(cases, f)
    with open(os.path.join(od, "_oracle.py"), "w") as f:
        f.write(ORACLE)
    p = subprocess.run([sys.executable, "-S", "-E", os.path.join(od, "_oracle.py"), os.path.realpath(od), os.path.join(od, "_cases.json")],
                       stdout=subprocess.PIPE, stderr=subprocess.PIPE, text=True, timeout=60, cwd="/")
    if p.returncode != 0:
        raise RuntimeError("oracle failed: " + p.stderr[-500:])
    res = json.loads(p.stdout)
    return [sorted(set(r.get("resolved", []))) for r in res]


# ----------------------------------------------------------------------------------------------
# spec-side helpers on the implementation's own graph
# ----------------------------------------------------------------------------------------------
def longest_path_dag(nodes, edges):
    succ = {n: [] for n in nodes}
    for a, b in edges:
        succ[a].append(b)
    state, memo = {}, {}

    def go(n):
        if n in memo:
            return memo[n]
        if state.get(n) == 1:
            raise ValueError("cycle")
        state[n] = 1
        best = 0
        for s in succ[n]:
            best = max(best, 1 + go(s))
        state[n] = 2
        memo[n] = best
        return best
    try:
        return max([go(n) for n in nodes] + [0])
    except ValueError:
        return None


def qval(v):
    if isinstance(v, tuple) and v and v[0] == "Q":
        return Fraction(v[1], v[2])
    return Fraction(v)


# ----------------------------------------------------------------------------------------------
def main(tier):
    ck = lib.Check("C12", tier)
    ck.prepare("C12.v")
    thorough = tier == "thorough"
    rng = ck.rng
    stdlib = read_stdlib()

    projects = []       # (family, mode, mods)
    projects.append(("positions", "clean", positions_project()))
    for mods in forms_projects():
        projects.append(("forms", "clean", mods))
    n_rand = 700 if thorough else 150
    for i in range(n_rand):
        mode = rng.choice(["clean"] * 6 + ["implicit", "implicit", "allhide", "irregular"])
        projects.append(("random", mode, random_project(rng, mode)))
    for i in range(60 if thorough else 16):
        projects.append(("chain", "clean", chain_project(rng, rng.randint(2, 9), rng.random() < 0.3)))
    for rep in range(3 if thorough else 1):
        for mods in collide_projects(rng):
            projects.append(("collide", "clean", mods))
        for mods in prefix_projects(rng):
            projects.append(("prefix-names", "clean", mods))

    lib.log("C12: %d projects generated, %.1fs" % (len(projects), __import__("time").time() - ck.t0))
    work = lib.fresh_dir("c12")
    nm = Names(stdlib)

    # ---- implementation --------------------------------------------------------------------
    reqs = []
    for i, (_, _, mods) in enumerate(projects):
        d = os.path.join(work, "p%04d" % i, "proj")
        write_project(mods, d)
        files = sorted(file_of(m) for m in mods)
        reqs.append({"op": "imports_x", "dir": d})
        reqs.append({"op": "imports", "dir": d, "files": list(reversed(files))})
    impl = lib.driver(reqs) if getattr(ck, "go_ok", False) else []
    for r in impl:
        for k in ("edges", "modules", "metrics"):
            if k in r and r[k] is None:
                r[k] = []

    lib.log("C12: implementation done, %.1fs" % (__import__("time").time() - ck.t0))
    # ---- second part (harness/c12x.py): its projects, its implementation runs, its Coq jobs ---------
    xs, xjobs = c12x.prepare_extra(ck, rng, nm, work, thorough) if impl else ([], [])
    xouts = None
    # ---- Coq: spec, model, classes, metrics -------------------------------------------------
    coq = None
    coq_res = None
    if not any(f.startswith(("Deps/", "Gen/")) for f in getattr(ck, "failed_files", [])):
        try:
            jobs = []
            shard = 12
            for off in range(0, len(projects), shard):
                items = [coq_project(nm, mods) for (_, _, mods) in projects[off:off + shard]]
                dags = []
                for k in range(off, min(off + shard, len(projects))):
                    r = impl[2 * k] if impl else {}
                    nodes_k = [".".join(m["path"]) for m in projects[k][2]]
                    ok = "error" not in r and all(a in nodes_k and b in nodes_k for a, b in r.get("edges", []))
                    dags.append(bool(impl) and ok and longest_path_dag(nodes_k, [tuple(e) for e in r["edges"]]) is not None)
                body = "".join("Eval vm_compute in run_project %s %s.\nEval vm_compute in run_resolve %s.\n" % ("true" if dg else "false", it, it)
                               for it, dg in zip(items, dags))
                jobs.append(("C12_p_%d" % off, REQ, body))
            coq, coq_res = [], []
            outs = lib.coq_eval_many(jobs + xjobs, workers=10)
            xouts = outs[len(jobs):]
            for out in outs[:len(jobs)]:
                # Coq prints a rational whose denominator is a power of ten as a decimal (3 # 10 as 0.3%Q): fan-in + fan-out = 10
                out = re.sub(r"(-?\d+)\.(\d+)%Q", lambda m: "%d # %d" % (int(m.group(1) + m.group(2)), 10 ** len(m.group(2))), out)
                vals = lib.parse_coq_values(out)
                coq += vals[0::2]
                coq_res += vals[1::2]
        except Exception as e:
            ck.broken_ties.append("Coq evaluation of spec/model failed: %s" % str(e)[-800:])
            coq = None

    lib.log("C12: Coq evaluation done, %.1fs" % (__import__("time").time() - ck.t0))

    def edge_set(es):
        return {(nm.unpath(a), nm.unpath(b)) for a, b in es}

    # ---- CPython tie of the spec ---------------------------------------------------------------
    n_oracle = n_oracle_stmts = oracle_bad = 0
    oracle_every = 1 if thorough else 2
    if coq is not None:
        from concurrent.futures import ThreadPoolExecutor
        idxs = [i for i in range(len(projects)) if i % oracle_every == 0 or projects[i][0] in ("positions", "collide", "prefix-names")]
        with ThreadPoolExecutor(max_workers=6) as ex:
            futs = {i: ex.submit(cpython_oracle, projects[i][2], os.path.join(work, "p%04d" % i)) for i in idxs}
        for i in idxs:
            try:
                py = futs[i].result()
            except Exception as e:
                ck.broken_ties.append("CPython oracle failed on project %d: %s" % (i, str(e)[-300:]))
                break
            n_oracle += 1
            flat_spec = [sorted({nm.unpath(p) for p in stmt}) for modr in coq_res[i] for stmt in modr]
            stmts = [(m, s) for m in projects[i][2] for s in model_stmts(m)]
            for k, (a, b) in enumerate(zip(py, flat_spec)):
                n_oracle_stmts += 1
                if a != b:
                    oracle_bad += 1
                    if oracle_bad <= 3:
                        m, s = stmts[k]
                        ck.broken_ties.append("specification resolve_py disagrees with python3: in module %s, `%s` -> python %s, spec %s (project %d)"
                                              % (".".join(m["path"]), stmt_text(s), a, b, i))

    lib.log("C12: CPython oracle done, %.1fs" % (__import__("time").time() - ck.t0))
    # ---- decide per project ----------------------------------------------------------------
    fam_count, class_count = {}, {}
    n_diff_spec = n_model_mismatch = n_order = n_metric_checks = 0
    distinct = set()
    for i, (fam, mode, mods) in enumerate(projects):
        fam_count[fam] = fam_count.get(fam, 0) + 1
        if not impl:
            break
        r, r2 = impl[2 * i], impl[2 * i + 1]
        replay = {"project": {file_of(m): render_module(m) for m in mods}, "family": fam, "mode": mode}
        if "error" in r or "error" in r2:
            ck.violation("dependency analysis failed: %s" % (r.get("error") or r2.get("error")), dict(replay, impl=r))
            continue
        nodes = sorted(".".join(m["path"]) for m in mods)
        ie = {tuple(e) for e in r["edges"]}
        distinct.add(frozenset(ie))
        replay["impl_edges"] = sorted(ie)
        if sorted(r["modules"]) != nodes:
            ck.violation("module set differs: impl %s, project %s" % (r["modules"], nodes), replay)
            continue
        # one file's resolution is never influenced by another file: the order of the files does not matter
        if {tuple(e) for e in r2["edges"]} != ie:
            n_order += 1
            ck.violation("import graph depends on the order in which the files are analysed: %s vs %s"
                         % (sorted(ie ^ {tuple(e) for e in r2["edges"]}), "reversed order"), replay)
            continue
        # ---- metrics on the implementation's own graph (spec) ----
        bad = None
        indeg = {n: 0 for n in nodes}
        outdeg = {n: 0 for n in nodes}
        for a, b in ie:
            outdeg[a] += 1
            indeg[b] += 1
        byname = {m["module"]: m for m in r["metrics"]}
        for m in mods:
            n = ".".join(m["path"])
            mt = byname.get(n)
            n_metric_checks += 1
            if mt is None:
                bad = "no metrics for module %s" % n
                break
            if mt["ca"] != indeg[n] or mt["ce"] != outdeg[n]:
                bad = "module %s: fan-in/fan-out (%d, %d) but in/out-degree (%d, %d)" % (n, mt["ca"], mt["ce"], indeg[n], outdeg[n])
                break
            tot = indeg[n] + outdeg[n]
            inst = float(Fraction(outdeg[n], tot)) if tot else 0.0
            if mt["instability"] != inst:
                bad = "module %s: instability %r, Ce/(Ca+Ce) = %r" % (n, mt["instability"], inst)
                break
            pub = len(ATTRS) + m["abstract"] + m["extra_public"] + len(m.get("defs", ()))
            ab = m["abstract"] / pub
            if abs(mt["abstractness"] - ab) > 1e-12 or mt["public"] != pub:
                bad = "module %s: abstractness %r (public %d), expected %r (public %d)" % (n, mt["abstractness"], mt["public"], ab, pub)
                break
            dist = abs(mt["abstractness"] + inst - 1.0)
            if not (0.0 <= mt["distance"] <= 1.0) or abs(mt["distance"] - dist) > 1e-12:
                bad = "module %s: distance %r, |A+I-1| = %r" % (n, mt["distance"], dist)
                break
        lp = longest_path_dag(nodes, ie)
        if bad is None and lp is not None and r["max_depth"] != lp:
            bad = "max depth %d but the longest import chain has %d edges" % (r["max_depth"], lp)
        if bad is None and (r["total_modules"] != len(nodes) or r["total_dependencies"] != len(ie)):
            bad = "totals (%d modules, %d dependencies) differ from the graph (%d, %d)" % (r["total_modules"], r["total_dependencies"], len(nodes), len(ie))
        if bad is None:
            bad = c12x.check_outputs(r, nodes, ie)
        if bad:
            ck.violation("module metrics: " + bad, replay)
            continue
        if coq is None:
            continue
        spec_e, model_e, order_ok, classes, mmetrics, (mdepth, longest) = coq[i]
        se, me = edge_set(spec_e), edge_set(model_e)
        classes = [CLASS_NAMES[c] for c in classes]
        for c in classes:
            class_count[c] = class_count.get(c, 0) + 1
        replay.update(spec_edges=sorted(se), model_edges=sorted(me), classes=classes)
        if not order_ok:
            ck.broken_ties.append("model: file order changes the edges of project %d" % i)
        if ie != se:
            n_diff_spec += 1
            what = "import graph differs from Python's import semantics: missing %s, extra %s" % (sorted(se - ie), sorted(ie - se))
            pkgs = {".".join(m["path"]) for m in mods if m["pkg"]}
            dropped = {(a, b) for (a, b) in se if a in pkgs and b.startswith(a + ".")}
            if classes == ["init-own-submodule"] and ie != se - dropped:
                # the only recorded deviation present explains exactly the edges from an __init__ into its own package
                ck.violation(what + "; only the edges %s are covered by the recorded deviation" % sorted(dropped), replay)
            elif ie == me and classes:
                hit = False
                for c in classes:
                    e = ck.match_known({"class": c, "impl_equals_model": True})
                    if e:
                        ck.known_finding(e)
                        hit = True
                if not hit:
                    ck.violation(what + " (classes %s)" % classes, replay)
            else:
                ck.violation(what, replay)
            if ie != me:
                n_model_mismatch += 1
            continue
        if ie != me:
            n_model_mismatch += 1
            if n_model_mismatch <= 3:
                ck.broken_ties.append("implementation agrees with the specification but not with the model on project %d: impl-model %s, model-impl %s"
                                      % (i, sorted(ie - me), sorted(me - ie)))
            continue
        # ---- metrics: implementation vs model ----
        mm = {nm.unpath(p): v for p, v in mmetrics}
        for n in nodes:
            ca, ce, q = mm[n]
            if (ca, ce) != (byname[n]["ca"], byname[n]["ce"]) or float(qval(q)) != byname[n]["instability"]:
                ck.broken_ties.append("model metrics differ for %s in project %d: model %s impl %s" % (n, i, (ca, ce, q), byname[n]))
                break
        md = mdepth[1] if isinstance(mdepth, tuple) else None
        if md != r["max_depth"]:
            ck.broken_ties.append("model max depth %s, implementation %s (project %d)" % (mdepth, r["max_depth"], i))
        if lp is not None and longest != lp:
            ck.broken_ties.append("Coq longest_chain %s, python longest path %s (project %d)" % (longest, lp, i))

    # ---- second part: options, TYPE_CHECKING conditions, layouts (harness/c12x.py) ---------------------
    xstats = {}
    if impl and coq is not None and xouts:
        xstats = c12x.decide_extra(ck, nm, work, xs, xouts)
        lib.log("C12: option-dependent part done, %.1fs" % (__import__("time").time() - ck.t0))

    # ---- the command-line path: the JSON report carries the same graph and metrics -----------------
    n_cli = 0
    if impl:
        cli_idx = [0, 1, 2] + [len(projects) - 1 - k for k in range(3)] + ([rng.randrange(len(projects)) for _ in range(20)] if thorough else
                                                                       [rng.randrange(len(projects)) for _ in range(3)])
        for i in cli_idx:
            r = impl[2 * i]
            if "error" in r:
                continue
            d = os.path.join(work, "p%04d" % i, "proj")
            rc, data, err = lib.analyze_json(d, ["--select", "deps"])
            n_cli += 1
            da = ((data or {}).get("system") or {}).get("DependencyAnalysis") if data else None
            if not da:
                ck.violation("pyscn analyze --json --select deps produced no DependencyAnalysis (rc=%s): %s" % (rc, err[-300:]),
                             {"project": {file_of(m): render_module(m) for m in projects[i][2]}})
                continue
            ce_ = sorted([a, b] for a, row in (da.get("DependencyMatrix") or {}).items() for b, v in (row or {}).items() if v)
            cm = {k: (v["AfferentCoupling"], v["EfferentCoupling"], v["Instability"], v["Distance"]) for k, v in (da.get("ModuleMetrics") or {}).items()}
            hm = {m["module"]: (m["ca"], m["ce"], m["instability"], m["distance"]) for m in r["metrics"]}
            if ce_ != sorted(r["edges"]) or cm != hm or da.get("MaxDepth") != r["max_depth"]:
                ck.violation("the JSON report of `pyscn analyze --json --select deps` differs from service.AnalyzeDependencies on the same files",
                             {"project": {file_of(m): render_module(m) for m in projects[i][2]}, "cli_edges": ce_, "hook_edges": r["edges"],
                              "cli_max_depth": da.get("MaxDepth"), "hook_max_depth": r["max_depth"]})

        # the analysis options reach the module analyzer from the [dependencies] section of .pyscn.toml
        picked = []
        for want in (lambda o: not o["rel"], lambda o: not o["third"] and o["rel"], lambda o: o["stdlib"] and o["third"] and o["rel"]):
            c = [x for x in xs if x["opts"] and not x["opts"]["excl"] and x["marker"] != "setup.py" and not x["prefix"] and want(x["opts"])
                 and "error" not in x.get("impl", {"error": 1})]
            picked += c[:1] if not thorough else c[:3]
        for x in picked:
            o = x["opts"]
            with open(os.path.join(x["root"], ".pyscn.toml"), "w") as f:
                f.write("[dependencies]\ninclude_stdlib = %s\ninclude_third_party = %s\nfollow_relative = %s\n"
                        % tuple("true" if o[k] else "false" for k in ("stdlib", "third", "rel")))
            rc, data, err = lib.analyze_json(x["root"], ["--select", "deps"])
            n_cli += 1
            da = ((data or {}).get("system") or {}).get("DependencyAnalysis") if data else None
            ce_ = sorted([a, b] for a, row in ((da or {}).get("DependencyMatrix") or {}).items() for b, v in (row or {}).items() if v)
            if not da or ce_ != sorted(list(e) for e in x["impl"]["edges"]):
                ck.violation("`pyscn analyze --select deps` with [dependencies] %s in .pyscn.toml reports a different graph than "
                             "service.AnalyzeDependencies with these options" % o,
                             {"project": {file_of(m): render_module(m) for m in x["mods"]}, "options": o, "cli_edges": ce_,
                              "hook_edges": x["impl"]["edges"], "stderr": err[-300:]})

    ck.samples = [{"family": projects[k][0], "files": {file_of(m): render_module(m)[-300:] for m in projects[k][2][:3]},
                   "impl_edges": impl[2 * k].get("edges") if impl else None} for k in (0, 5, len(projects) // 2)]
    ck.cov.update({
        "evaluations": len(projects) * 2 + n_oracle_stmts + n_cli + xstats.get("n_eval", 0) + xstats.get("oracle_stmts", 0) + xstats.get("guards", 0),
        "distinct_nontrivial": len(distinct),
        "rule": "projects: positions x {runtime, TYPE_CHECKING, else of TYPE_CHECKING}; catalogue of import forms x importer location on a "
                "layout with same-named modules in different packages; random layouts (2-3 packages, nested subpackages, re-exports, __all__) in "
                "modes clean / implicit-relative / __all__-hides / irregular re-export; import chains with and without cycles; "
                "name collisions: a name re-exported by pkg/__init__.py that is also a submodule of pkg (not re-exported / taken from "
                "another module by a relative or absolute from-import, without and under an alias / from the submodule of that name / the "
                "submodule itself bound / two bindings in both orders / from a subpackage's module) x __all__ absent, complete, empty x "
                "package at top level and nested x the importing forms `from pkg import n`, `n as x`, with other names, inside a "
                "def/try/if, `from . import n` and `from .. import n` inside the package, each in its own module (every project also "
                "through python3); module names that are string prefixes of one another without being package and submodule (pkg "
                "next to pkg_utils.py, pkg2/, the same one level down): every ordered pair imports the other by `import t`, `from t "
                "import a`, `from parent import t` and the relative forms, from __init__ files and ordinary modules, once with the "
                "__init__ files importing their own submodules too. "
                "distinct = distinct implementation edge sets",
        "input_distribution": dict(fam_count, deviation_classes_present=class_count, cpython_projects=n_oracle,
                                   cpython_statements=n_oracle_stmts, cli_reports_compared=n_cli, metric_checks=n_metric_checks),
        "disagreements_checked": n_diff_spec + n_model_mismatch + oracle_bad + n_order + xstats.get("diff_spec", 0),
        "spec_vs_cpython_mismatches": oracle_bad + xstats.get("oracle_bad", 0),
        "second_part": dict(xstats, rule="analysis options (include_stdlib / include_third_party / follow_relative / exclude pattern) against "
                            "Deps/ImportsOpt.v; conditions mentioning TYPE_CHECKING in and/or/==/is/not/parentheses with the literals True/False and unknown "
                            "names, the statement in the body, the else or a later elif branch, against Deps/TcGuard.v (runtimeValue) and "
                            "python3; namespace packages with the default options and with those of `pyscn check` (also through AnalyzeProject): "
                            "the same graph, Python's; import root below the "
                            "project root with each of the five marker files; wildcard re-exports; modules named like stdlib modules; m.py next "
                            "to m/; files that do not parse; projects without refactoring candidates; on every project of both parts the "
                            "derived outputs (root/leaf modules, direct/transitive dependencies, dependents, risk level, coupling averages, "
                            "main-sequence deviation, refactoring candidates) decided on the reported graph. Repaired and now plain violations: F63 "
                            "(guards), F62 (namespace packages without include_third_party), F65 (m.py next to m/)"),
    })
    ck.trusted += ["Coq 8.16.1 kernel, vm_compute for model/spec evaluation",
                   "translator /verif/translator gen_imports.go (stdlib table, analysis option defaults)",
                   "python3 (%s) as the reference for import resolution: statements are exec'd in the name space of the importing module "
                   "(__name__, __package__) with the project root first on sys.path; plain modules of the oracle copy carry no imports" % sys.version.split()[0],
                   "hand-written models Deps/Imports.v (module_analyzer.go, reexport_resolver.go, dependency_graph.go) and Deps/Metrics.v "
                   "(coupling_metrics.go, system_analysis_service.go)",
                   "float64: instability compared exactly with the correctly rounded quotient, distance within 1e-12",
                   "tree-sitter parse of the generated statement shapes (not modelled)",
                   "hand-written option-parametrised model Deps/ImportsOpt.v (equal to Deps/Imports.v for the default options: "
                   "AnalyzeFiles_o_default) and Deps/TcGuard.v; hook cmd/pyscn-verif/op_imports_opts.go",
                   "exclude patterns: only plain dotted names are modelled (doublestar.Match without wildcard characters is equality)"]
    ck.finish(assumptions=["one of the marker files of findProjectRoot lies in the directory the analysed files are given relative to "
                           "(first part: requirements.txt in the import root; second part: each marker, also one or two directories above it)",
                           "module files are not named test_*.py; first part: every package directory has an __init__.py",
                           "imported names exist (every module defines fa, fb, fc); a wildcard import takes names from a plain module"])
