#!/bin/bash
# usage: VERIF_REPO=<scratch repo worktree> bash harness/harmless_matrix.sh  (never run against /repo while other work uses it)
cd "$(dirname "$0")/.."
python3 harness/setup.py >/dev/null 2>&1
r() { p=$1; shift; echo "== $p"; python3 harness/try_seed.py harmless/$p.diff "$@" 2>&1 | grep -v conda | cut -c1-400; }
r h01 C03 C01 C02
r h02 C01 C02
r h03 C01 C02
r h04 C01 C02 C03 C04
r h05 C01 C02 C03
r h06 C07 C08
r h07 C07 C08
r h08 C07 C08
r h09 C08 C09
r h10 C08 C09
r h11 C09
r h12 C09
r h13 C10 C05
r h14 C10
r h15 C10
r h16 C10
r h17 C11 C05
r h18 C12
r h19 C12 C06
r h20 C13 C05
r h21 C14 C05
r h22 C15 C16
r h23 C19 C17
r h24 C16 C03 C17
