"""C07 — tree edit distance is the true minimum edit cost (APTEDAnalyzer.ComputeDistance / ComputeSimilarity)."""
import math
import sys
import time

sys.setrecursionlimit(20000)
from fractions import Fraction

import lib
from lib import clist

REQ = ("From Coq Require Import ZArith QArith String List.\nImport ListNotations.\n"
       "From PV Require Import Ted.TedSpec Ted.Cost Ted.CostW Ted.ZS Ted.TedMemo Ted.TedBrute Ted.TedRun Ted.TedRunW.\nOpen Scope string_scope.")

# label alphabet; a tree label is an index into this table (the Coq model sees the same table)
LABELS = ["Name(x)", "Name(y)", "If", "For", "AsyncFor", "FunctionDef(f)", "FunctionDef(g)", "ClassDef(A)", "Decorator",
          "AnnAssign", "BinOp(+)", "UnaryOp(-)", "Constant(1)", "Constant(2)", "Call", "Pass", "x = Field(3)",
          "Generic_Type[T]", "IfExp", "Return",
          # top-level definitions whose name cannot be extracted (no "(" / no ")" after it: apted_cost.go:328)
          "ClassDef", "FunctionDef(h"]
# (name, ignore_literals, ignore_identifiers) -> Coq cmodel / string-level cost model
CONFIGS = [("default", False, False), ("python", False, False), ("weighted", False, False), ("python", True, True)]
TOL = Fraction(1, 10 ** 9)
EXACT_LIMIT = 500


def cb(b):
    return "true" if b else "false"


# A member of the weighted FAMILY NewWeightedCostModel(wi, wd, wr, base) is a config ("w", il, ii, base, wi, wd, wr) with
# base in {"default", "python"} and exact (dyadic) Fractions as weights; il/ii only matter for the python base.
def is_w(cfg):
    return cfg[0] == "w"


def cfg_scale(cfg):
    return 1 if cfg[0] == "default" else 2 ** 120


def small_dyadic(w):
    return w.denominator <= 1024 and w.denominator & (w.denominator - 1) == 0 and w.numerator <= 2 ** 20


def cfg_exact(cfg):
    """float64 arithmetic on these costs is exact for the tree sizes generated: compare with ==, not within 1e-9"""
    return cfg[0] == "default" or (is_w(cfg) and cfg[3] == "default" and all(small_dyadic(w) for w in cfg[4:7]))


def cfg_name(cfg):
    if is_w(cfg):
        return "weighted(ins=%s, del=%s, ren=%s) over %s" % (cfg[4], cfg[5], cfg[6], cfg[3])
    return cfg[0]


def cfg_req(cfg):
    """request fields selecting the cost model in the hook (ops ted/ted_costs resp. ted_w/ted_costs_w)"""
    if is_w(cfg):
        return {"wi": float(cfg[4]), "wd": float(cfg[5]), "wr": float(cfg[6]), "base": cfg[3],
                "ignore_literals": cfg[1], "ignore_identifiers": cfg[2]}
    return {"cost": cfg[0], "ignore_literals": cfg[1], "ignore_identifiers": cfg[2]}


def coq_q(w):
    return "(%d#%d)" % (w.numerator, w.denominator)


def coq_wbase(cfg):
    return "WDefault" if cfg[3] == "default" else "(WPython %s %s)" % (cb(cfg[1]), cb(cfg[2]))


def coq_cm(cfg):
    name, il, ii = cfg[:3]
    if name == "default":
        return "cm_default"
    if name == "w":
        return "(cm_weighted_w %s %s %s %s tbl)" % (coq_q(cfg[4]), coq_q(cfg[5]), coq_q(cfg[6]), coq_wbase(cfg))
    return "(cm_%s %s %s tbl)" % (name, cb(il), cb(ii))


def coq_costs(cfg):
    """Coq term: cost tables of the string-level cost model on [tbl]"""
    name, il, ii = cfg[:3]
    if name == "w":
        return "run_costs_w %s %s %s %s tbl" % (coq_q(cfg[4]), coq_q(cfg[5]), coq_q(cfg[6]), coq_wbase(cfg))
    if name == "default":
        return "run_costs default_scost tbl"
    base = "(python_scost (py_default_cfg %s %s))" % (cb(il), cb(ii))
    return "run_costs %s tbl" % (base if name == "python" else "(weighted_scost %s)" % base)


TBL = "Definition tbl : list string := %s.\n" % clist('"%s"' % l for l in LABELS)


def cm_defs(cfgs, idxs):
    return "".join("Definition cm%d := Eval vm_compute in %s.\n" % (i, coq_cm(cfgs[i])) for i in idxs)


PRELUDE = TBL + cm_defs(CONFIGS, range(len(CONFIGS)))

# weight triples (insert, delete, rename) that are always exercised, with the base model
F = Fraction
W_FIXED = [
    (F(2), F(3, 2), F(1, 2), "default"),        # insert dearer than delete
    (F(2), F(3, 2), F(1, 2), "python"),
    (F(1, 2), F(3), F(1), "python"),            # delete dearer than insert
    (F(1, 2), F(3), F(1), "default"),
    (F(0), F(1), F(1), "default"),              # zero-weight corners: NewWeightedCostModel accepts any float
    (F(1), F(0), F(1), "python"),
    (F(1), F(1), F(0), "default"),
    (F(1, 1024), F(1024), F(1), "python"),      # tiny / huge
    (F(1024), F(1, 1024), F(1, 4), "default"),
    (F(5), F(5), F(1, 8), "python"),            # insert = delete: symmetric member
    (F(1), F(1), F(0.8), "python"),             # the member NewCloneDetector builds
    (F(1), F(1), F(1), "default"),              # identity weights
    (F(1), F(2), F(4), "default"),              # rename never pays
]


def rand_weight(rng):
    k = rng.choice([0, 1, 1, 2, 3, 5, 7, rng.randint(0, 40)])
    return F(k, 2 ** rng.randint(0, 4))


# ------------------------------------------------------------------------------------------------
# trees: (label, [children])
# ------------------------------------------------------------------------------------------------
def size(t):
    n, st = 0, [t]
    while st:
        x = st.pop()
        n += 1
        st.extend(x[1])
    return n


def coq_tree(t):
    return "(Node %d [%s])" % (t[0], "; ".join(coq_tree(c) for c in t[1]))


def json_tree(t):
    return {"l": LABELS[t[0]], "c": [json_tree(c) for c in t[1]]}


def canon(t):
    return (t[0], tuple(canon(c) for c in t[1]))


_shape_cache = {}


def forests_exact(n, labels):
    """all forests with exactly n nodes over the label set (as tuples of trees)"""
    key = (n, tuple(labels))
    if key in _shape_cache:
        return _shape_cache[key]
    if n == 0:
        res = [()]
    else:
        res = []
        for k in range(1, n + 1):
            for t in trees_exact(k, labels):
                for r in forests_exact(n - k, labels):
                    res.append((t,) + r)
    _shape_cache[key] = res
    return res


def trees_exact(n, labels):
    if n == 0:
        return []
    return [(l, list(f)) for f in forests_exact(n - 1, labels) for l in labels]


def trees_upto(n, labels):
    return [t for k in range(1, n + 1) for t in trees_exact(k, labels)]


def rand_tree(rng, n, labels, shape=None):
    """random ordered tree with n nodes: random parent among recent/any earlier nodes"""
    shape = shape or rng.choice(["uniform", "deepish", "wide", "recent"])
    nodes = [(rng.choice(labels), [])]
    for i in range(1, n):
        if shape == "uniform":
            p = rng.randrange(i)
        elif shape == "deepish":
            p = max(0, i - 1 - int(abs(rng.gauss(0, 1.5))))
        elif shape == "wide":
            p = rng.randrange(max(1, min(i, 3)))
        else:
            p = rng.randrange(max(0, i - 4), i)
        nd = (rng.choice(labels), [])
        if rng.random() < 0.25:
            nodes[p][1].insert(rng.randrange(len(nodes[p][1]) + 1), nd)
        else:
            nodes[p][1].append(nd)
        nodes.append(nd)
    return nodes[0]


def path_tree(n, labs):
    t = (labs[(n - 1) % len(labs)], [])
    for i in range(n - 2, -1, -1):
        t = (labs[i % len(labs)], [t])
    return t


def star_tree(n, labs):
    return (labs[0], [(labs[i % len(labs)], []) for i in range(1, n)])


def comb_tree(n, labs, left=True):
    t = (labs[0], [])
    k = 1
    while k < n:
        leaf = (labs[k % len(labs)], [])
        k += 1
        if k < n:
            t = (labs[k % len(labs)], [t, leaf] if left else [leaf, t])
            k += 1
        else:
            t[1].append(leaf)
    return t


def clone(t):
    return (t[0], [clone(c) for c in t[1]])


def mutate(rng, t, k, labels, costs):
    """apply k edit operations touching pairwise distinct nodes; returns (tree, upper bound on the edit cost)"""
    t = clone(t)
    # mutable representation with marks
    class M:
        __slots__ = ("l", "c", "touched")

        def __init__(s, l):
            s.l, s.c, s.touched = l, [], False

    def conv(x):
        m = M(x[0])
        m.c = [conv(c) for c in x[1]]
        return m

    root = conv(t)
    bound = 0.0
    for _ in range(k):
        allnodes, st = [], [(root, None)]
        while st:
            x, p = st.pop()
            allnodes.append((x, p))
            for c in x.c:
                st.append((c, x))
        op = rng.choice(["ren", "del", "ins", "ins", "del"])
        if op == "ren":
            cands = [x for x, p in allnodes if not x.touched]
            if not cands:
                continue
            x = rng.choice(cands)
            nl = rng.choice(labels)
            bound += costs["ren"][x.l][nl]
            x.l, x.touched = nl, True
        elif op == "del":
            cands = [(x, p) for x, p in allnodes if p is not None and not x.touched]
            if not cands:
                continue
            x, p = rng.choice(cands)
            i = p.c.index(x)
            p.c[i:i + 1] = x.c
            bound += costs["del"][x.l]
        else:
            x, p = rng.choice(allnodes)
            nl = rng.choice(labels)
            m = M(nl)
            m.touched = True
            i = rng.randrange(len(x.c) + 1)
            j = rng.randrange(i, len(x.c) + 1) if rng.random() < 0.6 else i
            m.c = x.c[i:j]
            x.c[i:j] = [m]
            bound += costs["ins"][nl]

    def back(m):
        return (m.l, [back(c) for c in m.c])

    return back(root), bound


# ------------------------------------------------------------------------------------------------
# histories: trees built ONCE, then a sequence of calls on ONE analyzer; every argument of a call is (tree index, path to a
# subtree), so a tree and its own subtrees (the same TreeNode objects) appear as arguments of different calls of one history
# ------------------------------------------------------------------------------------------------
def subpaths(t):
    """paths (tuples of child indices) of all nodes of t in pre-order, the root () first"""
    out, st = [], [((), t)]
    while st:
        p, x = st.pop()
        out.append(p)
        for k in range(len(x[1]) - 1, -1, -1):
            st.append((p + (k,), x[1][k]))
    return out


def at(t, p):
    for k in p:
        t = t[1][k]
    return t


def position_class(p):
    if not p:
        return "root"
    if len(p) == 1:
        return "left-most child" if p[0] == 0 else "other child"
    return "deeper, on the left-most path" if not any(p) else "deeper, off the left-most path"


def overlap_class(ra, rb):
    """how the OBJECTS of the two arguments of one call relate"""
    (ta, pa), (tb, pb) = ra, rb
    if ta != tb:
        return "separate objects"
    if pa == pb:
        return "same object"
    if len(pa) > len(pb):
        pa, pb = pb, pa
    if pb[:len(pa)] != pa:
        return "disjoint subtrees of one tree"
    return "descendant on the left-most path" if not any(pb[len(pa):]) else "descendant off the left-most path"


def gen_histories(rng, ncfg, cres, per_cfg, nrandom):
    """[{ci, kind, trees, calls}], calls = [(f, ref a, ref b)], f in d/sim/prep, ref = (tree index, path); tree 0 = T, 1 = X, 2 = a
    separate copy of T.  For every cost model: [per_cfg] trees T, and for EVERY non-root position p of T one history
    f(T,X); g(subtree p, partner); f(T,X) again; ... (partner rotating over the other tree, its subtrees, the copy of the subtree,
    T itself, other subtrees of T, the subtree itself), continued to 3-8 calls; plus [nrandom] unstructured histories per T."""
    hists = []
    partners = ["X", "Xsub", "Csub", "own", "Tsub", "self", "C"]
    for ci in range(ncfg):
        if "error" in cres[ci]:
            continue
        for r_ in range(per_cfg):
            labs = rng.sample(range(len(LABELS)), rng.choice([2, 2, 3]))
            n = rng.randint(5, 12)
            T = rand_tree(rng, n, labs)
            for _ in range(6):
                # usually a tree with an inner node off its left-most path (the subtrees whose numbering differs from T's own)
                if r_ % 4 == 3 or any(any(p) and at(T, p)[1] for p in subpaths(T)):
                    break
                T = rand_tree(rng, n, labs)
            if rng.random() < 0.5:
                X = mutate(rng, T, rng.randint(1, 4), labs, cres[ci])[0]
            else:
                X = rand_tree(rng, rng.randint(5, 12), labs)
            trees = [T, X, clone(T)]
            pT, pX = subpaths(T), subpaths(X)
            pool = [(ti, p) for ti, ps in ((0, pT), (1, pX), (2, pT)) for p in ps]
            root = lambda ti: (ti, ())
            anyref = lambda: root(rng.randrange(3)) if rng.random() < 0.4 else rng.choice(pool)
            fdist = lambda: rng.choice(["d", "d", "sim"])
            flip = lambda f, a, b: (f, a, b) if rng.random() < 0.5 else (f, b, a)
            off = rng.randrange(len(partners))

            def mid(p, kind):
                S = (0, p)
                y = {"X": root(1), "Xsub": (1, rng.choice(pX)), "Csub": (2, p), "own": root(0), "Tsub": (0, rng.choice(pT[1:])),
                     "self": S, "C": root(2)}[kind]
                return flip(fdist(), S, y)

            for k, p in enumerate(pT[1:]):
                first = flip(fdist(), root(0), root(1))
                calls = [first, mid(p, partners[(k + off) % len(partners)]), first]
                want = rng.randint(3, 8)
                while len(calls) < want:
                    t_ = rng.randrange(6)
                    if t_ == 0:
                        calls.append(flip(fdist(), root(0), root(2)))        # T against its identical copy
                    elif t_ == 1:
                        calls.append((first[0], first[2], first[1]))           # the other argument order
                    elif t_ == 2:
                        calls.append((fdist(), root(0), root(0)))               # the same object twice
                    elif t_ == 3:
                        calls.append(mid(rng.choice(pT[1:]), rng.choice(partners)))
                        calls.append(first)
                    elif t_ == 4:
                        calls.append(flip(fdist(), root(1), (0, p)))
                    else:
                        calls.append(("d" if first[0] == "sim" else "sim", first[1], first[2]))
                calls = calls[:8]
                if rng.random() < 0.2:
                    # the clone detector prepares a fragment's tree once when it extracts it
                    calls = ([("prep", root(0), None), ("prep", root(1), None)] + calls)[:8]
                hists.append({"ci": ci, "kind": "history-subtree-at-" + position_class(p), "trees": trees, "calls": calls})
            for _ in range(nrandom):
                calls = []
                for _ in range(rng.randint(3, 8)):
                    f = rng.choice(["d"] * 11 + ["sim"] * 8 + ["prep"])
                    calls.append((f, anyref(), anyref() if f != "prep" else None))
                hists.append({"ci": ci, "kind": "history-random", "trees": trees, "calls": calls})
    return hists


def hist_request(cfg, trees, calls):
    ref = lambda r: None if r is None else {"t": r[0], "p": list(r[1])}
    return dict(cfg_req(cfg), op="ted_seq", trees=[json_tree(t) for t in trees],
                calls=[{"f": f, "a": ref(a), "b": ref(b)} for f, a, b in calls])


# ------------------------------------------------------------------------------------------------
def fr(x):
    return Fraction(x)


def unlimb(l):
    """little-endian base-2^32 limb list -> int; [] -> None"""
    if not l:
        return None
    v = 0
    for k, x in enumerate(l):
        v += x << (32 * k)
    return v


def sim_formula(d, s1, s2):
    """the property's similarity: 1 - min(d, max)/max, clamped to [0,1]"""
    m = max(s1, s2)
    if m == 0:
        return Fraction(1)
    return max(Fraction(0), min(Fraction(1), 1 - min(Fraction(d), m) / m))


def close(a, b, exact):
    if isinstance(a, float) and (math.isnan(a) or math.isinf(a)):
        return False
    return fr(a) == fr(b) if exact else abs(fr(a) - fr(b)) <= TOL


def main(tier):
    ck = lib.Check("C07", tier)
    ck.prepare("C07.v")
    rng = ck.rng
    thorough = tier == "thorough"
    ted_ok = not any(f.startswith("Ted/") or f.startswith("Gen/") for f in getattr(ck, "failed_files", []))
    if not ck.go_ok:
        ck.finish()

    # ---------------- the members of the weighted family exercised in this run -----------------------
    wcfgs = [("w", False, False, base, wi, wd, wr) for (wi, wd, wr, base) in W_FIXED]
    for k in range(40 if thorough else 5):
        wi, wd, wr = rand_weight(rng), rand_weight(rng), rand_weight(rng)
        if k % 2 == 0 and wi == wd:
            wd = wi + F(1, 4)          # make sure asymmetric members dominate
        base = rng.choice(["default", "python", "python"])
        wcfgs.append(("w", base == "python" and rng.random() < 0.3, base == "python" and rng.random() < 0.3, base, wi, wd, wr))
    ALLCFG = list(CONFIGS) + wcfgs
    W0 = len(CONFIGS)

    # ---------------- part 0: the cost tables of the implementation vs the cost model --------------
    t_p0 = time.time()
    cres = lib.driver([dict(cfg_req(c), op="ted_costs_w" if is_w(c) else "ted_costs", labels=LABELS) for c in ALLCFG])
    for c, r in zip(ALLCFG, cres):
        if "error" in r:
            ck.broken_ties.append("ted_costs hook failed for %s: %s" % (c, r["error"]))
    cost_mism = 0
    if ted_ok and not ck.broken_ties:
        try:
            chunks = [list(range(k, len(ALLCFG), 6)) for k in range(6)]
            outs = lib.coq_eval_many([("C07_costs_%d" % k, REQ, TBL + "".join(
                "Eval vm_compute in %s.\n" % coq_costs(ALLCFG[i]) for i in ch)) for k, ch in enumerate(chunks)], workers=6)
            vals = [None] * len(ALLCFG)
            for ch, out in zip(chunks, outs):
                for i, v in zip(ch, lib.parse_coq_values(out)):
                    vals[i] = v
            for c, r, v in zip(ALLCFG, cres, vals):
                (mdel, mins, mren), exact = v[:3], v[3]
                q = lambda p: Fraction(unlimb(p[0]) or 0, unlimb(p[1]))
                if not exact:
                    ck.broken_ties.append("cost model %s: a cost is not a multiple of 2^-120" % (c,))
                # relative tolerance: the huge-weight members have costs around 1e3
                tol = lambda x: Fraction(1, 10 ** 12) * max(1, abs(x))
                for i in range(len(LABELS)):
                    bad = abs(fr(r["del"][i]) - q(mdel[i])) > tol(q(mdel[i])) or abs(fr(r["ins"][i]) - q(mins[i])) > tol(q(mins[i]))
                    for j in range(len(LABELS)):
                        bad = bad or abs(fr(r["ren"][i][j]) - q(mren[i][j])) > tol(q(mren[i][j]))
                    if bad:
                        cost_mism += 1
                        if cost_mism <= 3:
                            ck.broken_ties.append("cost model %s differs from Ted/Cost.v on label %r: impl del=%s ins=%s ren=%s" % (
                                c, LABELS[i], r["del"][i], r["ins"][i], r["ren"][i]))
        except Exception as e:
            ck.broken_ties.append("cost model evaluation failed: %s" % str(e)[-600:])
    lib.log("C07: cost tables of %d cost models in %.1fs" % (len(ALLCFG), time.time() - t_p0))
    # preconditions of the clauses, on the implementation's own tables
    sym_ok = {}
    for ci, (c, r) in enumerate(zip(ALLCFG, cres)):
        if "error" in r:
            sym_ok[ci] = False
            continue
        n = len(LABELS)
        sym_ok[ci] = all(r["del"][i] == r["ins"][i] for i in range(n)) and all(
            r["ren"][i][j] == r["ren"][j][i] for i in range(n) for j in range(n))
        if any(r["ren"][i][i] != 0 for i in range(n)) or any(x < 0 for x in r["del"] + r["ins"]):
            ck.violation("cost model %s: rename(l,l) != 0 or negative cost" % (c,), {"kind": "costs", "config": c, "impl": r})

    # ---------------- cases ---------------------------------------------------------------------------
    cases = []   # dict(kind, cfg index, a, b, brute, bound)

    def add(kind, ci, a, b, brute=False, bound=None, coq=True):
        lite = max(size(a), size(b)) > 50
        cases.append({"kind": kind, "ci": ci, "a": a, "b": b, "brute": brute, "bound": bound, "coq": coq, "lite": lite})

    # A. small-scope exhaustive: all ordered pairs of trees with <= 4 nodes over 2 labels
    pairs2 = [(0, 1), (8, 5), (2, 4), (0, 2), (5, 6), (12, 13), (9, 14), (3, 4), (16, 15), (10, 11)]
    for ci in range(3):
        labs = list(pairs2[ci]) if ci < 2 else [0, 2]
        T4 = trees_upto(4, labs)
        allp = [(a, b) for a in T4 for b in T4]
        if not thorough and ci > 0:
            allp = rng.sample(allp, 1200)
        for k, (a, b) in enumerate(allp):
            add("exhaustive<=4", ci, a, b, brute=(k % (3 if thorough else 9) == 0))
    # other 2-label alphabets and 5-node trees: sampled (quick) / far more (thorough)
    for _ in range(6000 if thorough else 900):
        ci = rng.randrange(len(CONFIGS))
        labs = list(rng.choice(pairs2))
        T = trees_upto(4, labs)
        add("exhaustive<=4-sampled", ci, rng.choice(T), rng.choice(T), brute=rng.random() < 0.2)
    T5 = {}
    for _ in range(40000 if thorough else 1000):
        ci = rng.randrange(len(CONFIGS))
        labs = tuple(rng.choice(pairs2))
        if labs not in T5:
            T5[labs] = trees_upto(5, list(labs))
        add("trees<=5", ci, rng.choice(T5[labs]), rng.choice(T5[labs]))
    if thorough:   # every ordered pair with <= 5 nodes for the default model
        T = trees_upto(5, [0, 1])
        for a in T:
            for b in T:
                if size(a) == 5 or size(b) == 5:
                    add("exhaustive=5", 0, a, b)

    # B. random trees with small mutual distance
    nmax = 120 if thorough else 40
    nrand = 2500 if thorough else 330
    for k in range(nrand):
        ci = rng.randrange(len(CONFIGS)) if k % 3 else rng.randrange(3)
        labs = rng.sample(range(len(LABELS)), rng.choice([1, 2, 3, 5, 8]))
        n = rng.choice([1, 2, 3, 5, 8, 13, 20, 30, 40, rng.randint(1, 40)])
        if thorough and k % 30 == 0:
            n = rng.randint(60, nmax)
        a = rand_tree(rng, n, labs)
        kind = rng.choice(["identical", "relabel", "mutate", "mutate", "mutate", "independent", "subtree"])
        bound = None
        costs = cres[ci] if "error" not in cres[ci] else None
        if kind == "identical":
            b = clone(a)
        elif kind == "independent":
            b = rand_tree(rng, rng.randint(1, max(1, min(nmax, n + 6))), labs)
        elif kind == "subtree":
            st, allc = [a], []
            while st:
                x = st.pop()
                allc.append(x)
                st.extend(x[1])
            b = clone(rng.choice(allc))
        else:
            nops = rng.randint(1, 2) if kind == "relabel" else rng.randint(1, 6)
            b, bound = mutate(rng, a, nops, labs + [rng.randrange(len(LABELS))], costs) if costs else (clone(a), None)
        if rng.random() < 0.5:
            a, b = b, a
        add("random-" + kind, ci, a, b, bound=bound)
    # C. very deep / very wide / comb shapes within the exact range
    shapes = []
    for n in ([5, 17, 28] if not thorough else [5, 17, 28, 50]):
        labs = rng.sample(range(len(LABELS)), 3)
        shapes += [path_tree(n, labs), star_tree(n, labs), comb_tree(n, labs, True), comb_tree(n, labs, False)]
    for a in shapes:
        for _ in range(3 if not thorough else 6):
            ci = rng.randrange(len(CONFIGS))
            costs = cres[ci]
            if rng.random() < 0.5 and "error" not in costs:
                b, bound = mutate(rng, a, rng.randint(1, 4), list(range(len(LABELS))), costs)
            else:
                b, bound = rng.choice(shapes), None
            if size(b) * size(a) <= 2000 or thorough:
                add("shape", ci, a, b, bound=bound)
    # D. up to the documented limit (500 nodes): clauses on the implementation only (no Coq evaluation)
    # (the implementation allocates a fresh (i+2)x(j+2) table per pair of key roots: only shapes with few key roots are affordable)
    for n in ([120, 499, 500] if not thorough else [120, 200, 499, 500, 500]):
        ci = rng.randrange(3)
        costs = cres[ci]
        labs = rng.sample(range(len(LABELS)), 4)
        a = rand_tree(rng, n, labs, shape="deepish") if n <= 200 else path_tree(n, labs)
        if "error" in costs:
            continue
        b, bound = mutate(rng, a, 3, labs, costs)
        while size(b) > EXACT_LIMIT:
            b, bound = mutate(rng, a, 3, labs, costs)
        add("limit", ci, a, b, bound=bound, coq=False)

    # W. the weighted family with arbitrary (mostly asymmetric) weights: the two directions d(a,b), d(b,a) differ, so every
    #    pair is taken with the larger tree first, the smaller tree first and with equal sizes, in both argument orders.
    #    One case decides BOTH directions (d, sim, d_ba, sim_ba on one analyzer, d(b,a) again on a fresh analyzer and fresh
    #    objects, each against its own spec value), so the exhaustive part enumerates unordered pairs.
    sized = {}

    def trees_of(labs, n):
        key = (tuple(labs), n)
        if key not in sized:
            sized[key] = trees_exact(n, list(labs))
        return sized[key]

    n_wpairs = 0
    for wi_, cfg in enumerate(wcfgs):
        ci = W0 + wi_
        if "error" in cres[ci]:
            continue
        # exhaustive: all ordered pairs of trees with <= 3 nodes over 2 labels (the first members in quick, all in thorough)
        if wi_ < 2 or thorough:
            labs = list(pairs2[wi_ % len(pairs2)])
            T = trees_upto(3, labs)
            for k, a in enumerate(T):
                for k2, b in enumerate(T):
                    if k2 >= k or thorough:
                        add("w-exhaustive<=3", ci, b, a, brute=((k * len(T) + k2) % (4 if thorough else 8) == 0))
        # size classes: (larger, smaller) in both orders, and equal sizes
        for k in range(60 if thorough else 22):
            labs = rng.choice(pairs2)
            hi = rng.choice([2, 3, 3, 4, 4, 4, 5])
            lo = rng.randint(1, hi - 1)
            a, b = rng.choice(trees_of(labs, hi)), rng.choice(trees_of(labs, lo))
            brute = hi <= 4 and rng.random() < 0.15
            if k % 2 == 0 or thorough:
                add("w-larger-first", ci, a, b, brute=brute)
            if k % 2 == 1 or thorough:
                add("w-smaller-first", ci, b, a, brute=brute)
            n_wpairs += 1
            if k % 3 == 0:
                add("w-equal-size", ci, a, rng.choice(trees_of(labs, hi)))
        # random larger trees and k-edit mutations with a known cost bound (the bound holds in the direction of the edits only)
        for k in range(12 if thorough else 4):
            labs = rng.sample(range(len(LABELS)), rng.choice([2, 3, 5]))
            n = rng.choice([3, 6, 9, 14, 20])
            a = rand_tree(rng, n, labs)
            if k % 2 == 0:
                b, bound = mutate(rng, a, rng.randint(1, 5), labs + [rng.randrange(len(LABELS))], cres[ci])
            else:
                b, bound = rand_tree(rng, rng.randint(1, n + 4), labs), None
            add("w-random", ci, a, b, bound=bound)
            if thorough:
                add("w-random", ci, b, a)

    # H. histories: the TreeNode objects are built once and shared by all calls of a history (as the fragments of the clone detector
    #    are shared by all pairs they take part in); a tree and its own subtrees are arguments of different calls. EVERY result is
    #    decided against the spec of the two (sub)trees of that call alone: a result must not depend on the calls made before it.
    hists = gen_histories(rng, len(ALLCFG), cres, 6 if thorough else 2, 6 if thorough else 2)
    hpairs, hkey = [], {}

    def pair_key(ci, a, b):
        """spec evaluations are shared between calls; a weighted-family evaluation decides both directions"""
        ca, cb = canon(a), canon(b)
        sw = ci >= W0 and cb < ca
        return (ci, cb, ca) if sw else (ci, ca, cb), sw

    for h in hists:
        for f, ra, rb in h["calls"]:
            if f == "prep":
                continue
            a, b = at(h["trees"][ra[0]], ra[1]), at(h["trees"][rb[0]], rb[1])
            key, sw = pair_key(h["ci"], a, b)
            if key not in hkey:
                hkey[key] = len(hpairs)
                hpairs.append({"kind": "history-pair", "ci": h["ci"], "a": b if sw else a, "b": a if sw else b, "brute": False,
                               "bound": None, "coq": True, "lite": False})

    # ---------------- implementation ------------------------------------------------------------------
    reqs = [dict(cfg_req(ALLCFG[c["ci"]]), op="ted_w" if is_w(ALLCFG[c["ci"]]) else "ted", lite=c["lite"],
                 t1=json_tree(c["a"]), t2=json_tree(c["b"])) for c in cases]
    t_impl = time.time()
    impl = lib.driver(reqs, timeout=1200 if thorough else 400)
    lib.log("C07: %d cases on the implementation in %.1fs" % (len(reqs), time.time() - t_impl))
    t_impl = time.time()
    himpl = lib.driver([hist_request(ALLCFG[h["ci"]], h["trees"], h["calls"]) for h in hists], timeout=600)
    lib.log("C07: %d histories (%d calls, %d distinct pairs of (sub)trees) on the implementation in %.1fs" % (
        len(hists), sum(len(h["calls"]) for h in hists), len(hpairs), time.time() - t_impl))

    # E. above the limit: only the similarity-range / identical-trees clauses apply
    big = []
    sizes = ((501, 501), (640, 600), (1200, 1100), (2001, 2050), (3000, 3000), (700, 90)) if thorough else ((501, 501), (1200, 1100), (3000, 3000), (700, 90))
    for kind in ("path", "star", "comb", "binary"):
        for n1, n2 in sizes:
            if kind == "binary" and n1 > 1300:
                continue
            for cname in (("default", "python") if thorough else (rng.choice(["default", "python", "weighted"]),)):
                big.append({"op": "ted", "cost": cname, "lite": not (thorough or (kind == "path" and n1 == 501)),
                            "shape": {"Kind1": kind, "N1": n1, "Labels1": ["If", "Name(x)", "Call"],
                                      "Kind2": rng.choice(["path", "star", "comb"]), "N2": n2, "Labels2": ["For", "Name(x)", "Pass", "Return"]}})
    # cheap costs: the optimized path gets past its early cut-off (cost > half the larger size) only with cheap nodes
    cheap1, cheap2 = ["Decorator", "AnnAssign", "x = Field(3)"], ["Call", "BinOp(+)", "UnaryOp(-)"]
    for kind, n1, n2 in (("star", 1000, 600),) + ((("comb", 640, 600), ("binary", 900, 560), ("path", 501, 480)) if thorough else ()):
        big.append({"op": "ted", "cost": "python", "lite": True,
                    "shape": {"Kind1": kind, "N1": n1, "Labels1": cheap1, "Kind2": rng.choice(["star", "comb"]), "N2": n2, "Labels2": cheap2}})
    wbig = [c for c in wcfgs if c[4] != c[5]]
    for kind, n1, n2 in (("path", 501, 300), ("star", 700, 640), ("comb", 520, 760)) + ((("binary", 800, 700), ("star", 2100, 2050)) if thorough else ()):
        kinds2 = ["path", "star", "comb"] if thorough or kind != "comb" else ["path", "star"]
        c = rng.choice(wbig)
        big.append(dict(cfg_req(c), op="ted_w", lite=True,
                        shape={"Kind1": kind, "N1": n1, "Labels1": ["If", "Name(x)", "Decorator"],
                               "Kind2": rng.choice(kinds2), "N2": n2, "Labels2": ["For", "Name(x)", "Pass", "AnnAssign"]}))
        # tiny weights: no early cut-off at all, the whole optimized computation runs
        big.append(dict(cfg_req(("w", False, False, rng.choice(["default", "python"]), F(1, 64), F(1, 16), F(1, 32))), op="ted_w", lite=True,
                        shape={"Kind1": kind, "N1": n1, "Labels1": ["If", "Name(x)", "Call"],
                               "Kind2": rng.choice(kinds2), "N2": n2, "Labels2": ["For", "Name(x)", "Pass", "Return"]}))
    # moderate weights on two paths without a common label (one key root each, nothing truncated): delete-all and insert-all are
    # each below half the larger size, together above it, so the cut-off strikes inside the main loop (apted.go:253)
    big.append(dict(cfg_req(("w", False, False, "default", F(3, 4), F(7, 16), F(1))), op="ted_w", lite=True,
                    shape={"Kind1": "path", "N1": 501, "Labels1": ["If", "Name(x)", "Call"], "Kind2": "path", "N2": 300, "Labels2": ["For", "Pass", "Return"]}))
    t_big = time.time()
    bimpl = lib.driver(big, timeout=600)
    lib.log("C07: %d pairs above the exact limit in %.1fs" % (len(big), time.time() - t_big))
    nbig = 0
    for rq, r in zip(big, bimpl):
        nbig += 1
        if "error" in r:
            ck.violation("ComputeDistance/ComputeSimilarity crashed on trees above the exact limit: %s" % r["error"], {"kind": "big", "request": rq, "impl": r})
            continue
        for k_ in ("sim_ba", "sim_bb", "sim_copy_a"):
            r.setdefault(k_, 1)
        bad = [k for k in ("sim", "sim_ba", "sim_aa", "sim_bb", "sim_copy_a") if not (isinstance(r[k], (int, float)) and 0 <= r[k] <= 1)]
        if bad:
            ck.violation("similarity outside [0,1] above the exact limit: %s" % {k: r[k] for k in bad}, {"kind": "big", "request": rq, "impl": r})
        elif r["sim_aa"] != 1 or r["sim_bb"] != 1 or r["sim_copy_a"] != 1:
            ck.violation("identical trees (size %s) do not have similarity 1: sim_aa=%s sim_bb=%s sim_copy=%s" % (
                r["size1"], r["sim_aa"], r["sim_bb"], r["sim_copy_a"]), {"kind": "big", "request": rq, "impl": r})

    # ---------------- model and spec in Coq -----------------------------------------------------------
    allc = cases + hpairs   # the pairs of (sub)trees of the history calls are evaluated with the cases
    model = [None] * len(allc)
    if ted_ok:
        idx = [i for i, c in enumerate(allc) if c["coq"] and c["ci"] < W0]
        widx = [i for i, c in enumerate(allc) if c["coq"] and c["ci"] >= W0]
        # balance shards by estimated work
        def work(c):
            # the memoised spec uses the leftmost decomposition only: left-deep shapes cost up to O(n^4)
            return ((size(c["a"]) * size(c["b"])) ** 2 / 1000.0 * (6 if c["kind"] == "shape" else 1) + 4 + (3 if c["brute"] else 0)) * (2.5 if c["ci"] else 1)
        idx.sort(key=lambda i: -work(allc[i]))
        nsh = 26 if not thorough else 84
        shards = [[] for _ in range(nsh)]
        load = [0.0] * nsh
        for i in idx:
            k = load.index(min(load))
            shards[k].append(i)
            load[k] += work(allc[i])
        jobs = []
        for k, sh in enumerate(shards):
            items = ["%s cm%d %s %s" % ("run_ted_brute" if allc[i]["brute"] else "run_ted", allc[i]["ci"],
                                       coq_tree(allc[i]["a"]), coq_tree(allc[i]["b"])) for i in sh]
            jobs.append(("C07_cases_%d" % k, REQ, PRELUDE + "Eval vm_compute in %s.\n" % clist(items)))
        # the weighted family: whole members per shard (each shard tabulates only the members it evaluates)
        nwsh = 8 if not thorough else 28
        wshards = [[] for _ in range(nwsh)]
        wload = [0.0] * nwsh
        bycfg = {}
        for i in widx:
            bycfg.setdefault(allc[i]["ci"], []).append(i)
        for ci_, grp in sorted(bycfg.items(), key=lambda kv: -sum(work(allc[i]) for i in kv[1])):
            for part in ([grp[:len(grp) // 2], grp[len(grp) // 2:]] if len(grp) > 300 else [grp]):
                k = wload.index(min(wload))
                wshards[k].extend(part)
                wload[k] += 2 * sum(work(allc[i]) for i in part) + 150
        for k, sh in enumerate(wshards):
            items = ["%s cm%d %s %s" % ("run_ted_w_brute" if allc[i]["brute"] else "run_ted_w", allc[i]["ci"],
                                       coq_tree(allc[i]["a"]), coq_tree(allc[i]["b"])) for i in sh]
            jobs.append(("C07_wcases_%d" % k, REQ, TBL + cm_defs(ALLCFG, sorted(set(allc[i]["ci"] for i in sh))) +
                         "Eval vm_compute in %s.\n" % clist(items)))
        shards = shards + wshards
        idx = idx + widx
        try:
            t_coq = time.time()
            outs = lib.coq_eval_many(jobs, workers=14)
            lib.log("C07: %d cases in Coq (%d shards) in %.1fs" % (len(idx), len(jobs), time.time() - t_coq))
            for sh, out in zip(shards, outs):
                vals = lib.parse_coq_values(out)[0] if sh else []
                for i, v in zip(sh, vals):
                    model[i] = v
        except Exception as e:
            ck.broken_ties.append("model/spec evaluation failed: %s" % str(e)[-800:])

    # ---------------- decide per case -------------------------------------------------------------------
    nviol = {"spec": 0, "clause": 0, "tie": 0}
    dists = set()
    kinds = {}
    nontrivial = 0
    n_brute = 0
    for i, (c, r) in enumerate(zip(cases, impl)):
        kinds[c["kind"]] = kinds.get(c["kind"], 0) + 1
        cfg = ALLCFG[c["ci"]]
        exact = cfg_exact(cfg)
        scale = cfg_scale(cfg)
        wcase = is_w(cfg)
        rep = {"kind": c["kind"], "cost_model": cfg_name(cfg), "ignore_literals": cfg[1], "ignore_identifiers": cfg[2],
               "t1": json_tree(c["a"]), "t2": json_tree(c["b"]), "impl": r}
        if wcase:
            rep["hook_request"] = dict(cfg_req(cfg), op="ted_w")
        if "error" in r:
            ck.violation("ComputeDistance crashed: %s" % r["error"], rep)
            continue
        d = r["d"]
        if any(isinstance(r[k], float) and (math.isnan(r[k]) or math.isinf(r[k])) for k in r):
            ck.violation("non-finite distance or similarity", rep)
            continue
        dists.add((cfg_name(cfg), d))
        if d > 0:
            nontrivial += 1
        # --- the clauses of the property, on the implementation alone
        bad = None
        if c["lite"]:
            for k_, v_ in (("d_aa", 0), ("d_bb", 0), ("d_copy_a", 0), ("d_copy_b", 0), ("d_again", d), ("sim_ba", r["sim"]),
                           ("sim_bb", 1), ("sim_copy_a", 1)):
                r.setdefault(k_, v_)
        if r["d_aa"] != 0 or r["d_bb"] != 0 or r["d_copy_a"] != 0 or r["d_copy_b"] != 0:
            bad = "a tree is not at distance 0 from itself: d(a,a)=%s d(b,b)=%s d(a,copy a)=%s d(copy b,b)=%s" % (
                r["d_aa"], r["d_bb"], r["d_copy_a"], r["d_copy_b"])
        elif canon(c["a"]) == canon(c["b"]) and d != 0:
            bad = "identical trees at distance %s" % d
        elif sym_ok.get(c["ci"]) and not close(r["d_ba"], d, exact):
            bad = "distance not symmetric under a symmetric cost model: d(a,b)=%s d(b,a)=%s" % (d, r["d_ba"])
        elif r["d_again"] != d:
            bad = "distance depends on earlier computations: first %s, again %s" % (d, r["d_again"])
        elif fr(d) > fr(r["del_all_a"]) + fr(r["ins_all_b"]) + TOL:
            bad = "distance %s exceeds delete-all + insert-all = %s + %s" % (d, r["del_all_a"], r["ins_all_b"])
        elif d < 0:
            bad = "negative distance %s" % d
        elif not (0 <= r["sim"] <= 1 and 0 <= r["sim_ba"] <= 1):
            bad = "similarity outside [0,1]: %s" % r["sim"]
        elif r["sim_aa"] != 1 or r["sim_bb"] != 1 or r["sim_copy_a"] != 1:
            bad = "identical trees do not have similarity 1: %s %s %s" % (r["sim_aa"], r["sim_bb"], r["sim_copy_a"])
        elif r["d_nil_nil"] != 0 or r["sim_nil_nil"] != 1 or r["sim_a_nil"] != 0:
            bad = "nil cases: d(nil,nil)=%s sim(nil,nil)=%s sim(a,nil)=%s" % (r["d_nil_nil"], r["sim_nil_nil"], r["sim_a_nil"])
        elif c["bound"] is not None and fr(d) > fr(c["bound"]) + TOL:
            bad = "distance %s exceeds the cost %s of the edit operations that produced the second tree (so it is not the minimum)" % (d, c["bound"])
        elif d == 0 and not (cfg[1] or cfg[2]) and not (wcase and min(cfg[4:7]) == 0) and canon(c["a"]) != canon(c["b"]):
            bad = "different trees at distance 0 although every edit operation has a positive cost"
        elif cfg[0] == "default" and d < abs(size(c["a"]) - size(c["b"])):
            bad = "distance %s below the size difference under unit costs" % d
        elif wcase and cfg[3] == "default" and fr(d) < (cfg[5] * (size(c["a"]) - size(c["b"])) if size(c["a"]) > size(c["b"])
                                                       else cfg[4] * (size(c["b"]) - size(c["a"]))):
            # every mapping deletes at least |a|-|b| nodes (resp. inserts at least |b|-|a|), each at the delete (insert) weight
            bad = "distance %s below (delete weight x surplus nodes of the first tree) resp. (insert weight x surplus nodes of the second)" % d
        elif wcase and fr(r["d_ba"]) > fr(r["del_all_b"]) + fr(r["ins_all_a"]) + TOL:
            bad = "distance d(b,a)=%s exceeds delete-all + insert-all = %s + %s" % (r["d_ba"], r["del_all_b"], r["ins_all_a"])
        elif wcase and "d_ba_fresh" in r and r["d_ba_fresh"] != r["d_ba"]:
            bad = "d(b,a) depends on earlier computations / object identity: %s vs %s on a fresh analyzer" % (r["d_ba"], r["d_ba_fresh"])
        if bad:
            nviol["clause"] += 1
            if nviol["clause"] <= 3:
                ck.violation(bad, rep)
            continue
        m = model[i]
        if m is None:
            continue
        mv = [unlimb(x) for x in m]
        spec_d, del_a, ins_b = (Fraction(mv[k], scale) for k in (0, 2, 3))
        model_d = Fraction(mv[1], scale) if mv[1] is not None else None
        spec_sim = sim_formula(spec_d, size(c["a"]), size(c["b"]))
        if mv[5] != size(c["a"]) or mv[6] != size(c["b"]):
            ck.broken_ties.append("tree transmitted to Coq has another size (%s %s) on %s" % (mv[5], mv[6], rep))
        rep["spec_distance"] = str(spec_d)
        rep["model_distance"] = str(model_d)
        # --- implementation vs the spec: this decides the property
        if not close(d, spec_d, exact):
            nviol["spec"] += 1
            if nviol["spec"] <= 3:
                ck.violation("distance %s is not the minimum edit cost %s (= %.12g) [%s cost model, %d and %d nodes]" % (
                    d, spec_d, float(spec_d), cfg_name(cfg), size(c["a"]), size(c["b"])), rep)
            continue
        if abs(fr(r["sim"]) - spec_sim) > TOL:
            nviol["spec"] += 1
            if nviol["spec"] <= 3:
                ck.violation("similarity %s differs from 1 - min(d,max)/max = %s" % (r["sim"], spec_sim), rep)
            continue
        if not close(r["del_all_a"], del_a, exact) or not close(r["ins_all_b"], ins_b, exact):
            nviol["spec"] += 1
            if nviol["spec"] <= 3:
                ck.violation("distance to the nil tree %s/%s is not delete-all/insert-all %s/%s" % (r["del_all_a"], r["ins_all_b"], del_a, ins_b), rep)
            continue
        if wcase:
            # the opposite direction d(b,a): another number when insert weight <> delete weight
            spec_ba, del_b, ins_a = (Fraction(mv[k], scale) for k in (7, 9, 10))
            model_ba = Fraction(mv[8], scale) if mv[8] is not None else None
            rep["spec_distance_b_to_a"] = str(spec_ba)
            if not close(r["d_ba"], spec_ba, exact):
                nviol["spec"] += 1
                if nviol["spec"] <= 3:
                    ck.violation("distance d(b,a)=%s is not the minimum edit cost %s (= %.12g) [%s cost model, %d and %d nodes]" % (
                        r["d_ba"], spec_ba, float(spec_ba), cfg_name(cfg), size(c["b"]), size(c["a"])), rep)
                continue
            if abs(fr(r["sim_ba"]) - sim_formula(spec_ba, size(c["a"]), size(c["b"]))) > TOL:
                nviol["spec"] += 1
                if nviol["spec"] <= 3:
                    ck.violation("similarity(b,a) %s differs from 1 - min(d,max)/max = %s" % (r["sim_ba"], sim_formula(spec_ba, size(c["a"]), size(c["b"]))), rep)
                continue
            if not close(r["del_all_b"], del_b, exact) or not close(r["ins_all_a"], ins_a, exact):
                nviol["spec"] += 1
                if nviol["spec"] <= 3:
                    ck.violation("distance to the nil tree %s/%s is not delete-all/insert-all %s/%s" % (r["del_all_b"], r["ins_all_a"], del_b, ins_a), rep)
                continue
            if model_ba != spec_ba:
                nviol["tie"] += 1
                if nviol["tie"] <= 3:
                    ck.broken_ties.append("model Ted/ZS.v gives %s, spec %s, implementation %s for d(b,a) on %s" % (model_ba, spec_ba, r["d_ba"], rep))
        if c["brute"]:
            n_brute += 1
            bi = 11 if wcase else 7
            if Fraction(mv[bi], scale) != spec_d or (wcase and Fraction(mv[12], scale) != spec_ba):
                ck.broken_ties.append("spec delta %s differs from the brute-force minimum over mappings %s on %s" % (spec_d, Fraction(mv[bi], scale), rep))
        # --- implementation vs the code model: the tie
        if model_d != spec_d or mv[4] != 1:
            nviol["tie"] += 1
            if nviol["tie"] <= 3:
                ck.broken_ties.append("model Ted/ZS.v gives %s, spec %s, implementation %s on %s" % (model_d, spec_d, d, rep))

    # ---------------- decide per history: every call against the spec of ITS OWN two (sub)trees ---------------
    hexp = {}
    for key, k in hkey.items():
        m = model[len(cases) + k]
        if m is None:
            continue
        mv = [unlimb(x) for x in m]
        scale = cfg_scale(ALLCFG[key[0]])
        c = hpairs[k]
        e = {"ab": Fraction(mv[0], scale)}
        bad_tie = mv[5] != size(c["a"]) or mv[6] != size(c["b"]) or mv[1] is None or Fraction(mv[1], scale) != e["ab"] or mv[4] != 1
        if key[0] >= W0:
            e["ba"] = Fraction(mv[7], scale)
            bad_tie = bad_tie or mv[8] is None or Fraction(mv[8], scale) != e["ba"]
        if bad_tie:
            nviol["tie"] += 1
            if nviol["tie"] <= 3:
                ck.broken_ties.append("model Ted/ZS.v differs from the spec (or the tree was transmitted wrongly) on the history pair %s %s [%s]: %s" % (
                    json_tree(c["a"]), json_tree(c["b"]), cfg_name(ALLCFG[key[0]]), mv))
        hexp[key] = e

    def h_args(h, call):
        return at(h["trees"][call[1][0]], call[1][1]), at(h["trees"][call[2][0]], call[2][1])

    def h_expected(h, call):
        """spec value of one call: the two (sub)trees evaluated on their own, whatever was called before"""
        a, b = h_args(h, call)
        key, sw = pair_key(h["ci"], a, b)
        e = hexp.get(key)
        if e is None:
            return None
        d = e["ba"] if sw else e["ab"]
        return d if call[0] == "d" else sim_formula(d, size(a), size(b))

    def h_ref(r):
        return "tree %d" % r[0] if not r[1] else "the subtree of tree %d at %s" % (r[0], list(r[1]))

    def h_judge(h, call, res):
        """(failure class, message) or None for one result of a history"""
        f = call[0]
        if f == "prep":
            return ("crash", "PrepareTreeForAPTED(%s) crashed: %s" % (h_ref(call[1]), res["error"])) if "error" in res else None
        what = "%s(%s, %s)" % ("ComputeDistance" if f == "d" else "ComputeSimilarity", h_ref(call[1]), h_ref(call[2]))
        if "error" in res:
            return ("not-minimum-or-index-panic" if "index out of range" in res["error"] else "crash", "%s crashed: %s" % (what, res["error"]))
        v = res.get("v")
        if not isinstance(v, (int, float)):
            return ("crash", "%s returned %r" % (what, res))
        a, b = h_args(h, call)
        if f == "sim" and not 0 <= v <= 1:
            return ("range", "%s = %s is outside [0,1]" % (what, v))
        if f == "d" and v < 0:
            return ("range", "%s = %s is negative" % (what, v))
        cfg = ALLCFG[h["ci"]]
        exp = h_expected(h, call)
        if canon(a) == canon(b) and v != (0 if f == "d" else 1):
            return ("identity", "%s = %s although the two arguments are %s" % (what, v, "the same object" if call[1] == call[2] else "identical trees"))
        if exp is None:
            return None
        if not (close(v, exp, cfg_exact(cfg)) if f == "d" else abs(fr(v) - exp) <= TOL):
            return ("not-minimum-or-index-panic", "%s = %s, but %s of these two trees (%d and %d nodes) is %s (= %.12g) [%s cost model]" % (
                what, v, "the minimum edit cost" if f == "d" else "1 - min(d,max)/max for the minimum edit cost d", size(a), size(b), exp, float(exp), cfg_name(cfg)))
        return None

    def h_tags(call, cls):
        return {"stream": "history", "arguments": overlap_class(call[1], call[2]) if call[0] != "prep" else "one", "failure": cls}

    def h_first_bad(h, calls, results):
        for k, (c_, r_) in enumerate(zip(calls, results)):
            j = h_judge(h, c_, r_)
            if j and not ck.match_known(h_tags(c_, j[0])):
                return k, j
        return None

    def h_shrink(h, k, results):
        """shortest failing prefix, then calls in front of the failing one are dropped as long as the last call still fails"""
        cur, res = h["calls"][:k + 1], results[:k + 1]
        while len(cur) > 1:
            cands = [cur[:i] + cur[i + 1:] for i in range(len(cur) - 1)]
            try:
                outs = lib.driver([hist_request(ALLCFG[h["ci"]], h["trees"], cs) for cs in cands], timeout=120)
            except Exception:
                break
            nxt = None
            for cs, o in zip(cands, outs):
                rs = o.get("results") or []
                fb = h_first_bad(h, cs, rs) if len(rs) == len(cs) else None
                if fb is not None:
                    nxt = (cs[:fb[0] + 1], rs[:fb[0] + 1])
                    break
            if nxt is None:
                break
            cur, res = nxt
        return cur, res

    hstat = {"histories": len(hists), "calls": 0, "distance": 0, "similarity": 0, "prepare": 0, "decided_against_spec": 0,
             "same_call_again_after_a_subtree_call": 0, "known_finding_calls": 0, "objects": {}, "subtree_argument_position": {}}
    nviol["history"] = 0
    for h, r in zip(hists, himpl):
        kinds[h["kind"]] = kinds.get(h["kind"], 0) + 1
        results = r.get("results")
        if "error" in r or not isinstance(results, list) or len(results) != len(h["calls"]):
            ck.broken_ties.append("ted_seq hook failed: %s" % str(r)[:300])
            continue
        for k, (call, res) in enumerate(zip(h["calls"], results)):
            hstat["calls"] += 1
            hstat[{"d": "distance", "sim": "similarity", "prep": "prepare"}[call[0]]] += 1
            for ref in call[1:]:
                if ref is not None and ref[1]:
                    pc = position_class(ref[1])
                    hstat["subtree_argument_position"][pc] = hstat["subtree_argument_position"].get(pc, 0) + 1
            if call[0] != "prep":
                oc = overlap_class(call[1], call[2])
                hstat["objects"][oc] = hstat["objects"].get(oc, 0) + 1
                if h_expected(h, call) is not None:
                    hstat["decided_against_spec"] += 1
                if "v" in res:
                    dists.add((cfg_name(ALLCFG[h["ci"]]), call[0], res["v"]))
                prev = [i for i in range(k) if h["calls"][i] == call]
                if prev and any(c_[1][1] or (c_[2] is not None and c_[2][1]) for c_ in h["calls"][prev[-1] + 1:k]):
                    hstat["same_call_again_after_a_subtree_call"] += 1
            j = h_judge(h, call, res)
            if j is None:
                continue
            e = ck.match_known(h_tags(call, j[0]))
            if e:
                hstat["known_finding_calls"] += 1
                ck.known_finding(e)
                continue
            nviol["history"] += 1
            if nviol["history"] <= 3:
                cur, rs = h_shrink(h, k, results)
                cfg = ALLCFG[h["ci"]]
                steps = []
                for c_, r_ in zip(cur, rs):
                    st_ = {"call": {"d": "ComputeDistance", "sim": "ComputeSimilarity", "prep": "PrepareTreeForAPTED"}[c_[0]],
                           "a": h_ref(c_[1]), "b": h_ref(c_[2]) if c_[2] is not None else None, "impl": r_}
                    if c_[0] != "prep":
                        a_, b_ = h_args(h, c_)
                        ex = h_expected(h, c_)
                        st_.update({"objects": overlap_class(c_[1], c_[2]), "a_tree": json_tree(a_), "b_tree": json_tree(b_),
                                    "spec": None if ex is None else "%s (= %.12g)" % (ex, float(ex))})
                    steps.append(st_)
                jl = h_judge(h, cur[-1], rs[-1]) or j
                ck.violation("history of %d call(s) on one analyzer over shared TreeNode objects, last call: %s" % (len(cur), jl[1]), {
                    "kind": h["kind"], "cost_model": cfg_name(cfg), "ignore_literals": cfg[1], "ignore_identifiers": cfg[2],
                    "trees": [json_tree(t) for t in h["trees"]], "history": steps, "failing_call": len(cur) - 1,
                    "generated_history_calls": len(h["calls"]), "generated_history_failing_call": k,
                    "hook_request": hist_request(cfg, h["trees"], cur)})
            break   # the results after a wrong one are no independent evidence

    ck.samples =[{"t1": json_tree(cases[k]["a"]), "t2": json_tree(cases[k]["b"]), "cost": cfg_name(ALLCFG[cases[k]["ci"]]), "impl_d": impl[k].get("d"),
                   "spec_units": unlimb(model[k][0]) if model[k] else None} for k in (0, len(cases) // 3, len(cases) // 2, len(cases) - 8) if k < len(cases)]
    ck.cov.update({
        "evaluations": len(cases) + nbig + hstat["calls"],
        "distinct_nontrivial": len(dists),
        "rule": "tree pairs: exhaustive <=4 nodes/2 labels (all for default; sampled for python/weighted in quick), sampled <=5 nodes, "
                "random trees up to %d nodes (identical, relabelled, k-edit mutations with known cost bound, independent, subtree), "
                "path/star/comb shapes, clause-only cases at 150..500 nodes, range/identity-only cases above 500 nodes; "
                "weighted family NewWeightedCostModel(ins,del,ren,base) with %d weight triples (fixed corners incl. zero/tiny/huge weights + random dyadic, "
                "mostly ins<>del) over the default and Python base models: all ordered pairs <=3 nodes/2 labels for the first members, "
                "size classes larger-first/smaller-first/equal in both argument orders, random trees <=24 nodes with k-edit bound, both directions decided; "
                "HISTORIES on one analyzer over TreeNode objects built once (op ted_seq): per cost model (all %d) trees T of 5-12 nodes/2-3 labels, X (a k-edit "
                "mutation of T or independent) and a separate copy of T; for EVERY non-root position p of T a sequence of 3-8 calls f(T,X); g(subtree at p, partner); "
                "f(T,X) again; ... with the partner rotating over X, a subtree of X, the copy of the subtree, T itself, another subtree of T, the subtree itself, "
                "the copy of T, continued with T against its copy, the other argument order, the same object twice, further subtree calls, sometimes "
                "PrepareTreeForAPTED first as at fragment extraction; plus unstructured histories over all (tree, path) arguments; EVERY distance/similarity of a "
                "history is decided against the spec of its own two (sub)trees (no dependence on earlier calls) and the identity clauses; a failing history is "
                "cut to its shortest failing prefix and calls in front of the failing one are dropped while it still fails; "
                "distinct = distinct (cost model, distance) values seen; %d cases with distance > 0" % (nmax, len(wcfgs), len(ALLCFG), nontrivial),
        "histories": hstat,
        "weighted_family_members": [cfg_name(c) for c in wcfgs],
        "input_distribution": dict(kinds, above_limit=nbig, brute_force_checked=n_brute,
                                   coq_evaluated=sum(1 for m in model if m is not None)),
        "disagreements_checked": sum(nviol.values()) + cost_mism,
        "cost_table_mismatches": cost_mism,
    })
    ck.trusted += ["Coq 8.16.1 kernel, vm_compute (bounded theorems and case evaluation)",
                   "translator /verif/translator/gen_ted.go (constants of apted_cost.go, framework_patterns.go, clone_detector.go, the 500 limit)",
                   "float64 vs exact integers: default cost model (and weighted members over it with small dyadic weights) compared exactly; python/weighted within 1e-9 absolute",
                   "pyscn-verif ted_w hook: NewAPTEDAnalyzer(NewWeightedCostModel(wi, wd, wr, base)), base = NewDefaultCostModel() or the Python model NewCloneDetector builds",
                   "hand-written model Ted/ZS.v of apted.go/apted_tree.go (exact path only; computeDistanceOptimized not modelled)",
                   "hand-written model Ted/Cost.v of the cost models, compared on a %d-label alphabet with the implementation's tables" % len(LABELS),
                   "minimum edit cost = minimum over Tai mappings (each node edited at most once); python/weighted costs are not a metric",
                   "pyscn-verif ted hook builds TreeNode values with NewTreeNode/AddChild and uses the analyzer NewCloneDetector builds",
                   "pyscn-verif ted_seq hook: builds the trees once, resolves (tree, path) to the TreeNode reached through Children and calls ComputeDistance / "
                   "ComputeSimilarity / PrepareTreeForAPTED in the given order on one analyzer (a panic of one call is reported for that call only)"]
    ck.finish(assumptions=["labels are ASCII strings; both trees have at most 500 nodes (exact path) except for the similarity-range and identical-tree clauses",
                           "the two arguments of one call are separate objects, the same object, disjoint subtrees of one tree or a tree and a node on its "
                           "left-most path; a node elsewhere inside the other argument is exercised and is the open finding C07-F1",
                           "histories: the trees are not modified between the calls of a history (only the index fields the analyzer itself writes change)"])
