"""C18 — file selection depends on the files, not on how the path is spelled."""
import itertools
import json
import os
import re
import shutil

import lib
import c17
from lib import cbool, clist

REQ = ("From Coq Require Import NArith List Bool.\nImport ListNotations.\n"
       "From PV Require Import Gen.FileSelConst Cli.Glob Cli.GlobX Cli.FileSel Cli.FileSelRun.\nOpen Scope N_scope.")
PY_BODY = "def f(x):\n    if x:\n        return 1\n    return 2\n"


# ---------------------------------------------------------------------------------------
# Coq printers / parsers
# ---------------------------------------------------------------------------------------
def cstr(s):
    return "[" + "; ".join(str(ord(c)) for c in s) + "]"


def cstrs(ss):
    return clist([cstr(s) for s in ss])


def cnode(nd):
    if nd[0] == "F":
        return "File %s" % cstr(nd[1])
    return "Dir %s %s" % (cstr(nd[1]), clist([cnode(c) for c in nd[2]]))


def split_spath(s):
    rooted = s.startswith("/")
    rest = s[1:] if rooted else s
    return rooted, (rest.split("/") if rest != "" else [])


def cspath(s):
    r, segs = split_spath(s)
    return "(mkpath %s %s)" % (cbool(r), cstrs(segs))


def dec(codes):
    return "".join(chr(c) for c in codes)


def path_str(pair):
    rooted, segs = pair
    return ("/" if rooted else "") + "/".join(dec(s) for s in segs)


def loc_str(names):
    return "/" + "/".join(dec(n) for n in names)


def gen_const(name):
    """A list-of-strings constant of Gen/FileSelConst.v, decoded (the defaults the code has now)."""
    src = open(os.path.join(lib.COQ, "Gen", "FileSelConst.v")).read()
    m = re.search(r"Definition %s : list \(list N\) :=\s*\[(.*?)\]\.\n" % name, src, re.S)
    return [dec(int(x) for x in re.findall(r"\d+", item)) for item in re.findall(r"\[([^\[\]]*)\]", m.group(1))]


# ---------------------------------------------------------------------------------------
# generators
# ---------------------------------------------------------------------------------------
DIR_NAMES = ["src", "sub", "pkg", "tests", "a", "b", "migrations", "test_dir", "d.py", "lib",
             ".hid", ".git", ".venv", "venv", "build", "Build", "dist", "env", "ENV", "node_modules",
             "__pycache__", "x.egg-info", "Y.Egg-Info", "egg-info", "environment", "builds"]
FILE_NAMES = ["a.py", "b.py", "c.py", "x.py", "ab.py", "main.py", "test_a.py", "test_.py", "a_test.py", "_test.py",
              "test_x_test.py", "mytest_a.py", "s.pyi", "t.pyi", "test_s.pyi", "U.PY", "v.Py", "w.PYI", "notes.txt", "py",
              "README.md", ".h.py", "conftest.py", "setup.py", "a.py.bak", "x.pyc", "mod.pyx", "a.b.py", "testa.py",
              "q.pyi.py", "py.py", "tests.py"]
# names in the 'wrong' position: plain files called like directories the walk prunes (vendor / build / hidden directories) or like ordinary
# directories, and directories called like Python files (the systematic version, over the skip list the code has now, is part B3)
DIRLIKE_FILE_NAMES = ["build", "Build", "dist", "env", "ENV", "venv", "node_modules", "__pycache__", "x.egg-info", "Y.Egg-Info", ".git", ".venv", ".hid",
                      ".tox", "sub", "src", "tests", "build.py", "venv.py", "dist.pyi", "__pycache__.py", "x.egg-info.py", "ENV.PY"]
FILELIKE_DIR_NAMES = ["mod.py", "a.py", "test_d.py", "s.pyi", "U.PY", ".h.py", "notes.txt"]
INCLUDES = [None, ["**/*.py"], ["*.py"], [], ["src/**"], ["src/**/*.py", "pkg/**/*.py"], ["?.py"], ["a.py"], ["**/a.py"],
            ["*.py", "*.pyi"], ["sub/*.py"], ["**/sub/**"], ["*/*.py"], ["**"], ["*"], ["**/*.pyi"], ["a/**/b/*.py"],
            ["**/?.p?"], ["src/a.py", "main.py"], ["**/*"], ["*.PY"], ["**/test_*"], ["/**/*.py"], ["./*.py"]]
EXCLUDES = [None, [], ["**/test_*.py"], ["test_*.py"], ["*_test.py"], ["**/tests/**"], ["tests/**"], ["sub/**"],
            ["**/migrations/**"], ["?.py"], ["a.py"], ["src/a.py"], ["*test*"], ["**/*.pyi"], ["*.pyi"], ["**/a/**"],
            ["sub/*.py", "**/b.py"], ["*/*/*.py"], ["**/x.py", "test_*.py", "*_test.py"], ["*"], ["a/*"], ["**/sub/*.py"]]


# the full doublestar syntax the code accepts: classes, ranges, negated classes ([!..] and [^..]), alternatives (nested, with
# wildcards and classes inside, with an empty alternative), escapes — without '/' (file name at any depth) and as paths
X_INCLUDES = [["**/*.{py,pyi}"], ["{src,pkg,sub}/**/*.py", "*.py"], ["[a-m]*.py"], ["**/[!t]*.py"], ["*.py{,i}"], ["{a,b,ab}.py", "**/s.pyi"],
              ["[^t]*.py"], ["**/{a,b}/**"], ["{?,??}.py"], ["*.[pP][yY]"], ["{sub,src}/{a,b}.py", "[a-c].py"], ["**/{[a-c],main}.py"]]
X_EXCLUDES = [["{test,spec}_*.py"], ["[!a-z]*.py"], ["[^a-z]*"], ["**/{tests,migrations}/**"], ["{a,b}.py", "t?st_[a-z].py"], ["*_{test,x_test}.py"],
              ["a{_test,}.py"], ["[!a]*"], ["[a-b].py", "{c,x}.py"], ["**/{sub,src}/[!a]*.py"], ["{sub,a}/*.py"], ["*.py[ci]"],
              ["{a,{b,c}}.py"], ["\\*.py", "[t]est_*"], ["{test_*,*_test}.py"], ["[^.]*_test.py", "**/[st]*/[!b]*"]]
INCLUDES = INCLUDES + X_INCLUDES
EXCLUDES = EXCLUDES + X_EXCLUDES


def gen_tree(rng, depth, thorough=False, own=None):
    """Children of one directory (called own): sorted list of ('F', name) / ('D', name, children)."""
    out = {}
    nf = rng.randint(1, 6 if depth > 1 else 4)
    for n in rng.sample(FILE_NAMES, nf):
        out[n] = ("F", n)
    if rng.random() < 0.5:
        out.setdefault("test_a.py", ("F", "test_a.py"))
    if rng.random() < 0.3:
        # a plain file with the name of a pruned / hidden / ordinary directory, with files sorting directly before and after it (they take
        # the place of other files: the trees keep their size)
        n = rng.choice(DIRLIKE_FILE_NAMES)
        for m in [n] + [m for m in (n[:-1] + "-.py", n + "0.py") if rng.random() < 0.5]:
            if m not in out:
                if len(out) > 1:
                    del out[rng.choice(sorted(out))]
                out[m] = ("F", m)
    if depth > 0:
        nd = rng.randint(0, 4 if depth >= 3 else 3)
        names = rng.sample(DIR_NAMES, nd)
        if names and rng.random() < 0.25:
            names[-1] = rng.choice(FILELIKE_DIR_NAMES)      # a directory with the name of a (Python) file
        if own and rng.random() < 0.3:
            names.append(own)       # a directory inside a directory of the same name
        for n in names:
            if n not in out:
                out[n] = ("D", n, gen_tree(rng, depth - 1 - (1 if rng.random() < 0.3 else 0), thorough, n))
    return [out[k] for k in sorted(out, key=lambda s: s.encode())]


def materialize(path, children):
    os.makedirs(path, exist_ok=True)
    for c in children:
        p = os.path.join(path, c[1])
        if c[0] == "F":
            with open(p, "w") as f:
                f.write(PY_BODY if c[1].lower().endswith((".py", ".pyi")) else "text\n")
        else:
            materialize(p, c[2])


def all_dirs(children, prefix=()):
    """Every directory below (relative parts)."""
    res = []
    for c in children:
        if c[0] == "D":
            res.append(prefix + (c[1],))
            res += all_dirs(c[2], prefix + (c[1],))
    return res


def all_files(children, prefix=()):
    res = []
    for c in children:
        if c[0] == "F":
            res.append(prefix + (c[1],))
        else:
            res += all_files(c[2], prefix + (c[1],))
    return res


def world_node(root, children):
    """The file system from "/" down to the generated tree (only the chain of directories leading to it)."""
    parts = [p for p in root.split("/") if p]
    nd = ("D", parts[-1], children)
    for p in reversed(parts[:-1]):
        nd = ("D", p, [nd])
    return ("D", "", [nd])


def subdirs_of(children, parts):
    cs = children
    for p in parts:
        cs = [c for c in cs if c[1] == p][0][2]
    return [c[1] for c in cs if c[0] == "D"]


def spellings(rng, root, children, tparts, is_dir, n):
    """n ways (cwd, spelled path) of naming the directory/file root/tparts."""
    target = os.path.join(root, *tparts) if tparts else root
    dirs = [()] + all_dirs(children)
    cands = []
    cwds = [tparts if is_dir else tparts[:-1], tparts[:-1] if tparts else (), ()] + rng.sample(dirs, min(3, len(dirs)))
    for cw in cwds:
        cwd = os.path.join(root, *cw) if cw else root
        rel = os.path.relpath(target, cwd)
        vs = [rel, target]
        if is_dir:
            vs += [rel + "/", target + "/", rel + "/.", rel + "//"]
        if not rel.startswith("."):
            vs += ["./" + rel, ".//" + rel]
        if "/" in rel:
            vs.append(rel.replace("/", "//", 1))
        vs.append("/" + target)
        for x in subdirs_of(children, cw):
            vs.append(x + "/../" + rel)
        if cw:
            vs.append("../" + cw[-1] + "/" + rel)
        for v in vs:
            cands.append((cwd, v))
    if rng.random() < 0.3:
        cands.append(("/", target))
        cands.append(("/", target.lstrip("/")))
    rng.shuffle(cands)
    # always keep the two plainest spellings in the mix
    base = [(target if is_dir else os.path.dirname(target), "." if is_dir else tparts[-1]), (root, target)]
    seen, res = set(), []
    for c in base + cands:
        if c not in seen:
            seen.add(c)
            res.append(c)
    return res[:n]


def abs_loc(cwd, p):
    """Absolute location a spelled path denotes (lexical; POSIX normpath keeps a leading '//')."""
    return re.sub(r"^/+", "/", os.path.normpath(os.path.join(cwd, p)))


# ---------------------------------------------------------------------------------------
# part A: doublestar vs Cli/Glob.v
# ---------------------------------------------------------------------------------------
def words(alpha, n):
    for k in range(n + 1):
        for t in itertools.product(alpha, repeat=k):
            yield "".join(t)


VOCAB_PATTERNS = sorted({p for ps in INCLUDES + EXCLUDES if ps for p in ps} |
                        {"**/*.py", "*.pyi", "test_*.py", "*_test.py", "**/__pycache__/**", "__pycache__/*", "*.pyc",
                         "src/**/*.py", "lib/**/*.py", "**/migrations/**", "**/test_*.py", "*test*", "**/utils*", "**/*__init__*",
                         "**/main*", "main*", "a*b*c", "*a*", "a?c", "**/a/**/b", "a/**/b/**/c", "*/**/*.py", "**/*/*.py", "/**",
                         "/tmp/**/*.py", "t?st_*.py", "*.p*", "*.*", "**/.*", ".*", "*/", "a//b", "**/**/*.py", "x*/**", "a***"})
VOCAB_NAMES = ["a.py", "test_a.py", "a_test.py", "sub/a.py", "sub/test_a.py", "sub/deep/test_a.py", "/tmp/w/a.py", "/tmp/w/test_a.py",
               "./a.py", "../x/a.py", "src/a.py", "src/pkg/a.py", "lib/a.py", "s.pyi", "sub/s.pyi", "migrations/0001.py",
               "app/migrations/0001.py", "__pycache__/a.pyc", "a/b", "a/x/b", "a/x/y/b", "a/b/c", "a/x/b/y/c", "abc", "aXbYc", "ac", "abc.py",
               "main.py", "src/main_utils.py", ".h.py", "sub/.h.py", "a", "ab", "a/b.py", "x/a", "x", "xy/z", "a//b", "/a.py", "tests/t.py",
               "pkg/tests/t.py", "test_.py", "_test.py", "a.pyi", "a.pyc", "a.p", "a."]


# atoms of the full syntax; patterns are all sequences of one or two atoms (thorough: three), so that every new construct stands
# first, last, next to a star, a doublestar, a separator, another class / group
X_ATOMS = ["a", "b", "*", "?", "/", ".", "**", "[a]", "[!a]", "[^a]", "[ab]", "[a-b]", "[!a-b]", "[^.b]", "[!.]", "\\*", "\\a", "\\[", "[\\]]",
           "[a\\-]", "[-a]", "[a-]", "[!!]", "[,]", ",", "}", "{a,b}", "{a,}", "{,a}", "{a}", "{}", "{a,b*}", "{*,a}", "{**,a}", "{a/b,b}",
           "{a,{b,.}}", "{a,b}{.,/}", "{[ab],?}", "{a/,}", "a{,b}", ".{b,}", "?{}", "[a]{,*}", "{*a,b/}", "{a\\,b,.}", "{**/,a}", "{[!a],b.}",
           "{a,b}/", "/{a,b}", "**/{a,b}", "{a,b}/**", "{", "[", "[a", "\\"]
X_VOCAB_PATTERNS = ["{test,spec}_*.py", "*.{py,pyi}", "*.py{,i}", "[!_]*.py", "[^_]*.py", "[!a-z]*.py", "**/{tests,testing}/**", "{src,lib}/**/*.py",
                    "test_[0-9]*.py", "[a-z]*_test.py", "\\*.py", "**/[!t]*.py", "src/{a,main}.py", "{src,lib}/{a,b}.py", "**/{a,x/b}", "*.p[!y]*",
                    "{test_{a,b},spec_*}.py", "{*_test,test_*}.py", "**/{.h,a}.py", "[.]h.py", "?[!a-z]*.py", "?[!x]b.py", "a[!b]c", "*[+-9]*", "{a,b}/[!x]/c",
                    "**/*.p{y,yi,yc}", "__pycache__/*.py[co]", "{**/migrations,tests}/**", "a{b,c}c", "{a,ab}{c,bc}", "[a-a]", "[b-a]", "[a-c-e]", "[]a]", "[!]"]
X_VOCAB_NAMES = ["a*", "*", "[", "a,b", "a}", "a-", "-", "!", "a/,", ",", "a]", "]", "a/-/b", "^", "\\", "{a,b}", "a/b}", "*.py", "sub/*.py", "test_1.py",
                 "sub/test_9.py", "spec_a.py", "sub/spec_a.py", "sub/deep/spec_a.py", "A.py", "sub/A.py", "_a.py", "sub/_a.py", "a.pyc", "a.pyo",
                 "tests/a.py", "x/testing/y/a.py", "x/b", "a/x/b", "a/b.py", "ab/b.py", "a/c", "a+c", "a/x/c", "b/y/c", "abc", "abbc", "acc"]


X_CORE = ["a", "*", "?", "/", ".", "**", "[!a]", "[^a]", "[a-b]", "{a,b}", "{a,{b,.}}", "a{,b}", "\\*"]


def x_patterns(thorough):
    """quick: every atom alone, and before and after every core atom; thorough: all pairs and the triples with a plain atom"""
    pats = set(X_VOCAB_PATTERNS) | set(X_ATOMS)
    for x in X_ATOMS:
        for y in (X_ATOMS if thorough else X_CORE):
            pats.add(x + y)
            pats.add(y + x)
    if thorough:
        for t in itertools.product(X_ATOMS, repeat=3):
            if sum(len(x) > 1 for x in t) <= 2:
                pats.add("".join(t))
    return sorted(p for p in pats if any(ch in p for ch in "[]{}\\"))


def popcount(x):
    return bin(x).count("1")


def glob_grid_jobs(tag, pats, names):
    chunk = 48      # results are packed 48 names per number (big numbers are slow to print in Coq)
    chunks = [names[i:i + chunk] for i in range(0, len(names), chunk)]
    shard = 140
    jobs = []
    for off in range(0, len(pats), shard):
        part = pats[off:off + shard]
        plain = [q for q in part if "[" not in q]          # without a class nothing can meet a separator
        body = ("Definition chunks := %s.\nDefinition nok := map (map name_ok) chunks.\n"
                "Definition rows := map (fun p => xrow p chunks) %s.\nDefinition rows_e := map (fun p => xrow_e p chunks) %s.\n"
                "Eval vm_compute in nok.\nEval vm_compute in rows.\nEval vm_compute in rows_e.\n") % (
                    clist([cstrs(c) for c in chunks]), cstrs(plain), cstrs([q for q in part if "[" in q]))
        jobs.append(("C18_glob_%s_%d" % (tag, off), REQ, body))
    return jobs


def glob_grid(ck, tag, pats, names, outs, res, st):
    """doublestar.Match against Cli/GlobX.v [xglob_str] on pats x names; compared where xpat_ok, name_ok and no class can meet a '/'."""
    chunk, shard = 48, 140
    chunks = [names[i:i + chunk] for i in range(0, len(names), chunk)]
    nok, rows = None, {}
    for off, out in zip(range(0, len(pats), shard), outs):
        vals = lib.parse_coq_values(out)
        nok = [b for ch in vals[0] for b in ch]
        part = pats[off:off + shard]
        for q, (cc, pok) in zip([q for q in part if "[" not in q], vals[1]):
            rows[q] = (cc, None, pok)
        for q, (cc, ee, pok) in zip([q for q in part if "[" in q], vals[2]):
            rows[q] = (cc, ee, pok)
    mask = 0
    for ok in nok:
        mask = (mask << 1) | (1 if ok else 0)

    def unpack(cs):
        v = 0
        for ch, x in zip(chunks, cs):
            v = (v << len(ch)) | x
        return v
    for p, go_row, bad in zip(pats, res["rows"], res["bad_pattern"]):
        coq_chunks, eat_chunks, pok = rows[p]
        if not pok:
            st["glob_patterns_outside_subset"] += 1
            continue
        st["glob_patterns_in_subset"] += 1
        if any(ch in p for ch in "[]{}\\"):
            st["glob_patterns_full_syntax"] += 1
        if bad:
            ck.broken_ties.append("glob: doublestar rejects pattern %r that GlobX.v's xpat_ok admits" % p)
            continue
        coq_row = unpack(coq_chunks)
        eat = unpack(eat_chunks) & mask if eat_chunks is not None else 0
        st["glob_pairs"] += popcount(mask & ~eat)
        st["glob_class_vs_separator_pairs"] += popcount(eat)
        st["glob_class_vs_separator_differ"] += popcount((int(go_row) ^ coq_row) & eat)
        diff = (int(go_row) ^ coq_row) & mask & ~eat
        if diff:
            st["glob_mismatches"] += 1
            i = len(names) - diff.bit_length()
            if st["glob_mismatches"] <= 3:
                ck.broken_ties.append("glob: doublestar.Match(%r, %r) = %s but Cli/GlobX.v says %s" % (
                    p, names[i], bool((int(go_row) >> (len(names) - 1 - i)) & 1), bool((coq_row >> (len(names) - 1 - i)) & 1)))
    st["glob_names_" + tag] = popcount(mask)


def glob_differential(ck, thorough):
    st = {"glob_patterns_in_subset": 0, "glob_patterns_outside_subset": 0, "glob_patterns_full_syntax": 0, "glob_pairs": 0,
          "glob_mismatches": 0, "glob_class_vs_separator_pairs": 0, "glob_class_vs_separator_differ": 0}
    pl, nl = (5, 5) if thorough else (4, 5)
    grids = [
        # the syntax of Cli/Glob.v, exhaustively over a small alphabet, and the realistic vocabulary (both syntaxes)
        ("plain", list(words("a*?/.", pl)) + VOCAB_PATTERNS, [n for n in words("ab/.", nl)] + VOCAB_NAMES + X_VOCAB_NAMES),
        # classes, negated classes, alternatives, escapes in every position
        ("full", x_patterns(thorough), [n for n in words("ab/.", 4)] + X_VOCAB_NAMES + VOCAB_NAMES[:12])]
    res = lib.driver([{"op": "globgrid", "patterns": pats, "paths": names} for _, pats, names in grids])
    jobs = [glob_grid_jobs(tag, pats, names) for tag, pats, names in grids]
    outs = lib.coq_eval_many([j for js in jobs for j in js], workers=16)
    for (tag, pats, names), js, r in zip(grids, jobs, res):
        glob_grid(ck, tag, pats, names, outs[:len(js)], r, st)
        outs = outs[len(js):]
    return st


# ---------------------------------------------------------------------------------------
# part B: CollectPythonFiles on real directory trees vs model vs spec
# ---------------------------------------------------------------------------------------
BIG_KINDS = ("lattice", "wrongpos")      # cases on one big tree: Coq prints indices into the tree's file list


class Case:
    __slots__ = ("tree_id", "root", "children", "cwd", "targets", "inc", "exc", "recursive", "kind", "impl", "model", "mabs", "spec", "known")

    def replay(self):
        return {"kind": "collect:" + self.kind, "tree": self.children, "root": self.root, "cwd": self.cwd, "targets": self.targets,
                "include": self.inc, "exclude": self.exc, "recursive": self.recursive,
                "how": "create the tree (('D', name, children) / ('F', name)) under root, cd cwd, "
                       "FileReader.CollectPythonFiles(targets, recursive, include, exclude) — or pyscn-verif op 'collect'"}


def make_cases(rng, ck, n_trees, per_tree, thorough, d_inc, d_exc):
    base = lib.fresh_dir("c18_trees")
    cases = []
    for ti in range(n_trees):
        rootname = rng.choice(["proj", "build", "env", ".hidden", "p.py", "venv", "x", "lib"])
        children = gen_tree(rng, rng.choice([1, 2, 3, 3, 4]), thorough, rootname)
        root = os.path.join(base, "w%d" % ti, rootname)
        materialize(root, children)
        dirs = [()] + all_dirs(children)
        files = all_files(children)
        for _ in range(per_tree):
            inc = rng.choice(INCLUDES)
            exc = rng.choice(EXCLUDES)
            if rng.random() < 0.35:
                inc, exc = None, None
            inc = d_inc if inc is None else inc
            exc = d_exc if exc is None else exc
            recursive = rng.random() < 0.75
            k = rng.random()
            groups = []
            if k < 0.55 or not files:
                # one directory, several spellings: each alone
                d = rng.choice(dirs) if rng.random() < 0.7 else ()
                for cwd, sp in spellings(rng, root, children, d, True, 4 if not thorough else 6):
                    groups.append(("dir", cwd, [sp]))
            elif k < 0.7:
                f = rng.choice(files)
                for cwd, sp in spellings(rng, root, children, f, False, 3):
                    groups.append(("file", cwd, [sp]))
            else:
                # several targets from one cwd: overlapping directories, the same one twice, files inside
                cw = rng.choice(dirs)
                cwd = os.path.join(root, *cw) if cw else root
                d = rng.choice(dirs)
                below = [x for x in dirs if x[:len(d)] == d]
                picks = [(d, True), (rng.choice(below), True)]
                if rng.random() < 0.5:
                    picks.append((d, True))
                fs_below = [x for x in files if x[:len(d)] == d]
                if fs_below and rng.random() < 0.6:
                    picks.append((rng.choice(fs_below), False))
                    if rng.random() < 0.4:
                        picks.append((picks[-1][0], False))
                if rng.random() < 0.3:
                    picks.append((rng.choice(dirs), True))
                rng.shuffle(picks)
                tg = []
                for parts, isd in picks:
                    alts = [sp for c, sp in spellings(rng, root, children, parts, isd, 40) if c == cwd]
                    tg.append(rng.choice(alts) if alts else os.path.join(root, *parts))
                if rng.random() < 0.08:
                    tg.insert(rng.randint(0, len(tg)), rng.choice(["nonexistent", "sub/none.py", "/nonexistent/x"]))
                groups.append(("multi", cwd, tg))
            for kind, cwd, tg in groups:
                c = Case()
                c.tree_id, c.root, c.children, c.cwd, c.targets = ti, root, children, cwd, tg
                c.inc, c.exc, c.recursive, c.kind = inc, exc, recursive, kind
                cases.append(c)
    return cases


def eval_cases(cases):
    """Model and spec in Coq, implementation through the driver."""
    reqs = [{"op": "collect", "cwd": c.cwd, "targets": c.targets, "include": c.inc, "exclude": c.exc, "recursive": c.recursive}
            for c in cases]
    impl = lib.driver(reqs)
    jobs, spans = [], []
    # the cases on the big tree of part B2 print indices into the tree's file list (printing long paths is what costs in Coq)
    big = [c for c in cases if c.kind.startswith(BIG_KINDS)]
    small = [c for c in cases if not c.kind.startswith(BIG_KINDS)]
    for group, shard in ((big, 30), (small, 60)):      # the long jobs first
        for off in range(0, len(group), shard):
            chunk = group[off:off + shard]
            defs, items = [], []
            worlds = {}
            for c in chunk:
                if c.tree_id not in worlds:
                    worlds[c.tree_id] = "w%d" % c.tree_id
                    defs.append("Definition w%d := %s." % (c.tree_id, cnode(world_node(c.root, c.children))))
                    if group is big:
                        defs.append("Definition root%d := %s.\nDefinition cands%d := %s." % (
                            c.tree_id, cstrs([p for p in c.root.split("/") if p]), c.tree_id, clist([cstrs(f) for f in all_files(c.children)])))
                cwdn = [p for p in c.cwd.split("/") if p]
                args = "%s %s %s %s %s" % (cstrs(cwdn), clist([cspath(t) for t in c.targets]), cbool(c.recursive), cstrs(c.inc), cstrs(c.exc))
                if group is big:
                    items.append("(run_case_idx w%d root%d cands%d %s, forallb xpat_ok (%s ++ %s))" % (
                        c.tree_id, c.tree_id, c.tree_id, args, cstrs(c.inc), cstrs(c.exc)))
                else:
                    items.append("(run_case w%d %s, forallb xpat_ok (%s ++ %s))" % (c.tree_id, args, cstrs(c.inc), cstrs(c.exc)))
            jobs.append(("C18_collect_%s%d" % ("big" if group is big else "", off), REQ,
                         "\n".join(defs) + "\nDefinition cases := %s.\nEval vm_compute in cases.\n" % clist(items)))
            spans.append(chunk)
    byid = {}
    for chunk, out in zip(spans, lib.coq_eval_many(jobs, workers=16)):
        for c, v in zip(chunk, lib.parse_coq_values(out)[0]):
            byid[id(c)] = v
    for c, r in zip(cases, impl):
        v = byid[id(c)]
        c.impl = r
        c.known = False
        if c.kind.startswith(BIG_KINDS):
            mabs, spec, pok = v      # Coq prints ((a, b), c) as (a, b, c)
            files = ["/".join([c.root] + list(f)) for f in all_files(c.children)]
            if any(i >= len(files) for i in (mabs[1] if mabs is not None else []) + spec):
                raise RuntimeError("the model or the specification selects something that is no file of the tree: %r %r" % (c.inc, c.exc))
            c.model = None
            c.mabs = None if mabs is None else [files[i] for i in mabs[1]]
            c.spec = sorted({files[i] for i in spec})
        else:
            m, mabs, spec, pok = v      # Coq prints ((a, b, c), d) as (a, b, c, d)
            c.model = None if m is None else [path_str(x) for x in m[1]]
            c.mabs = None if mabs is None else [loc_str(x) for x in mabs[1]]
            c.spec = sorted({loc_str(x) for x in spec})
        if not pok:
            raise RuntimeError("harness pattern outside the modelled glob subset (xpat_ok): %r %r" % (c.inc, c.exc))


def rels_below_targets(c, f):
    """The paths under which the file at absolute location f is seen from the targets of case c (relative to each directory
    target above it; its name for a file target)."""
    out = []
    for t in c.targets:
        tl = abs_loc(c.cwd, t)
        if f == tl:
            out.append(os.path.basename(f))
        elif f.startswith(tl.rstrip("/") + "/"):
            out.append(f[len(tl.rstrip("/")) + 1:])
    return out


def class_separator_cases(ck, pending, stats):
    """Known finding C18-G4, kept narrow: a selection that differs from the specification is attributed to it only when, for every
    file in the difference, (a) Cli/GlobX.v [eats_path] says that some pattern of the lists can bring a character class against a '/'
    of the path under which a target sees the file, and (b) the implementation's verdict is exactly what doublestar.Match itself
    (asked through the driver) gives for file_reader.go's rule 'whole path, or — pattern without slash — base name'."""
    if not pending:
        return []
    items, per_case = [], []
    reqs = []
    for c, what, got in pending:
        diff = sorted(set(got) ^ set(c.spec))
        rels = [(f, rel) for f in diff for rel in rels_below_targets(c, f)]
        per_case.append((diff, rels))
        items.append("run_eats %s %s" % (cstrs(c.inc + c.exc), clist([cstrs(rel.split("/")) for _, rel in rels])))
        names = sorted({rel for _, rel in rels} | {os.path.basename(rel) for _, rel in rels})
        reqs.append({"op": "globgrid", "patterns": c.inc + c.exc, "paths": names or ["x"]})
    vals = lib.parse_coq_values(lib.coq_eval("C18_eats", REQ, "Eval vm_compute in %s.\n" % clist(items)))[0]
    grids = lib.driver(reqs)
    rest = []
    for (c, what, got), (diff, rels), eats, grid, rq in zip(pending, per_case, vals, grids, reqs):
        names = rq["paths"]

        def ds(pi, name):
            return bool((int(grid["rows"][pi]) >> (len(names) - 1 - names.index(name))) & 1)

        def hit(pats, off, rel):
            return any(ds(off + i, rel) or ("/" not in q and ds(off + i, os.path.basename(rel))) for i, q in enumerate(pats))
        ok = bool(diff)
        for f in diff:
            mine = [(rel, e) for (g, rel), e in zip(rels, eats) if g == f]
            library_says = any((not c.inc or hit(c.inc, 0, rel)) and not hit(c.exc, len(c.inc), rel) for rel, _ in mine)
            if not any(e for _, e in mine) or library_says != (f in got):
                ok = False
        e = ck.match_known({"part": "collect", "cause": "class-matches-separator"}) if ok else None
        if e:
            c.known = True
            stats["known_class_separator_cases"] = stats.get("known_class_separator_cases", 0) + 1
            ck.known_finding(e)
        else:
            rest.append((c, what, got))
    return rest


def decide_cases(ck, cases, stats):
    nviol = ntie = 0
    pending = []
    for c in cases:
        r = c.impl
        if "error" in r:
            ck.broken_ties.append("collect op failed: %s" % r["error"][:300])
            continue
        stats["evaluations"] += 1
        exists = all(os.path.exists(os.path.join(c.cwd, t)) for t in c.targets)
        if r["failed"]:
            if exists:
                nviol += 1
                if nviol <= 3:
                    ck.violation("CollectPythonFiles fails on existing targets %s (cwd %s): %s" % (c.targets, c.cwd, r.get("message")), c.replay())
            elif c.model is not None:
                ck.broken_ties.append("model accepts targets %s that the implementation rejects" % c.targets)
            stats["error_cases"] += 1
            continue
        if not exists:
            nviol += 1
            if nviol <= 3:
                ck.violation("CollectPythonFiles accepts a missing target among %s" % c.targets, c.replay())
            continue
        locs = [abs_loc(c.cwd, p) for p in r["files"]]
        got = sorted(set(locs))
        what = None
        if got != c.spec:
            extra = sorted(set(got) - set(c.spec))[:4]
            missing = sorted(set(c.spec) - set(got))[:4]
            what = ("files selected differ from the specification for targets %s (cwd %s, include %s, exclude %s, recursive %s): "
                    "analysed but should not be %s; should be analysed but are not %s"
                    % (c.targets, c.cwd, c.inc, c.exc, c.recursive, [os.path.relpath(x, c.root) for x in extra],
                       [os.path.relpath(x, c.root) for x in missing]))
        elif len(locs) != len(got):
            dup = sorted({x for x in locs if locs.count(x) > 1})[:4]
            what = "a file is collected more than once for targets %s (cwd %s): %s" % (c.targets, c.cwd, [os.path.relpath(x, c.root) for x in dup])
        if what:
            if got != c.spec and any("[" in q for q in c.inc + c.exc):
                pending.append((c, what, got))      # perhaps the known behaviour of a class against a path separator: decided below
                continue
            nviol += 1
            if nviol <= 3:
                rp = c.replay()
                rp.update(impl=r["files"], spec=c.spec, model=c.model)
                ck.violation(what, rp)
            continue
        if got:
            stats["nonempty"] += 1
        stats["kinds"][c.kind] = stats["kinds"].get(c.kind, 0) + 1
        if (c.mabs != locs) if c.kind.startswith(BIG_KINDS) else (c.model != r["files"]):
            ntie += 1
            if ntie <= 3:
                ck.broken_ties.append("CollectPythonFiles output differs from Cli/FileSel.v although the selected set is right: targets %s cwd %s: impl %s model %s"
                                      % (c.targets, c.cwd, r["files"][:6], (c.model or [])[:6]))
    for c, what, got in class_separator_cases(ck, pending, stats):
        nviol += 1
        if nviol <= 3:
            rp = c.replay()
            rp.update(impl=c.impl["files"], spec=c.spec, model=c.model)
            ck.violation(what, rp)
    # spelling invariance, directly on the implementation: same directory, same patterns => same set
    by = {}
    for c in cases:
        if c.kind in ("dir", "file") and "files" in c.impl and not c.impl["failed"]:
            key = (c.tree_id, abs_loc(c.cwd, c.targets[0]), tuple(c.inc), tuple(c.exc), c.recursive)
            by.setdefault(key, []).append(c)
    ngroups = 0
    for key, cs in by.items():
        if len(cs) < 2:
            continue
        ngroups += 1
        sets = [sorted(abs_loc(c.cwd, p) for p in c.impl["files"]) for c in cs]
        for c, s in zip(cs[1:], sets[1:]):
            if s != sets[0] and nviol < 6:
                nviol += 1
                rp = c.replay()
                rp.update(other_cwd=cs[0].cwd, other_targets=cs[0].targets, files_other=sets[0], files_this=s)
                ck.violation("the same directory spelled %r (cwd %s) and %r (cwd %s) selects different files" % (
                    cs[0].targets[0], cs[0].cwd, c.targets[0], c.cwd), rp)
    stats["spelling_groups"] = ngroups
    stats["disagreements"] += nviol + ntie


# ---------------------------------------------------------------------------------------
# part B2: the pattern language, systematically: every construct x without/with '/' x include/exclude x file depth 0..3 x target level
# ---------------------------------------------------------------------------------------
LATTICE_NAMES = ["core.py", "Core.py", "spec_core.py", "test_core.py", "conftest.py", "a1.py", "b2.py", "c3.py", "_priv.py", "s.pyi",
                 "mod_test.py", "*.py", "{x}.py", "a,b.py", "[k].py", "notes.txt"]
LATTICE_DIRS = [(), ("pkg",), ("pkg", "deep"), ("pkg", "deep", "er"), ("a",), ("tests",)]
LATTICE_TARGETS = [(), ("pkg",), ("pkg", "deep"), ("pkg", "deep", "er"), ("a",)]
# patterns without '/' : they speak about the file name, at any depth
LATTICE_SLASHLESS = [
    "test_*.py", "?[0-9].py", "[ab][12].py", "[a-c][1-3].py", "[A-Z]*.py", "[a-z]*.py",                   # star, ?, class, range
    "[!a-z]*.py", "[^a-z]*.py", "[!_]*.py", "[^_a-b]*", "*[!y]", "*_[!t]*.py", "[!a-zA-Z]*", "[^*_]*.py",      # negated class, both spellings
    "{test,spec}_*.py", "{core,conftest}.py", "*.{py,pyi}", "*.py{,i}", "{test_{core,x},spec_*}.py", "{[ab][12],Core}.py",     # alternatives
    "{?1,??_test}.py", "*_{test,spec}.py", "{[!a-z]*,conf*}.py", "mod_{test,spec}.p{y,yi}", "{core,Core,c3}.{py,txt}", "{s,t}.pyi",
    "{*_test,test_*}.py", "c{ore,3,onftest}.py", "{a,b,c}[1-3].py", "{[!c]*,c3}.py",
    "\\*.py", "\\{x\\}.py", "a\\,b.py", "{a\\,b,core}.py", "[\\[]k[\\]].py", "{\\*,\\{x\\}}.py", "[*]*",                                # escapes
    "**", "?[!a-z]b2.py",                                          # "**" alone; a class that can stand against the '/' of a/b2.py (C18-G4)
]
# patterns with '/' : they speak about the path below the target
LATTICE_PATHS = [
    "pkg/{core,Core}.py", "pkg/**/{test,spec}_*.py", "**/{deep,tests}/**", "{pkg,tests}/**/*.py", "**/[!a-z]*.py", "**/deep/[a-c]?.py",
    "pkg/*/[^s]*.py", "{pkg/deep,a}/*.py", "**/{test,spec}_*.py", "*/{a1,b2}.py", "**/\\*.py", "{**/er,a}/[a-c][1-3].py", "**/{a,er}/**",
    "[ap]*/**/[!_]*.py", "{a,pkg}/{core.py,deep/core.py}", "deep/{er/c,c}*.py", "**/[a-z]*/{s,t}.pyi", "{a,*/deep}/conftest.py",
]


def lattice_cases(ck, base):
    """One tree with the same file names in every directory (depths 0..3), and for every pattern: as the only exclude and as the only
    include, for every target level — so that the same file is judged from the project root, from directories in between and from
    its own directory."""
    children = []

    def build(prefix):
        cs = [("F", n) for n in LATTICE_NAMES]
        for d in LATTICE_DIRS:
            if len(d) == len(prefix) + 1 and d[:len(prefix)] == prefix:
                cs.append(("D", d[-1], build(d)))
        return sorted(cs, key=lambda c: c[1].encode())
    children = build(())
    root = os.path.join(base, "lattice", "proj")
    materialize(root, children)
    cases = []
    k = 0
    for pat in LATTICE_SLASHLESS + LATTICE_PATHS:
        for role in ("exclude", "include"):
            inc, exc = (["**/*.py", "*.pyi"], [pat]) if role == "exclude" else ([pat], [])
            # a pattern with '/' speaks about the path below the target: the project root, one level down, and a leaf
            for tp in (LATTICE_TARGETS if "/" not in pat else [(), ("pkg",), ("a",)]):
                k += 1
                tdir = os.path.join(root, *tp) if tp else root
                # the target spelled from the project root and as "." from inside, in turn
                cwd, sp = (root, "/".join(tp) if tp else ".") if k % 2 else (tdir, ".")
                c = Case()
                c.tree_id, c.root, c.children, c.cwd, c.targets = 100000, root, children, cwd, [sp]
                c.inc, c.exc, c.recursive, c.kind = inc, exc, True, "lattice-" + role
                cases.append(c)
    return cases


def lattice_same_verdict(ck, cases, stats):
    """Directly on the implementation: with patterns without '/', a file is selected through one target iff it is selected through
    every other target above it (Props/C18.v C18_slashless_lists_same_verdict_at_every_depth)."""
    by = {}
    for c in cases:
        if c.kind.startswith("lattice") and isinstance(c.impl, dict) and not c.impl.get("failed", True) and not c.known:
            pat = (c.exc if c.kind == "lattice-exclude" else c.inc)[0]
            if "/" not in pat:
                by.setdefault((pat, c.kind), []).append(c)
    nviol = npairs = 0
    for (pat, kind), cs in sorted(by.items()):
        sel = [(abs_loc(c.cwd, c.targets[0]), {abs_loc(c.cwd, p) for p in c.impl["files"]}, c) for c in cs]
        if any(c.known for c in cs):
            continue
        for ta, sa, ca in sel:
            for tb, sb, cb in sel:
                if ta != tb and tb.startswith(ta + "/"):
                    npairs += 1
                    below = {f for f in sa if f.startswith(tb + "/")}
                    if below != sb and nviol < 3:
                        nviol += 1
                        f = sorted(below ^ sb)[0]
                        rp = cb.replay()
                        rp.update(other_cwd=ca.cwd, other_targets=ca.targets, file=f, pattern=pat,
                                  selected_through={ca.targets[0] + " (cwd " + ca.cwd + ")": f in sa, cb.targets[0] + " (cwd " + cb.cwd + ")": f in sb})
                        ck.violation("%s pattern %r (no '/': it speaks about the file name): %s is %s when the target is %s and %s when the target is %s"
                                     % (kind[8:], pat, os.path.relpath(f, ca.root), "selected" if f in sa else "not selected", os.path.relpath(ta, ca.root),
                                        "selected" if f in sb else "not selected", os.path.relpath(tb, ca.root)), rp)
    stats["lattice_target_pairs"] = npairs
    stats["disagreements"] += nviol


# ---------------------------------------------------------------------------------------
# part B3: names in the 'wrong' position — a plain file (or link) called like a directory the walk prunes, a directory called like a Python file
# ---------------------------------------------------------------------------------------
def skip_name_variants():
    """Every entry of file_reader.go's skip list as the code has it now (Gen/FileSelConst.v filesel_skip_dirs) as concrete names: a '*' of
    the entry filled with 'x' and with nothing; as written and, unless hidden, upper-cased (the list is matched
    case-insensitively, and the variants sort at different places among their siblings)."""
    out = []
    for s in gen_const("filesel_skip_dirs"):
        for n in ([s.replace("*", "x"), s.replace("*", "")] if "*" in s else [s]):
            for v in ((n,) if n.startswith(".") else (n, n.upper())):      # a hidden name is hidden in every case
                if v and v not in out and "/" not in v:
                    out.append(v)
    return out


def wrongpos_dir(s):
    """Entries of one directory around the name s, which is held by a plain non-Python FILE: Python files and sub-directories that sort
    directly before it (s without its last character + '-...': '-' is smaller than every character a skip name ends in) and directly after it
    (s + '...': s is a proper prefix), at the two ends of the byte order ('-0.py', '-d/' / '~z.py', '~d/'), s + '.py' (a Python file called
    like the directory), a directory called like a Python file, a hidden file next to a hidden directory, and s again as a file one, two and
    three levels down (~d/~d/~d) with siblings on both sides.  Nothing here is pruned by a FILE called s: the expected set is the specification's."""
    stem = s[:-1]

    def inner(levels):
        cs = [("F", stem + "-a.py"), ("F", s), ("F", s + "0.py"), ("D", s + "-sub", [("F", "w.py")])]
        if levels > 1:
            cs.append(("D", "~d", inner(levels - 1)))
        return sorted(cs, key=lambda x: x[1].encode())
    cs = [("F", "-0.py"), ("D", "-d", [("F", "x.py")]),
          ("F", stem + "-b.py"), ("D", stem + "-d", [("F", "u.py")]),
          ("F", s),
          ("F", s + ".py"), ("F", s + "0.py"), ("D", s + "-d", [("F", "test_y.py"), ("F", "y.py")]),
          ("D", "mod.py", [("F", "inner.py")]),
          ("F", ".hfile"), ("F", ".hfile.py"), ("D", ".hdir", [("F", "h.py")]),
          ("F", "~z.py"), ("D", "~d", inner(3))]
    return sorted(cs, key=lambda c: c[1].encode())


def wrongpos_tree(base, variants):
    """proj/k<i>/ = wrongpos_dir(variant i), between two Python files."""
    level = sorted([("D", "k%02d" % i, wrongpos_dir(s)) for i, s in enumerate(variants)] + [("F", "aa.py"), ("F", "zz.py")], key=lambda c: c[1].encode())
    root = os.path.join(base, "wrongpos", "proj")
    materialize(root, level)
    return root, level


def wrongpos_cases(ck, base, d_inc, d_exc, stats):
    """The name s of the skip list held by a FILE at depth 0..3 below the target: every k<i> as the target (recursive and not; spelled '.',
    from the project root, absolutely, through '..', with a trailing slash), its sub-directory ~d, and two k<i> in one target list.
    (The project root as the target: through the command, part D, on a tree with some of the names — on this tree Coq would take seconds per case.)"""
    variants = skip_name_variants()
    root, children = wrongpos_tree(base, variants)
    cases = []

    def add(kind, cwd, targets, inc, exc, rec):
        c = Case()
        c.tree_id, c.root, c.children, c.cwd, c.targets = 100001, root, children, cwd, targets
        c.inc, c.exc, c.recursive, c.kind = inc, exc, rec, kind
        cases.append(c)
    cfgs = [(d_inc, d_exc), (["**"], []), (["*.py", "*.pyi"], ["test_*"])]
    for i, s in enumerate(variants):
        k = "k%02d" % i
        tdir = os.path.join(root, k)
        sps = [(tdir, "."), (root, k), (os.path.join(root, "k00"), tdir), (os.path.join(tdir, "~d"), ".."), (root, k + "/")]
        inc, exc = cfgs[i % 3]
        cwd, sp = sps[i % 5]
        add("wrongpos-dir", cwd, [sp], inc, exc, True)
        cwd, sp = sps[(i + 2) % 5]
        add("wrongpos-nonrecursive", cwd, [sp], inc, exc, False)
        cwd, sp = sps[(i + 1) % 5]
        add("wrongpos-below", cwd, [os.path.normpath(os.path.join(sp, "~d")) if sp != "." else "~d"], cfgs[(i + 1) % 3][0], cfgs[(i + 1) % 3][1], True)
        if i % 3 == 0:
            add("wrongpos-multi", root, [k, "./k%02d/" % ((i + 7) % len(variants))], inc, exc, True)
    stats["wrongpos_names"] = len(variants)
    stats["wrongpos_files_named_like_a_pruned_directory"] = sum(1 for f in all_files(children) if f[-1] in variants)
    return cases


# ---------------------------------------------------------------------------------------
# part C: shouldIncludeFile / shouldSkipDirectory directly
# ---------------------------------------------------------------------------------------
def unit_differential(ck, rng, n, d_inc, d_exc):
    names = sorted(set(DIR_NAMES + [d.upper() for d in DIR_NAMES] + [d.capitalize() for d in DIR_NAMES] +
                       ["foo.egg-info", ".egg-info", "egg-info", "a.egg-infox", "buildx", "xbuild", "site-packages", "", "e*v", "x.EGG-INFO"]))
    rels, incs, excs = [], [], []
    for _ in range(n):
        depth = rng.choice([0, 0, 1, 1, 2, 3])
        parts = [rng.choice(["src", "sub", "a", "b", "tests", "pkg", "migrations", "x"]) for _ in range(depth)]
        parts.append(rng.choice(FILE_NAMES))
        rels.append(parts)
        i = rng.choice(INCLUDES)
        e = rng.choice(EXCLUDES)
        incs.append(d_inc if i is None else i)
        excs.append(d_exc if e is None else e)
    reqs = [{"op": "skipdir", "names": names}] + [{"op": "include", "path": "/".join(r), "include": i, "exclude": e}
                                                   for r, i, e in zip(rels, incs, excs)]
    res = lib.driver(reqs)
    body = "Eval vm_compute in run_skipdirs %s.\nEval vm_compute in %s.\n" % (
        cstrs(names), clist(["run_include_e %s %s %s" % (cstrs(r), cstrs(i), cstrs(e)) for r, i, e in zip(rels, incs, excs)]))
    vals = lib.parse_coq_values(lib.coq_eval("C18_unit", REQ, body))
    bad = 0
    for nme, a, b in zip(names, res[0]["skip"], vals[0]):
        if a != b:
            bad += 1
            ck.broken_ties.append("shouldSkipDirectory(%r) = %s but the model says %s" % (nme, a, b))
    skipped = 0
    for r, i, e, a, (b, eat) in zip(rels, incs, excs, res[1:], vals[1]):
        if a.get("include") != b and eat:
            skipped += 1        # a class can meet a separator of this path: outside the compared domain (known finding C18-G4)
        elif a.get("include") != b:
            bad += 1
            if bad <= 4:
                ck.broken_ties.append("shouldIncludeFile(%r, %s, %s) = %s but the model says %s" % ("/".join(r), i, e, a.get("include"), b))
    return len(names) + n, bad, skipped


# ---------------------------------------------------------------------------------------
# part D: the command line
# ---------------------------------------------------------------------------------------
def report_files(data):
    """Every FilePath / file_path that appears anywhere in the report, except echoes of the request."""
    found = set()

    def walk(x, key=None):
        if isinstance(x, dict):
            for k, v in x.items():
                if k in ("request", "Config", "config"):
                    continue
                if k in ("FilePath", "file_path", "File", "file") and isinstance(v, str) and v:
                    found.add(v)
                else:
                    walk(v, k)
        elif isinstance(x, list):
            for v in x:
                walk(v, key)
    walk(data)
    return found


def e2e(ck, rng, n_trees, stats, d_inc, d_exc, thorough):
    base = lib.fresh_dir("c18_e2e")
    runs = []
    cfg_texts = {}
    for ti in range(n_trees):
        children = gen_tree(rng, 3)
        # make sure the defaults have something to bite on, at two depths
        names = {c[1] for c in children}
        extra = [("F", n) for n in ("a.py", "test_top.py", "top_test.py", "s.pyi") if n not in names]
        if "sub" not in names:
            extra.append(("D", "sub", [("F", "b.py"), ("F", "test_n.py"), ("F", "t.pyi"), ("D", "deep", [("F", "c.py"), ("F", "n_test.py")])]))
        children = sorted(children + extra, key=lambda c: c[1].encode())
        root = os.path.join(base, "e%d" % ti, rng.choice(["proj", "build", "env"]))
        materialize(root, children)
        dirs = [()] + all_dirs(children)
        cfgs = [(None, d_inc, d_exc, True)]
        inc, exc = rng.choice([i for i in INCLUDES if i]), rng.choice([e for e in EXCLUDES if e is not None])
        rec = rng.random() < 0.8
        # the configuration reaches the run through --config, or is discovered in the project root as .pyscn.toml / pyproject.toml;
        # an empty exclude list is written out half of the time (it means: the defaults, like an absent key)
        how = rng.choice(["-c", ".pyscn.toml", "pyproject.toml"])
        cfg = os.path.join(base, "e%d" % ti, "cfg.toml") if how == "-c" else os.path.join(root, how)
        pre = "tool.pyscn." if how == "pyproject.toml" else ""
        text = "%s[%sanalysis]\nrecursive = %s\ninclude_patterns = %s\n%s" % (
            "[project]\nname = \"x\"\n\n" if how == "pyproject.toml" else "",
            pre, "true" if rec else "false", json.dumps(inc),
            ("exclude_patterns = %s\n" % json.dumps(exc)) if (exc or rng.random() < 0.5) else "")
        cfg_texts[cfg] = text       # written just before the run and removed after it (the default runs must not discover it)
        stats["e2e_config_" + how] = stats.get("e2e_config_" + how, 0) + 1
        cfgs.append((cfg, inc, exc if exc else d_exc, rec))
        for cfgpath, inc, exc, rec in cfgs:
            d = () if rng.random() < 0.5 else rng.choice(dirs)
            tg_sets = [(cwd, [sp]) for cwd, sp in spellings(rng, root, children, d, True, 3 if not thorough else 5)]
            below = [x for x in dirs if x[:len(d)] == d and x != d]
            if below:
                tg_sets.append((os.path.join(root, *d) if d else root, [".", "/".join(rng.choice(below)[len(d):])]))
            for cwd, tg in tg_sets:
                runs.append((ti, root, children, cwd, tg, inc, exc, rec, cfgpath, None))
        # ---- a working directory that is NOT an ancestor of the target and has a configuration of its own --------------------------
        # (in it or above it; .pyscn.toml or pyproject.toml; include / exclude / recursive different from what applies to the target).
        # The files selected depend on the target and on the configuration in force for the TARGET (--config, else the nearest file at
        # or above it, else the built-in patterns: c17.py_spec_resolve with a working directory that is never consulted), not on
        # where the command is typed.  Target: the project root and a directory inside it, spelled absolutely and as ../..
        fbase = os.path.join(base, "e%d" % ti, "elsewhere")
        fcwd = os.path.join(fbase, "wd")
        os.makedirs(fcwd, exist_ok=True)
        layouts = [(lv, st) for lv in ("in", "above") for st in (".pyscn.toml", "pyproject.toml")]
        tcfgs = [cfgs[0], cfgs[0], cfgs[1]]      # the target without any configuration (twice), and with the tree's own / --config
        for j, (cfgpath, inc, exc, rec) in enumerate(tcfgs):
            lv, st = layouts[(2 * ti + j + (ti // 2)) % 4] if not thorough else rng.choice(layouts)
            fpath = os.path.join(fcwd if lv == "in" else fbase, st)
            d = () if j == 0 else rng.choice(dirs)
            target = os.path.join(root, *d) if d else root
            rel = os.path.relpath(target, fcwd)
            sps = [target, rel] if (j < 2 or thorough) else [rng.choice([target, rel, rel + "/", target + "/"])]
            # candidates for the foreign patterns: what changes is the include list, the exclude list, recursive, or all of them
            cands = []
            for kind in range(4):
                kind = (kind + ti + j) % 4
                finc = rng.choice([i for i in INCLUDES if i and i != d_inc]) if kind in (0, 3) else None
                fexc = rng.choice([e for e in EXCLUDES if e and e != d_exc]) if kind in (1, 3) else None
                frec = False if kind in (2, 3) else True
                cands.append((finc, fexc, frec))
            for sp in sps:
                runs.append((ti, root, children, fcwd, [sp], inc, exc, rec, cfgpath,
                             {"path": fpath, "level": lv, "style": st, "cands": cands, "target_config": cfgpath}))
    # the full pattern syntax from configuration files, on one tree with the same names at depths 0..3, judged from three target levels
    xnames = ["core.py", "Core.py", "spec_core.py", "test_core.py", "conftest.py", "a1.py", "b2.py", "_priv.py", "s.pyi", "mod_test.py", "notes.txt"]
    xfiles = [("F", n) for n in xnames]
    xchildren = sorted(xfiles + [("D", "pkg", sorted(xfiles + [("D", "deep", sorted(xfiles, key=lambda c: c[1].encode()))], key=lambda c: c[1].encode()))],
                       key=lambda c: c[1].encode())
    xroot = os.path.join(base, "ex", "proj")
    materialize(xroot, xchildren)
    xcfgs = [(os.path.join(base, "ex", "cfg_a.toml"), "-c", ["**/*.py"], ["{test,spec}_*.py", "[!a-z]*.py"]),
             (os.path.join(xroot, ".pyscn.toml"), ".pyscn.toml", ["{core,[ab][12]}.py", "pkg/**/[^cC]*.py", "*.py{,i}"], ["*_{test,spec}.py", "**/deep/[a-b]?.py"]),
             (os.path.join(xroot, "pyproject.toml"), "pyproject.toml", ["**/{core,conftest,s}.{py,pyi}"], ["pkg/{core,x}.py", "[^a-z]*"])]
    if not thorough:
        xcfgs = [xcfgs[0], xcfgs[1 + rng.randrange(2)]]
    for cfg, how, inc, exc in xcfgs:
        pre = "tool.pyscn." if how == "pyproject.toml" else ""
        cfg_texts[cfg] = "%s[%sanalysis]\nrecursive = true\ninclude_patterns = %s\nexclude_patterns = %s\n" % (
            "[project]\nname = \"x\"\n\n" if how == "pyproject.toml" else "", pre, json.dumps(inc), json.dumps(exc))
        stats["e2e_config_" + how] = stats.get("e2e_config_" + how, 0) + 1
        for cwd, tg in ((xroot, ["."]), (os.path.join(xroot, "pkg"), ["."]), (xroot, ["pkg/deep"])):
            runs.append((99, xroot, xchildren, cwd, tg, inc, exc, True, cfg, None))
            stats["e2e_full_syntax_runs"] = stats.get("e2e_full_syntax_runs", 0) + 1
    # names in the wrong position (part B3) through the command: some names of the skip list held by plain files, judged from the project
    # root, from the directory above them and from their own directory
    wvars = rng.sample(skip_name_variants(), 2 if not thorough else 12)
    wroot, wchildren = wrongpos_tree(os.path.join(base, "ew"), wvars)
    for cwd, tg in [(wroot, ["."])] + ([(wroot, ["k%02d" % (len(wvars) - 1), "k%02d/~d" % (len(wvars) - 2)])] if thorough else []) \
            + [(os.path.join(wroot, "k%02d" % i), ["."]) for i in range(len(wvars) if thorough else 0)]:
        runs.append((98, wroot, wchildren, cwd, tg, d_inc, d_exc, True, None, None))
        stats["e2e_wrongpos_runs"] = stats.get("e2e_wrongpos_runs", 0) + 1
    # which configuration is in force for a run: the rule of C17 (--config, else the nearest file at or above the target, else none),
    # read by c17.py_spec_resolve; for the selection of files the working directory is never consulted (its chain is passed empty)
    def in_force(root, cwd, tg, cfgpath, own, foreign):
        if not foreign:
            return own
        explicit = bool(cfgpath) and os.path.basename(cfgpath) not in (".pyscn.toml", "pyproject.toml")
        depth = len([p for p in os.path.relpath(abs_loc(cwd, tg[0]), root).split("/") if p not in (".", "")])
        at_root = "none" if (not cfgpath or explicit) else ("pyscn" if os.path.basename(cfgpath) == ".pyscn.toml" else "tool")
        src, _ = c17.py_spec_resolve({"explicit": "file" if explicit else None, "target": ["none"] * depth + [at_root, "none"], "cwd": ["none"]})
        if src == "SDefaults":
            return (d_inc, d_exc, True)
        if src[0] == "SExplicit" or (src[0] == "SFromTarget" and src[1] == depth):
            return own
        raise RuntimeError("e2e: unexpected configuration source %r" % (src,))

    # specification for every run; for a run from a foreign working directory also what would be selected if that directory's
    # configuration were (wrongly) applied: the candidate that changes the selection is the one written
    items, alt_items, defs, seen = [], [], [], set()
    for ti, root, children, cwd, tg, inc, exc, rec, cfgpath, foreign in runs:
        if ti not in seen:
            seen.add(ti)
            defs.append("Definition w%d := %s." % (ti, cnode(world_node(root, children))))
        inc, exc, rec = in_force(root, cwd, tg, cfgpath, (inc, exc, rec), foreign)
        items.append("run_spec w%d %s %s %s %s %s" % (ti, cstrs([p for p in cwd.split("/") if p]), clist([cspath(t) for t in tg]),
                                                      cbool(rec), cstrs(inc), cstrs(exc)))
        for finc, fexc, frec in (foreign["cands"] if foreign else []):
            alt_items.append("run_spec w%d %s %s %s %s %s" % (ti, cstrs([p for p in cwd.split("/") if p]), clist([cspath(t) for t in tg]),
                                                          cbool(frec), cstrs(finc or d_inc), cstrs(fexc or d_exc)))
    out = lib.coq_eval("C18_e2e", REQ, "\n".join(defs) + "\nEval vm_compute in %s.\nEval vm_compute in %s.\n" % (clist(items), clist(alt_items)))
    specs, alts = lib.parse_coq_values(out)[:2]
    alts = list(alts)
    nviol = 0
    for (ti, root, children, cwd, tg, inc, exc, rec, cfgpath, foreign), spec in zip(runs, specs):
        spec = sorted({loc_str(x) for x in spec})
        rep = os.path.join(cwd, ".pyscn")
        shutil.rmtree(rep, ignore_errors=True)
        explicit = bool(cfgpath) and os.path.basename(cfgpath) not in (".pyscn.toml", "pyproject.toml")
        args = ["analyze", "--json", "--no-open", "--select", "complexity", "--min-complexity", "1"] + (["-c", cfgpath] if explicit else []) + tg
        if cfgpath:
            with open(cfgpath, "w") as f:
                f.write(cfg_texts[cfgpath])
        ftext = None
        if foreign:
            mine, alts = alts[:len(foreign["cands"])], alts[len(foreign["cands"]):]
            differs = [sorted({loc_str(x) for x in a}) != spec for a in mine]
            pick = differs.index(True) if True in differs else 0
            finc, fexc, frec = foreign["cands"][pick]
            pre = "tool.pyscn." if foreign["style"] == "pyproject.toml" else ""
            ftext = "%s[%sanalysis]\nrecursive = %s\n%s%s" % (
                "[project]\nname = \"elsewhere\"\n\n" if foreign["style"] == "pyproject.toml" else "", pre, "true" if frec else "false",
                ("include_patterns = %s\n" % json.dumps(finc)) if finc else "", ("exclude_patterns = %s\n" % json.dumps(fexc)) if fexc else "")
            with open(foreign["path"], "w") as f:
                f.write(ftext)
            stats["e2e_foreign_cwd_runs"] = stats.get("e2e_foreign_cwd_runs", 0) + 1
            stats["e2e_foreign_cwd_config_would_change_the_selection"] = stats.get("e2e_foreign_cwd_config_would_change_the_selection", 0) + (1 if True in differs else 0)
            k = "e2e_foreign_cwd_%s_%s_target_%s" % (foreign["level"], foreign["style"].strip("."), "without_config" if not cfgpath else ("explicit" if explicit else "own_config"))
            stats[k] = stats.get(k, 0) + 1
        rc, so, se = lib.pyscn(args, cwd)
        if cfgpath:
            os.remove(cfgpath)
        if foreign:
            os.remove(foreign["path"])
        data = None
        rdir = os.path.join(rep, "reports")
        if os.path.isdir(rdir):
            fs = sorted(f for f in os.listdir(rdir) if f.endswith(".json"))
            if fs:
                data = json.load(open(os.path.join(rdir, fs[-1])))
        shutil.rmtree(rep, ignore_errors=True)
        stats["evaluations"] += 1
        stats["e2e_runs"] += 1
        replay = {"kind": "e2e", "tree": children, "root": root, "cwd": cwd, "args": args, "config": cfg_texts[cfgpath] if cfgpath else None, "config_file": cfgpath,
                  "spec": spec}
        where = ""
        if foreign:
            replay.update(working_directory_config_file=foreign["path"], working_directory_config=ftext)
            where = "; the working directory is not above the target: the configuration file %s it (%s) says nothing about this target" % (
                "above" if foreign["level"] == "above" else "in", foreign["path"])
        if data is None:
            if spec:
                nviol += 1
                if nviol <= 3:
                    replay["stderr"] = se[-600:]
                    ck.violation("pyscn %s (cwd %s) produced no report although %d files are to be analysed: %s%s" % (
                        " ".join(args), cwd, len(spec), se.strip()[-200:], where), replay)
            else:
                stats["e2e_empty"] += 1
            continue
        files = sorted(abs_loc(cwd, p) for p in report_files(data))
        total = data["summary"]["total_files"]
        if files != spec or total != len(spec):
            nviol += 1
            if nviol <= 3:
                replay.update(files_in_report=files, total_files=total)
                ck.violation("pyscn %s (cwd %s): report covers %d files, summary.total_files = %d, specification selects %d; wrongly analysed %s, missing %s%s"
                             % (" ".join(args), cwd, len(files), total, len(spec),
                                [os.path.relpath(x, root) for x in sorted(set(files) - set(spec))[:4]],
                                [os.path.relpath(x, root) for x in sorted(set(spec) - set(files))[:4]], where), replay)
    stats["disagreements"] += nviol



# ---------------------------------------------------------------------------------------
# part E: symbolic links ([analysis] follow_symlinks) — Cli/FileSelLinks.v
# ---------------------------------------------------------------------------------------
REQ_LINKS = ("From Coq Require Import NArith List Bool.\nImport ListNotations.\n"
             "From PV Require Import Gen.FileSelConst Cli.Glob Cli.FileSel Cli.FileSelLinks Props.C18Links.\nOpen Scope N_scope.")
KIND_COQ = {"file": "KFile", "dir": "KDir", "dangling": "KDangling"}


def clnode(nd):
    if nd[0] == "F":
        return "LFile %s" % cstr(nd[1])
    if nd[0] == "D":
        return "LDir %s %s" % (cstr(nd[1]), clist([clnode(c) for c in nd[2]]))
    return "LLink %s %s %s" % (cstr(nd[1]), KIND_COQ[nd[2]], clist([clnode(c) for c in nd[3]]))


def materialize_links(path, children, outside, counter):
    os.makedirs(path, exist_ok=True)
    for c in children:
        p = os.path.join(path, c[1])
        if c[0] == "F":
            with open(p, "w") as f:
                f.write(PY_BODY if c[1].lower().endswith((".py", ".pyi")) else "text\n")
        elif c[0] == "D":
            materialize_links(p, c[2], outside, counter)
        else:
            counter[0] += 1
            if c[2] == "file":
                tgt = os.path.join(outside, "f%d.py" % counter[0])
                with open(tgt, "w") as f:
                    f.write(PY_BODY)
            elif c[2] == "dir":
                tgt = os.path.join(outside, "d%d" % counter[0])
                materialize_links(tgt, c[3], outside, counter)
            else:
                tgt = os.path.join(outside, "nothing%d" % counter[0])
            os.symlink(tgt, p)


def lworld(root, children):
    parts = [p for p in root.split("/") if p]
    nd = ("D", parts[-1], children)
    for p in reversed(parts[:-1]):
        nd = ("D", p, [nd])
    return ("D", "", [nd])


LINK_TREES = [
    # (cause the implementation is known to get wrong, entries of the project root)
    ("none", [("F", "a.py"), ("D", "sub", [("F", "b.py")])]),
    ("file-link", [("F", "a.py"), ("L", "l.py", "file", []), ("D", "sub", [("F", "b.py"), ("L", "m.pyi", "file", [])])]),
    ("file-link", [("F", "a.py"), ("L", "test_l.py", "file", []), ("L", "notes.txt", "file", [])]),
    ("dir-link", [("F", "a.py"), ("L", "dl", "dir", [("F", "c.py"), ("D", "deep", [("F", "d.py")]), ("F", "test_c.py")])]),
    ("dir-link", [("F", "a.py"), ("D", "sub", [("L", "pkg", "dir", [("F", "e.py")]), ("F", "b.py")])]),
    # dangling links are skipped (C18-G3, repaired): the other files are analysed as if the link were not there
    ("none", [("F", "a.py"), ("L", "gone.py", "dangling", []), ("D", "sub", [("F", "b.py")])]),
    ("none", [("F", "a.py"), ("D", "sub", [("F", "b.py"), ("L", "gone.pyi", "dangling", [])])]),
    ("none", [("F", "a.py"), ("L", "gone.py", "dangling", []), ("L", "gone2.pyi", "dangling", []),
              ("D", "sub", [("L", "gone3.py", "dangling", []), ("F", "b.py"), ("D", "deep", [("L", "g4.py", "dangling", []), ("F", "c.py")])]),
              ("D", "onlygone", [("L", "g.py", "dangling", [])])]),
    ("none", [("L", "a_gone.py", "dangling", []), ("F", "z.py"), ("L", "zz_gone.py", "dangling", [])]),
    ("none", [("F", "a.py"), ("L", "gone.txt", "dangling", []), ("L", "test_gone.py", "dangling", []), ("L", ".hid.py", "dangling", [])]),
    ("dir-link", [("F", "a.py"), ("L", "mod.py", "dir", [("F", "x.py")])]),
    # links called like a pruned directory (to a file, to a directory, dangling), with Python files and directories sorting before and after
    # them: a link is no directory to prune; whatever it is, its siblings are analysed
    ("none", [("F", "a.py"), ("L", "build", "file", []), ("F", "c.py"), ("D", "zz", [("F", "d.py")]), ("L", "venv", "dangling", []), ("F", "x.py")]),
    ("dir-link", [("F", "a.py"), ("L", "dist", "dir", [("F", "e.py")]), ("L", "env", "dir", [("F", "e2.py")]), ("F", "m.py"),
                  ("D", "sub", [("F", "b.py"), ("L", "node_modules", "dir", [("F", "n.py")]), ("L", "x.egg-info", "file", []), ("F", "y.py")])]),
    ("file-link", [("F", "a.py"), ("L", "build.py", "file", []), ("L", "__pycache__", "file", []), ("F", "c.py"), ("L", ".venv", "file", []),
                   ("D", "pkg", [("L", "ENV", "file", []), ("F", "p.py")])]),
]


def links_part(ck, rng, stats, d_inc, d_exc, thorough):
    base = lib.fresh_dir("c18_links")
    runs = []
    for ti, (cause, children) in enumerate(LINK_TREES):
        root = os.path.join(base, "t%d" % ti, "proj")
        outside = os.path.join(base, "t%d" % ti, "outside")
        os.makedirs(outside, exist_ok=True)
        children = sorted(children, key=lambda c: c[1].encode())
        materialize_links(root, children, outside, [0])
        for follow in ((None, False, True) if thorough or ti in (1, 3) else (rng.choice([None, False]), True)):
            runs.append((ti, cause, root, children, follow))
    items = []
    for ti, cause, root, children, follow in runs:
        items.append("run_links %s (%s) %s %s true %s %s" % (cbool(bool(follow)), clnode(lworld(root, children)), cstrs([p for p in root.split("/") if p]),
                                                             clist([cspath(".")]), cstrs(d_inc), cstrs(d_exc)))
    vals = lib.parse_coq_values(lib.coq_eval("C18_links", REQ_LINKS, "Eval vm_compute in %s.\n" % clist(items)))[0]
    nviol = 0
    for (ti, cause, root, children, follow), (mcode, mspec) in zip(runs, vals):
        cfg = os.path.join(root, ".pyscn.toml")
        if follow is None:
            if os.path.exists(cfg):
                os.remove(cfg)
        else:
            with open(cfg, "w") as f:
                # the patterns are spelled out: a configuration file without them has other defaults than no file (C17's business)
                f.write("[analysis]\nfollow_symlinks = %s\ninclude_patterns = %s\nexclude_patterns = %s\n"
                        % ("true" if follow else "false", json.dumps(d_inc), json.dumps(d_exc)))
        shutil.rmtree(os.path.join(root, ".pyscn"), ignore_errors=True)
        args = ["analyze", "--json", "--no-open", "--select", "complexity", "--min-complexity", "1", "."]
        rc, so, se = lib.pyscn(args, root)
        data = None
        rdir = os.path.join(root, ".pyscn", "reports")
        if os.path.isdir(rdir):
            fs = sorted(f for f in os.listdir(rdir) if f.endswith(".json"))
            if fs:
                data = json.load(open(os.path.join(rdir, fs[-1])))
        shutil.rmtree(os.path.join(root, ".pyscn"), ignore_errors=True)
        stats["evaluations"] += 1
        stats["link_runs"] = stats.get("link_runs", 0) + 1
        spec = sorted({loc_str(x) for x in mspec})
        model = None if mcode is None else sorted({loc_str(x) for x in mcode[1]})
        cx = (data or {}).get("complexity")
        impl = None if (cx is None) else sorted({abs_loc(root, f["FilePath"]) for f in (cx.get("Functions") or [])})
        replay = {"kind": "links", "tree": children, "root": root, "follow_symlinks": follow, "args": args, "exit": rc, "spec": spec, "model": model,
                  "impl": impl, "stderr": se[-400:],
                  "how": "entries ('F', name) / ('D', name, children) / ('L', name, file|dir|dangling, entries of the directory pointed to)"}
        if impl != spec or (impl is not None and rc != 0):
            e = ck.match_known({"part": "links", "cause": cause, "follow": bool(follow)})
            if e and impl == model:
                stats["known_link_cases"] = stats.get("known_link_cases", 0) + 1
                ck.known_finding(e)
            else:
                nviol += 1
                if nviol <= 3:
                    ck.violation("pyscn analyze . with follow_symlinks %s: %s; the files to analyse are %s"
                                 % ({None: "unset", False: "= false", True: "= true"}[follow],
                                    "every analysis fails (exit %s)" % rc if impl is None else "the report covers %s" % [os.path.relpath(x, root) for x in impl],
                                    [os.path.relpath(x, root) for x in spec]), replay)
        if impl != model:
            ck.broken_ties.append("links: tree %s follow %s: pyscn analyses %s, model Cli/FileSelLinks.v says %s" % (children, follow, impl, model))
    stats["disagreements"] += nviol


# ---------------------------------------------------------------------------------------
# part F: symbolic links x working directory x spelling of the target
# ---------------------------------------------------------------------------------------
# What a link points to is a fact of the file system (a relative link text is read from the directory that holds the link), never of
# the directory the command is typed in.  Every tree below is analysed through the whole matrix of working directories and spellings:
# the analysed set and total_files must be the same everywhere.  Whether a link to a file belongs to the set at all is C18-G1's
# business: the common set is compared with the specification afterwards and attributed to G1 through its existing match.
LM_CHAIN = [(), ("pkg",), ("pkg", "deep"), ("pkg", "deep", "er")]


def lm_tree(base, link_depths):
    """A project whose directories at depth 0..3 (proj, proj/pkg, proj/pkg/deep, proj/pkg/deep/er) each hold real.py, plain.py,
    notes.txt and shared/{util.py, more/u2.py}; the directories at link_depths also hold every kind of link, each with a relative and
    with an absolute link text: to a .py file of the same directory, of a directory below, of the sibling directory through '..'
    (outside the project for depth 0), outside the project, to another link, to a text file under a Python name and to a Python file
    under another name, dangling ones (same directory, through '..', a missing directory), and links to directories (plain name and
    Python file name; below, through '..', outside).  Returns (root, entries, elsewhere, link directories)."""
    root = os.path.join(base, "proj")
    outside = os.path.join(base, "outside")
    elsewhere = os.path.join(base, "elsewhere", "wd")
    os.makedirs(elsewhere)
    materialize(outside, [("F", "o.py"), ("D", "odir", [("F", "x.py")])])
    materialize(os.path.join(base, "shared"), [("F", "util.py"), ("D", "more", [("F", "u2.py")])])     # what ../shared is from depth 0

    def shared():
        return ("D", "shared", [("D", "more", [("F", "u2.py")]), ("F", "util.py")])

    def links(d):
        here = os.path.join(root, *LM_CHAIN[d])
        up_out = "/".join([".."] * (d + 1))
        specs = [  # (name, link text relative to the link's directory, kind, entries behind a directory link)
            ("alias.py", "real.py", "file", []), ("ext.py", "../shared/util.py", "file", []), ("down.py", "shared/more/u2.py", "file", []),
            ("out.py", up_out + "/outside/o.py", "file", []), ("dot.py", "./real.py", "file", []), ("chain.py", "r_alias.py", "file", []),
            ("note.txt", "real.py", "file", []), ("lnk.pyi", "plain.py", "file", []), ("test_lnk.py", "real.py", "file", []),
            ("gone.py", "nothing.py", "dangling", []), ("gone2.py", "../nothing.py", "dangling", []), ("gone3.pyi", "nodir/x.py", "dangling", []),
            ("dl", "shared", "dir", [("D", "more", [("F", "u2.py")]), ("F", "util.py")]),
            ("dl_up", "../shared", "dir", [("D", "more", [("F", "u2.py")]), ("F", "util.py")]),
            ("dl_out", up_out + "/outside/odir", "dir", [("F", "x.py")]),
            ("mod.py", "shared/more", "dir", [("F", "u2.py")])]
        out = []
        for name, text, kind, entries in specs:
            out.append(("L", "r_" + name, kind, entries, text))
            out.append(("L", "a_" + name, kind, entries, os.path.normpath(os.path.join(here, text))))
        return out

    def build(d):
        cs = [("F", "real.py"), ("F", "plain.py"), ("F", "notes.txt"), shared()]
        if d in link_depths:
            cs += links(d)
        if d + 1 < len(LM_CHAIN):
            cs.append(("D", LM_CHAIN[d + 1][-1], build(d + 1)))
        return sorted(cs, key=lambda c: c[1].encode())

    def mat(path, children):
        os.makedirs(path, exist_ok=True)
        for c in children:
            p = os.path.join(path, c[1])
            if c[0] == "F":
                with open(p, "w") as f:
                    f.write(PY_BODY)         # notes.txt too: a link with a Python name may point to it
            elif c[0] == "D":
                mat(p, c[2])
            else:
                os.symlink(c[4], p)
    children = build(0)
    mat(root, children)
    return root, children, elsewhere, [LM_CHAIN[d] for d in sorted(link_depths)]


def lm_matrix(root, target, cwds):
    """(cwd, spelling) for the directory target from every working directory: relative, absolute, './', trailing slash, and through
    '..' (../<cwd's name>/rel, <real subdirectory>/../rel).  No spelling passes through a link."""
    out = []
    for cwd in cwds:
        rel = os.path.relpath(target, cwd)
        vs = [rel, target, rel + "/", target + "/"]
        if not rel.startswith("."):
            vs += ["./" + rel, "./" + rel + "/"]
        if cwd != "/":
            vs.append("../" + os.path.basename(cwd) + "/" + rel)
        if os.path.isdir(os.path.join(cwd, "shared")) and not os.path.islink(os.path.join(cwd, "shared")):
            vs.append("shared/../" + rel)
        for v in vs:
            if (cwd, v) not in out:
                out.append((cwd, v))
    return out


def lm_majority(sets):
    keys = [json.dumps(s) for s in sets]
    best = max(sorted(set(keys)), key=keys.count)
    return keys.index(best)


def link_matrix_part(ck, rng, stats, d_inc, d_exc, thorough):
    base = lib.fresh_dir("c18_linkmatrix")
    trees = []
    for k, depths in enumerate([{0}, {1}, {2}, {3}, {0, 1, 2, 3}]):
        trees.append(lm_tree(os.path.join(base, "m%d" % k), depths))
    cfgs = [(d_inc, d_exc, True), (["**/*.py", "*.pyi"], ["a_*"], True), (d_inc, d_exc, False), (["*.py"], ["**/shared/**", "r_d*"], True)]
    groups = []      # (tree index, root, children, targets as absolute locations, cfg, [(cwd, spelled targets)])
    for ti, (root, children, elsewhere, ldirs) in enumerate(trees):
        deepest = ldirs[-1]
        chain = [c for c in LM_CHAIN if c == deepest[:len(c)]]        # the directories at or above the deepest link directory
        for tp in chain:
            target = os.path.join(root, *tp) if tp else root
            cwds = [target, os.path.dirname(target), os.path.join(root, *deepest), root, elsewhere, os.path.dirname(root),
                    os.path.join(os.path.dirname(root), "outside"), os.path.join(root, *(deepest + ("shared",))), "/"]
            cwds += [os.path.join(root, *l) for l in ldirs]
            cwds = [c for i, c in enumerate(cwds) if c not in cwds[:i]]
            matrix = lm_matrix(root, target, cwds)
            for ci, cfg in enumerate(cfgs):
                if not thorough and ci >= 2 and (ti + len(tp) + ci) % 2:
                    continue
                groups.append((ti, root, children, [target], cfg, [(cwd, [sp]) for cwd, sp in matrix]))
            # 'each file once': the target and the link directory inside it (both orders), the target twice in two spellings
            ldir = os.path.join(root, *deepest)
            for order in ([target, ldir], [ldir, target], [target, target]):
                runs = []
                for cwd in cwds:
                    for style in range(3):
                        sps = []
                        for j, t in enumerate(order):
                            rel = os.path.relpath(t, cwd)
                            forms = [rel, t, rel + "/"]
                            sps.append(forms[(style + j) % 3] if order[0] == order[1] else forms[style])     # the same place twice: in two spellings
                        runs.append((cwd, sps))
                groups.append((ti, root, children, order, cfgs[0], runs))
    reqs = [{"op": "collect", "cwd": cwd, "targets": tg, "include": cfg[0], "exclude": cfg[1], "recursive": cfg[2]}
            for _, _, _, _, cfg, runs in groups for cwd, tg in runs]
    res = lib.driver(reqs)
    # model (what the code sees: links are leaves, dangling ones skipped) and specification (follow_symlinks = false: no links),
    # once per group in the plainest spelling; both are proved to be independent of spelling and working directory
    # (locations are printed relative to the project root: printing long paths is what costs in Coq); a group with several targets
    # covers the same places as its first group with one target: it is compared with that one
    defs, items, single = [], [], [g for g in groups if len(g[3]) == 1]
    for ti, root, children, targets, cfg, runs in single:
        if not any(d.startswith("Definition lw%d " % ti) for d in defs):
            defs.append("Definition lw%d := %s." % (ti, clnode(lworld(root, children))))
        rootn = [p for p in root.split("/") if p]
        args = "%s %s %s %s %s" % (cstrs(rootn), clist([cspath(t) for t in targets]), cbool(cfg[2]), cstrs(cfg[0]), cstrs(cfg[1]))
        items.append("(option_map (fun ps => map (fun p => skipn %d (segs (abs %s p))) ps) (collect_python_files (code_world lw%d) %s), "
                     "map (skipn %d) (analyzed_spec false lw%d %s))" % (len(rootn), cstrs(rootn), ti, args, len(rootn), ti, args))
    jobs = [("C18_linkmatrix_%d" % off, REQ_LINKS, "\n".join(defs) + "\nEval vm_compute in %s.\n" % clist(items[off:off + 3]))
            for off in range(0, len(items), 3)]
    svals = [v for out in lib.coq_eval_many(jobs, workers=16) for v in lib.parse_coq_values(out)[0]]
    by_target = {}
    for g, v in zip(single, svals):
        by_target.setdefault((g[0], g[3][0], json.dumps(g[4])), v)
    vals = [by_target[(g[0], g[3][0] if len(g[3]) == 1 else min(g[3], key=len), json.dumps(g[4]))] for g in groups]
    nviol = 0
    pos = 0
    st = {"groups": 0, "runs": 0, "cli_runs": 0, "multi_target_groups": 0, "links_in_common_sets": 0, "max_matrix": 0}

    def is_link(loc):
        return os.path.islink(loc)

    def cmdline(cwd, tg, cfg):
        return "cd %s && CollectPythonFiles(%s, recursive=%s, include=%s, exclude=%s)" % (cwd, tg, cfg[2], cfg[0], cfg[1])
    for (ti, root, children, targets, cfg, runs), (mcode, mspec) in zip(groups, vals):
        rs = res[pos:pos + len(runs)]
        pos += len(runs)
        st["groups"] += 1
        st["runs"] += len(runs)
        st["max_matrix"] = max(st["max_matrix"], len(runs))
        stats["evaluations"] += len(runs)
        if len(targets) > 1:
            st["multi_target_groups"] += 1
        bad = [(run, r) for run, r in zip(runs, rs) if "error" in r or r.get("failed")]
        if bad:
            (cwd, tg), r = bad[0]
            nviol += 1
            if nviol <= 3:
                ck.violation("CollectPythonFiles fails on existing targets %s (cwd %s) of a tree with symbolic links: %s" % (tg, cwd, r.get("message") or r.get("error")),
                             {"kind": "linkmatrix", "tree": children, "root": root, "cwd": cwd, "targets": tg, "include": cfg[0], "exclude": cfg[1], "recursive": cfg[2]})
            continue
        lists = [[abs_loc(cwd, p) for p in r["files"]] for (cwd, tg), r in zip(runs, rs)]
        sets = [sorted(set(l)) for l in lists]
        ref = lm_majority(sets)
        replay = {"kind": "linkmatrix", "tree": children, "root": root, "include": cfg[0], "exclude": cfg[1], "recursive": cfg[2],
                  "how": "entries ('F', name) / ('D', name, children) / ('L', name, file|dir|dangling, entries behind a directory link, link text); "
                         "cd cwd, FileReader.CollectPythonFiles(targets, recursive, include, exclude) — pyscn-verif op 'collect' — or pyscn analyze <targets>"}
        differ = [i for i, s in enumerate(sets) if s != sets[ref]]
        if differ:
            nviol += 1
            if nviol <= 3:
                i = differ[0]
                only_ref = [os.path.relpath(x, root) for x in sorted(set(sets[ref]) - set(sets[i]))]
                only_i = [os.path.relpath(x, root) for x in sorted(set(sets[i]) - set(sets[ref]))]
                rp = dict(replay, cwd=runs[i][0], targets=runs[i][1], other_cwd=runs[ref][0], other_targets=runs[ref][1], files_this=sets[i], files_other=sets[ref],
                          link_texts={os.path.relpath(x, root): os.readlink(x) for x in sorted(set(sets[ref]) ^ set(sets[i])) if os.path.islink(x)},
                          disagreeing_runs=len(differ), runs_in_matrix=len(runs))
                ck.violation("the analysed set depends on the working directory / the spelling of the target (tree with symbolic links): [%s] selects %d files, [%s] selects %d "
                             "(%d of the %d runs of this matrix differ from the most frequent result); only in the first %s, only in the second %s"
                             % (cmdline(runs[ref][0], runs[ref][1], cfg), len(sets[ref]), cmdline(runs[i][0], runs[i][1], cfg), len(sets[i]), len(differ), len(runs),
                                only_ref[:6], only_i[:6]), rp, independent=True)
            continue
        dups = [i for i, l in enumerate(lists) if len(l) != len(set(l))]
        if dups:
            nviol += 1
            if nviol <= 3:
                i = dups[0]
                d = sorted({x for x in lists[i] if lists[i].count(x) > 1})
                ck.violation("a file is collected more than once for targets %s (cwd %s) of a tree with symbolic links: %s" % (runs[i][1], runs[i][0], [os.path.relpath(x, root) for x in d[:4]]),
                             dict(replay, cwd=runs[i][0], targets=runs[i][1], impl=rs[i]["files"]), independent=True)
            continue
        common = sets[ref]
        st["links_in_common_sets"] += sum(1 for x in common if is_link(x))
        spec = sorted({abs_loc(root, loc_str(x)[1:] or ".") for x in mspec})
        model = None if mcode is None else sorted({abs_loc(root, loc_str(x)[1:] or ".") for x in mcode[1]})
        if common != spec:
            extra, missing = sorted(set(common) - set(spec)), sorted(set(spec) - set(common))
            e = ck.match_known({"part": "links", "cause": "file-link", "follow": False})
            if e and common == model and not missing and all(is_link(x) for x in extra):
                stats["known_link_cases"] = stats.get("known_link_cases", 0) + 1
                ck.known_finding(e)
            else:
                nviol += 1
                if nviol <= 3:
                    ck.violation("tree with symbolic links, targets %s, the same from every working directory and spelling: analysed but should not be %s; should be analysed but are not %s"
                                 % (runs[0][1], [os.path.relpath(x, root) for x in extra[:6]], [os.path.relpath(x, root) for x in missing[:6]]),
                                 dict(replay, cwd=runs[0][0], targets=runs[0][1], impl=common, spec=spec, model=model))
        elif common != model:
            ck.broken_ties.append("link matrix: targets %s: CollectPythonFiles selects %s, model Cli/FileSelLinks.v code_view says %s" % (runs[0][1], common[:8], (model or [])[:8]))
    # ---- a link to a directory named as the target itself: with and without a trailing slash, from several working directories -------
    dl_reqs, dl_groups = [], []
    for ti, (root, children, elsewhere, ldirs) in enumerate(trees):
        if not thorough and ti not in (0, 2):
            continue
        ldir = os.path.join(root, *ldirs[-1])
        for name in ("r_dl", "a_dl", "r_dl_up", "a_dl_up", "r_dl_out", "a_dl_out", "r_mod.py", "a_mod.py"):
            link = os.path.join(ldir, name)
            runs = []
            for cwd in (ldir, root, elsewhere):
                rel = os.path.relpath(link, cwd)
                for sp in (rel, link, rel + "/", link + "/", rel + "/.", "./" + rel if not rel.startswith(".") else rel + "//"):
                    runs.append((cwd, sp))
            dl_groups.append((ti, root, children, link, runs))
            dl_reqs += [{"op": "collect", "cwd": cwd, "targets": [sp], "include": ["**/*.py"], "exclude": [], "recursive": True} for cwd, sp in runs]
    dl_res = lib.driver(dl_reqs)
    pos = 0
    for ti, root, children, link, runs in dl_groups:
        rs = dl_res[pos:pos + len(runs)]
        pos += len(runs)
        stats["evaluations"] += len(runs)
        st["dir_link_target_runs"] = st.get("dir_link_target_runs", 0) + len(runs)
        outs = [None if ("error" in r or r.get("failed")) else sorted(abs_loc(cwd, p) for p in r["files"]) for (cwd, sp), r in zip(runs, rs)]
        if all(o == outs[0] for o in outs):
            continue
        slash = [o for (cwd, sp), o in zip(runs, outs) if sp.endswith("/") or sp.endswith("/.")]
        plain = [o for (cwd, sp), o in zip(runs, outs) if not (sp.endswith("/") or sp.endswith("/."))]
        behind = sorted(os.path.join(link, os.path.relpath(os.path.join(dp, f), os.path.realpath(link)))
                        for dp, _, fs in os.walk(os.path.realpath(link)) for f in fs if f.endswith(".py"))
        e = ck.match_known({"part": "linkmatrix", "cause": "dir-link-target-trailing-slash"})
        if e and all(o == [] for o in plain) and all(o == behind for o in slash):
            stats["known_dir_link_target_cases"] = stats.get("known_dir_link_target_cases", 0) + 1
            ck.known_finding(e)
            continue
        nviol += 1
        if nviol <= 3:
            ref = lm_majority(outs)
            i = [k for k, o in enumerate(outs) if o != outs[ref]][0]
            ck.violation("a symbolic link to a directory named as the target: [cd %s && CollectPythonFiles([%r])] selects %s, [cd %s && CollectPythonFiles([%r])] selects %s"
                         % (runs[ref][0], runs[ref][1], outs[ref], runs[i][0], runs[i][1], outs[i]),
                         {"kind": "linkmatrix-dirlink-target", "tree": children, "root": root, "link": link, "link_text": os.readlink(link), "cwd": runs[i][0], "targets": [runs[i][1]],
                          "other_cwd": runs[ref][0], "other_targets": [runs[ref][1]], "include": ["**/*.py"], "exclude": [], "recursive": True}, independent=True)
    # ---- the command itself: files of the report, summary.total_files and exit status over working directories x spellings -----------
    ncli = 0
    for ti, (root, children, elsewhere, ldirs) in enumerate(trees):
        deepest = ldirs[-1]
        ldir = os.path.join(root, *deepest)
        tps = [deepest] if (not thorough and len(deepest) != 1) else [deepest, ()]
        if ti == len(trees) - 1:
            tps = [(), ("pkg",)] if not thorough else LM_CHAIN
        for tp in tps:
            target = os.path.join(root, *tp) if tp else root
            cwds = [target, os.path.dirname(target), ldir, elsewhere, root]
            cwds = [c for i, c in enumerate(cwds) if c not in cwds[:i]]
            matrix = lm_matrix(root, target, cwds)
            if not thorough:
                # every working directory with its relative and its absolute spelling, the other spellings in turn
                keep, seen = [], {}
                for cwd, sp in matrix:
                    n = seen.get(cwd, 0)
                    seen[cwd] = n + 1
                    if n < 2 or (n + ti + len(tp)) % 3 == 0:
                        keep.append((cwd, sp))
                matrix = keep
            outs = []
            for cwd, sp in matrix:
                rep = os.path.join(cwd, ".pyscn")
                shutil.rmtree(rep, ignore_errors=True)
                args = ["analyze", "--json", "--no-open", "--select", "complexity", "--min-complexity", "1", sp]
                rc, so, se = lib.pyscn(args, cwd)
                data = None
                rdir = os.path.join(rep, "reports")
                if os.path.isdir(rdir):
                    fs = sorted(f for f in os.listdir(rdir) if f.endswith(".json"))
                    if fs:
                        data = json.load(open(os.path.join(rdir, fs[-1])))
                shutil.rmtree(rep, ignore_errors=True)
                stats["evaluations"] += 1
                st["cli_runs"] += 1
                files = None if data is None else sorted(abs_loc(cwd, p) for p in report_files(data))
                total = None if data is None else data["summary"]["total_files"]
                outs.append([rc, total, files])
            ref = lm_majority(outs)
            differ = [i for i, o in enumerate(outs) if o != outs[ref]]
            if differ:
                nviol += 1
                ncli += 1
                if ncli <= 2:
                    i = differ[0]
                    fa, fb = set(outs[ref][2] or []), set(outs[i][2] or [])
                    ck.violation("pyscn analyze on a tree with symbolic links depends on the working directory / the spelling of the target: `cd %s && pyscn analyze %s` gives exit %s, "
                                 "total_files %s, %d files in the report; `cd %s && pyscn analyze %s` gives exit %s, total_files %s, %d files (%d of %d runs differ from the most frequent result); "
                                 "only in the first %s, only in the second %s"
                                 % (matrix[ref][0], matrix[ref][1], outs[ref][0], outs[ref][1], len(fa), matrix[i][0], matrix[i][1], outs[i][0], outs[i][1], len(fb), len(differ), len(outs),
                                    [os.path.relpath(x, root) for x in sorted(fa - fb)[:6]], [os.path.relpath(x, root) for x in sorted(fb - fa)[:6]]),
                                 {"kind": "linkmatrix-cli", "tree": children, "root": root, "cwd": matrix[i][0], "args": ["analyze", "--json", "--select", "complexity", "--min-complexity", "1", matrix[i][1]],
                                  "other_cwd": matrix[ref][0], "other_target": matrix[ref][1], "this": outs[i], "other": outs[ref],
                                  "link_texts": {os.path.relpath(x, root): os.readlink(x) for x in sorted(fa ^ fb) if os.path.islink(x)},
                                  "how": "entries ('F', name) / ('D', name, children) / ('L', name, file|dir|dangling, entries behind a directory link, link text)"}, independent=True)
    stats["linkmatrix"] = st
    stats["disagreements"] += nviol


def cli_errors(ck, stats):
    """Targets that cannot be analysed: the run says so and writes no report that looks like a result."""
    base = lib.fresh_dir("c18_cli")
    os.makedirs(os.path.join(base, "proj", "docs"))
    with open(os.path.join(base, "proj", "a.py"), "w") as f:
        f.write(PY_BODY)
    with open(os.path.join(base, "proj", "docs", "notes.txt"), "w") as f:
        f.write("text\n")
    os.makedirs(os.path.join(base, "proj", "links"))
    os.symlink(os.path.join(base, "nothing_here"), os.path.join(base, "proj", "links", "gone.py"))
    for tg, why in ((["nonexistent"], "a target that does not exist"), (["a.py", "nonexistent/x.py"], "one of two targets does not exist"),
                    (["docs"], "a directory without Python files"), (["docs/notes.txt"], "a file that is no Python file"),
                    (["links/gone.py"], "a dangling symbolic link named as a target"), (["a.py", "links/gone.py"], "one of two targets is a dangling link"),
                    (["links"], "a directory that holds nothing but a dangling link")):
        shutil.rmtree(os.path.join(base, "proj", ".pyscn"), ignore_errors=True)
        rc, so, se = lib.pyscn(["analyze", "--json", "--no-open", "--select", "complexity"] + tg, os.path.join(base, "proj"))
        stats["evaluations"] += 1
        rep = os.path.join(base, "proj", ".pyscn", "reports")
        written = sorted(os.listdir(rep)) if os.path.isdir(rep) else []
        if rc == 0 or written:
            ck.violation("pyscn analyze %s (%s): exit %s, reports written %s" % (" ".join(tg), why, rc, written),
                         {"kind": "cli-error", "targets": tg, "exit": rc, "written": written, "stderr": se[-300:]})
            stats["disagreements"] += 1


def main(tier):
    ck = lib.Check("C18", tier)
    ck.prepare("C18.v")
    rng = ck.rng
    thorough = tier == "thorough"
    stats = {"evaluations": 0, "nonempty": 0, "error_cases": 0, "kinds": {}, "disagreements": 0, "e2e_runs": 0, "e2e_empty": 0}
    model_ok = not any(("Cli/" in f or "Gen/" in f) and "Proofs" not in f for f in getattr(ck, "failed_files", []))
    cases = []
    gstats = {}
    if ck.go_ok and model_ok:
        try:
            d_inc, d_exc = gen_const("filesel_default_include"), gen_const("filesel_default_exclude")
            gstats = glob_differential(ck, thorough)
            stats["evaluations"] += gstats["glob_pairs"]
            n_unit, bad, stats["unit_class_separator_skipped"] = unit_differential(ck, rng, 3000 if thorough else 600, d_inc, d_exc)
            stats["evaluations"] += n_unit
            stats["disagreements"] += bad + gstats["glob_mismatches"]
            cases = make_cases(rng, ck, 400 if thorough else 70, 14 if thorough else 9, thorough, d_inc, d_exc)
            cases += lattice_cases(ck, lib.fresh_dir("c18_lattice"))
            cases += wrongpos_cases(ck, lib.fresh_dir("c18_wrongpos"), d_inc, d_exc, stats)
            eval_cases(cases)
            decide_cases(ck, cases, stats)
            lattice_same_verdict(ck, cases, stats)
            e2e(ck, rng, 15 if thorough else 5, stats, d_inc, d_exc, thorough)
            links_part(ck, rng, stats, d_inc, d_exc, thorough)
            link_matrix_part(ck, rng, stats, d_inc, d_exc, thorough)
            cli_errors(ck, stats)
        except Exception as e:  # the machinery itself broke: never silently pass
            ck.broken_ties.append("correspondence machinery failed: %s" % (str(e)[-1200:]))
    elif not ck.go_ok:
        pass  # recorded by prepare
    else:
        ck.broken_ties.append("model files do not compile: %s" % ck.failed_files)

    distinct = {(c.tree_id, c.cwd, tuple(c.targets), tuple(c.inc), tuple(c.exc), c.recursive) for c in cases}
    for c in cases[:3]:
        ck.samples.append({"cwd": c.cwd, "targets": c.targets, "include": c.inc, "exclude": c.exc, "recursive": c.recursive,
                           "impl": c.impl.get("files") if isinstance(c.impl, dict) else None, "spec": c.spec})
    ck.cov.update({
        "evaluations": stats["evaluations"],
        "distinct_nontrivial": len(distinct),
        "rule": "glob: doublestar.Match vs Cli/GlobX.v xglob — plain syntax: all patterns over {a,*,?,/,.} up to length %d x all names over "
                "{a,b,/,.} up to length 5 + realistic vocabulary; full syntax: every atom of {classes [a] [ab] [a-b], negated [!a] [^a] [!a-b], "
                "escapes \\* \\a \\[ [\\]], dashes, alternatives {a,b} {a,} {,a} {a} {} nested, with * ** / class inside, malformed [ { \\}, each "
                "%s, x all names over {a,b,/,.} up to length 4 + names with metacharacters; compared where xpat_ok and no class can "
                "meet a '/' (those pairs are counted). collect: generated directory trees (depth <= 4; hidden, vendor-like, test_*/*_test "
                "files at several depths, .pyi, upper-case extensions, non-Python files) x pattern lists in both syntaxes (defaults, **/*.py, "
                "*.py, src/**, ?.py, literals, {test,spec}_*.py, [!a-z]*.py, [^a-z]*, *.py{,i}, **/{a,b}/**, {a,{b,c}}.py, \\*.py, ...) x "
                "spellings of one directory or file (., ./, rel, rel/, rel/., abs, abs/, //abs, ../x/rel, x/../rel, doubled slashes) from several "
                "working directories, and target lists with overlaps, repeats, files and missing paths; lattice: one tree with the same %d file "
                "names (among them *.py, {x}.py, a,b.py, [k].py) in every directory at depth 0..3 x %d patterns without '/' and %d with '/' "
                "(star, ?, class, range, both negations, alternatives nested / with wildcards / with classes / with an empty alternative, "
                "escapes, **) x as the only exclude and as the only include x every target level (root, pkg, pkg/deep, pkg/deep/er, a; spelled "
                "from the root and as '.' from inside): every (pattern, path) pair decided against spec_list, and for patterns without '/' "
                "the same file must be selected through every target above it; names in the wrong position: for every entry of the code's "
                "skip list (Gen/FileSelConst.v; '*' filled with 'x' and with nothing; as written and upper-cased) a directory holding a plain "
                "non-Python FILE of that name, Python files and sub-directories sorting directly before and directly after it and at both ends of the "
                "byte order, <name>.py, a directory called mod.py, a hidden file next to hidden directories, and the "
                "name again as a file one, two and three levels down, x the directory itself as target (recursive and not; '.', relative, absolute, '..', "
                "trailing slash), its sub-directory, two of them in one target list (the file at depth 0..3 below the target; from the project root "
                "above them through pyscn analyze); "
                "the generated trees also draw files called like pruned / hidden / ordinary directories (with neighbours on both sides) and "
                "directories called like files; link trees with links (file / directory / dangling) called build, dist, env, venv, node_modules, "
                "x.egg-info, __pycache__, .venv between Python files and directories; all decided against spec_list (proved = sel_spec), "
                "implementation list compared with the model list; e2e: pyscn analyze --json --select complexity with default patterns and "
                "with patterns of both syntaxes from -c / .pyscn.toml / pyproject.toml (pyscn analyze has no pattern flags), the full-syntax "
                "lists judged from the project root, from pkg and for the target pkg/deep; every tree also from a working directory that is not "
                "above the target and has a configuration of its own (in it / above it x .pyscn.toml / pyproject.toml; its include list, exclude "
                "list, recursive or all three differ, chosen so that applying it would change the selection), the target without any "
                "configuration (root and a directory inside, spelled absolutely and as ../..) and with its own / a --config configuration: "
                "the patterns in force are those of the target's configuration (rule of C17 with the working directory never consulted), else the built-in ones. "
                "link matrix: 5 trees (links in the directory at depth 0, 1, 2, 3 of proj/pkg/deep/er, and in all four) holding, each with a relative "
                "and with an absolute link text, links to a .py file of the same directory, of a directory below, of the sibling directory through "
                "'..' (outside the project at depth 0), outside the project, './x', a link to a link, a text file under a Python name, a Python file "
                "under another name, .pyi, test_*, dangling links (same directory, '..', missing directory) and links to directories (plain and "
                "Python file name; below, through '..', outside) x every target at or above the link directory x working directory (target, its "
                "parent, the link directory, a directory below it, project root, its parent, an unrelated directory, a directory outside, /) x "
                "spelling (relative, absolute, ./, trailing slash, ../<cwd>/rel, shared/../rel) x pattern lists / recursive: the set selected by "
                "CollectPythonFiles must be identical over the whole matrix (decided on the implementation alone), each path once (also for "
                "target lists [target, link directory] in both orders and the target twice in two spellings), the common set then compared with "
                "Cli/FileSelLinks.v (code_view / specification with follow_symlinks = false; links to files = C18-G1); pyscn analyze on the same "
                "trees over working directories x spellings: exit status, summary.total_files and the files of the report identical; a link to "
                "a directory named as the target itself with and without trailing slash (C18-G5). "
                "distinct = distinct (tree, cwd, targets, patterns, recursive)" % (
                    5 if thorough else 4, "alone, before and after every other atom, and in triples" if thorough else "alone and before and after each of 13 core atoms",
                    len(LATTICE_NAMES), len(LATTICE_SLASHLESS), len(LATTICE_PATHS)),
        "input_distribution": dict(stats["kinds"], collect_cases=len(cases), nonempty_selections=stats["nonempty"],
                                   error_cases=stats["error_cases"], spelling_groups=stats.get("spelling_groups", 0),
                                   e2e_runs=stats["e2e_runs"], e2e_empty=stats["e2e_empty"],
                                   e2e_full_syntax_runs=stats.get("e2e_full_syntax_runs", 0),
                                   **{k: v for k, v in sorted(stats.items()) if k.startswith("e2e_foreign_cwd")},
                                   wrongpos_names=stats.get("wrongpos_names", 0),
                                   wrongpos_files_named_like_a_pruned_directory=stats.get("wrongpos_files_named_like_a_pruned_directory", 0),
                                   e2e_wrongpos_runs=stats.get("e2e_wrongpos_runs", 0),
                                   lattice_patterns=len(LATTICE_SLASHLESS) + len(LATTICE_PATHS), lattice_target_pairs=stats.get("lattice_target_pairs", 0),
                                   **{"linkmatrix_" + k: v for k, v in sorted(stats.get("linkmatrix", {}).items())},
                                   known_link_cases=stats.get("known_link_cases", 0), known_dir_link_target_cases=stats.get("known_dir_link_target_cases", 0),
                                   known_class_separator_cases=stats.get("known_class_separator_cases", 0),
                                   unit_class_separator_skipped=stats.get("unit_class_separator_skipped", 0),
                                   collect_cases_full_syntax=sum(1 for c in cases if any(ch in q for q in c.inc + c.exc for ch in "[]{}\\")), **gstats),
        "disagreements_checked": stats["disagreements"],
    })
    ck.trusted += ["Coq 8.16.1 kernel, vm_compute for model and spec evaluation",
                   "translator /verif/translator gen_files.go (skip list, Python extensions, default include/exclude/recursive)",
                   "hand-written models Cli/GlobX.v (doublestar v4.10.0 Match: full pattern syntax, on the xpat_ok domain and where no class meets "
                   "a separator; = Cli/Glob.v on patterns without [ ] { } \\, proved) and Cli/FileSel.v "
                   "(service/file_reader.go; filepath.Clean/Join/Abs modelled, filepath.Rel(dir, Join(dir, r)) = r and filepath.Walk "
                   "order assumed), bound to the code by this differential test",
                   "file system without unreadable entries or non-ASCII names; symbolic links only in the link parts (link kinds file / directory / dangling of "
                   "Cli/FileSelLinks.v; the link text is not modelled: what a link points to does not depend on the working directory); "
                   "every `x/..` in a spelling goes through an existing directory that is no link"]
    ck.finish(assumptions=["targets exist or the run fails as a whole", "patterns within the compared doublestar domain (xpat_ok: well-formed, none of match.go's end-of-name quirks)",
                           "symbolic links only as entries below the target (a link named as the target: C18-G5); names are ASCII without '/'", "a file argument is spelled with the file name last"])
