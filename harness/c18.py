"""C18 — file selection depends on the files, not on how the path is spelled."""
import itertools
import json
import os
import re
import shutil

import lib
from lib import cbool, clist

REQ = ("From Coq Require Import NArith List Bool.\nImport ListNotations.\n"
       "From PV Require Import Gen.FileSelConst Cli.Glob Cli.FileSel Cli.FileSelRun.\nOpen Scope N_scope.")
PY_BODY = "def f(x):\n    if x:\n        return 1\n    return 2\n"


# ---------------------------------------------------------------------------------------
# Coq printers / parsers
# ---------------------------------------------------------------------------------------
def cstr(s):
    return "[" + "; ".join(str(ord(c)) for c in s) + "]"


def cstrs(ss):
    return clist([cstr(s) for s in ss])


def cnode(nd):
    if nd[0] == "F":
        return "File %s" % cstr(nd[1])
    return "Dir %s %s" % (cstr(nd[1]), clist([cnode(c) for c in nd[2]]))


def split_spath(s):
    rooted = s.startswith("/")
    rest = s[1:] if rooted else s
    return rooted, (rest.split("/") if rest != "" else [])


def cspath(s):
    r, segs = split_spath(s)
    return "(mkpath %s %s)" % (cbool(r), cstrs(segs))


def dec(codes):
    return "".join(chr(c) for c in codes)


def path_str(pair):
    rooted, segs = pair
    return ("/" if rooted else "") + "/".join(dec(s) for s in segs)


def loc_str(names):
    return "/" + "/".join(dec(n) for n in names)


def gen_const(name):
    """A list-of-strings constant of Gen/FileSelConst.v, decoded (the defaults the code has now)."""
    src = open(os.path.join(lib.COQ, "Gen", "FileSelConst.v")).read()
    m = re.search(r"Definition %s : list \(list N\) :=\s*\[(.*?)\]\.\n" % name, src, re.S)
    return [dec(int(x) for x in re.findall(r"\d+", item)) for item in re.findall(r"\[([^\[\]]*)\]", m.group(1))]


# ---------------------------------------------------------------------------------------
# generators
# ---------------------------------------------------------------------------------------
DIR_NAMES = ["src", "sub", "pkg", "tests", "a", "b", "migrations", "test_dir", "d.py", "lib",
             ".hid", ".git", ".venv", "venv", "build", "Build", "dist", "env", "ENV", "node_modules",
             "__pycache__", "x.egg-info", "Y.Egg-Info", "egg-info", "environment", "builds"]
FILE_NAMES = ["a.py", "b.py", "c.py", "x.py", "ab.py", "main.py", "test_a.py", "test_.py", "a_test.py", "_test.py",
              "test_x_test.py", "mytest_a.py", "s.pyi", "t.pyi", "test_s.pyi", "U.PY", "v.Py", "w.PYI", "notes.txt", "py",
              "README.md", ".h.py", "conftest.py", "setup.py", "a.py.bak", "x.pyc", "mod.pyx", "a.b.py", "testa.py",
              "q.pyi.py", "py.py", "tests.py"]
INCLUDES = [None, ["**/*.py"], ["*.py"], [], ["src/**"], ["src/**/*.py", "pkg/**/*.py"], ["?.py"], ["a.py"], ["**/a.py"],
            ["*.py", "*.pyi"], ["sub/*.py"], ["**/sub/**"], ["*/*.py"], ["**"], ["*"], ["**/*.pyi"], ["a/**/b/*.py"],
            ["**/?.p?"], ["src/a.py", "main.py"], ["**/*"], ["*.PY"], ["**/test_*"], ["/**/*.py"], ["./*.py"]]
EXCLUDES = [None, [], ["**/test_*.py"], ["test_*.py"], ["*_test.py"], ["**/tests/**"], ["tests/**"], ["sub/**"],
            ["**/migrations/**"], ["?.py"], ["a.py"], ["src/a.py"], ["*test*"], ["**/*.pyi"], ["*.pyi"], ["**/a/**"],
            ["sub/*.py", "**/b.py"], ["*/*/*.py"], ["**/x.py", "test_*.py", "*_test.py"], ["*"], ["a/*"], ["**/sub/*.py"]]


def gen_tree(rng, depth, thorough=False, own=None):
    """Children of one directory (called own): sorted list of ('F', name) / ('D', name, children)."""
    out = {}
    nf = rng.randint(1, 6 if depth > 1 else 4)
    for n in rng.sample(FILE_NAMES, nf):
        out[n] = ("F", n)
    if rng.random() < 0.5:
        out.setdefault("test_a.py", ("F", "test_a.py"))
    if depth > 0:
        nd = rng.randint(0, 4 if depth >= 3 else 3)
        names = rng.sample(DIR_NAMES, nd)
        if own and rng.random() < 0.3:
            names.append(own)       # a directory inside a directory of the same name
        for n in names:
            if n not in out:
                out[n] = ("D", n, gen_tree(rng, depth - 1 - (1 if rng.random() < 0.3 else 0), thorough, n))
    return [out[k] for k in sorted(out, key=lambda s: s.encode())]


def materialize(path, children):
    os.makedirs(path, exist_ok=True)
    for c in children:
        p = os.path.join(path, c[1])
        if c[0] == "F":
            with open(p, "w") as f:
                f.write(PY_BODY if c[1].lower().endswith((".py", ".pyi")) else "text\n")
        else:
            materialize(p, c[2])


def all_dirs(children, prefix=()):
    """Every directory below (relative parts)."""
    res = []
    for c in children:
        if c[0] == "D":
            res.append(prefix + (c[1],))
            res += all_dirs(c[2], prefix + (c[1],))
    return res


def all_files(children, prefix=()):
    res = []
    for c in children:
        if c[0] == "F":
            res.append(prefix + (c[1],))
        else:
            res += all_files(c[2], prefix + (c[1],))
    return res


def world_node(root, children):
    """The file system from "/" down to the generated tree (only the chain of directories leading to it)."""
    parts = [p for p in root.split("/") if p]
    nd = ("D", parts[-1], children)
    for p in reversed(parts[:-1]):
        nd = ("D", p, [nd])
    return ("D", "", [nd])


def subdirs_of(children, parts):
    cs = children
    for p in parts:
        cs = [c for c in cs if c[1] == p][0][2]
    return [c[1] for c in cs if c[0] == "D"]


def spellings(rng, root, children, tparts, is_dir, n):
    """n ways (cwd, spelled path) of naming the directory/file root/tparts."""
    target = os.path.join(root, *tparts) if tparts else root
    dirs = [()] + all_dirs(children)
    cands = []
    cwds = [tparts if is_dir else tparts[:-1], tparts[:-1] if tparts else (), ()] + rng.sample(dirs, min(3, len(dirs)))
    for cw in cwds:
        cwd = os.path.join(root, *cw) if cw else root
        rel = os.path.relpath(target, cwd)
        vs = [rel, target]
        if is_dir:
            vs += [rel + "/", target + "/", rel + "/.", rel + "//"]
        if not rel.startswith("."):
            vs += ["./" + rel, ".//" + rel]
        if "/" in rel:
            vs.append(rel.replace("/", "//", 1))
        vs.append("/" + target)
        for x in subdirs_of(children, cw):
            vs.append(x + "/../" + rel)
        if cw:
            vs.append("../" + cw[-1] + "/" + rel)
        for v in vs:
            cands.append((cwd, v))
    if rng.random() < 0.3:
        cands.append(("/", target))
        cands.append(("/", target.lstrip("/")))
    rng.shuffle(cands)
    # always keep the two plainest spellings in the mix
    base = [(target if is_dir else os.path.dirname(target), "." if is_dir else tparts[-1]), (root, target)]
    seen, res = set(), []
    for c in base + cands:
        if c not in seen:
            seen.add(c)
            res.append(c)
    return res[:n]


def abs_loc(cwd, p):
    """Absolute location a spelled path denotes (lexical; POSIX normpath keeps a leading '//')."""
    return re.sub(r"^/+", "/", os.path.normpath(os.path.join(cwd, p)))


# ---------------------------------------------------------------------------------------
# part A: doublestar vs Cli/Glob.v
# ---------------------------------------------------------------------------------------
def words(alpha, n):
    for k in range(n + 1):
        for t in itertools.product(alpha, repeat=k):
            yield "".join(t)


VOCAB_PATTERNS = sorted({p for ps in INCLUDES + EXCLUDES if ps for p in ps} |
                        {"**/*.py", "*.pyi", "test_*.py", "*_test.py", "**/__pycache__/**", "__pycache__/*", "*.pyc",
                         "src/**/*.py", "lib/**/*.py", "**/migrations/**", "**/test_*.py", "*test*", "**/utils*", "**/*__init__*",
                         "**/main*", "main*", "a*b*c", "*a*", "a?c", "**/a/**/b", "a/**/b/**/c", "*/**/*.py", "**/*/*.py", "/**",
                         "/tmp/**/*.py", "t?st_*.py", "*.p*", "*.*", "**/.*", ".*", "*/", "a//b", "**/**/*.py", "x*/**", "a***"})
VOCAB_NAMES = ["a.py", "test_a.py", "a_test.py", "sub/a.py", "sub/test_a.py", "sub/deep/test_a.py", "/tmp/w/a.py", "/tmp/w/test_a.py",
               "./a.py", "../x/a.py", "src/a.py", "src/pkg/a.py", "lib/a.py", "s.pyi", "sub/s.pyi", "migrations/0001.py",
               "app/migrations/0001.py", "__pycache__/a.pyc", "a/b", "a/x/b", "a/x/y/b", "a/b/c", "a/x/b/y/c", "abc", "aXbYc", "ac", "abc.py",
               "main.py", "src/main_utils.py", ".h.py", "sub/.h.py", "a", "ab", "a/b.py", "x/a", "x", "xy/z", "a//b", "/a.py", "tests/t.py",
               "pkg/tests/t.py", "test_.py", "_test.py", "a.pyi", "a.pyc", "a.p", "a."]


def glob_differential(ck, thorough):
    pl, nl = (5, 5) if thorough else (4, 5)
    pats = list(words("a*?/.", pl)) + VOCAB_PATTERNS
    names = [n for n in words("ab/.", nl)] + VOCAB_NAMES
    res = lib.driver([{"op": "globgrid", "patterns": pats, "paths": names}])[0]
    chunk = 48      # results are packed 48 names per number (big numbers are slow to print in Coq)
    chunks = [names[i:i + chunk] for i in range(0, len(names), chunk)]
    shard = 140
    jobs = []
    for off in range(0, len(pats), shard):
        body = ("Definition chunks := %s.\nDefinition nok := map (map name_ok) chunks.\n"
                "Definition rows := map (fun p => (map (glob_row p) chunks, pat_ok p)) %s.\n"
                "Eval vm_compute in nok.\nEval vm_compute in rows.\n") % (clist([cstrs(c) for c in chunks]), cstrs(pats[off:off + shard]))
        jobs.append(("C18_glob_%d" % off, REQ, body))
    outs = lib.coq_eval_many(jobs, workers=16)
    nok, rows = None, []
    for out in outs:
        vals = lib.parse_coq_values(out)
        nok = [b for ch in vals[0] for b in ch]
        rows += vals[1]
    mask = 0
    for ok in nok:
        mask = (mask << 1) | (1 if ok else 0)
    n_ok = n_skip = mism = pairs = 0
    for p, go_row, bad, (coq_chunks, pok) in zip(pats, res["rows"], res["bad_pattern"], rows):
        if not pok:
            n_skip += 1
            continue
        n_ok += 1
        pairs += bin(mask).count("1")
        if bad:
            ck.broken_ties.append("glob: doublestar rejects pattern %r that Glob.v's pat_ok admits" % p)
            continue
        coq_row = 0
        for ch, v in zip(chunks, coq_chunks):
            coq_row = (coq_row << len(ch)) | v
        diff = (int(go_row) ^ coq_row) & mask
        if diff:
            mism += 1
            i = len(names) - diff.bit_length()
            if mism <= 3:
                ck.broken_ties.append("glob: doublestar.Match(%r, %r) = %s but Cli/Glob.v says %s" % (
                    p, names[i], bool((int(go_row) >> (len(names) - 1 - i)) & 1), bool((coq_row >> (len(names) - 1 - i)) & 1)))
    return {"glob_patterns_in_subset": n_ok, "glob_patterns_outside_subset": n_skip, "glob_names": bin(mask).count("1"),
            "glob_pairs": pairs, "glob_mismatches": mism}


# ---------------------------------------------------------------------------------------
# part B: CollectPythonFiles on real directory trees vs model vs spec
# ---------------------------------------------------------------------------------------
class Case:
    __slots__ = ("tree_id", "root", "children", "cwd", "targets", "inc", "exc", "recursive", "kind", "impl", "model", "mabs", "spec")

    def replay(self):
        return {"kind": "collect:" + self.kind, "tree": self.children, "root": self.root, "cwd": self.cwd, "targets": self.targets,
                "include": self.inc, "exclude": self.exc, "recursive": self.recursive,
                "how": "create the tree (('D', name, children) / ('F', name)) under root, cd cwd, "
                       "FileReader.CollectPythonFiles(targets, recursive, include, exclude) — or pyscn-verif op 'collect'"}


def make_cases(rng, ck, n_trees, per_tree, thorough, d_inc, d_exc):
    base = lib.fresh_dir("c18_trees")
    cases = []
    for ti in range(n_trees):
        rootname = rng.choice(["proj", "build", "env", ".hidden", "p.py", "venv", "x", "lib"])
        children = gen_tree(rng, rng.choice([1, 2, 3, 3, 4]), thorough, rootname)
        root = os.path.join(base, "w%d" % ti, rootname)
        materialize(root, children)
        dirs = [()] + all_dirs(children)
        files = all_files(children)
        for _ in range(per_tree):
            inc = rng.choice(INCLUDES)
            exc = rng.choice(EXCLUDES)
            if rng.random() < 0.35:
                inc, exc = None, None
            inc = d_inc if inc is None else inc
            exc = d_exc if exc is None else exc
            recursive = rng.random() < 0.75
            k = rng.random()
            groups = []
            if k < 0.55 or not files:
                # one directory, several spellings: each alone
                d = rng.choice(dirs) if rng.random() < 0.7 else ()
                for cwd, sp in spellings(rng, root, children, d, True, 4 if not thorough else 6):
                    groups.append(("dir", cwd, [sp]))
            elif k < 0.7:
                f = rng.choice(files)
                for cwd, sp in spellings(rng, root, children, f, False, 3):
                    groups.append(("file", cwd, [sp]))
            else:
                # several targets from one cwd: overlapping directories, the same one twice, files inside
                cw = rng.choice(dirs)
                cwd = os.path.join(root, *cw) if cw else root
                d = rng.choice(dirs)
                below = [x for x in dirs if x[:len(d)] == d]
                picks = [(d, True), (rng.choice(below), True)]
                if rng.random() < 0.5:
                    picks.append((d, True))
                fs_below = [x for x in files if x[:len(d)] == d]
                if fs_below and rng.random() < 0.6:
                    picks.append((rng.choice(fs_below), False))
                    if rng.random() < 0.4:
                        picks.append((picks[-1][0], False))
                if rng.random() < 0.3:
                    picks.append((rng.choice(dirs), True))
                rng.shuffle(picks)
                tg = []
                for parts, isd in picks:
                    alts = [sp for c, sp in spellings(rng, root, children, parts, isd, 40) if c == cwd]
                    tg.append(rng.choice(alts) if alts else os.path.join(root, *parts))
                if rng.random() < 0.08:
                    tg.insert(rng.randint(0, len(tg)), rng.choice(["nonexistent", "sub/none.py", "/nonexistent/x"]))
                groups.append(("multi", cwd, tg))
            for kind, cwd, tg in groups:
                c = Case()
                c.tree_id, c.root, c.children, c.cwd, c.targets = ti, root, children, cwd, tg
                c.inc, c.exc, c.recursive, c.kind = inc, exc, recursive, kind
                cases.append(c)
    return cases


def eval_cases(cases):
    """Model and spec in Coq, implementation through the driver."""
    reqs = [{"op": "collect", "cwd": c.cwd, "targets": c.targets, "include": c.inc, "exclude": c.exc, "recursive": c.recursive}
            for c in cases]
    impl = lib.driver(reqs)
    jobs, shard = [], 60
    for off in range(0, len(cases), shard):
        chunk = cases[off:off + shard]
        defs, items = [], []
        worlds = {}
        for c in chunk:
            if c.tree_id not in worlds:
                worlds[c.tree_id] = "w%d" % c.tree_id
                defs.append("Definition w%d := %s." % (c.tree_id, cnode(world_node(c.root, c.children))))
            cwdn = [p for p in c.cwd.split("/") if p]
            items.append("(run_case w%d %s %s %s %s %s, forallb pat_ok (%s ++ %s))" % (
                c.tree_id, cstrs(cwdn), clist([cspath(t) for t in c.targets]), cbool(c.recursive), cstrs(c.inc), cstrs(c.exc),
                cstrs(c.inc), cstrs(c.exc)))
        jobs.append(("C18_collect_%d" % off, REQ, "\n".join(defs) + "\nDefinition cases := %s.\nEval vm_compute in cases.\n" % clist(items)))
    vals = []
    for out in lib.coq_eval_many(jobs, workers=16):
        vals += lib.parse_coq_values(out)[0]
    for c, r, v in zip(cases, impl, vals):
        c.impl = r
        m, mabs, spec, pok = v      # Coq prints ((a, b, c), d) as (a, b, c, d)
        c.model = None if m is None else [path_str(x) for x in m[1]]
        c.mabs = None if mabs is None else [loc_str(x) for x in mabs[1]]
        c.spec = sorted({loc_str(x) for x in spec})
        if not pok:
            raise RuntimeError("harness pattern outside the modelled glob subset: %r %r" % (c.inc, c.exc))


def decide_cases(ck, cases, stats):
    nviol = ntie = 0
    for c in cases:
        r = c.impl
        if "error" in r:
            ck.broken_ties.append("collect op failed: %s" % r["error"][:300])
            continue
        stats["evaluations"] += 1
        exists = all(os.path.exists(os.path.join(c.cwd, t)) for t in c.targets)
        if r["failed"]:
            if exists:
                nviol += 1
                if nviol <= 3:
                    ck.violation("CollectPythonFiles fails on existing targets %s (cwd %s): %s" % (c.targets, c.cwd, r.get("message")), c.replay())
            elif c.model is not None:
                ck.broken_ties.append("model accepts targets %s that the implementation rejects" % c.targets)
            stats["error_cases"] += 1
            continue
        if not exists:
            nviol += 1
            if nviol <= 3:
                ck.violation("CollectPythonFiles accepts a missing target among %s" % c.targets, c.replay())
            continue
        locs = [abs_loc(c.cwd, p) for p in r["files"]]
        got = sorted(set(locs))
        what = None
        if got != c.spec:
            extra = sorted(set(got) - set(c.spec))[:4]
            missing = sorted(set(c.spec) - set(got))[:4]
            what = ("files selected differ from the specification for targets %s (cwd %s, include %s, exclude %s, recursive %s): "
                    "analysed but should not be %s; should be analysed but are not %s"
                    % (c.targets, c.cwd, c.inc, c.exc, c.recursive, [os.path.relpath(x, c.root) for x in extra],
                       [os.path.relpath(x, c.root) for x in missing]))
        elif len(locs) != len(got):
            dup = sorted({x for x in locs if locs.count(x) > 1})[:4]
            what = "a file is collected more than once for targets %s (cwd %s): %s" % (c.targets, c.cwd, [os.path.relpath(x, c.root) for x in dup])
        if what:
            nviol += 1
            if nviol <= 3:
                rp = c.replay()
                rp.update(impl=r["files"], spec=c.spec, model=c.model)
                ck.violation(what, rp)
            continue
        if got:
            stats["nonempty"] += 1
        stats["kinds"][c.kind] = stats["kinds"].get(c.kind, 0) + 1
        if c.model != r["files"]:
            ntie += 1
            if ntie <= 3:
                ck.broken_ties.append("CollectPythonFiles output differs from Cli/FileSel.v although the selected set is right: targets %s cwd %s: impl %s model %s"
                                      % (c.targets, c.cwd, r["files"][:6], (c.model or [])[:6]))
    # spelling invariance, directly on the implementation: same directory, same patterns => same set
    by = {}
    for c in cases:
        if c.kind in ("dir", "file") and "files" in c.impl and not c.impl["failed"]:
            key = (c.tree_id, abs_loc(c.cwd, c.targets[0]), tuple(c.inc), tuple(c.exc), c.recursive)
            by.setdefault(key, []).append(c)
    ngroups = 0
    for key, cs in by.items():
        if len(cs) < 2:
            continue
        ngroups += 1
        sets = [sorted(abs_loc(c.cwd, p) for p in c.impl["files"]) for c in cs]
        for c, s in zip(cs[1:], sets[1:]):
            if s != sets[0] and nviol < 6:
                nviol += 1
                rp = c.replay()
                rp.update(other_cwd=cs[0].cwd, other_targets=cs[0].targets, files_other=sets[0], files_this=s)
                ck.violation("the same directory spelled %r (cwd %s) and %r (cwd %s) selects different files" % (
                    cs[0].targets[0], cs[0].cwd, c.targets[0], c.cwd), rp)
    stats["spelling_groups"] = ngroups
    stats["disagreements"] += nviol + ntie


# ---------------------------------------------------------------------------------------
# part C: shouldIncludeFile / shouldSkipDirectory directly
# ---------------------------------------------------------------------------------------
def unit_differential(ck, rng, n, d_inc, d_exc):
    names = sorted(set(DIR_NAMES + [d.upper() for d in DIR_NAMES] + [d.capitalize() for d in DIR_NAMES] +
                       ["foo.egg-info", ".egg-info", "egg-info", "a.egg-infox", "buildx", "xbuild", "site-packages", "", "e*v", "x.EGG-INFO"]))
    rels, incs, excs = [], [], []
    for _ in range(n):
        depth = rng.choice([0, 0, 1, 1, 2, 3])
        parts = [rng.choice(["src", "sub", "a", "b", "tests", "pkg", "migrations", "x"]) for _ in range(depth)]
        parts.append(rng.choice(FILE_NAMES))
        rels.append(parts)
        i = rng.choice(INCLUDES)
        e = rng.choice(EXCLUDES)
        incs.append(d_inc if i is None else i)
        excs.append(d_exc if e is None else e)
    reqs = [{"op": "skipdir", "names": names}] + [{"op": "include", "path": "/".join(r), "include": i, "exclude": e}
                                                   for r, i, e in zip(rels, incs, excs)]
    res = lib.driver(reqs)
    body = "Eval vm_compute in run_skipdirs %s.\nEval vm_compute in %s.\n" % (
        cstrs(names), clist(["run_include %s %s %s" % (cstrs(r), cstrs(i), cstrs(e)) for r, i, e in zip(rels, incs, excs)]))
    vals = lib.parse_coq_values(lib.coq_eval("C18_unit", REQ, body))
    bad = 0
    for nme, a, b in zip(names, res[0]["skip"], vals[0]):
        if a != b:
            bad += 1
            ck.broken_ties.append("shouldSkipDirectory(%r) = %s but the model says %s" % (nme, a, b))
    for r, i, e, a, b in zip(rels, incs, excs, res[1:], vals[1]):
        if a.get("include") != b:
            bad += 1
            if bad <= 4:
                ck.broken_ties.append("shouldIncludeFile(%r, %s, %s) = %s but the model says %s" % ("/".join(r), i, e, a.get("include"), b))
    return len(names) + n, bad


# ---------------------------------------------------------------------------------------
# part D: the command line
# ---------------------------------------------------------------------------------------
def report_files(data):
    """Every FilePath / file_path that appears anywhere in the report, except echoes of the request."""
    found = set()

    def walk(x, key=None):
        if isinstance(x, dict):
            for k, v in x.items():
                if k in ("request", "Config", "config"):
                    continue
                if k in ("FilePath", "file_path", "File", "file") and isinstance(v, str) and v:
                    found.add(v)
                else:
                    walk(v, k)
        elif isinstance(x, list):
            for v in x:
                walk(v, key)
    walk(data)
    return found


def e2e(ck, rng, n_trees, stats, d_inc, d_exc, thorough):
    base = lib.fresh_dir("c18_e2e")
    runs = []
    cfg_texts = {}
    for ti in range(n_trees):
        children = gen_tree(rng, 3)
        # make sure the defaults have something to bite on, at two depths
        names = {c[1] for c in children}
        extra = [("F", n) for n in ("a.py", "test_top.py", "top_test.py", "s.pyi") if n not in names]
        if "sub" not in names:
            extra.append(("D", "sub", [("F", "b.py"), ("F", "test_n.py"), ("F", "t.pyi"), ("D", "deep", [("F", "c.py"), ("F", "n_test.py")])]))
        children = sorted(children + extra, key=lambda c: c[1].encode())
        root = os.path.join(base, "e%d" % ti, rng.choice(["proj", "build", "env"]))
        materialize(root, children)
        dirs = [()] + all_dirs(children)
        cfgs = [(None, d_inc, d_exc, True)]
        inc, exc = rng.choice([i for i in INCLUDES if i]), rng.choice([e for e in EXCLUDES if e is not None])
        rec = rng.random() < 0.8
        # the configuration reaches the run through --config, or is discovered in the project root as .pyscn.toml / pyproject.toml;
        # an empty exclude list is written out half of the time (it means: the defaults, like an absent key)
        how = rng.choice(["-c", ".pyscn.toml", "pyproject.toml"])
        cfg = os.path.join(base, "e%d" % ti, "cfg.toml") if how == "-c" else os.path.join(root, how)
        pre = "tool.pyscn." if how == "pyproject.toml" else ""
        text = "%s[%sanalysis]\nrecursive = %s\ninclude_patterns = %s\n%s" % (
            "[project]\nname = \"x\"\n\n" if how == "pyproject.toml" else "",
            pre, "true" if rec else "false", json.dumps(inc),
            ("exclude_patterns = %s\n" % json.dumps(exc)) if (exc or rng.random() < 0.5) else "")
        cfg_texts[cfg] = text       # written just before the run and removed after it (the default runs must not discover it)
        stats["e2e_config_" + how] = stats.get("e2e_config_" + how, 0) + 1
        cfgs.append((cfg, inc, exc if exc else d_exc, rec))
        for cfgpath, inc, exc, rec in cfgs:
            d = () if rng.random() < 0.5 else rng.choice(dirs)
            tg_sets = [(cwd, [sp]) for cwd, sp in spellings(rng, root, children, d, True, 3 if not thorough else 5)]
            below = [x for x in dirs if x[:len(d)] == d and x != d]
            if below:
                tg_sets.append((os.path.join(root, *d) if d else root, [".", "/".join(rng.choice(below)[len(d):])]))
            for cwd, tg in tg_sets:
                runs.append((ti, root, children, cwd, tg, inc, exc, rec, cfgpath))
    # specification for every run
    items, defs, seen = [], [], set()
    for ti, root, children, cwd, tg, inc, exc, rec, cfgpath in runs:
        if ti not in seen:
            seen.add(ti)
            defs.append("Definition w%d := %s." % (ti, cnode(world_node(root, children))))
        items.append("run_spec w%d %s %s %s %s %s" % (ti, cstrs([p for p in cwd.split("/") if p]), clist([cspath(t) for t in tg]),
                                                      cbool(rec), cstrs(inc), cstrs(exc)))
    out = lib.coq_eval("C18_e2e", REQ, "\n".join(defs) + "\nEval vm_compute in %s.\n" % clist(items))
    specs = lib.parse_coq_values(out)[0]
    nviol = 0
    for (ti, root, children, cwd, tg, inc, exc, rec, cfgpath), spec in zip(runs, specs):
        spec = sorted({loc_str(x) for x in spec})
        rep = os.path.join(cwd, ".pyscn")
        shutil.rmtree(rep, ignore_errors=True)
        explicit = bool(cfgpath) and os.path.basename(cfgpath) == "cfg.toml"
        args = ["analyze", "--json", "--no-open", "--select", "complexity", "--min-complexity", "1"] + (["-c", cfgpath] if explicit else []) + tg
        if cfgpath:
            with open(cfgpath, "w") as f:
                f.write(cfg_texts[cfgpath])
        rc, so, se = lib.pyscn(args, cwd)
        if cfgpath:
            os.remove(cfgpath)
        data = None
        rdir = os.path.join(rep, "reports")
        if os.path.isdir(rdir):
            fs = sorted(f for f in os.listdir(rdir) if f.endswith(".json"))
            if fs:
                data = json.load(open(os.path.join(rdir, fs[-1])))
        shutil.rmtree(rep, ignore_errors=True)
        stats["evaluations"] += 1
        stats["e2e_runs"] += 1
        replay = {"kind": "e2e", "tree": children, "root": root, "cwd": cwd, "args": args, "config": cfg_texts[cfgpath] if cfgpath else None, "config_file": cfgpath,
                  "spec": spec}
        if data is None:
            if spec:
                nviol += 1
                if nviol <= 3:
                    replay["stderr"] = se[-600:]
                    ck.violation("pyscn %s (cwd %s) produced no report although %d files are to be analysed: %s" % (
                        " ".join(args), cwd, len(spec), se.strip()[-200:]), replay)
            else:
                stats["e2e_empty"] += 1
            continue
        files = sorted(abs_loc(cwd, p) for p in report_files(data))
        total = data["summary"]["total_files"]
        if files != spec or total != len(spec):
            nviol += 1
            if nviol <= 3:
                replay.update(files_in_report=files, total_files=total)
                ck.violation("pyscn %s (cwd %s): report covers %d files, summary.total_files = %d, specification selects %d; wrongly analysed %s, missing %s"
                             % (" ".join(args), cwd, len(files), total, len(spec),
                                [os.path.relpath(x, root) for x in sorted(set(files) - set(spec))[:4]],
                                [os.path.relpath(x, root) for x in sorted(set(spec) - set(files))[:4]]), replay)
    stats["disagreements"] += nviol



# ---------------------------------------------------------------------------------------
# part E: symbolic links ([analysis] follow_symlinks) — Cli/FileSelLinks.v
# ---------------------------------------------------------------------------------------
REQ_LINKS = ("From Coq Require Import NArith List Bool.\nImport ListNotations.\n"
             "From PV Require Import Gen.FileSelConst Cli.Glob Cli.FileSel Cli.FileSelLinks Props.C18Links.\nOpen Scope N_scope.")
KIND_COQ = {"file": "KFile", "dir": "KDir", "dangling": "KDangling"}


def clnode(nd):
    if nd[0] == "F":
        return "LFile %s" % cstr(nd[1])
    if nd[0] == "D":
        return "LDir %s %s" % (cstr(nd[1]), clist([clnode(c) for c in nd[2]]))
    return "LLink %s %s %s" % (cstr(nd[1]), KIND_COQ[nd[2]], clist([clnode(c) for c in nd[3]]))


def materialize_links(path, children, outside, counter):
    os.makedirs(path, exist_ok=True)
    for c in children:
        p = os.path.join(path, c[1])
        if c[0] == "F":
            with open(p, "w") as f:
                f.write(PY_BODY if c[1].lower().endswith((".py", ".pyi")) else "text\n")
        elif c[0] == "D":
            materialize_links(p, c[2], outside, counter)
        else:
            counter[0] += 1
            if c[2] == "file":
                tgt = os.path.join(outside, "f%d.py" % counter[0])
                with open(tgt, "w") as f:
                    f.write(PY_BODY)
            elif c[2] == "dir":
                tgt = os.path.join(outside, "d%d" % counter[0])
                materialize_links(tgt, c[3], outside, counter)
            else:
                tgt = os.path.join(outside, "nothing%d" % counter[0])
            os.symlink(tgt, p)


def lworld(root, children):
    parts = [p for p in root.split("/") if p]
    nd = ("D", parts[-1], children)
    for p in reversed(parts[:-1]):
        nd = ("D", p, [nd])
    return ("D", "", [nd])


LINK_TREES = [
    # (cause the implementation is known to get wrong, entries of the project root)
    ("none", [("F", "a.py"), ("D", "sub", [("F", "b.py")])]),
    ("file-link", [("F", "a.py"), ("L", "l.py", "file", []), ("D", "sub", [("F", "b.py"), ("L", "m.pyi", "file", [])])]),
    ("file-link", [("F", "a.py"), ("L", "test_l.py", "file", []), ("L", "notes.txt", "file", [])]),
    ("dir-link", [("F", "a.py"), ("L", "dl", "dir", [("F", "c.py"), ("D", "deep", [("F", "d.py")]), ("F", "test_c.py")])]),
    ("dir-link", [("F", "a.py"), ("D", "sub", [("L", "pkg", "dir", [("F", "e.py")]), ("F", "b.py")])]),
    ("dangling", [("F", "a.py"), ("L", "gone.py", "dangling", []), ("D", "sub", [("F", "b.py")])]),
    ("dangling", [("F", "a.py"), ("D", "sub", [("F", "b.py"), ("L", "gone.pyi", "dangling", [])])]),
    ("none", [("F", "a.py"), ("L", "gone.txt", "dangling", []), ("L", "test_gone.py", "dangling", []), ("L", ".hid.py", "dangling", [])]),
    ("dir-link", [("F", "a.py"), ("L", "mod.py", "dir", [("F", "x.py")])]),
]


def links_part(ck, rng, stats, d_inc, d_exc, thorough):
    base = lib.fresh_dir("c18_links")
    runs = []
    for ti, (cause, children) in enumerate(LINK_TREES):
        root = os.path.join(base, "t%d" % ti, "proj")
        outside = os.path.join(base, "t%d" % ti, "outside")
        os.makedirs(outside, exist_ok=True)
        children = sorted(children, key=lambda c: c[1].encode())
        materialize_links(root, children, outside, [0])
        for follow in ((None, False, True) if thorough or ti in (1, 3) else (rng.choice([None, False]), True)):
            runs.append((ti, cause, root, children, follow))
    items = []
    for ti, cause, root, children, follow in runs:
        items.append("run_links %s (%s) %s %s true %s %s" % (cbool(bool(follow)), clnode(lworld(root, children)), cstrs([p for p in root.split("/") if p]),
                                                             clist([cspath(".")]), cstrs(d_inc), cstrs(d_exc)))
    vals = lib.parse_coq_values(lib.coq_eval("C18_links", REQ_LINKS, "Eval vm_compute in %s.\n" % clist(items)))[0]
    nviol = 0
    for (ti, cause, root, children, follow), (mcode, mspec) in zip(runs, vals):
        cfg = os.path.join(root, ".pyscn.toml")
        if follow is None:
            if os.path.exists(cfg):
                os.remove(cfg)
        else:
            with open(cfg, "w") as f:
                # the patterns are spelled out: a configuration file without them has other defaults than no file (C17's business)
                f.write("[analysis]\nfollow_symlinks = %s\ninclude_patterns = %s\nexclude_patterns = %s\n"
                        % ("true" if follow else "false", json.dumps(d_inc), json.dumps(d_exc)))
        shutil.rmtree(os.path.join(root, ".pyscn"), ignore_errors=True)
        args = ["analyze", "--json", "--no-open", "--select", "complexity", "--min-complexity", "1", "."]
        rc, so, se = lib.pyscn(args, root)
        data = None
        rdir = os.path.join(root, ".pyscn", "reports")
        if os.path.isdir(rdir):
            fs = sorted(f for f in os.listdir(rdir) if f.endswith(".json"))
            if fs:
                data = json.load(open(os.path.join(rdir, fs[-1])))
        shutil.rmtree(os.path.join(root, ".pyscn"), ignore_errors=True)
        stats["evaluations"] += 1
        stats["link_runs"] = stats.get("link_runs", 0) + 1
        spec = sorted({loc_str(x) for x in mspec})
        model = None if mcode is None else sorted({loc_str(x) for x in mcode[1]})
        cx = (data or {}).get("complexity")
        impl = None if (cx is None) else sorted({abs_loc(root, f["FilePath"]) for f in (cx.get("Functions") or [])})
        replay = {"kind": "links", "tree": children, "root": root, "follow_symlinks": follow, "args": args, "exit": rc, "spec": spec, "model": model,
                  "impl": impl, "stderr": se[-400:],
                  "how": "entries ('F', name) / ('D', name, children) / ('L', name, file|dir|dangling, entries of the directory pointed to)"}
        if impl != spec or (impl is not None and rc != 0):
            e = ck.match_known({"part": "links", "cause": cause, "follow": bool(follow)})
            if e and impl == model:
                stats["known_link_cases"] = stats.get("known_link_cases", 0) + 1
                ck.known_finding(e)
            else:
                nviol += 1
                if nviol <= 3:
                    ck.violation("pyscn analyze . with follow_symlinks %s: %s; the files to analyse are %s"
                                 % ({None: "unset", False: "= false", True: "= true"}[follow],
                                    "every analysis fails (exit %s)" % rc if impl is None else "the report covers %s" % [os.path.relpath(x, root) for x in impl],
                                    [os.path.relpath(x, root) for x in spec]), replay)
        if impl != model:
            ck.broken_ties.append("links: tree %s follow %s: pyscn analyses %s, model Cli/FileSelLinks.v says %s" % (children, follow, impl, model))
    stats["disagreements"] += nviol


def cli_errors(ck, stats):
    """Targets that cannot be analysed: the run says so and writes no report that looks like a result."""
    base = lib.fresh_dir("c18_cli")
    os.makedirs(os.path.join(base, "proj", "docs"))
    with open(os.path.join(base, "proj", "a.py"), "w") as f:
        f.write(PY_BODY)
    with open(os.path.join(base, "proj", "docs", "notes.txt"), "w") as f:
        f.write("text\n")
    for tg, why in ((["nonexistent"], "a target that does not exist"), (["a.py", "nonexistent/x.py"], "one of two targets does not exist"),
                    (["docs"], "a directory without Python files"), (["docs/notes.txt"], "a file that is no Python file")):
        shutil.rmtree(os.path.join(base, "proj", ".pyscn"), ignore_errors=True)
        rc, so, se = lib.pyscn(["analyze", "--json", "--no-open", "--select", "complexity"] + tg, os.path.join(base, "proj"))
        stats["evaluations"] += 1
        rep = os.path.join(base, "proj", ".pyscn", "reports")
        written = sorted(os.listdir(rep)) if os.path.isdir(rep) else []
        if rc == 0 or written:
            ck.violation("pyscn analyze %s (%s): exit %s, reports written %s" % (" ".join(tg), why, rc, written),
                         {"kind": "cli-error", "targets": tg, "exit": rc, "written": written, "stderr": se[-300:]})
            stats["disagreements"] += 1


def main(tier):
    ck = lib.Check("C18", tier)
    ck.prepare("C18.v")
    rng = ck.rng
    thorough = tier == "thorough"
    stats = {"evaluations": 0, "nonempty": 0, "error_cases": 0, "kinds": {}, "disagreements": 0, "e2e_runs": 0, "e2e_empty": 0}
    model_ok = not any(("Cli/" in f or "Gen/" in f) and "Proofs" not in f for f in getattr(ck, "failed_files", []))
    cases = []
    gstats = {}
    if ck.go_ok and model_ok:
        try:
            d_inc, d_exc = gen_const("filesel_default_include"), gen_const("filesel_default_exclude")
            gstats = glob_differential(ck, thorough)
            stats["evaluations"] += gstats["glob_pairs"]
            n_unit, bad = unit_differential(ck, rng, 3000 if thorough else 600, d_inc, d_exc)
            stats["evaluations"] += n_unit
            stats["disagreements"] += bad + gstats["glob_mismatches"]
            cases = make_cases(rng, ck, 400 if thorough else 70, 14 if thorough else 9, thorough, d_inc, d_exc)
            eval_cases(cases)
            decide_cases(ck, cases, stats)
            e2e(ck, rng, 15 if thorough else 5, stats, d_inc, d_exc, thorough)
            links_part(ck, rng, stats, d_inc, d_exc, thorough)
            cli_errors(ck, stats)
        except Exception as e:  # the machinery itself broke: never silently pass
            ck.broken_ties.append("correspondence machinery failed: %s" % (str(e)[-1200:]))
    elif not ck.go_ok:
        pass  # recorded by prepare
    else:
        ck.broken_ties.append("model files do not compile: %s" % ck.failed_files)

    distinct = {(c.tree_id, c.cwd, tuple(c.targets), tuple(c.inc), tuple(c.exc), c.recursive) for c in cases}
    for c in cases[:3]:
        ck.samples.append({"cwd": c.cwd, "targets": c.targets, "include": c.inc, "exclude": c.exc, "recursive": c.recursive,
                           "impl": c.impl.get("files") if isinstance(c.impl, dict) else None, "spec": c.spec})
    ck.cov.update({
        "evaluations": stats["evaluations"],
        "distinct_nontrivial": len(distinct),
        "rule": "glob: all patterns over {a,*,?,/,.} up to length %d x all names over {a,b,/,.} up to length 5 + realistic vocabulary, compared "
                "where pat_ok; collect: generated directory trees (depth <= 4; hidden, vendor-like, test_*/*_test files at several depths, "
                ".pyi, upper-case extensions, non-Python files) x pattern lists (defaults, **/*.py, *.py, src/**, ?.py, literals, ...) x "
                "spellings of one directory or file (., ./, rel, rel/, rel/., abs, abs/, //abs, ../x/rel, x/../rel, doubled slashes) from several "
                "working directories, and target lists with overlaps, repeats, files and missing paths; decided against spec_list "
                "(proved = sel_spec), implementation list compared with the model list; e2e: pyscn analyze --json --select complexity "
                "with default and configured patterns. distinct = distinct (tree, cwd, targets, patterns, recursive)" % (5 if thorough else 4),
        "input_distribution": dict(stats["kinds"], collect_cases=len(cases), nonempty_selections=stats["nonempty"],
                                   error_cases=stats["error_cases"], spelling_groups=stats.get("spelling_groups", 0),
                                   e2e_runs=stats["e2e_runs"], e2e_empty=stats["e2e_empty"], **gstats),
        "disagreements_checked": stats["disagreements"],
    })
    ck.trusted += ["Coq 8.16.1 kernel, vm_compute for model and spec evaluation",
                   "translator /verif/translator gen_files.go (skip list, Python extensions, default include/exclude/recursive)",
                   "hand-written models Cli/Glob.v (doublestar v4.10.0 Match on the pat_ok subset) and Cli/FileSel.v "
                   "(service/file_reader.go; filepath.Clean/Join/Abs modelled, filepath.Rel(dir, Join(dir, r)) = r and filepath.Walk "
                   "order assumed), bound to the code by this differential test",
                   "file system without symlinks, unreadable entries or non-ASCII names; every `x/..` in a spelling goes through an existing directory"]
    ck.finish(assumptions=["targets exist or the run fails as a whole", "patterns within the modelled doublestar subset (pat_ok)",
                           "no symbolic links; names are ASCII without '/'", "a file argument is spelled with the file name last"])
