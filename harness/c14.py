"""C14 — LCOM4 is the number of connected components of the method graph."""
import os

import lib
import classgen as cg

REQ = ("From Coq Require Import ZArith NArith List String.\nImport ListNotations.\n"
       "From PV Require Import Class.Syntax Class.SetK Class.UF Class.CBO Class.CBORun Class.LCOM Class.LCOMRun.\nOpen Scope N_scope.")
RISK = {"low": 0, "medium": 1, "high": 2}
BODY_POS = [p[0] for p in cg.POSITIONS if p[1] == "m"]                 # written inside the method body
ATTR_POS = [p for p in BODY_POS if p != "PCalledResult"]                # self.x(1) is a call, not an attribute access
EXPR_BODY_POS = [p[0] for p in cg.POSITIONS if p[1] == "m" and p[2] == "e"]
TARGET_POS = [p[0] for p in cg.POSITIONS if p[2] == "t"]


def spec_risk(low, med, n):
    return 0 if n <= low else 1 if n <= med else 2


def meth(name, body, decos=(), is_async=False):
    """is_async: written `async def`.  Class/Syntax.v has no such notion (and needs none: the vertices of the method graph are the
    instance methods, however they are declared), the flag only changes the source text"""
    return ("method", dict(name=name, decos=list(decos), params=[], ret=None, body=list(body), **{"async": bool(is_async)}))


def n_async(cls):
    return sum(1 for m in cls["members"] if m[0] == "method" and m[1].get("async"))


def settle_async(cls):
    """keep the text valid Python: an `async def` whose body Python's compiler rejects only because of the `async` (a `return value`
    next to a `yield` = async generator returning a value) goes back to a plain def.  Returns the number of such methods."""
    n = 0
    for m in cls["members"]:
        if m[0] != "method" or not m[1].get("async"):
            continue
        def text():
            return "\n".join(cg.class_src(dict(name="K", bases=[], members=[m]))) + "\n"
        try:
            compile(text(), "<c14>", "exec")
        except SyntaxError:
            m[1]["async"] = False
            try:
                compile(text(), "<c14>", "exec")
                n += 1
            except SyntaxError:
                m[1]["async"] = True          # not the async's fault
    return n


def with_async(members, mask):
    """the same members, method i written `async def` when bit i of mask is set"""
    out, i = [], 0
    for m in members:
        if m[0] == "method":
            m = ("method", dict(m[1], **{"async": bool(mask >> i & 1)}))
            i += 1
        out.append(m)
    return out


def mk_case(cls, kind, tags, low=None, med=None):
    return {"cls": cls, "kind": kind, "tags": tags, "low": low, "med": med}


def position_matrix():
    out = []
    for pos in BODY_POS:
        k = cg.POS[pos][2]
        pats = []
        if pos == "PCalledResult":
            k = "callonly"          # $E(1) with $E = self.x IS the call self.x(1)
        pats.append(("attr-attr", [meth("a", [(("attr", "self", "x"), pos)]), meth("b", [(("attr", "self", "x"), "PReturnValue")]), meth("c", [(("attr", "self", "z"), "PBody")])]))
        pats.append(("attr-other", [meth("a", [(("attr", "other", "x"), pos)]), meth("b", [(("attr", "self", "x"), "PBody")])]))
        pats.append(("attr-cls", [meth("a", [(("attr", "cls", "x"), pos)]), meth("b", [(("attr", "self", "x"), "PBody")])]))
        if k != "t":
            pats.append(("call", [meth("a", [(("call", "self", "b"), pos)]), meth("b", [(("attr", "self", "x"), "PBody")]), meth("c", [])]))
            pats.append(("call-shared-name", [meth("a", [(("call", "self", "helper"), pos)]), meth("b", [(("call", "self", "helper"), "PAssignValue")]), meth("c", [(("attr", "self", "w"), "PBody")])]))
            pats.append(("call-other", [meth("a", [(("call", "other", "b"), pos)]), meth("b", [])]))
            # hidden inside another call's argument list (slot rotates with the position)
            sl = cg.SLOTS[BODY_POS.index(pos) % len(cg.SLOTS)]
            sl2 = cg.SLOTS[(BODY_POS.index(pos) + 2) % len(cg.SLOTS)]
            pats.append(("nested-attr", [meth("a", [(("inst", ("", "Dep")), pos, [(sl, (("attr", "self", "x"), []))])]),
                                         meth("b", [(("call", "other", "fn"), "PAssignValue", [(sl2, (("call", "other", "g"), [("SArg", (("attr", "self", "x"), []))]))])]),
                                         meth("c", [(("attr", "self", "z"), "PBody")])]))
            pats.append(("nested-call", [meth("a", [(("call", "self", "c"), pos, [(sl, (("call", "self", "b"), []))])]), meth("b", []), meth("c", []), meth("d", [])]))
            pats.append(("attr-named-like-method", [meth("a", [(("attr", "self", "b"), pos)]), meth("b", []), meth("c", [(("inst", ("", "b")), pos)])]))
        for pname, members in pats:
            if k == "callonly" and pname.startswith("attr"):
                continue
            if k == "d" and pname not in ("attr-attr", "call", "attr-other", "nested-attr", "nested-call"):
                continue
            out.append(mk_case(dict(name="K", bases=[], members=members), "position", {"position": pos, "pattern": pname}))
            # the same class with some / all of its methods written `async def` (which ones rotates with the position; never none)
            if pname == ("attr-attr", "call", "nested-call")[BODY_POS.index(pos) % 3] or (k in ("t", "callonly") and pname in ("attr-attr", "call")):
                nm_ = sum(1 for m in members if m[0] == "method")
                mask = 1 + (BODY_POS.index(pos) * 3 + len(pname)) % (2 ** nm_ - 1)
                cls = dict(name="K", bases=[], members=with_async(members, mask))
                settle_async(cls)
                out.append(mk_case(cls, "position-async", {"position": pos, "pattern": pname, "async_mask": mask}))
    return out


def rand_class(rng, nmax=12, dup=False, mixed=False):
    cls = rand_class0(rng, nmax, dup, mixed)
    settle_async(cls)
    return cls


def rand_class0(rng, nmax, dup, mixed):
    n = rng.choice([0, 1, 1, 2, 3, 4, 5, 6, 8, 10, nmax])
    # method kind: every definition (instance, static, class; decorated or not; a redefinition too) is `def` or `async def`;
    # per class: no coroutine at all, a few, about half, all but a few, only coroutines
    p_async = rng.choice([0.0, 0.0, 0.15, 0.5, 0.5, 0.85, 1.0, 1.0])
    names = ["m%d" % i for i in range(n)]
    attrs = ["f%d" % i for i in range(rng.randint(1, max(1, n)))]
    members = []
    density = rng.choice([0.5, 1.0, 1.5, 2.5])
    statics = set()
    for nm_ in names:
        decos = []
        r = rng.random()
        if r < 0.12:
            decos = ["staticmethod"]
        elif r < 0.24:
            decos = ["classmethod"]
        elif r < 0.34:
            # also decorators that are calls or attributes (getDecoratorName: Call with a Name callee, Call with another callee, Attribute)
            decos = [rng.choice(["property", "abstractmethod", "cache", "lru_cache(maxsize=8)", "functools.cache", "app.route(1)", "staticmethod_like", "wraps(staticmethod)"])]
        # stacked decorators: the static/class marker may sit above, below or between other decorators
        if decos and rng.random() < 0.4:
            for _ in range(rng.choice([1, 1, 2])):
                decos.insert(rng.randint(0, len(decos)), rng.choice(["final", "abstractmethod", "cache", "override", "property"]))
        if set(decos) & {"staticmethod", "classmethod"}:
            statics.add(nm_)
        body = []
        for _ in range(int(rng.random() * density * 2 + rng.random())):
            kk = rng.random()
            obj = "self"
            if "staticmethod" in decos:
                obj = rng.choice(["other", "K"])
            elif "classmethod" in decos:
                obj = "cls"
            elif rng.random() < 0.12:
                obj = rng.choice(["other", "cls", "selfish"])
            if kk < 0.55:
                body.append((("attr", obj, rng.choice(attrs + names[:2])), rng.choice(ATTR_POS)))
            elif kk < 0.9:
                body.append((("call", obj, rng.choice(names + ["inherited", "helper"])), rng.choice(EXPR_BODY_POS)))
            else:
                body.append((("inst", ("", rng.choice(["Dep", "m0", "f0"]))), rng.choice(EXPR_BODY_POS)))
        # hide some of the mentions inside the argument list of another call
        for i, x in enumerate(body):
            if rng.random() < 0.25:
                host = rng.choice([("inst", ("", "Dep")), ("call", "other", "fn"), ("call", obj if x[0][0] != "inst" else "other", rng.choice(names + ["helper"]))])
                inner = (x[0], [])
                if rng.random() < 0.3:
                    inner = (("call", "other", "wrap"), [(rng.choice(cg.SLOTS), inner)])
                body[i] = (host, rng.choice(EXPR_BODY_POS), [(rng.choice(cg.SLOTS), inner)])
        members.append(meth(nm_, body, decos, is_async=rng.random() < p_async))
    if dup and n >= 2:
        # redefine a method under the same name (same kind unless mixed)
        for _ in range(rng.randint(1, 2)):
            src = rng.choice(members)[1]
            is_static = src["name"] in statics
            decos = list(src["decos"])
            if mixed:
                decos = [] if is_static else [rng.choice(["staticmethod", "classmethod"])]
            obj = "self" if not (set(decos) & {"staticmethod", "classmethod"}) else "cls"
            body = [(("attr", obj, rng.choice(attrs)), rng.choice(ATTR_POS)) for _ in range(rng.randint(0, 2))]
            # the redefinition keeps or changes the def / async def kind
            members.insert(rng.randint(0, len(members)), meth(src["name"], body, decos, is_async=rng.random() < max(p_async, 0.3) if rng.random() < 0.5 else src["async"]))
    if rng.random() < 0.3:
        members.insert(rng.randint(0, len(members)), ("attr", "field", ("ref", ("", "int"))))
    if rng.random() < 0.3:
        rng.shuffle(members)
    return dict(name="K", bases=[], members=members)


def threshold_cases():
    out = []
    pairs = [(None, None), (0, 0), (1, 1), (1, 3), (2, 2), (3, 4), (5, 2), (2, 6), (4, 9)]
    for k in range(1, 9):
        members = [meth("m%d" % i, [(("attr", "self", "f%d" % i), "PBody")]) for i in range(k)]
        for lo, me in pairs:
            out.append(mk_case(dict(name="K", bases=[], members=members), "threshold", {"position": "PBody", "pattern": "disjoint", "k": k}, low=lo, med=me))
        # the same lattice for classes of coroutine methods only, and with exactly one plain def among them (first, middle, last by turns)
        for j, (lo, me) in enumerate(pairs):
            if (j + k) % 3:
                continue                              # three of the nine pairs per k, another three for the next k
            if (j + k) % 2:
                out.append(mk_case(dict(name="K", bases=[], members=with_async(members, 2 ** k - 1)), "threshold-async",
                                   {"position": "PBody", "pattern": "disjoint-all-async", "k": k}, low=lo, med=me))
                continue
            one = (0, k // 2, k - 1)[j % 3]
            out.append(mk_case(dict(name="K", bases=[], members=with_async(members, (2 ** k - 1) & ~(1 << one))), "threshold-async",
                               {"position": "PBody", "pattern": "disjoint-one-plain-def", "k": k, "plain": one}, low=lo, med=me))
    return out


def stress_cases(rng, n):
    """union-find stress family (classgen.unionfind_stress_terms): many methods, every attribute shared by two or three of them,
    self-calls mixed in; each class is analysed several times because the unions happen in Go map iteration order"""
    out = []
    for i, t in enumerate(cg.unionfind_stress_terms(rng, n)):
        # method kind: a third of the classes as generated (plain defs), a third with a random half of the methods `async def`, a third all
        nm_ = sum(1 for m in t["cls"]["members"] if m[0] == "method")
        mask = (0, rng.getrandbits(nm_ + 1), 2 ** nm_ - 1)[(i + i // len(cg.UF_FAMILIES)) % 3]
        t["cls"]["members"] = with_async(t["cls"]["members"], mask)
        settle_async(t["cls"])
        c = mk_case(t["cls"], "uf-stress", {"position": "mixed", "pattern": "uf-stress", "family": t["family"]})
        c["expect"] = (t["lcom4"], t["groups"])
        out.append(c)
    return out


def e2e_stress(ck, stress, specs, runs=2):
    """the stress classes through `pyscn analyze --json --select lcom`, one file per class, several fresh processes"""
    d = lib.fresh_dir("c14_e2e_stress")
    for i, c in enumerate(stress):
        with open(os.path.join(d, "uf_%d.py" % i), "w") as f:
            f.write(cg.file_src(dict(imports=[], classes=[]), c["cls"]))
    n = bad = 0
    for run in range(runs):
        rc, data, err = lib.analyze_json(d, ["--select", "lcom"], env={"GOMAXPROCS": "1" if run % 2 else "4"})
        if data is None or "lcom" not in data:
            ck.broken_ties.append("e2e stress: pyscn analyze produced no lcom report (rc=%s): %s" % (rc, err[-300:]))
            continue
        got = {os.path.basename(cl["FilePath"]): cl for cl in data["lcom"].get("Classes") or []}
        for i, c in enumerate(stress):
            if specs[i] is None:
                continue
            n += 1
            s4, sgroups = specs[i]
            cl = got.get("uf_%d.py" % i)
            src = cg.file_src(dict(imports=[], classes=[]), c["cls"])
            if cl is None:
                ck.violation("class K of uf_%d.py missing from lcom.Classes[]" % i, {"kind": "e2e-uf-stress", "source": src})
                continue
            m = cl["Metrics"]
            cli = (m["LCOM4"], sorted(sorted(g) for g in (m["MethodGroups"] or [])))
            if cli != (s4, sgroups):
                bad += 1
                if bad <= 2:
                    ck.violation("pyscn analyze (run %d of %d on the same files) reports LCOM4 %d, groups %s; the method graph has %d connected components %s [%s]"
                                 % (run + 1, runs, cli[0], cli[1], s4, sgroups, c["tags"]),
                                 {"kind": "e2e-uf-stress", "tags": c["tags"], "source": src, "cli": cl, "spec": {"lcom4": s4, "groups": sgroups}})
    return n


# ------------------------------------------------------------------------------------------
# positions OUTSIDE Class/Syntax.v: rarely walked expression / target positions, written as Python templates only.
# The oracle is Python's own parser: `ast` lists the self.x / self.m() nodes of every method (whatever the position), the
# method graph and its components are computed from that list.  (name, root-cause group, kinds, template lines);
# kinds: "e" any expression (self.x and self.m()), "n" a dotted name only (self.x), "t" store target (self.x)
# ------------------------------------------------------------------------------------------
EXTRA_POSITIONS = [
    # an f-string that is one part of an implicit string concatenation
    ("XFStringConcatFirst", "fstring-in-concatenation", "e", ['v = f"{$E}" "tail"']),
    ("XFStringConcatSecond", "fstring-in-concatenation", "e", ['v = "head" f"{$E}"']),
    ("XFStringConcatBoth", "fstring-in-concatenation", "e", ['v = f"{q}" f"{$E}"']),
    ("XFStringConcatSpec", "fstring-in-concatenation", "e", ['v = "head" f"{q:>{$E}}"']),
    ("XFStringConcatThree", "fstring-in-concatenation", "e", ['v = "head" f"{q}" "mid" f"{$E!r}" "tail"']),
    ("XFStringConcatArg", "fstring-in-concatenation", "e", ['print("head" f"{$E}", end="")']),
    ("XYieldFrom", "yield-from", "e", ["yield from $E"]),
    ("XYieldFromAssigned", "yield-from", "e", ["v = yield from $E"]),
    ("XExceptTypeAs", "except-type-as", "e", ["try:", "    pass", "except $E as err:", "    pass"]),
    ("XExceptTupleAs", "except-type-as", "e", ["try:", "    pass", "except (E, $E) as err:", "    pass"]),
    ("XExceptTuple", "except-type", "e", ["try:", "    pass", "except (E, $E):", "    pass"]),
    ("XExceptSecondHandlerAs", "except-type-as", "e", ["try:", "    pass", "except E:", "    pass", "except $E as err:", "    pass"]),
    ("XExceptStarAs", "except-type-as", "e", ["try:", "    pass", "except* $E as err:", "    pass"]),
    # several `if` clauses of one comprehension
    ("XCompFirstIfOfTwo", "comprehension-several-ifs", "e", ["v = [i for i in y if $E if d]"]),
    ("XCompLastIfOfTwo", "comprehension-last-if", "e", ["v = [i for i in y if c if $E]"]),
    ("XCompFirstIfOfThree", "comprehension-several-ifs", "e", ["v = [i for i in y if $E if d if e]"]),
    ("XCompMiddleIfOfThree", "comprehension-several-ifs", "e", ["v = {i for i in y if c if $E if e}"]),
    ("XDictCompFirstIfOfTwo", "comprehension-several-ifs", "e", ["v = {i: 1 for i in y if $E if d}"]),
    ("XGenExpFirstIfOfTwo", "generator-several-ifs", "e", ["v = sum(i for i in y if $E if d)"]),
    ("XGenExpAssignedFirstIfOfTwo", "comprehension-several-ifs", "e", ["v = (i for i in y if $E if d)"]),
    ("XCompFirstIfOfTwoSecondFor", "comprehension-several-ifs", "e", ["v = [i for j in y if c for i in j if $E if d]"]),
    ("XCompFirstIfOfTwoFirstFor", "comprehension-several-ifs", "e", ["v = [i for j in y if $E if d for i in j if c]"]),
    ("XCompSecondForIter", "comprehension-clauses", "e", ["v = [i for j in y for i in $E]"]),
    ("XCompIfBetweenFors", "comprehension-clauses", "e", ["v = [i for j in y if $E for i in j]"]),
    ("XDictCompKey", "comprehension-clauses", "e", ["v = {$E: i for i in y}"]),
    # parameters of a nested def / lambda
    ("XNestedDefTypedDefault", "typed-default-parameter", "e", ["def g(a: int = $E):", "    pass"]),
    ("XNestedDefTypedKwDefault", "typed-default-parameter", "e", ["def g(a=1, *, b: int = $E):", "    pass"]),
    ("XNestedDefTypedSecondDefault", "typed-default-parameter", "e", ["def g(a: int = 1, b: str = $E, *c, **d):", "    pass"]),
    ("XNestedAsyncDefTypedDefault", "typed-default-parameter", "e", ["async def g(a: int = $E):", "    pass"]),
    ("XNestedDefKwDefault", "parameters", "e", ["def g(*, a=$E):", "    pass"]),
    ("XNestedDefParamAnnotation", "parameters", "e", ["def g(a: $E):", "    pass"]),
    ("XNestedDefReturnAnnotation", "parameters", "e", ["def g() -> $E:", "    pass"]),
    ("XLambdaDefault", "parameters", "e", ["v = lambda a=$E: a"]),
    # starred targets / values
    ("XStarTargetFirst", "starred-first-target", "t", ["*$E, yy = xs"]),
    ("XStarTargetFirstOfThree", "starred-first-target", "t", ["*$E, yy, zz = xs"]),
    ("XStarTargetFirstInList", "starred-first-target", "t", ["[*$E, yy] = xs"]),
    ("XForStarTargetFirst", "starred-first-target", "t", ["for *$E, a in xs:", "    pass"]),
    ("XStarTargetLast", "starred", "t", ["yy, *$E = xs"]),
    ("XForStarTarget", "starred", "t", ["for a, *$E in xs:", "    pass"]),
    ("XStarInList", "starred", "e", ["v = [*$E, 1]"]),
    # match statement patterns
    ("XMatchValue", "match-pattern", "n", ["match v:", "    case $E:", "        pass"]),
    ("XMatchSequence", "match-pattern", "n", ["match v:", "    case [$E, 1]:", "        pass"]),
    ("XMatchOr", "match-pattern", "n", ["match v:", "    case 1 | $E:", "        pass"]),
    ("XMatchClassKeyword", "match-pattern", "n", ["match v:", "    case P(x=$E):", "        pass"]),
    ("XMatchMappingValue", "match-pattern", "n", ["match v:", "    case {\"k\": $E}:", "        pass"]),
    ("XMatchOpenSequence", "match-pattern", "n", ["match v:", "    case 1, $E:", "        pass"]),
    ("XMatchTupleAs", "match-pattern", "n", ["match v:", "    case ($E as nm, 2):", "        pass"]),
    ("XMatchClassPositional", "match-pattern", "n", ["match v:", "    case P($E, 2):", "        pass"]),
    ("XMatchNestedClassInMapping", "match-pattern", "n", ["match v:", "    case {\"k\": P(x=[$E])}:", "        pass"]),
    ("XMatchSecondCase", "match-pattern", "n", ["match v:", "    case 1:", "        pass", "    case $E | None:", "        pass"]),
    ("XMatchGuard", "match", "e", ["match v:", "    case 1 if $E:", "        pass"]),
    # a class defined inside the method
    ("XNestedClassBase", "nested-class-bases", "e", ["class In($E):", "    pass"]),
    ("XNestedClassKeyword", "nested-class-bases", "e", ["class In(metaclass=$E):", "    pass"]),
    ("XNestedClassSecondBase", "nested-class-bases", "e", ["class In(Base, $E):", "    pass"]),
    ("XNestedClassBaseSubscript", "nested-class-bases", "e", ["class In(Generic[$E]):", "    pass"]),
    ("XNestedClassBody", "nested-class", "e", ["class In:", "    q = $E"]),
    # further expression positions
    ("XSliceUpper", "expression", "e", ["v = a[1:$E]"]),
    ("XSliceStep", "expression", "e", ["v = a[::$E]"]),
    ("XDelSubscriptIndex", "store-target-subscript-index", "e", ["del d[$E]"]),
    ("XAugSubscriptIndex", "store-target-subscript-index", "e", ["d[$E] += 1"]),
    ("XAnnAssignAnnotation", "expression", "e", ["v: $E = 1"]),
    ("XReturnTupleElt", "expression", "e", ["return 1, $E"]),
    ("XWithSecondItem", "expression", "e", ["with w, $E:", "    pass"]),
    ("XChainedCompareLast", "expression", "e", ["v = 1 < 2 < $E"]),
    ("XMatMulLeft", "expression", "e", ["v = $E @ m"]),
    ("XTernaryInLambda", "expression", "e", ["v = (lambda: 0) if $E else 1"]),
    ("XGlobalPrintStar", "expression", "e", ["print(*$E)"]),
    ("XAwait", "expression", "e", ["async def g():", "    return await $E"]),
    ("XAsyncForIter", "expression", "e", ["async def g():", "    async for i in $E:", "        pass"]),
    ("XAsyncWithItem", "expression", "e", ["async def g():", "    async with $E:", "        pass"]),
]


def py_method_graph(src, cls_name="K"):
    """(LCOM4, groups) of class cls_name, read off Python's own syntax tree: vertices = the instance methods (the last definition
    of a name), edge = a common self attribute (self.x, and self.m of self.m()) or a call self.m() of a method of the class"""
    import ast
    tree = ast.parse(src)
    cls = [n for n in ast.walk(tree) if isinstance(n, ast.ClassDef) and n.name == cls_name][0]
    meths = {}
    for fn in cls.body:
        if isinstance(fn, (ast.FunctionDef, ast.AsyncFunctionDef)):
            decos = {d.id for d in fn.decorator_list if isinstance(d, ast.Name)}
            if decos & {"staticmethod", "classmethod"}:
                meths.pop(fn.name, None)
                continue
            attrs = {n.attr for n in ast.walk(fn) if isinstance(n, ast.Attribute) and isinstance(n.value, ast.Name) and n.value.id == "self"}
            calls = {n.func.attr for n in ast.walk(fn) if isinstance(n, ast.Call) and isinstance(n.func, ast.Attribute)
                     and isinstance(n.func.value, ast.Name) and n.func.value.id == "self"}
            meths[fn.name] = (attrs, calls)
    names = sorted(meths)
    edges = [(i, j) for i, a in enumerate(names) for j, b in enumerate(names)
             if i < j and (meths[a][0] & meths[b][0] or b in meths[a][1] or a in meths[b][1])]
    groups = sorted(sorted(names[x] for x in comp) for comp in cg._components(len(names), edges))
    return (1 if len(names) <= 1 else len(groups)), groups


def extra_position_cases():
    out = []
    for pname, group, kinds, tpl in EXTRA_POSITIONS:
        pats = [("attr-attr", "self.x", "other.q", ["return self.x"], ["return self.z"])]
        if kinds == "e":
            pats.append(("call", "self.b()", "other.q()", ["return self.y"], ["pass"]))
            pats.append(("nested-attr", "Dep(other.fn(self.x))", "Dep(other.fn(other.q))", ["return self.x"], ["return self.z"]))
        for pat, expr, neutral, b_body, c_body in pats:
            def text(e):
                lines = ["class K:", "    def a(self):"] + ["        " + l.replace("$E", e) for l in tpl] + ["", "    def b(self):"] + \
                        ["        " + l for l in b_body] + ["", "    def c(self):"] + ["        " + l for l in c_body]
                return "\n".join(lines) + "\n"
            out.append({"position": pname, "group": group, "pattern": pat, "src": text(expr), "src_without": text(neutral)})
    return out


def check_extra_positions(ck):
    cases = extra_position_cases()
    impl = lib.driver([{"op": "lcom", "src": c["src"]} for c in cases])
    n_known = n_viol = 0
    for c, r in zip(cases, impl):
        want = py_method_graph(c["src"])
        without = py_method_graph(c["src_without"])
        ks = [x for x in r.get("classes", []) if x["name"] == "K"] if "error" not in r else []
        if len(ks) != 1:
            n_viol += 1
            ck.violation("LCOM analysis failed or class K missing: %s" % str(r)[:300], {"kind": "extra-position", "source": c["src"]})
            continue
        got = (ks[0]["lcom4"], sorted(sorted(g) for g in ks[0]["groups"]))
        if got == want:
            continue
        tags = {"class": "position-outside-syntax", "position": c["position"], "position_group": c["group"], "pattern": c["pattern"],
                "only_that_access_missing": got == without and want != without}
        e = ck.match_known(tags)
        if e:
            n_known += 1
            ck.known_finding(e)
            continue
        n_viol += 1
        if n_viol <= 6:
            ck.violation("LCOM4 %d, groups %s; Python's syntax tree of the class gives the method graph %d components %s (position %s, %s)"
                         % (got[0], got[1], want[0], want[1], c["position"], c["pattern"]),
                         {"kind": "extra-position", "tags": tags, "source": c["src"], "impl": ks[0], "spec": {"lcom4": want[0], "groups": want[1]},
                          "components_without_that_access": {"lcom4": without[0], "groups": without[1]}})
    return len(cases), n_known, n_viol


# ------------------------------------------------------------------------------------------
# method KINDS: how a member function of the class is declared.  Instance methods (vertices of the method graph) are
# `def` and `async def`, bare or under any decorator(s) other than staticmethod / classmethod; the excluded kinds are
# @staticmethod / @classmethod, alone or stacked with other decorators, in `def` and `async def` form.
# Written as Python text, decided against the method graph read off Python's own syntax tree (py_method_graph) -
# LCOM4, MethodGroups, TotalMethods, ExcludedMethods and the risk level of the threshold pair in force.
# (name, decorator lines, receiver or None, instance method?)
# ------------------------------------------------------------------------------------------
_DECOS = [
    ("bare", [], "self", True),
    ("wraps-call", ["functools.wraps(fn)"], "self", True),
    ("name-deco", ["cache"], "self", True),
    ("property", ["property"], "self", True),
    ("abstractmethod", ["abc.abstractmethod"], "self", True),
    ("stacked", ["final", "abstractmethod", "lru_cache(maxsize=8)"], "self", True),
    ("staticmethod", ["staticmethod"], None, False),
    ("classmethod", ["classmethod"], "cls", False),
    ("stacked-staticmethod", ["final", "staticmethod"], None, False),
    ("stacked-classmethod", ["classmethod", "cache"], "cls", False),
]
METHOD_KINDS = [(("async-" if a else "") + n, a, d, r, inst) for n, d, r, inst in _DECOS for a in (False, True)]
KIND = {k[0]: k for k in METHOD_KINDS}
PLAIN_KINDS = ["bare", "async-bare"]
KIND_THRESHOLDS = [(None, None), (1, 2), (0, 0), (1, 1), (2, 2), (1, 3), (2, 3), (3, 1)]

# bodies only an `async def` can have: (name, kinds as in EXTRA_POSITIONS, lines)
ASYNC_FORMS = [
    ("AAwaitStmt", "e", ["await $E"]),
    ("AAwaitAssigned", "e", ["v = await $E"]),
    ("AAwaitReturned", "e", ["return await $E"]),
    ("AAwaitGatherArg", "e", ["await asyncio.gather(other.q(), $E)"]),
    ("AAwaitInCondition", "e", ["if await $E:", "    pass"]),
    ("AAsyncForIter", "e", ["async for i in $E:", "    pass"]),
    ("AAsyncForTarget", "t", ["async for $E in y:", "    pass"]),
    ("AAsyncForBody", "e", ["async for i in y:", "    v = $E"]),
    ("AAsyncForElse", "e", ["async for i in y:", "    pass", "else:", "    v = $E"]),
    ("AAsyncWithItem", "e", ["async with $E:", "    pass"]),
    ("AAsyncWithSecondItem", "e", ["async with w, $E as h:", "    pass"]),
    ("AAsyncWithAsTarget", "t", ["async with w as $E:", "    pass"]),
    ("AAsyncWithBody", "e", ["async with w:", "    await $E"]),
    ("AAsyncCompIter", "e", ["v = [i async for i in $E]"]),
    ("AAsyncCompIf", "e", ["v = [i async for i in y if $E]"]),
    ("AAwaitInComp", "e", ["v = [await $E for i in y]"]),
    ("AAsyncGenYield", "e", ["yield $E"]),
    ("AAsyncGenYieldAssigned", "e", ["v = yield $E"]),
    ("AAsyncGenYieldInLoop", "e", ["async for i in y:", "    yield $E"]),
    ("AAsyncGenAwaitThenYield", "e", ["v = await other.q()", "yield v", "yield $E"]),
    ("ANestedAsyncDefAwait", "e", ["async def g():", "    return await $E", "return await g()"]),
]


def kind_method(name, kind, body):
    """source lines of one member function of kind `kind`; `$R` in the body is its receiver (self / cls / the class name)"""
    _, is_async, decos, rcv, _ = KIND[kind]
    lines = ["@" + d for d in decos] + ["%sdef %s(%s):" % ("async " if is_async else "", name, rcv or "")]
    return lines + ["    " + l.replace("$R", rcv or "K") for l in (body or ["pass"])]


def call_line(caller_kind, callee, callee_kind):
    """`$R.callee()` as the caller would write it: awaited when both are coroutines, otherwise handed on"""
    if KIND[caller_kind][1] and KIND[callee_kind][1]:
        return "v = await $R.%s()" % callee
    if KIND[callee_kind][1]:
        return "v = asyncio.ensure_future($R.%s())" % callee
    return "v = $R.%s()" % callee


def kind_class(methods):
    """methods: [(name, kind, body lines)]"""
    lines = ["class K:"]
    for name, kind, body in methods:
        lines += ["    " + l for l in kind_method(name, kind, body)] + [""]
    return "import abc, asyncio, functools\n\n\n" + "\n".join(lines)


def method_kind_cases():
    out = []

    def add(shape, methods, **tags):
        kinds = [k for _, k, _ in methods]
        out.append({"shape": shape, "src": kind_class(methods), "kinds": kinds,
                    "tags": dict(tags, **{"class": "method-kind", "shape": shape, "kinds": "/".join(kinds)})})
    all_kinds = [k[0] for k in METHOD_KINDS]
    # (1) a constructor that touches nothing + two methods on attributes of their own: every ordered pair of kinds
    for k1 in all_kinds:
        for k2 in all_kinds:
            add("init+two-disjoint", [("__init__", "bare", []), ("start", k1, ["return $R.x"]), ("stop", k2, ["$R.y = 1"])])
    # (2) the single bridge between two components is of kind kb (a shared attribute on each side); ends of every plain kind
    for kb in all_kinds:
        for ka in PLAIN_KINDS:
            for kc in PLAIN_KINDS:
                add("bridge-by-attributes", [("a", ka, ["return self.x"]), ("b", kb, ["$R.x = $R.y"]), ("c", kc, ["return self.y"]), ("d", ka, ["return self.z"])])
                # (3) the bridge is called by one end and calls the other
                add("bridge-by-calls", [("a", ka, [call_line(ka, "b", kb)]), ("b", kb, [call_line(kb, "c", kc)]), ("c", kc, []), ("d", kc, ["return self.z"])])
                # (4) attribute on one side, call on the other, declared in the opposite order
                add("bridge-attribute-and-call", [("d", kc, []), ("c", kc, ["return self.y"]), ("b", kb, ["$R.y = 1", call_line(kb, "a", ka)]), ("a", ka, [])])
    # (5) classes made of coroutine methods only: 1..5 of them, disjoint / a chain of calls / a chain of attributes / one hub
    for n in range(1, 6):
        ms = ["m%d" % i for i in range(n)]
        add("only-async-disjoint", [(m, "async-bare", ["return self.f%d" % i]) for i, m in enumerate(ms)], n=n)
        add("only-async-call-chain", [(m, "async-bare", ["return await self.%s()" % ms[i + 1]] if i + 1 < n else []) for i, m in enumerate(ms)], n=n)
        add("only-async-attr-chain", [(m, "async-bare", ["self.f%d = self.f%d" % (i, i + 1)]) for i, m in enumerate(ms)], n=n)
        add("only-async-hub+isolated", [(m, "async-bare", (["await self.%s()" % x for x in ms[1:-1]] if i == 0 else [])) for i, m in enumerate(ms)], n=n)
        add("only-async-decorated-mix", [(m, all_kinds[1::2][i % 6], ["return self.f%d" % (i // 2)]) for i, m in enumerate(ms)], n=n)
        add("only-async-with-excluded", [(m, ("async-bare", "async-staticmethod", "async-classmethod")[i % 3], ["return $R.f%d" % (i // 3)]) for i, m in enumerate(ms)], n=n)
    # (6) bodies only a coroutine can have, holding the access that joins `a` to `b` (partner of either plain kind)
    for fname, kinds, tpl in ASYNC_FORMS:
        pats = [("attr-attr", "self.x", ["return self.x"], ["return self.z"])]
        if kinds == "e":
            pats.append(("call", "self.b()", ["return self.y"], []))
            pats.append(("nested-attr", "Dep(other.fn(self.x))", ["return self.x"], ["return self.z"]))
        for pat, expr, b_body, c_body in pats:
            for kb in PLAIN_KINDS:
                add("async-body", [("a", "async-bare", [l.replace("$E", expr) for l in tpl]), ("b", kb, b_body), ("c", "async-bare" if kb == "bare" else "bare", c_body)],
                    form=fname, pattern=pat)
    for i, c in enumerate(out):
        c["low"], c["med"] = lo, me = KIND_THRESHOLDS[i % len(KIND_THRESHOLDS)]
        # the CLI rejects low <= 0 and medium <= low: those pairs go to the analyser only, the CLI run takes low 1, medium 2 instead
        c["cli"] = (lo, me) if lo is None or 0 < lo < me else (1, 2)
    return out


def py_method_counts(src, cls_name="K"):
    """(definitions of member functions in the class body, of which @staticmethod / @classmethod), from Python's syntax tree"""
    import ast
    cls = [n for n in ast.walk(ast.parse(src)) if isinstance(n, ast.ClassDef) and n.name == cls_name][0]
    fns = [fn for fn in cls.body if isinstance(fn, (ast.FunctionDef, ast.AsyncFunctionDef))]
    excl = [fn for fn in fns if {d.id for d in fn.decorator_list if isinstance(d, ast.Name)} & {"staticmethod", "classmethod"}]
    return len(fns), len(excl)


def check_method_kinds(ck, dlow, dmed):
    """driver (the thresholds of the case) and CLI (one .pyscn.toml per threshold pair) on the method-kind classes"""
    cases = method_kind_cases()
    for c in cases:
        compile(c["src"], "<c14 method kinds>", "exec")                  # the generator writes valid Python (raises otherwise)
        c["want"] = py_method_graph(c["src"]) + py_method_counts(c["src"])
    reqs = []
    for c in cases:
        r = {"op": "lcom", "src": c["src"]}
        if c["low"] is not None:
            r["low"], r["medium"] = c["low"], c["med"]
        reqs.append(r)
    impl = lib.driver(reqs)
    n_viol = n_known = n_cli = 0
    hist = {}

    def report(c, what, replay):
        nonlocal n_viol, n_known
        e = ck.match_known(c["tags"])
        if e:
            n_known += 1
            ck.known_finding(e)
            return
        n_viol += 1
        if n_viol <= 6:
            ck.violation(what + " [%s]" % c["tags"], replay)

    def verdict(c, got, risk, via, lo, me):
        w4, wgroups, wtotal, wexcl = c["want"]
        lo = dlow if lo is None else lo
        me = dmed if me is None else me
        if got[0] != w4:
            return "%s: LCOM4 %d, the method graph (instance methods: def and async def alike, static/class methods excluded) has %d connected components %s" % (via, got[0], w4, wgroups)
        if got[1] != wgroups:
            return "%s: method groups %s are not the components %s" % (via, got[1], wgroups)
        if got[2:] != (wtotal, wexcl):
            return "%s: TotalMethods/ExcludedMethods %d/%d, the class defines %d methods of which %d static/class" % (via, got[2], got[3], wtotal, wexcl)
        if RISK.get(risk) != spec_risk(lo, me, w4):
            return "%s: risk level %s for %d components does not follow the thresholds low=%d medium=%d" % (via, risk, w4, lo, me)
        return None

    failed = set()
    for i, (c, r) in enumerate(zip(cases, impl)):
        hist[c["shape"]] = hist.get(c["shape"], 0) + 1
        replay = {"kind": "method-kind", "tags": c["tags"], "source": c["src"], "options": {"low": c["low"], "medium": c["med"]},
                  "spec": dict(zip(("lcom4", "groups", "total", "excluded"), c["want"]))}
        ks = [x for x in r.get("classes", []) if x["name"] == "K"] if "error" not in r else []
        if len(ks) != 1:
            failed.add(i)
            report(c, "LCOM analysis failed or class K missing: %s" % str(r)[:300], replay)
            continue
        ic = ks[0]
        bad = verdict(c, (ic["lcom4"], sorted(sorted(g) for g in ic["groups"]), ic["total"], ic["excluded"]), ic["risk"], "analyser", c["low"], c["med"])
        if bad:
            failed.add(i)
            report(c, bad, dict(replay, impl=ic))
    # the same classes through `pyscn analyze --json --select lcom`: one directory (and .pyscn.toml) per threshold pair, a file per shape
    for lo, me in sorted({c["cli"] for c in cases}, key=str):
        d = lib.fresh_dir("c14_kinds_%s_%s" % (lo, me))
        with open(os.path.join(d, ".pyscn.toml"), "w") as f:
            f.write("" if lo is None else "[lcom]\nlow_threshold = %d\nmedium_threshold = %d\n" % (lo, me))
        files = {}
        for i, c in enumerate(cases):
            if c["cli"] == (lo, me):
                files.setdefault(c["shape"], []).append(i)
        for shape, idxs in files.items():
            with open(os.path.join(d, "kinds_%s.py" % shape.replace("-", "_").replace("+", "_")), "w") as f:
                f.write("\n\n".join(cases[i]["src"].replace("class K:", "class K%d:" % i).replace("K.", "K%d." % i) for i in idxs) + "\n")
        rc, data, err = lib.analyze_json(d, ["--select", "lcom"])
        if data is None or "lcom" not in data:
            ck.broken_ties.append("method kinds: pyscn analyze produced no lcom report (rc=%s): %s" % (rc, err[-300:]))
            continue
        got = {cl["Name"]: cl for cl in data["lcom"].get("Classes") or []}
        for idxs in files.values():
            for i in idxs:
                c = cases[i]
                n_cli += 1
                if i in failed:
                    continue
                replay = {"kind": "method-kind-cli", "tags": c["tags"], "source": c["src"], "toml_lcom": {"low_threshold": lo, "medium_threshold": me},
                          "spec": dict(zip(("lcom4", "groups", "total", "excluded"), c["want"]))}
                cl = got.get("K%d" % i)
                if cl is None:
                    report(c, "pyscn analyze: the class is missing from lcom.Classes[]", replay)
                    continue
                m = cl["Metrics"]
                bad = verdict(c, (m["LCOM4"], sorted(sorted(g) for g in (m["MethodGroups"] or [])), m["TotalMethods"], m["ExcludedMethods"]), cl["RiskLevel"], "pyscn analyze", lo, me)
                if bad:
                    report(c, bad, dict(replay, cli=cl))
    return len(cases), n_cli, n_known, n_viol, hist


def coq_opts(c, dlow, dmed):
    return "(LcomOptions (%d)%%Z (%d)%%Z)" % (dlow if c["low"] is None else c["low"], dmed if c["med"] is None else c["med"])


def names_of(gs):
    return sorted(sorted(cg.decode(x) for x in g) for g in gs)


def eval_coq(cases, dlow, dmed):
    jobs = []
    shard = min(300, max(100, -(-len(cases) // 12)))       # one round of the 12 workers when possible
    for off in range(0, len(cases), shard):
        items = ["run_lcom %s %s" % (coq_opts(c, dlow, dmed), cg.class_coq(c["cls"])) for c in cases[off:off + shard]]
        jobs.append(("C14_cases_%d" % off, REQ, "Definition cases := %s.\nEval vm_compute in cases.\n" % cg.clist(items)))
    res = []
    for out in lib.coq_eval_many(jobs, workers=12):
        res += lib.parse_coq_values(out)[0]
    return res


def method_profile(cls):
    """names defined more than once; names defined both as instance and as static/class method"""
    kinds = {}
    for m in cls["members"]:
        if m[0] == "method":
            ex = bool(set(m[1]["decos"]) & {"staticmethod", "classmethod"})
            kinds.setdefault(m[1]["name"], []).append(ex)
    dup = any(len(v) > 1 for v in kinds.values())
    mixed = any(len(set(v)) > 1 for v in kinds.values())
    n_defs = sum(len(v) for v in kinds.values())
    n_excl = sum(sum(v) for v in kinds.values())
    return dup, mixed, n_defs, n_excl


def e2e(ck, cases, impl):
    n = 0
    for toml, lo, me, tag in (("", None, None, "default"), ("[lcom]\nlow_threshold = 1\nmedium_threshold = 3\n", 1, 3, "custom")):
        d = lib.fresh_dir("c14_e2e_" + tag)
        with open(os.path.join(d, ".pyscn.toml"), "w") as f:
            f.write("[cbo]\nshow_zeros = true\n" + toml)
        picked = [(i, c, r) for i, (c, r) in enumerate(zip(cases, impl)) if c["low"] is None and "error" not in r]
        picked = picked[::max(1, len(picked) // 36)][:40]
        for i, c, r in picked:
            with open(os.path.join(d, "mod_%d.py" % i), "w") as f:
                f.write(cg.file_src(dict(imports=[], classes=[]), c["cls"]))
        rc, data, err = lib.analyze_json(d, ["--select", "cbo,lcom"])
        if data is None or "lcom" not in data:
            ck.broken_ties.append("e2e: pyscn analyze produced no lcom report (rc=%s): %s" % (rc, err[-300:]))
            continue
        got = {}
        for cl in data["lcom"].get("Classes") or []:
            got[(os.path.basename(cl["FilePath"]), cl["Name"])] = cl
        dlow, dmed = impl[0]["low"], impl[0]["medium"]
        for i, c, r in picked:
            for ic in r["classes"]:
                n += 1
                cl = got.get(("mod_%d.py" % i, ic["name"]))
                src = cg.file_src(dict(imports=[], classes=[]), c["cls"])
                if cl is None:
                    ck.violation("class %s of mod_%d.py missing from lcom.Classes[]" % (ic["name"], i), {"kind": "e2e", "source": src, "driver": ic})
                    continue
                m = cl["Metrics"]
                cli = (m["LCOM4"], sorted(sorted(g) for g in (m["MethodGroups"] or [])), m["TotalMethods"], m["ExcludedMethods"])
                drv = (ic["lcom4"], sorted(sorted(g) for g in ic["groups"]), ic["total"], ic["excluded"])
                if cli != drv:
                    ck.violation("pyscn analyze reports %s for class %s, the analyser called directly reports %s" % (cli, ic["name"], drv),
                                 {"kind": "e2e", "source": src, "cli": cl, "driver": ic})
                want = spec_risk(dlow if lo is None else lo, dmed if me is None else me, m["LCOM4"])
                if RISK.get(cl["RiskLevel"]) != want:
                    ck.violation("risk level %s for LCOM4 %d does not follow the %s thresholds" % (cl["RiskLevel"], m["LCOM4"], tag),
                                 {"kind": "e2e-thresholds", "toml": toml, "source": src, "cli": cl})
    return n


def main(tier):
    ck = lib.Check("C14", tier)
    ck.prepare("C14.v")
    rng = ck.rng
    thorough = tier == "thorough"
    n_rand = 4000 if thorough else 420
    n_stress, n_runs = (400, 8) if thorough else (40, 6)
    model_ok = not any(("Class/Syntax" in f or "Class/SetK" in f or "Class/UF" in f or "Class/LCOM.v" in f or "Class/LCOMRun" in f
                        or "Class/CBO.v" in f or "Class/CBORun" in f or "Gen/" in f) for f in ck.failed_files)
    if not ck.go_ok or not model_ok:
        ck.broken_ties.append("cannot run the correspondence (go build ok=%s, model compiles=%s)" % (ck.go_ok, model_ok))
        ck.finish()

    # parser model (pos_path) against ast_builder.go: shared with C13
    n_table = 0
    try:
        import c13
        n_table = c13.check_position_table(ck)
    except Exception as e:
        ck.broken_ties.append("position table check failed: %s" % str(e)[-600:])

    cases = position_matrix() + threshold_cases()
    for i in range(n_rand):
        k = rng.random()
        cls = rand_class(rng, dup=k < 0.2, mixed=k < 0.05)
        cases.append(mk_case(cls, "random", {"position": "mixed", "pattern": "random"}))
    stress_at = len(cases)
    cases += stress_cases(rng, n_stress)
    reqs = []
    for c in cases:
        r = {"op": "lcom", "src": cg.file_src(dict(imports=[], classes=[]), c["cls"])}
        if c["low"] is not None:
            r["low"], r["medium"] = c["low"], c["med"]
        reqs.append(r)
    impl = lib.driver(reqs)
    dlow, dmed = impl[0].get("low", 2), impl[0].get("medium", 5)
    # the union-find stress classes again, n_runs - 1 more times each (a fresh process; interleaved, every request iterates its maps anew)
    again = {}
    try:
        rep_idx = [i for _ in range(n_runs - 1) for i in range(stress_at, len(cases))]
        for i, r in zip(rep_idx, lib.driver([reqs[i] for i in rep_idx])):
            again.setdefault(i, []).append(r)
    except Exception as e:
        ck.broken_ties.append("repeated analysis of the union-find stress classes failed: %s" % str(e)[-600:])
    try:
        model = eval_coq(cases, dlow, dmed)
    except Exception as e:
        ck.broken_ties.append("model evaluation failed: %s" % str(e)[-800:])
        model = None

    n_viol = n_tie = n_known = n_stress_runs = 0
    stress_specs = [None] * (len(cases) - stress_at)
    dist, sizes, comps, asyncs = {}, {}, {}, {}
    distinct = set()
    results = []
    for idx, (c, r) in enumerate(zip(cases, impl)):
        dist[c["kind"]] = dist.get(c["kind"], 0) + 1
        na, nd = n_async(c["cls"]), sum(1 for m in c["cls"]["members"] if m[0] == "method")
        ak = "no async def" if na == 0 else "only async def" if na == nd else "def and async def"
        asyncs[ak] = asyncs.get(ak, 0) + 1
        src = reqs[idx]["src"]
        distinct.add(src)
        if "error" in r or len(r["classes"]) != 1:
            ck.violation("LCOM analysis failed or class missing: %s" % str(r)[:300], {"source": src})
            results.append(None)
            continue
        ic = r["classes"][0]
        results.append(ic)
        lo = dlow if c["low"] is None else c["low"]
        me = dmed if c["med"] is None else c["med"]
        replay = {"kind": c["kind"], "tags": c["tags"], "source": src, "options": {"low": lo, "medium": me}, "impl": ic}
        igroups = sorted(sorted(g) for g in ic["groups"])
        dup, mixed, n_defs, n_excl = method_profile(c["cls"])
        # --- the property on the implementation's own output
        if RISK.get(ic["risk"]) != spec_risk(lo, me, ic["lcom4"]):
            n_viol += 1
            ck.violation("risk level %s for LCOM4 %d does not follow the thresholds low=%d medium=%d" % (ic["risk"], ic["lcom4"], lo, me), replay)
            continue
        if model is None:
            continue
        m4, mgroups, mtotal, mexcl, mrisk, (s4, sgroups, sverts) = model[idx]
        mgroups, sgroups = names_of(mgroups), names_of(sgroups)
        sizes[len(sverts)] = sizes.get(len(sverts), 0) + 1
        comps[s4] = comps.get(s4, 0) + 1
        replay.update(model={"lcom4": m4, "groups": mgroups, "total": mtotal, "excluded": mexcl, "risk": mrisk},
                      spec={"lcom4": s4, "groups": sgroups, "instance_methods": sorted(cg.decode(v) for v in sverts)})
        same_as_model = (ic["lcom4"], igroups, ic["total"], ic["excluded"], RISK.get(ic["risk"])) == (m4, mgroups, mtotal, mexcl, mrisk)
        bad = None
        if c["kind"] == "uf-stress":
            stress_specs[idx - stress_at] = (s4, sgroups)
            if c["expect"] != (s4, sgroups):
                ck.broken_ties.append("union-find stress generator and Class/LCOM.v spec disagree on the components of\n%s\n generator %s, spec %s"
                                      % (src, c["expect"], (s4, sgroups)))
            # every further run of the same class must give the spec value too
            runs = [(ic["lcom4"], igroups, ic["risk"])]
            for r2 in again.get(idx, []):
                if "error" in r2 or len(r2.get("classes", [])) != 1:
                    runs.append(("error", str(r2)[:200], None))
                else:
                    x = r2["classes"][0]
                    runs.append((x["lcom4"], sorted(sorted(g) for g in x["groups"]), x["risk"]))
            n_stress_runs += len(runs)
            replay["runs"] = [{"lcom4": a, "groups": b, "risk": d} for a, b, d in runs]
            wrong = [k for k, (a, b, d) in enumerate(runs) if (a, b) != (s4, sgroups) or RISK.get(d) != spec_risk(lo, me, s4)]
            if wrong:
                k = wrong[0]
                bad = ("run %d of %d analyses of the same class reports LCOM4 %s, groups %s, risk %s; the method graph has %d connected components %s (LCOM4 per run: %s)"
                       % (k + 1, len(runs), runs[k][0], runs[k][1], runs[k][2], s4, sgroups, [a for a, _, _ in runs]))
        if bad:
            pass
        elif ic["lcom4"] != s4:
            bad = "LCOM4 %d, the method graph has %d connected components" % (ic["lcom4"], s4)
        elif igroups != sgroups:
            bad = "method groups %s are not the components %s" % (igroups, sgroups)
        elif not dup and (ic["total"], ic["excluded"]) != (n_defs, n_excl):
            bad = "TotalMethods/ExcludedMethods %d/%d, the class defines %d methods of which %d static/class" % (ic["total"], ic["excluded"], n_defs, n_excl)
        if bad:
            tags = dict(c["tags"], **{"class": "mixed-duplicate-method" if mixed else "other", "impl_equals_model": same_as_model})
            e = ck.match_known(tags)
            if e:
                n_known += 1
                ck.known_finding(e)
            else:
                n_viol += 1
                if n_viol <= 6:
                    ck.violation(bad + " [%s]" % c["tags"], replay)
            continue
        if not same_as_model:
            n_tie += 1
            if n_tie <= 3:
                ck.violation("implementation %s differs from the model of lcom.go %s" % ((ic["lcom4"], igroups, ic["total"], ic["excluded"], ic["risk"]),
                                                                                       (m4, mgroups, mtotal, mexcl, mrisk)), replay)

    n_extra = 0
    try:
        n_extra, k2, b2 = check_extra_positions(ck)
        n_known += k2
        n_viol += b2
    except Exception as e:
        ck.broken_ties.append("extra positions (outside Class/Syntax.v) failed: %s" % str(e)[-600:])

    n_kinds = n_kinds_cli = 0
    kinds_hist = {}
    try:
        n_kinds, n_kinds_cli, k3, b3, kinds_hist = check_method_kinds(ck, dlow, dmed)
        n_known += k3
        n_viol += b3
    except Exception as e:
        ck.broken_ties.append("method kinds (def / async def / decorated / static / class) failed: %s" % str(e)[-600:])

    n_e2e = 0
    try:
        n_e2e = e2e(ck, cases, impl)
    except Exception as e:
        ck.broken_ties.append("e2e run failed: %s" % str(e)[-600:])

    try:
        n_e2e += e2e_stress(ck, cases[stress_at:], stress_specs)
    except Exception as e:
        ck.broken_ties.append("e2e stress run failed: %s" % str(e)[-600:])

    ck.samples = [{"source": reqs[i]["src"], "impl": results[i], "tags": cases[i]["tags"]} for i in (2, stress_at - 2, len(cases) - 2) if results[i]]
    ck.cov.update({
        "evaluations": len(cases) + n_table + n_e2e + n_extra + n_kinds + n_kinds_cli + max(0, n_stress_runs - (len(cases) - stress_at)),
        "distinct_nontrivial": len(distinct),
        "rule": "position x access-pattern matrix (self.x shared, self.m() call, shared call name, other.x, cls.x, attribute named like a method, "
                "self.x / self.m() hidden in the argument list of another call; positions include f-strings with a replacement field nested in the format specification - width, precision, first of two, spec of a later interpolation -, !r, =, :spec, a later interpolation, an f-string inside an f-string), "
                "positions outside Class/Syntax.v as Python templates (%d: f-string as part of an implicit string concatenation, yield from, except T as e, each `if` of a comprehension with several, later for clauses, typed / keyword-only default and annotations of a nested def, lambda default, starred targets, match patterns and guard, bases / keywords / body of a class defined in the method, slice bounds, await / async for / async with ...) x (self.x shared, self.m() call, self.x nested in a call), decided against the method graph read off Python's own syntax tree (ast), " % len(EXTRA_POSITIONS) +
                "method kinds (%d classes: every member function is `def` or `async def`, bare or decorated - call / name / attribute decorator, @property, @abstractmethod, stacked - or of an excluded kind - @staticmethod, @classmethod, alone or stacked, in async form too: "
                "%d kinds; a constructor + two methods on attributes of their own for EVERY ordered pair of kinds; a single bridge of every kind between two components, joined by attributes / by self-calls (await self.m() between coroutines) / by one of each, ends def or async def; "
                "classes of 1..5 coroutine methods only - disjoint, call chain, attribute chain, hub, decorated, with excluded ones; %d bodies only a coroutine can have - await, async for iter / target / body / else, async with item / target / body, "
                "async comprehension, async generator yields - holding the joining self.x / self.m()), decided against Python's syntax tree for LCOM4, MethodGroups, TotalMethods, ExcludedMethods and the risk level under %d threshold pairs, through the analyser AND through `pyscn analyze` with a .pyscn.toml per pair, "
                % (n_kinds, len(METHOD_KINDS), len(ASYNC_FORMS), len(KIND_THRESHOLDS)) +
                "every position of the matrix once more with some / all methods `async def` (pattern and mask rotating with the position), a third of the threshold lattice once more with all-coroutine classes and classes with exactly one plain def (alternating; pairs rotating with the number of components), "
                "threshold lattice (1..8 components x 9 threshold pairs), random classes (0..12 methods, shared attributes, self-calls, static/class methods, "
                "duplicate method names, every position; every definition `def` or `async def`: per class none, 15 %%, half, 85 %%, all), union-find stress classes (6..14 methods, every attribute shared by two or three methods, no method touching everything; a third of the classes with a random half of the methods `async def`, a third with all: "
                "random/deep trees, forests, trees with extra edges, chains joined in the middle, pairs joined through a third attribute, stars linked leaf to leaf, caterpillars; "
                "self-calls mixed with attribute edges; EACH class analysed %d times by the driver in two processes and twice by the CLI, the spec value required every time), "
                "parser position table, CLI runs with default and custom [lcom] thresholds; distinct = distinct source texts" % n_runs,
        "input_distribution": dict(dist, position_table_probes=n_table, extra_positions_outside_syntax=n_extra, e2e_classes=n_e2e, uf_stress_driver_runs=n_stress_runs,
                                   method_kind_classes=n_kinds, method_kind_classes_cli=n_kinds_cli, method_kind_shapes=kinds_hist, async_def_histogram=dict(sorted(asyncs.items())),
                                   instance_method_count_histogram=dict(sorted(sizes.items())), component_count_histogram=dict(sorted(comps.items()))),
        "known_finding_cases": n_known,
        "model_mismatches": n_tie,
        "disagreements_checked": n_viol + n_tie + n_known,
    })
    ck.trusted += ["Coq 8.16.1 kernel, vm_compute for model evaluation", "translator /verif/translator/gen_class.go (walked fields, excluded decorators, receiver name, risk comparisons)",
                   "tree-sitter and its Python grammar (the parser model Class/Syntax.v:pos_path is checked against ast_builder.go per position, not proved)",
                   "hand-written model Class/LCOM.v of internal/analyzer/lcom.go; its union-find (rank, path compression) is abstracted to a labelling with the same partition (Class/UF.v)",
                   "reading of the property: self.m() is also an access of the self attribute m; a later definition of a method name replaces the earlier one"]
    ck.finish(assumptions=["classes are expressed in the class-level syntax of Class/Syntax.v; the receiver is named self"])
