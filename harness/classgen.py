"""Class-level syntax shared by the C13 (CBO) and C14 (LCOM4) checks.

Mirror of coq/Class/Syntax.v: a class = name, bases, members; a member is an attribute
annotation or a method whose body is a list of *mentions*; a mention = (kind, position).
Every position has a concrete Python template here (the hole $E takes the mention's
expression) and a constructor of the same name in Syntax.v.  The two name lists are
compared at the start of every check run.
"""

# anchor: where the template lines go
#   "m"  statement(s) inside the method body
#   "c"  statement(s) directly in the class body (the mention's method field is ignored)
#   "hd" the method header: default value of an extra parameter
#   "hdec" the method header: argument of a decorator call placed on the method
# kinds: which mention kinds the position can hold: "e" any expression (instantiation, self.x, self.m()),
#        "t" store target (self.x only), "d" expression allowed by the decorator grammar
POSITIONS = [
    # ---- statement positions: the mention is an expression statement in that block
    ("PBody", "m", "e", ["$E"]),
    ("PIfBody", "m", "e", ["if c:", "    $E"]),
    ("PIfElse", "m", "e", ["if c:", "    pass", "else:", "    $E"]),
    ("PElifBody", "m", "e", ["if c:", "    pass", "elif d:", "    $E"]),
    ("PElifElse", "m", "e", ["if c:", "    pass", "elif d:", "    pass", "else:", "    $E"]),
    ("PForBody", "m", "e", ["for i in y:", "    $E"]),
    ("PForElse", "m", "e", ["for i in y:", "    pass", "else:", "    $E"]),
    ("PWhileBody", "m", "e", ["while c:", "    $E"]),
    ("PWhileElse", "m", "e", ["while c:", "    pass", "else:", "    $E"]),
    ("PTryBody", "m", "e", ["try:", "    $E", "except Exception:", "    pass"]),
    ("PExceptBody", "m", "e", ["try:", "    pass", "except Exception:", "    $E"]),
    ("PTryElse", "m", "e", ["try:", "    pass", "except Exception:", "    pass", "else:", "    $E"]),
    ("PFinally", "m", "e", ["try:", "    pass", "finally:", "    $E"]),
    ("PWithBody", "m", "e", ["with w:", "    $E"]),
    ("PNestedDefBody", "m", "e", ["def g():", "    $E"]),
    ("PMatchCaseBody", "m", "e", ["match v:", "    case 1:", "        $E"]),
    ("PExceptIfElse", "m", "e", ["try:", "    pass", "except Exception:", "    if c:", "        pass", "    else:", "        $E"]),
    ("PClassBody", "c", "e", ["$E"]),
    # ---- expression positions
    ("PAssignValue", "m", "e", ["v = $E"]),
    ("PAugAssignValue", "m", "e", ["v += $E"]),
    ("PAnnAssignValue", "m", "e", ["v: \"int\" = $E"]),
    ("PAttrAssignValue", "m", "e", ["other.v = $E"]),
    ("PAttrAugAssignValue", "m", "e", ["other.v += $E"]),
    ("PAttrAnnAssignValue", "m", "e", ["other.v: \"int\" = $E"]),
    ("PSubscriptAssignValue", "m", "e", ["d[0] = $E"]),
    ("PChainAssignValue", "m", "e", ["a = b = $E"]),
    ("PTupleAssignValue", "m", "e", ["a, b = $E, 1"]),
    ("PReturnValue", "m", "e", ["return $E"]),
    ("PCallArg", "m", "e", ["g($E)"]),
    ("PKeywordArg", "m", "e", ["g(k=$E)"]),
    ("PStarArg", "m", "e", ["g(*$E)"]),
    ("PKwSplatArg", "m", "e", ["g(**$E)"]),
    ("PIfTest", "m", "e", ["if $E:", "    pass"]),
    ("PElifTest", "m", "e", ["if c:", "    pass", "elif $E:", "    pass"]),
    ("PWhileTest", "m", "e", ["while $E:", "    pass"]),
    ("PTernaryTest", "m", "e", ["v = a if $E else b"]),
    ("PTernaryBody", "m", "e", ["v = $E if c else b"]),
    ("PTernaryElse", "m", "e", ["v = a if c else $E"]),
    ("PAssertTest", "m", "e", ["assert $E"]),
    ("PAssertMsg", "m", "e", ["assert c, $E"]),
    ("PRaise", "m", "e", ["raise $E"]),
    ("PRaiseFrom", "m", "e", ["raise e from $E"]),
    ("PNotOperand", "m", "e", ["v = not $E"]),
    ("PNegOperand", "m", "e", ["v = -$E"]),
    ("PBinLeft", "m", "e", ["v = $E + 1"]),
    ("PBinRight", "m", "e", ["v = 1 + $E"]),
    ("PBoolLeft", "m", "e", ["v = $E and c"]),
    ("PBoolRight", "m", "e", ["v = c or $E"]),
    ("PCompareLeft", "m", "e", ["v = $E < 1"]),
    ("PCompareRight", "m", "e", ["v = 1 < $E"]),
    ("PSubscriptObject", "m", "e", ["v = $E[0]"]),
    ("PSubscriptIndex", "m", "e", ["v = a[$E]"]),
    ("PSliceBound", "m", "e", ["v = a[$E:]"]),
    ("PAttributeObject", "m", "e", ["v = $E.attr"]),
    ("PMethodCallObject", "m", "e", ["v = $E.run()"]),
    ("PCalledResult", "m", "e", ["v = $E(1)"]),
    ("PWithItem", "m", "e", ["with $E:", "    pass"]),
    ("PWithItemAs", "m", "e", ["with $E as h:", "    pass"]),
    ("PForIter", "m", "e", ["for i in $E:", "    pass"]),
    ("PFString", "m", "e", ["v = f\"{$E}\""]),
    ("PFStringSpecWidth", "m", "e", ["v = f\"{lab:>{$E}}\""]),
    ("PFStringSpecPrecision", "m", "e", ["v = f\"{val:{w}.{$E}f}\""]),
    ("PFStringSpecFirst", "m", "e", ["v = f\"{val:{$E}.{p}f}\""]),
    ("PFStringSpecOfSecond", "m", "e", ["v = f\"{a}{b:{$E}}\""]),
    ("PFStringConversion", "m", "e", ["v = f\"{$E!r}\""]),
    ("PFStringDebug", "m", "e", ["v = f\"{$E=}\""]),
    ("PFStringWithSpec", "m", "e", ["v = f\"{$E:>10}\""]),
    ("PFStringSecond", "m", "e", ["v = f\"{a} and {$E}\""]),
    ("PFStringNested", "m", "e", ["v = f\"{f'{$E}'}\""]),
    ("PListElt", "m", "e", ["v = [$E]"]),
    ("PTupleElt", "m", "e", ["v = ($E, 1)"]),
    ("PSetElt", "m", "e", ["v = {$E}"]),
    ("PDictKey", "m", "e", ["v = {$E: 1}"]),
    ("PDictValue", "m", "e", ["v = {1: $E}"]),
    ("PDictSplat", "m", "e", ["v = {**$E}"]),
    ("PListCompElt", "m", "e", ["v = [$E for i in y]"]),
    ("PListCompIter", "m", "e", ["v = [i for i in $E]"]),
    ("PListCompCond", "m", "e", ["v = [i for i in y if $E]"]),
    ("PDictCompValue", "m", "e", ["v = {i: $E for i in y}"]),
    ("PSetCompElt", "m", "e", ["v = {$E for i in y}"]),
    ("PGenExpElt", "m", "e", ["v = sum($E for i in y)"]),
    ("PLambdaBody", "m", "e", ["v = lambda: $E"]),
    ("PNestedDefDefault", "m", "e", ["def g(a=$E):", "    pass"]),
    ("PNestedDefDecorator", "m", "d", ["@$E", "def g():", "    pass"]),
    ("PNestedDefDecoratorArg", "m", "e", ["@d($E)", "def g():", "    pass"]),
    ("PYieldValue", "m", "e", ["yield $E"]),
    ("PWalrusValue", "m", "e", ["if (v := $E):", "    pass"]),
    ("PExceptType", "m", "e", ["try:", "    pass", "except $E:", "    pass"]),
    ("PMatchSubject", "m", "e", ["match $E:", "    case 1:", "        pass"]),
    ("PClassAssignValue", "c", "e", ["v = $E"]),
    ("PMethodDefault", "hd", "e", None),
    ("PMethodDecoratorArg", "hdec", "e", None),
    # ---- store targets (self.x only)
    ("PAssignTarget", "m", "t", ["$E = 1"]),
    ("PAugAssignTarget", "m", "t", ["$E += 1"]),
    ("PAnnAssignTarget", "m", "t", ["$E: int = 1"]),
    ("PForTarget", "m", "t", ["for $E in y:", "    pass"]),
    ("PWithAsTarget", "m", "t", ["with w as $E:", "    pass"]),
    ("PTupleTarget", "m", "t", ["$E, b = 1, 2"]),
    ("PDelTarget", "m", "t", ["del $E"]),
]
POS = {p[0]: p for p in POSITIONS}
POS_NAMES = [p[0] for p in POSITIONS]


def render_method(name, decorators, params, ret, mentions, first="self", is_async=False):
    """mentions: list of (position name, expression string).  params: list of (name, annotation or None).
    Returns source lines (no indentation) of the def."""
    lines = []
    extra_params = []
    for d in decorators:
        lines.append("@" + d)
    body = []
    k = 0
    for pos, e in mentions:
        _, anchor, _, tpl = POS[pos]
        if anchor == "hd":
            extra_params.append("q%d=%s" % (k, e))
            k += 1
        elif anchor == "hdec":
            lines.append("@deco(%s)" % e)
        elif anchor == "m":
            body += [l.replace("$E", e) for l in tpl]
    ps = ([first] if first else []) + ["%s: %s" % (n, a) if a else n for n, a in params] + extra_params
    hdr = "%sdef %s(%s)%s:" % ("async " if is_async else "", name, ", ".join(ps), (" -> " + ret) if ret else "")
    lines.append(hdr)
    if not body:
        body = ["pass"]
    lines += ["    " + l for l in body]
    return lines


def class_level_lines(mentions):
    out = []
    for pos, e in mentions:
        _, anchor, _, tpl = POS[pos]
        if anchor == "c":
            out += [l.replace("$E", e) for l in tpl]
    return out


# ------------------------------------------------------------------------------------------
# class-level terms: Python values mirroring Class/Syntax.v
#   cref   = (module or "", name)
#   ty     = ("ref", cref) | ("gen1", container, ty) | ("gen2", container, ty, ty) | ("union", ty, ty) | ("none",) | ("str",)
#   kind   = ("inst", cref) | ("attr", obj, x) | ("call", obj, m)
#   mention= (kind, position name)
#   method = dict(name, decos=[names], params=[ty or None], ret=ty or None, body=[mention])
#   member = ("attr", name, ty) | ("method", method) | ("stmt", mention)
#   cls    = dict(name, bases=[cref], members=[member])
#   file   = dict(imports=[("from", x) | ("fromas", x, a) | ("mod", m) | ("modas", m, a)], classes=[names of the other classes])
# ------------------------------------------------------------------------------------------
def code(s):
    """N code of an identifier: bytes as little-endian base-256 number (Syntax.v: nm)."""
    return int.from_bytes(s.encode(), "little")


def decode(n):
    return n.to_bytes((n.bit_length() + 7) // 8, "little").decode()


def cN(s):
    return "%d" % code(s)


def cref_src(r):
    return (r[0] + "." + r[1]) if r[0] else r[1]


def cref_coq(r):
    return "(%d, %d)" % (code(r[0]), code(r[1]))


def ty_src(t):
    k = t[0]
    if k == "ref":
        return cref_src(t[1])
    if k == "gen1":
        return "%s[%s]" % (t[1], ty_src(t[2]))
    if k == "gen2":
        return "%s[%s, %s]" % (t[1], ty_src(t[2]), ty_src(t[3]))
    if k == "union":
        return "%s | %s" % (ty_src(t[1]), ty_src(t[2]))
    if k == "none":
        return "None"
    return '"Fwd"'


def ty_coq(t):
    k = t[0]
    if k == "ref":
        return "(TRef %s)" % cref_coq(t[1])
    if k == "gen1":
        return "(TGen1 %s %s)" % (cN(t[1]), ty_coq(t[2]))
    if k == "gen2":
        return "(TGen2 %s %s %s)" % (cN(t[1]), ty_coq(t[2]), ty_coq(t[3]))
    if k == "union":
        return "(TUnion %s %s)" % (ty_coq(t[1]), ty_coq(t[2]))
    if k == "none":
        return "TNone"
    return "TStr"


def ty_refs(t):
    k = t[0]
    if k == "ref":
        return [t[1]]
    if k == "gen1":
        return ty_refs(t[2])
    if k == "gen2":
        return ty_refs(t[2]) + ty_refs(t[3])
    if k == "union":
        return ty_refs(t[1]) + ty_refs(t[2])
    return []


# ---- nested mentions -----------------------------------------------------------------------
# A mention may carry further mentions inside the argument list of its call:
#   mention = (kind, position)  or  (kind, position, subs)      subs = [(slot, node)]
#   node    = (kind, subs)                                       (a mention without a position of its own)
# Only call-like kinds ("inst", "call") can have subs.  Syntax.v sees the flattening: every nested
# mention becomes (kind, position of the outermost mention, chain of slots leading down to it).
SLOTS = ["SArg", "SKeyword", "SStarArg", "SKwSplat", "SListArg"]
_SLOT_ORDER = {"SArg": 0, "SListArg": 0, "SStarArg": 1, "SKeyword": 2, "SKwSplat": 3}


def m_subs(m):
    return m[2] if len(m) > 2 else []


def args_src(subs):
    parts = []
    kw = 0
    for slot, node in sorted(subs, key=lambda x: _SLOT_ORDER[x[0]]):   # stable: positional, *, keyword, **
        e = node_src(node)
        if slot == "SArg":
            parts.append(e)
        elif slot == "SListArg":
            parts.append("[%s]" % e)
        elif slot == "SStarArg":
            parts.append("*" + e)
        elif slot == "SKeyword":
            parts.append("kw%d=%s" % (kw, e))
            kw += 1
        else:
            parts.append("**" + e)
    return ", ".join(parts)


def node_src(node):
    k, subs = node
    if k[0] == "inst":
        return "%s(%s)" % (cref_src(k[1]), args_src(subs))
    if k[0] == "attr":
        assert not subs
        return "%s.%s" % (k[1], k[2])
    return "%s.%s(%s)" % (k[1], k[2], args_src(subs))


def mention_src(m):
    return node_src((m[0], m_subs(m)))


def flat_mentions(m):
    """[(kind, position, [slots])] : the mention and everything nested in it, outermost first"""
    out = []

    def walk(node, chain):
        out.append((node[0], m[1], chain))
        for slot, sub in node[1]:
            walk(sub, chain + [slot])

    walk((m[0], m_subs(m)), [])
    return out


def map_kinds(m, f):
    """the mention with f applied to every kind in it"""
    def walk(node):
        return (f(node[0]), [(s, walk(x)) for s, x in node[1]])
    k, subs = walk((m[0], m_subs(m)))
    return (k, m[1], subs) if subs else (k, m[1])


def kind_src(k):
    if k[0] == "inst":
        return cref_src(k[1]) + "()"
    if k[0] == "attr":
        return "%s.%s" % (k[1], k[2])
    return "%s.%s()" % (k[1], k[2])


def kind_coq(k):
    if k[0] == "inst":
        return "(KInst %s)" % cref_coq(k[1])
    if k[0] == "attr":
        return "(KAttr %s %s)" % (cN(k[1]), cN(k[2]))
    return "(KCall %s %s)" % (cN(k[1]), cN(k[2]))


def mentions_coq(m):
    return ["(MentionAt %s %s %s)" % (kind_coq(k), p, clist(chain)) for k, p, chain in flat_mentions(m)]


def opt_coq(x, f):
    return "None" if x is None else "(Some %s)" % f(x)


def clist(xs):
    return "[" + "; ".join(xs) + "]"


def method_coq(md):
    return "(Method %s %s %s %s %s)" % (cN(md["name"]), clist([cN(d) for d in md["decos"]]),
                                        clist([opt_coq(p, ty_coq) for p in md["params"]]), opt_coq(md["ret"], ty_coq),
                                        clist([x for m in md["body"] for x in mentions_coq(m)]))


def member_coq(m):
    """list of Syntax.v members (a nested class-level statement flattens into several MStmt)"""
    if m[0] == "attr":
        return ["(MAttr %s %s)" % (cN(m[1]), ty_coq(m[2]))]
    if m[0] == "method":
        return ["(MMethod %s)" % method_coq(m[1])]
    return ["(MStmt %s)" % x for x in mentions_coq(m[1])]


def class_coq(c):
    return "(Class %s %s %s)" % (cN(c["name"]), clist([cref_coq(b) for b in c["bases"]]),
                                 clist([x for m in c["members"] for x in member_coq(m)]))


def file_coq(f, c):
    imps = []
    for i in f["imports"]:
        if i[0] == "from":
            imps.append("(ImpFrom %s)" % cN(i[1]))
        elif i[0] == "fromas":
            imps.append("(ImpFromAs %s %s)" % (cN(i[1]), cN(i[2])))
        elif i[0] == "mod":
            imps.append("(ImpMod %s)" % cN(i[1]))
        else:
            imps.append("(ImpModAs %s %s)" % (cN(i[1]), cN(i[2])))
    return "(File %s %s)" % (clist(imps), clist([cN(n) for n in f["classes"] + [c["name"]]]))


def file_src(f, c, first="self"):
    """The .py text: imports, the other classes of the file, the class under analysis."""
    out = []
    for i in f["imports"]:
        if i[0] == "from":
            out.append("from lib import %s" % i[1])
        elif i[0] == "fromas":
            out.append("from lib import %s as %s" % (i[1], i[2]))
        elif i[0] == "mod":
            out.append("import %s" % i[1])
        else:
            out.append("import %s as %s" % (i[1], i[2]))
    out.append("")
    for n in f["classes"]:
        out += ["class %s:" % n, "    pass", ""]
    out += class_src(c, first)
    return "\n".join(out) + "\n"


def class_src(c, first="self"):
    hdr = "class %s%s:" % (c["name"], ("(" + ", ".join(cref_src(b) for b in c["bases"]) + ")") if c["bases"] else "")
    body = []
    for m in c["members"]:
        if m[0] == "attr":
            body.append("%s: %s" % (m[1], ty_src(m[2])))
        elif m[0] == "stmt":
            body += class_level_lines([(m[1][1], mention_src(m[1]))])
        else:
            md = m[1]
            rcv = None if "staticmethod" in md["decos"] else ("cls" if "classmethod" in md["decos"] else first)
            params = [("p%d" % i, ty_src(t) if t else None) for i, t in enumerate(md["params"])]
            body += render_method(md["name"], md["decos"], params, ty_src(md["ret"]) if md["ret"] else None,
                                  [(m[1], mention_src(m)) for m in md["body"]], first=rcv, is_async=bool(md.get("async")))
            body.append("")
    if not body:
        body = ["pass"]
    return [hdr] + ["    " + l if l else "" for l in body]


# ------------------------------------------------------------------------------------------
# union-find stress classes (C14; also handed to the reproducibility check C05)
#
# lcom.go joins methods with a union-find (union by rank, path compression) whose unions are
# performed in Go map iteration order (attributes, then self-calls): a slip in union()/find()
# shows only when a tree of rank >= 2 meets a NON-root member of another tree, and then only
# for some iteration orders.  That needs many methods, sparse sharing (every attribute used by
# two or three methods, no method touching everything, so that no early union flattens the
# forest) and deep/bushy shapes.  The classes here are such method graphs; the expected
# partition is computed from the graph itself (and by the Coq spec in c14.py).
# ------------------------------------------------------------------------------------------
UF_FAMILIES = ["tree", "deep-tree", "forest", "tree+extra", "chains-mid", "pairs-joined", "stars-linked", "caterpillar", "binomial"]
_UF_PLAIN_ATTR = ["PBody", "PAssignValue", "PReturnValue", "PAssignTarget", "PAugAssignTarget", "PCallArg", "PIfTest", "PBinLeft"]
_UF_PLAIN_CALL = ["PBody", "PAssignValue", "PReturnValue", "PCallArg", "PIfTest", "PIfBody"]
_UF_ATTR_POS = [p[0] for p in POSITIONS if p[1] == "m" and p[0] != "PCalledResult"]
_UF_CALL_POS = [p[0] for p in POSITIONS if p[1] == "m" and p[2] == "e"]


def _uf_shape(rng, family):
    """(number of vertices, list of edges (u, v) or (u, v, "attr" | "call")) of one family member; 6..14 vertices"""
    E = []

    def tree(vs, deep=False):
        for i in range(1, len(vs)):
            j = rng.randint(max(0, i - 2), i - 1) if deep else rng.randrange(i)
            E.append((vs[j], vs[i]))

    if family in ("tree", "deep-tree", "tree+extra"):
        n = rng.randint(6, 14)
        tree(list(range(n)), deep=family == "deep-tree")
        if family == "tree+extra":
            for _ in range(rng.randint(1, 3)):
                u, v = rng.sample(range(n), 2)
                E.append((u, v))
    elif family == "forest":
        n = rng.randint(7, 14)
        k = rng.randint(2, 3)
        cuts = sorted(rng.sample(range(1, n), k - 1))
        vs = list(range(n))
        for a, b in zip([0] + cuts, cuts + [n]):
            tree(vs[a:b], deep=rng.random() < 0.4)
    elif family == "chains-mid":
        a, b = rng.randint(3, 7), rng.randint(3, 7)
        n = a + b
        for i in range(a - 1):
            E.append((i, i + 1))
        for i in range(a, n - 1):
            E.append((i, i + 1))
        E.append((rng.randint(1, a - 2) if a > 2 else 0, a + (rng.randint(1, b - 2) if b > 2 else 0)))
    elif family == "pairs-joined":
        # two pairs, each with its own attribute, joined through a third one (a rank-2 tree if that one comes last);
        # further pairs / a triple; members of the big tree linked to members of the small ones
        E += [(0, 1), (2, 3), (rng.choice([0, 1]), rng.choice([2, 3]))]
        n = 4
        smalls = []
        for _ in range(rng.randint(1, 3)):
            k = rng.choice([2, 2, 3])
            vs = list(range(n, n + k))
            n += k
            tree(vs)
            smalls.append(vs)
        joined = rng.sample(smalls, rng.randint(1, len(smalls)))
        for vs in joined:
            E.append((rng.randrange(0, 4), rng.choice(vs)))
        if n < 14 and rng.random() < 0.6:              # one more method that reaches a small tree and the big one
            E += [(n, rng.choice(rng.choice(smalls))), (n, rng.randrange(0, 4))]
            n += 1
        while n < 6:
            E.append((rng.randrange(n), n))
            n += 1
    elif family == "stars-linked":
        # several stars; the hubs never meet directly, two stars are linked leaf to leaf (or not at all)
        n = 0
        stars = []
        for _ in range(rng.randint(2, 3)):
            k = rng.randint(2, 4)
            hub, leaves = n, list(range(n + 1, n + 1 + k))
            n += 1 + k
            E += [(hub, l) for l in leaves]
            stars.append(leaves)
        for s, t in zip(stars, stars[1:]):
            if rng.random() < 0.8:
                E.append((rng.choice(s), rng.choice(t)))
    elif family == "binomial":
        # pairs, pairs of pairs, pairs of quadruples: when the unions happen level by level the tree gets rank 3 and a member
        # three links away from its root (only then does a find() that stops short of the root show)
        n = 8
        blocks = [[i] for i in range(n)]
        while len(blocks) > 1:
            nxt = []
            for a, b in zip(blocks[::2], blocks[1::2]):
                # the last level mostly as a self-call (calls are united after all attributes), the lower ones as attributes
                how = ("call" if rng.random() < 0.75 else "attr") if len(blocks) == 2 else ("attr" if rng.random() < 0.9 else "call")
                E.append((rng.choice(a), rng.choice(b), how))
                nxt.append(a + b)
            blocks = nxt
        for _ in range(rng.choice([0, 0, 1, 2, 4])):
            E.append((rng.randrange(n), n))
            n += 1
    else:                                               # caterpillar: a spine with legs, legs of neighbouring joints sometimes linked
        s = rng.randint(3, 6)
        n = s
        for i in range(s - 1):
            E.append((i, i + 1))
        for i in range(s):
            for _ in range(rng.randint(0, 2)):
                if n < 14:
                    E.append((i, n))
                    n += 1
        while n < 6:
            E.append((rng.randrange(s), n))
            n += 1
    return n, E


def _components(n, edges):
    adj = {i: set() for i in range(n)}
    for u, v in edges:
        adj[u].add(v)
        adj[v].add(u)
    seen, out = set(), []
    for s in range(n):
        if s in seen:
            continue
        comp, todo = [], [s]
        seen.add(s)
        while todo:
            x = todo.pop()
            comp.append(x)
            for y in adj[x]:
                if y not in seen:
                    seen.add(y)
                    todo.append(y)
        out.append(sorted(comp))
    return out


def unionfind_stress_terms(rng, n, name="K"):
    """n classes (class-level terms of Syntax.v) with the partition their method graph has:
    [dict(cls=..., family=..., groups=[[method names]], lcom4=int)]"""
    out = []
    for i in range(n):
        family = UF_FAMILIES[i % len(UF_FAMILIES)] if i < 2 * len(UF_FAMILIES) else rng.choice(UF_FAMILIES)
        nv, E = _uf_shape(rng, family)
        E = [e for e in E if e[0] != e[1]]
        names = ["m%02d" % k for k in range(nv)]
        rng.shuffle(names)                                 # union order follows the sorted names: decouple it from the shape
        # links: an attribute shared by the two ends, by three methods (two edges at one vertex merged), or a self-call
        links, used = [], set()
        order = list(range(len(E)))
        rng.shuffle(order)
        p_call = rng.choice([0.0, 0.2, 0.35, 0.5])
        for a in order:
            if a in used:
                continue
            used.add(a)
            u, v = E[a][:2]
            how = E[a][2] if len(E[a]) > 2 else ("call" if rng.random() < p_call else None)
            if how == "call":
                links.append(("call", u, v) if rng.random() < 0.5 else ("call", v, u))
                continue
            trio = [b for b in order if b not in used and len(E[b]) == 2 and (set(E[b]) & {u, v})]
            if trio and how is None and rng.random() < 0.25:
                b = rng.choice(trio)
                used.add(b)
                links.append(("attr", sorted({u, v} | set(E[b]))))
            else:
                links.append(("attr", [u, v]))
        attrs = ["f%d" % k for k in range(len(links))]
        rng.shuffle(attrs)
        bodies = {k: [] for k in range(nv)}
        plain = rng.random() < 0.6
        for lk, an in zip(links, attrs):
            if lk[0] == "attr":
                for x in lk[1]:
                    pos = rng.choice(_UF_PLAIN_ATTR if plain or rng.random() < 0.5 else _UF_ATTR_POS)
                    bodies[x].append((("attr", "self", an), pos))
            else:
                pos = rng.choice(_UF_PLAIN_CALL if plain or rng.random() < 0.5 else _UF_CALL_POS)
                bodies[lk[1]].append((("call", "self", names[lk[2]]), pos))
        members = []
        for k in range(nv):
            rng.shuffle(bodies[k])
            members.append(("method", dict(name=names[k], decos=[], params=[], ret=None, body=bodies[k])))
        rng.shuffle(members)
        if rng.random() < 0.3:                              # excluded methods are no vertices, whatever they mention
            deco = rng.choice(["staticmethod", "classmethod"])
            obj = "cls" if deco == "classmethod" else "other"
            members.insert(rng.randint(0, len(members)),
                           ("method", dict(name="make", decos=[deco], params=[], ret=None,
                                           body=[(("attr", obj, a), "PBody") for a in rng.sample(attrs, min(2, len(attrs)))])))
        # the partition, from the links themselves
        plain_edges = []
        for lk in links:
            if lk[0] == "attr":
                plain_edges += [(lk[1][0], x) for x in lk[1][1:]]
            else:
                plain_edges.append((lk[1], lk[2]))
        groups = sorted(sorted(names[x] for x in comp) for comp in _components(nv, plain_edges))
        out.append(dict(cls=dict(name=name, bases=[], members=members), family=family, groups=groups, lcom4=len(groups)))
    return out


def unionfind_stress_classes(rng, n, prefix="UF"):
    """Python source texts of n union-find stress classes named <prefix>0 .. <prefix>(n-1) (each text is one class
    definition; join them with blank lines for a module).  Analysing the same class repeatedly (fresh runs, or the
    same text under several names in one file) must give the same LCOM4 / method groups / risk level every time."""
    return ["\n".join(class_src(dict(t["cls"], name="%s%d" % (prefix, i)))) + "\n"
            for i, t in enumerate(unionfind_stress_terms(rng, n))]
