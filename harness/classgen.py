"""Class-level syntax shared by the C13 (CBO) and C14 (LCOM4) checks.

Mirror of coq/Class/Syntax.v: a class = name, bases, members; a member is an attribute
annotation or a method whose body is a list of *mentions*; a mention = (kind, position).
Every position has a concrete Python template here (the hole $E takes the mention's
expression) and a constructor of the same name in Syntax.v.  The two name lists are
compared at the start of every check run.
"""

# anchor: where the template lines go
#   "m"  statement(s) inside the method body
#   "c"  statement(s) directly in the class body (the mention's method field is ignored)
#   "hd" the method header: default value of an extra parameter
#   "hdec" the method header: argument of a decorator call placed on the method
# kinds: which mention kinds the position can hold: "e" any expression (instantiation, self.x, self.m()),
#        "t" store target (self.x only), "d" expression allowed by the decorator grammar
POSITIONS = [
    # ---- statement positions: the mention is an expression statement in that block
    ("PBody", "m", "e", ["$E"]),
    ("PIfBody", "m", "e", ["if c:", "    $E"]),
    ("PIfElse", "m", "e", ["if c:", "    pass", "else:", "    $E"]),
    ("PElifBody", "m", "e", ["if c:", "    pass", "elif d:", "    $E"]),
    ("PElifElse", "m", "e", ["if c:", "    pass", "elif d:", "    pass", "else:", "    $E"]),
    ("PForBody", "m", "e", ["for i in y:", "    $E"]),
    ("PForElse", "m", "e", ["for i in y:", "    pass", "else:", "    $E"]),
    ("PWhileBody", "m", "e", ["while c:", "    $E"]),
    ("PWhileElse", "m", "e", ["while c:", "    pass", "else:", "    $E"]),
    ("PTryBody", "m", "e", ["try:", "    $E", "except Exception:", "    pass"]),
    ("PExceptBody", "m", "e", ["try:", "    pass", "except Exception:", "    $E"]),
    ("PTryElse", "m", "e", ["try:", "    pass", "except Exception:", "    pass", "else:", "    $E"]),
    ("PFinally", "m", "e", ["try:", "    pass", "finally:", "    $E"]),
    ("PWithBody", "m", "e", ["with w:", "    $E"]),
    ("PNestedDefBody", "m", "e", ["def g():", "    $E"]),
    ("PMatchCaseBody", "m", "e", ["match v:", "    case 1:", "        $E"]),
    ("PExceptIfElse", "m", "e", ["try:", "    pass", "except Exception:", "    if c:", "        pass", "    else:", "        $E"]),
    ("PClassBody", "c", "e", ["$E"]),
    # ---- expression positions
    ("PAssignValue", "m", "e", ["v = $E"]),
    ("PAugAssignValue", "m", "e", ["v += $E"]),
    ("PAnnAssignValue", "m", "e", ["v: \"int\" = $E"]),
    ("PAttrAssignValue", "m", "e", ["other.v = $E"]),
    ("PAttrAugAssignValue", "m", "e", ["other.v += $E"]),
    ("PAttrAnnAssignValue", "m", "e", ["other.v: \"int\" = $E"]),
    ("PSubscriptAssignValue", "m", "e", ["d[0] = $E"]),
    ("PChainAssignValue", "m", "e", ["a = b = $E"]),
    ("PTupleAssignValue", "m", "e", ["a, b = $E, 1"]),
    ("PReturnValue", "m", "e", ["return $E"]),
    ("PCallArg", "m", "e", ["g($E)"]),
    ("PKeywordArg", "m", "e", ["g(k=$E)"]),
    ("PStarArg", "m", "e", ["g(*$E)"]),
    ("PKwSplatArg", "m", "e", ["g(**$E)"]),
    ("PIfTest", "m", "e", ["if $E:", "    pass"]),
    ("PElifTest", "m", "e", ["if c:", "    pass", "elif $E:", "    pass"]),
    ("PWhileTest", "m", "e", ["while $E:", "    pass"]),
    ("PTernaryTest", "m", "e", ["v = a if $E else b"]),
    ("PTernaryBody", "m", "e", ["v = $E if c else b"]),
    ("PTernaryElse", "m", "e", ["v = a if c else $E"]),
    ("PAssertTest", "m", "e", ["assert $E"]),
    ("PAssertMsg", "m", "e", ["assert c, $E"]),
    ("PRaise", "m", "e", ["raise $E"]),
    ("PRaiseFrom", "m", "e", ["raise e from $E"]),
    ("PNotOperand", "m", "e", ["v = not $E"]),
    ("PNegOperand", "m", "e", ["v = -$E"]),
    ("PBinLeft", "m", "e", ["v = $E + 1"]),
    ("PBinRight", "m", "e", ["v = 1 + $E"]),
    ("PBoolLeft", "m", "e", ["v = $E and c"]),
    ("PBoolRight", "m", "e", ["v = c or $E"]),
    ("PCompareLeft", "m", "e", ["v = $E < 1"]),
    ("PCompareRight", "m", "e", ["v = 1 < $E"]),
    ("PSubscriptObject", "m", "e", ["v = $E[0]"]),
    ("PSubscriptIndex", "m", "e", ["v = a[$E]"]),
    ("PSliceBound", "m", "e", ["v = a[$E:]"]),
    ("PAttributeObject", "m", "e", ["v = $E.attr"]),
    ("PMethodCallObject", "m", "e", ["v = $E.run()"]),
    ("PCalledResult", "m", "e", ["v = $E(1)"]),
    ("PWithItem", "m", "e", ["with $E:", "    pass"]),
    ("PWithItemAs", "m", "e", ["with $E as h:", "    pass"]),
    ("PForIter", "m", "e", ["for i in $E:", "    pass"]),
    ("PFString", "m", "e", ["v = f\"{$E}\""]),
    ("PListElt", "m", "e", ["v = [$E]"]),
    ("PTupleElt", "m", "e", ["v = ($E, 1)"]),
    ("PSetElt", "m", "e", ["v = {$E}"]),
    ("PDictKey", "m", "e", ["v = {$E: 1}"]),
    ("PDictValue", "m", "e", ["v = {1: $E}"]),
    ("PDictSplat", "m", "e", ["v = {**$E}"]),
    ("PListCompElt", "m", "e", ["v = [$E for i in y]"]),
    ("PListCompIter", "m", "e", ["v = [i for i in $E]"]),
    ("PListCompCond", "m", "e", ["v = [i for i in y if $E]"]),
    ("PDictCompValue", "m", "e", ["v = {i: $E for i in y}"]),
    ("PSetCompElt", "m", "e", ["v = {$E for i in y}"]),
    ("PGenExpElt", "m", "e", ["v = sum($E for i in y)"]),
    ("PLambdaBody", "m", "e", ["v = lambda: $E"]),
    ("PNestedDefDefault", "m", "e", ["def g(a=$E):", "    pass"]),
    ("PNestedDefDecorator", "m", "d", ["@$E", "def g():", "    pass"]),
    ("PNestedDefDecoratorArg", "m", "e", ["@d($E)", "def g():", "    pass"]),
    ("PYieldValue", "m", "e", ["yield $E"]),
    ("PWalrusValue", "m", "e", ["if (v := $E):", "    pass"]),
    ("PExceptType", "m", "e", ["try:", "    pass", "except $E:", "    pass"]),
    ("PMatchSubject", "m", "e", ["match $E:", "    case 1:", "        pass"]),
    ("PClassAssignValue", "c", "e", ["v = $E"]),
    ("PMethodDefault", "hd", "e", None),
    ("PMethodDecoratorArg", "hdec", "e", None),
    # ---- store targets (self.x only)
    ("PAssignTarget", "m", "t", ["$E = 1"]),
    ("PAugAssignTarget", "m", "t", ["$E += 1"]),
    ("PAnnAssignTarget", "m", "t", ["$E: int = 1"]),
    ("PForTarget", "m", "t", ["for $E in y:", "    pass"]),
    ("PWithAsTarget", "m", "t", ["with w as $E:", "    pass"]),
    ("PTupleTarget", "m", "t", ["$E, b = 1, 2"]),
    ("PDelTarget", "m", "t", ["del $E"]),
]
POS = {p[0]: p for p in POSITIONS}
POS_NAMES = [p[0] for p in POSITIONS]


def render_method(name, decorators, params, ret, mentions, first="self", is_async=False):
    """mentions: list of (position name, expression string).  params: list of (name, annotation or None).
    Returns source lines (no indentation) of the def."""
    lines = []
    extra_params = []
    for d in decorators:
        lines.append("@" + d)
    body = []
    k = 0
    for pos, e in mentions:
        _, anchor, _, tpl = POS[pos]
        if anchor == "hd":
            extra_params.append("q%d=%s" % (k, e))
            k += 1
        elif anchor == "hdec":
            lines.append("@deco(%s)" % e)
        elif anchor == "m":
            body += [l.replace("$E", e) for l in tpl]
    ps = ([first] if first else []) + ["%s: %s" % (n, a) if a else n for n, a in params] + extra_params
    hdr = "%sdef %s(%s)%s:" % ("async " if is_async else "", name, ", ".join(ps), (" -> " + ret) if ret else "")
    lines.append(hdr)
    if not body:
        body = ["pass"]
    lines += ["    " + l for l in body]
    return lines


def class_level_lines(mentions):
    out = []
    for pos, e in mentions:
        _, anchor, _, tpl = POS[pos]
        if anchor == "c":
            out += [l.replace("$E", e) for l in tpl]
    return out


# ------------------------------------------------------------------------------------------
# class-level terms: Python values mirroring Class/Syntax.v
#   cref   = (module or "", name)
#   ty     = ("ref", cref) | ("gen1", container, ty) | ("gen2", container, ty, ty) | ("union", ty, ty) | ("none",) | ("str",)
#   kind   = ("inst", cref) | ("attr", obj, x) | ("call", obj, m)
#   mention= (kind, position name)
#   method = dict(name, decos=[names], params=[ty or None], ret=ty or None, body=[mention])
#   member = ("attr", name, ty) | ("method", method) | ("stmt", mention)
#   cls    = dict(name, bases=[cref], members=[member])
#   file   = dict(imports=[("from", x) | ("fromas", x, a) | ("mod", m) | ("modas", m, a)], classes=[names of the other classes])
# ------------------------------------------------------------------------------------------
def code(s):
    """N code of an identifier: bytes as little-endian base-256 number (Syntax.v: nm)."""
    return int.from_bytes(s.encode(), "little")


def decode(n):
    return n.to_bytes((n.bit_length() + 7) // 8, "little").decode()


def cN(s):
    return "%d" % code(s)


def cref_src(r):
    return (r[0] + "." + r[1]) if r[0] else r[1]


def cref_coq(r):
    return "(%d, %d)" % (code(r[0]), code(r[1]))


def ty_src(t):
    k = t[0]
    if k == "ref":
        return cref_src(t[1])
    if k == "gen1":
        return "%s[%s]" % (t[1], ty_src(t[2]))
    if k == "gen2":
        return "%s[%s, %s]" % (t[1], ty_src(t[2]), ty_src(t[3]))
    if k == "union":
        return "%s | %s" % (ty_src(t[1]), ty_src(t[2]))
    if k == "none":
        return "None"
    return '"Fwd"'


def ty_coq(t):
    k = t[0]
    if k == "ref":
        return "(TRef %s)" % cref_coq(t[1])
    if k == "gen1":
        return "(TGen1 %s %s)" % (cN(t[1]), ty_coq(t[2]))
    if k == "gen2":
        return "(TGen2 %s %s %s)" % (cN(t[1]), ty_coq(t[2]), ty_coq(t[3]))
    if k == "union":
        return "(TUnion %s %s)" % (ty_coq(t[1]), ty_coq(t[2]))
    if k == "none":
        return "TNone"
    return "TStr"


def ty_refs(t):
    k = t[0]
    if k == "ref":
        return [t[1]]
    if k == "gen1":
        return ty_refs(t[2])
    if k == "gen2":
        return ty_refs(t[2]) + ty_refs(t[3])
    if k == "union":
        return ty_refs(t[1]) + ty_refs(t[2])
    return []


# ---- nested mentions -----------------------------------------------------------------------
# A mention may carry further mentions inside the argument list of its call:
#   mention = (kind, position)  or  (kind, position, subs)      subs = [(slot, node)]
#   node    = (kind, subs)                                       (a mention without a position of its own)
# Only call-like kinds ("inst", "call") can have subs.  Syntax.v sees the flattening: every nested
# mention becomes (kind, position of the outermost mention, chain of slots leading down to it).
SLOTS = ["SArg", "SKeyword", "SStarArg", "SKwSplat", "SListArg"]
_SLOT_ORDER = {"SArg": 0, "SListArg": 0, "SStarArg": 1, "SKeyword": 2, "SKwSplat": 3}


def m_subs(m):
    return m[2] if len(m) > 2 else []


def args_src(subs):
    parts = []
    kw = 0
    for slot, node in sorted(subs, key=lambda x: _SLOT_ORDER[x[0]]):   # stable: positional, *, keyword, **
        e = node_src(node)
        if slot == "SArg":
            parts.append(e)
        elif slot == "SListArg":
            parts.append("[%s]" % e)
        elif slot == "SStarArg":
            parts.append("*" + e)
        elif slot == "SKeyword":
            parts.append("kw%d=%s" % (kw, e))
            kw += 1
        else:
            parts.append("**" + e)
    return ", ".join(parts)


def node_src(node):
    k, subs = node
    if k[0] == "inst":
        return "%s(%s)" % (cref_src(k[1]), args_src(subs))
    if k[0] == "attr":
        assert not subs
        return "%s.%s" % (k[1], k[2])
    return "%s.%s(%s)" % (k[1], k[2], args_src(subs))


def mention_src(m):
    return node_src((m[0], m_subs(m)))


def flat_mentions(m):
    """[(kind, position, [slots])] : the mention and everything nested in it, outermost first"""
    out = []

    def walk(node, chain):
        out.append((node[0], m[1], chain))
        for slot, sub in node[1]:
            walk(sub, chain + [slot])

    walk((m[0], m_subs(m)), [])
    return out


def map_kinds(m, f):
    """the mention with f applied to every kind in it"""
    def walk(node):
        return (f(node[0]), [(s, walk(x)) for s, x in node[1]])
    k, subs = walk((m[0], m_subs(m)))
    return (k, m[1], subs) if subs else (k, m[1])


def kind_src(k):
    if k[0] == "inst":
        return cref_src(k[1]) + "()"
    if k[0] == "attr":
        return "%s.%s" % (k[1], k[2])
    return "%s.%s()" % (k[1], k[2])


def kind_coq(k):
    if k[0] == "inst":
        return "(KInst %s)" % cref_coq(k[1])
    if k[0] == "attr":
        return "(KAttr %s %s)" % (cN(k[1]), cN(k[2]))
    return "(KCall %s %s)" % (cN(k[1]), cN(k[2]))


def mentions_coq(m):
    return ["(MentionAt %s %s %s)" % (kind_coq(k), p, clist(chain)) for k, p, chain in flat_mentions(m)]


def opt_coq(x, f):
    return "None" if x is None else "(Some %s)" % f(x)


def clist(xs):
    return "[" + "; ".join(xs) + "]"


def method_coq(md):
    return "(Method %s %s %s %s %s)" % (cN(md["name"]), clist([cN(d) for d in md["decos"]]),
                                        clist([opt_coq(p, ty_coq) for p in md["params"]]), opt_coq(md["ret"], ty_coq),
                                        clist([x for m in md["body"] for x in mentions_coq(m)]))


def member_coq(m):
    """list of Syntax.v members (a nested class-level statement flattens into several MStmt)"""
    if m[0] == "attr":
        return ["(MAttr %s %s)" % (cN(m[1]), ty_coq(m[2]))]
    if m[0] == "method":
        return ["(MMethod %s)" % method_coq(m[1])]
    return ["(MStmt %s)" % x for x in mentions_coq(m[1])]


def class_coq(c):
    return "(Class %s %s %s)" % (cN(c["name"]), clist([cref_coq(b) for b in c["bases"]]),
                                 clist([x for m in c["members"] for x in member_coq(m)]))


def file_coq(f, c):
    imps = []
    for i in f["imports"]:
        if i[0] == "from":
            imps.append("(ImpFrom %s)" % cN(i[1]))
        elif i[0] == "fromas":
            imps.append("(ImpFromAs %s %s)" % (cN(i[1]), cN(i[2])))
        elif i[0] == "mod":
            imps.append("(ImpMod %s)" % cN(i[1]))
        else:
            imps.append("(ImpModAs %s %s)" % (cN(i[1]), cN(i[2])))
    return "(File %s %s)" % (clist(imps), clist([cN(n) for n in f["classes"] + [c["name"]]]))


def file_src(f, c, first="self"):
    """The .py text: imports, the other classes of the file, the class under analysis."""
    out = []
    for i in f["imports"]:
        if i[0] == "from":
            out.append("from lib import %s" % i[1])
        elif i[0] == "fromas":
            out.append("from lib import %s as %s" % (i[1], i[2]))
        elif i[0] == "mod":
            out.append("import %s" % i[1])
        else:
            out.append("import %s as %s" % (i[1], i[2]))
    out.append("")
    for n in f["classes"]:
        out += ["class %s:" % n, "    pass", ""]
    out += class_src(c, first)
    return "\n".join(out) + "\n"


def class_src(c, first="self"):
    hdr = "class %s%s:" % (c["name"], ("(" + ", ".join(cref_src(b) for b in c["bases"]) + ")") if c["bases"] else "")
    body = []
    for m in c["members"]:
        if m[0] == "attr":
            body.append("%s: %s" % (m[1], ty_src(m[2])))
        elif m[0] == "stmt":
            body += class_level_lines([(m[1][1], mention_src(m[1]))])
        else:
            md = m[1]
            rcv = None if "staticmethod" in md["decos"] else ("cls" if "classmethod" in md["decos"] else first)
            params = [("p%d" % i, ty_src(t) if t else None) for i, t in enumerate(md["params"])]
            body += render_method(md["name"], md["decos"], params, ty_src(md["ret"]) if md["ret"] else None,
                                  [(m[1], mention_src(m)) for m in md["body"]], first=rcv)
            body.append("")
    if not body:
        body = ["pass"]
    return [hdr] + ["    " + l if l else "" for l in body]
