#!/usr/bin/env python3
"""MANIFEST.setup_cmd: build everything from files on disk (offline)."""
import os
import sys

sys.path.insert(0, os.path.dirname(os.path.abspath(__file__)))
import lib


def main():
    with lib.Lock():
        ok, problems, _ = lib.regen()
        print("translator:", "ok" if ok else problems)
        ok2, mlog = lib.coq_make()
        print("coq make:", "ok" if ok2 else mlog[-3000:])
        ok3, errs = lib.build_go()
        print("go build:", "ok" if ok3 else errs)
    sys.exit(0 if (ok and ok2 and ok3) else 1)


if __name__ == "__main__":
    main()
