"""C17 — configuration precedence: explicit flag over config file over default; which config file is used.

Observed at the command line.  Three parts:

 (A) option matrix: for every option that exists as a flag and as a key (analyze: --min-complexity, --min-severity,
     --clone-threshold, --min-cbo; check: --max-complexity) and for the file-only risk thresholds of analyze, the real
     binary is run for {flag absent / = default / != default} x {key absent / = default / != default / zero} on a tiny
     project whose items sit on both sides of every candidate value.  The effective value is read from the config
     echo of the JSON report section (check: from the printed limit) AND from which items survive the filter.
 (B) discovery: config files (.pyscn.toml, pyproject.toml with / without [tool.pyscn]) at every level between the
     target and a scratch root, target given as directory or file, cwd = target / elsewhere (with its own configs),
     --config file / missing / directory; every file carries a distinct value, so the echo names the file used.
 (B') the TYPE of the discovered file: at every place of those chains (target directory and each ancestor, the working directory's chain,
     the directory given to --config, the file given to --config) the configuration file is a regular file or is reached through a
     symbolic link (relative to a file inside / outside the project, absolute, chain of two links), in the combinations the precedence
     rules distinguish (link nearer vs regular file further up and the reverse; linked .pyscn.toml beside regular pyproject.toml and the
     reverse; both linked), each layout from several working directories; a readable file reached through a link IS the file of that
     place, so the model / spec term is the one of the regular-file layout.  Negative names (dangling link, link to itself, a directory
     called .pyscn.toml / pyproject.toml) on top of regular files: passed over or refused, the same from every cwd, no crash.
 (C) `pyscn init`: analysis results of sample projects with and without the generated file (differential; TOML
     parsing is not modelled).

Per case:  impl vs spec (eff / spec_resolve, evaluated in Coq) -> VIOLATION unless the case is in a recorded
known-finding class;  impl vs code model (Cli/Config.v, Cli/Discovery.v) -> broken tie.
"""
import json
import os
import re
import shutil
import sys
from concurrent.futures import ThreadPoolExecutor
from fractions import Fraction

import lib
import c17keys
from lib import cZ, cN, clist

REQ = ("From Coq Require Import ZArith QArith List.\nImport ListNotations.\n"
       "From PV Require Import Cli.Gate Cli.Config Cli.Discovery Cli.ConfigRun.\nOpen Scope Z_scope.")

SEV_COQ = {"info": "SevInfo", "warning": "SevWarning", "critical": "SevCritical"}
SEV_OF_COQ = {v: k for k, v in SEV_COQ.items()}
SEV_COQ["bogus"] = "SevOther"      # a --min-severity value that is no severity: outside the property's domain, model tie only
SEV_LEVEL = {"info": 1, "warning": 2, "critical": 3}


# ----------------------------------------------------------------------------------------------
# the sample project
# ----------------------------------------------------------------------------------------------
def fn_complexity(name, n):
    s = "def %s(x):\n" % name
    for i in range(n - 1):
        s += "    if x > %d:\n        x += %d\n" % (i, i + 1)
    return s + "    return x\n\n\n"


def fn_dead_critical(name):
    return "def %s(x):\n    y = x + 1\n    return y\n    print(\"dead\", y)\n\n\n" % name


def fn_dead_warning(name):
    return ("def %s(x):\n    y = x * 2\n    return y\n" % name) + "".join("    # filler %d\n" % i for i in range(7)) + \
        "    print(\"far\", y)\n\n\n"


def clone_body(name, nmod):
    s = "def %s(items, factor):\n    total = 0\n    count = 0\n    values = []\n" % name
    for i in range(24):
        if i < nmod:
            s += "    if total > %d:\n        values.append([count, %d])\n" % (i, i)
        else:
            s += "    total = total + factor * %d\n" % (i + 1)
    return s + "    for item in items:\n        count = count + 1\n        values.append(total - count)\n    return values\n\n\n"


def cbo_file():
    s = ""
    for i in range(1, 7):
        s += "class B%d:\n    pass\n\n\n" % i
    for k in (2, 4, 6):
        s += "class C%d:\n    def m(self):\n        return %s\n\n\n" % (k, ", ".join("B%d()" % i for i in range(1, k + 1)))
    return s


def lcom_class(name, k):
    s = "class %s:\n" % name
    for i in range(k):
        s += "    def m%d(self):\n        self.a%d = %d\n        return self.a%d\n\n" % (i, i, i, i)
    return s + "\n"


CX = [1, 3, 4, 5, 6, 7, 9, 11, 13, 16]
FILES = {
    "cxmod.py": "".join(fn_complexity("f%d" % n, n) for n in CX),
    "deadmod.py": fn_dead_critical("crit0") + fn_dead_warning("warn0"),
    "clone_a.py": clone_body("orig", 0),
    "clone_b.py": clone_body("copy", 0),
    "clone_c.py": clone_body("var4", 4),
    "cbomod.py": cbo_file(),
    "lcmod.py": lcom_class("L1", 1) + lcom_class("L3", 3) + lcom_class("L6", 6),
}
SELECT_FILES = {"complexity": ["cxmod.py"], "deadcode": ["deadmod.py"], "clones": ["clone_a.py", "clone_b.py", "clone_c.py"],
                "cbo": ["cbomod.py"], "lcom": ["lcmod.py"]}


def write_project(d, which=None):
    os.makedirs(d, exist_ok=True)
    for n, c in FILES.items():
        if which is None or n in which:
            with open(os.path.join(d, n), "w") as f:
                f.write(c)


# ----------------------------------------------------------------------------------------------
# options
# ----------------------------------------------------------------------------------------------
class Opt:
    def __init__(self, name, coq, cmd, flag, section, key, kind, default, others, select, zero=None):
        self.name, self.coq, self.cmd, self.flag, self.section, self.key = name, coq, cmd, flag, section, key
        self.kind, self.default, self.others, self.select, self.zero = kind, default, others, select, zero

    def toml_value(self, v):
        if self.kind == "sev":
            return '"%s"' % v
        if self.kind == "Q":
            return "%.2f" % float(v)
        return str(v)

    def flag_value(self, v):
        if self.kind == "Q":
            return "%.2f" % float(v)
        return str(v)

    def coq_value(self, v):
        if v is None:
            return "None"
        if self.kind == "sev":
            return "(Some (VSev %s))" % SEV_COQ[v]
        if self.kind == "Q":
            fr = Fraction(v)
            return "(Some (VQ ((%d) # %d)%%Q))" % (fr.numerator, fr.denominator)
        return "(Some (VZ %s))" % cZ(v)


F = Fraction
OPTIONS = [
    Opt("analyze_min_complexity[output]", "OAnalyzeMinComplexityOutput", "analyze", "--min-complexity", "output", "min_complexity", "Z", 5, [4, 1, 6], "complexity", zero=0),
    Opt("analyze_min_complexity[complexity]", "OAnalyzeMinComplexityComplexity", "analyze", "--min-complexity", "complexity", "min_complexity", "Z", 5, [4, 1, 6], "complexity", zero=0),
    Opt("analyze_min_severity", "OAnalyzeMinSeverity", "analyze", "--min-severity", "dead_code", "min_severity", "sev", "warning", ["critical", "info"], "deadcode"),
    Opt("analyze_clone_threshold", "OAnalyzeCloneThreshold", "analyze", "--clone-threshold", "clones", "similarity_threshold", "Q", F(13, 20), [F(17, 20), F(99, 100)], "clones", zero=F(0)),
    Opt("analyze_min_cbo", "OAnalyzeMinCbo", "analyze", "--min-cbo", "cbo", "min_cbo", "Z", 0, [3, 5], "cbo"),
    Opt("check_max_complexity", "OCheckMaxComplexity", "check", "--max-complexity", "complexity", "max_complexity", "Z", 10, [8, 12, 15], "complexity"),
    Opt("analyze_complexity_low_threshold", "OAnalyzeCxLow", "analyze", None, "complexity", "low_threshold", "Z", 9, [4, 6], "complexity"),
    Opt("analyze_complexity_medium_threshold", "OAnalyzeCxMedium", "analyze", None, "complexity", "medium_threshold", "Z", 19, [12, 15], "complexity"),
    Opt("analyze_cbo_low_threshold", "OAnalyzeCboLow", "analyze", None, "cbo", "low_threshold", "Z", 3, [1, 5], "cbo"),
    Opt("analyze_cbo_medium_threshold", "OAnalyzeCboMedium", "analyze", None, "cbo", "medium_threshold", "Z", 7, [5, 4], "cbo"),
    Opt("analyze_lcom_low_threshold", "OAnalyzeLcomLow", "analyze", None, "lcom", "low_threshold", "Z", 2, [3, 1], "lcom"),
    Opt("analyze_lcom_medium_threshold", "OAnalyzeLcomMedium", "analyze", None, "lcom", "medium_threshold", "Z", 5, [6, 3], "lcom"),
]


def config_text(opt, v, style):
    prefix = "tool.pyscn." if style == "pyproject" else ""
    head = "[project]\nname = \"sample\"\n\n" if style == "pyproject" else ""
    return "%s[%s%s]\n%s = %s\n" % (head, prefix, opt.section, opt.key, opt.toml_value(v))


# ----------------------------------------------------------------------------------------------
# running the implementation and reading the observables
# ----------------------------------------------------------------------------------------------
RE_CX = re.compile(r"^(.+?):(\d+):(\d+): (\S+) is too complex \((-?\d+) > (-?\d+)\)$")


def read_report(d):
    rep = os.path.join(d, ".pyscn", "reports")
    if not os.path.isdir(rep):
        return None
    fs = sorted(f for f in os.listdir(rep) if f.endswith(".json"))
    if not fs:
        return None
    try:
        return json.load(open(os.path.join(rep, fs[-1])))
    except Exception:
        return None


def observe(data):
    """effective values echoed by each report section + the surviving items."""
    o = {}
    c = data.get("complexity")
    if c:
        o["cx"] = {"min_complexity": c["Config"]["min_complexity"], "low": c["Config"]["low_threshold"], "medium": c["Config"]["medium_threshold"],
                   "items": sorted((f["Metrics"]["Complexity"], f["RiskLevel"]) for f in (c.get("Functions") or []) if f["Name"].startswith("f"))}
    dc = data.get("dead_code")
    if dc:
        o["dead"] = {"min_severity": dc["config"]["min_severity"],
                     "items": sorted(x["severity"] for fl in (dc.get("files") or []) for fn in (fl.get("functions") or []) for x in (fn.get("findings") or []))}
    cl = data.get("clone")
    if cl:
        o["clone"] = {"threshold": cl["request"]["similarity_threshold"], "items": sorted(round(p["similarity"], 4) for p in (cl.get("clone_pairs") or []))}
    cb = data.get("cbo")
    if cb:
        o["cbo"] = {"min_cbo": cb["Config"]["minCBO"], "low": cb["Config"]["lowThreshold"], "medium": cb["Config"]["mediumThreshold"],
                    "items": sorted((k["Metrics"]["CouplingCount"], k["RiskLevel"]) for k in (cb.get("Classes") or []))}
    lc = data.get("lcom")
    if lc:
        o["lcom"] = {"low": lc["Config"]["lowThreshold"], "medium": lc["Config"]["mediumThreshold"],
                     "items": sorted((k["Metrics"]["LCOM4"], k["RiskLevel"]) for k in (lc.get("Classes") or []))}
    return o


def run_analyze(d, args, target=".", cwd=None):
    shutil.rmtree(os.path.join(cwd or d, ".pyscn"), ignore_errors=True)
    rc, out, err = lib.pyscn(["analyze", "--json", "--no-open"] + args + [target], cwd or d, timeout=180)
    data = read_report(cwd or d)
    return rc, data, err


def run_check(d, args, target=".", cwd=None):
    rc, out, err = lib.pyscn(["check"] + args + [target], cwd or d, timeout=180)
    lines = []
    for ln in err.splitlines():
        m = RE_CX.match(ln.rstrip())
        if m:
            lines.append((int(m.group(5)), int(m.group(6))))
    return rc, sorted(lines), err


def risk(v, low, medium):
    return "low" if v <= low else ("medium" if v <= medium else "high")


def expected_items(opt, value, base):
    """the items that survive when the option has this effective value, from the baseline (everything reported)."""
    n = opt.name
    if n.startswith("analyze_min_complexity"):
        return [x for x in base["cx"]["items"] if x[0] >= value]
    if n == "analyze_min_severity":
        return [s for s in base["dead"]["items"] if SEV_LEVEL[s] >= SEV_LEVEL[value]]
    if n == "analyze_clone_threshold":
        return [s for s in base["clone"]["items"] if s >= float(value) - 1e-9]
    if n == "analyze_min_cbo":
        return [x for x in base["cbo"]["items"] if x[0] >= value]
    if n == "check_max_complexity":
        return [(c, value) for c in CX if c > value]
    if n == "analyze_complexity_low_threshold":
        return [(c, risk(c, value, 19)) for c, _ in base["cx"]["items"] if c >= 5]
    if n == "analyze_complexity_medium_threshold":
        return [(c, risk(c, 9, value)) for c, _ in base["cx"]["items"] if c >= 5]
    if n == "analyze_cbo_low_threshold":
        return [(c, risk(c, value, 7)) for c, _ in base["cbo"]["items"]]
    if n == "analyze_cbo_medium_threshold":
        return [(c, risk(c, 3, value)) for c, _ in base["cbo"]["items"]]
    if n == "analyze_lcom_low_threshold":
        return [(c, risk(c, value, 5)) for c, _ in base["lcom"]["items"]]
    if n == "analyze_lcom_medium_threshold":
        return [(c, risk(c, 2, value)) for c, _ in base["lcom"]["items"]]
    raise KeyError(n)


def impl_echo_and_items(opt, obs, check_res):
    n = opt.name
    if n == "check_max_complexity":
        rc, lines, err = check_res
        lim = sorted({l[1] for l in lines})
        return (lim[0] if len(lim) == 1 else ("none" if not lim else tuple(lim))), lines
    if obs is None:
        return None, None
    if n.startswith("analyze_min_complexity"):
        return obs["cx"]["min_complexity"], obs["cx"]["items"]
    if n == "analyze_min_severity":
        return obs["dead"]["min_severity"], obs["dead"]["items"]
    if n == "analyze_clone_threshold":
        return Fraction(obs["clone"]["threshold"]).limit_denominator(10000), obs["clone"]["items"]
    if n == "analyze_min_cbo":
        return obs["cbo"]["min_cbo"], obs["cbo"]["items"]
    sec = {"complexity": "cx", "cbo": "cbo", "lcom": "lcom"}[opt.section]
    return obs[sec]["low" if opt.key == "low_threshold" else "medium"], obs[sec]["items"]


def run_option_case(args):
    idx, opt, flag, filev, style, root = args
    d = os.path.join(root, "opt%04d" % idx)
    shutil.rmtree(d, ignore_errors=True)
    write_project(d, SELECT_FILES[opt.select])
    if filev is not None:
        with open(os.path.join(d, ".pyscn.toml" if style == "pyscn" else "pyproject.toml"), "w") as f:
            f.write(config_text(opt, filev, style))
    argv = ["--select", opt.select]
    if flag is not None:
        argv += [opt.flag, opt.flag_value(flag)]
    if opt.cmd == "analyze":
        if opt.file_only_needs_all():
            argv += ["--min-complexity", "5"]
        rc, data, err = run_analyze(d, argv)
        res = dict(rc=rc, obs=observe(data) if data else None, check=None, stderr=err[-600:], argv=["analyze", "--json"] + argv + ["."])
    else:
        rc, lines, err = run_check(d, argv)
        res = dict(rc=rc, obs=None, check=(rc, lines, err), stderr=err[-600:], argv=["check"] + argv + ["."])
    shutil.rmtree(d, ignore_errors=True)
    return res


Opt.file_only_needs_all = lambda self: False


# ----------------------------------------------------------------------------------------------
# discovery
# ----------------------------------------------------------------------------------------------
STATES = ["none", "pyscn", "tool", "both", "plain", "pyscn+plain"]
COQ_DIR = {"none": "Build_dir false PPNone", "pyscn": "Build_dir true PPNone", "tool": "Build_dir false PPTool",
           "both": "Build_dir true PPTool", "plain": "Build_dir false PPPlain", "pyscn+plain": "Build_dir true PPPlain"}


def disc_id(where, level, kind):
    """distinct value per config file: target chain 1..8, cwd chain 9.., explicit 14, explicit dir 15/… (never 10 = check default)."""
    base = {"target": 1, "cwd": 20, "exdir": 30}[where]
    v = base + 2 * level + (0 if kind == "pyscn" else 1)
    return v


def disc_value(cmd, ident):
    # check prints the limit only when a function exceeds it: keep limits below 16 and off 10 (the default)
    if cmd == "check":
        m = {20: 9, 21: 11, 22: 12, 23: 13, 30: 14, 31: 15, 32: 7, 33: 8, 40: 14}
        return m.get(ident, ident)
    return ident


def disc_toml(cmd, v, prefix):
    # analyze validates the whole file (max_complexity must exceed medium_threshold), so each command gets its own key
    if cmd == "analyze":
        return "[%scbo]\nmin_cbo = %d\n" % (prefix, v)
    return "[%scomplexity]\nmax_complexity = %d\n" % (prefix, v)


# How a configuration file is present at its place.  The property speaks of "the configuration file" at a place: a readable file reached
# through symbolic link(s) IS the file at that place (the abstract state of Cli/Discovery.v is the same as for a regular file).
#   reg      a regular file
#   rel_in   relative link to a file in a sub-directory next to it (inside the project)
#   rel_out  relative link to a file in a directory outside every searched chain (a shared team configuration)
#   abs      absolute link to such a file
#   chain    relative link -> absolute link -> file
LINK_HOWS = ["rel_in", "rel_out", "abs", "chain"]
# names that are NOT a configuration file: a link to nothing, a link to itself, a directory
NEG_KINDS = ["dangling", "loop", "dir"]
CONFIG_NAMES = {"pyscn": ".pyscn.toml", "pyproject": "pyproject.toml"}


def put_config(path, text, how, shared):
    """makes `path` name a readable file with this text, as a regular file or through symbolic link(s)."""
    if how in (None, "reg"):
        with open(path, "w") as f:
            f.write(text)
        return
    tag = os.path.relpath(path, os.path.dirname(shared)).replace(os.sep, "_").replace(".", "")
    store = os.path.join(os.path.dirname(path), "cfgstore") if how == "rel_in" else shared
    os.makedirs(store, exist_ok=True)
    real = os.path.join(store, "real_%s.toml" % tag)
    with open(real, "w") as f:
        f.write(text)
    if how in ("rel_in", "rel_out"):
        os.symlink(os.path.relpath(real, os.path.dirname(path)), path)
    elif how == "abs":
        os.symlink(os.path.abspath(real), path)
    elif how == "chain":
        mid = os.path.join(shared, "via_%s.toml" % tag)
        os.symlink(os.path.abspath(real), mid)
        os.symlink(os.path.relpath(mid, os.path.dirname(path)), path)
    else:
        raise KeyError(how)


def put_negative(path, kind):
    """makes `path` exist as a name that is no configuration file."""
    if kind == "dangling":
        os.symlink(os.path.join("nowhere", "gone.toml"), path)
    elif kind == "loop":
        os.symlink(os.path.basename(path), path)
    elif kind == "dir":
        os.makedirs(path)
    else:
        raise KeyError(kind)


def place_configs(cmd, where, dirs, states, hows=None, shared=None):
    """dirs: list of directories nearest-first; writes the files; returns {value: (where, level, kind)}.
    hows: per level [how of .pyscn.toml, how of pyproject.toml] (see LINK_HOWS), None = regular files."""
    ids = {}
    for lvl, (dd, st) in enumerate(zip(dirs, states)):
        os.makedirs(dd, exist_ok=True)
        hp, ht = (hows[lvl] if hows and lvl < len(hows) and hows[lvl] else ("reg", "reg"))
        if st in ("pyscn", "both", "pyscn+plain"):
            v = disc_value(cmd, disc_id(where, lvl, "pyscn"))
            put_config(os.path.join(dd, ".pyscn.toml"), disc_toml(cmd, v, ""), hp, shared)
            ids[v] = (where, lvl, "pyscn")
        if st in ("tool", "both"):
            v = disc_value(cmd, disc_id(where, lvl, "pyproject"))
            put_config(os.path.join(dd, "pyproject.toml"), "[project]\nname = \"x\"\n\n" + disc_toml(cmd, v, "tool.pyscn."), ht, shared)
            ids[v] = (where, lvl, "pyproject")
        if st in ("plain", "pyscn+plain"):
            # a pyproject.toml that is not pyscn's: another tool's table, no [tool] table at all, or not even TOML
            texts = ["[project]\nname = \"x\"\n\n[tool.other]\nmin_cbo = 77\n", "[project]\nname = \"x\"\n\n[build-system]\nrequires = []\n",
                     "[project\nname = x\n[tool.pyscn.cbo]\nmin_cbo = 78\n"]
            put_config(os.path.join(dd, "pyproject.toml"), texts[(lvl + len(dirs) + len(where)) % 3], ht, shared)
    return ids


def run_discovery_case(args):
    idx, case, root = args
    d = os.path.join(root, "disc%04d" % idx)
    shutil.rmtree(d, ignore_errors=True)
    cmd = case["cmd"]
    tdirs = [os.path.join(d, *(["r", "a", "b"][:len(case["target"]) - i])) for i in range(len(case["target"]))]
    hows = case.get("hows") or {}
    shared = os.path.join(d, "shared")
    ids = place_configs(cmd, "target", tdirs, case["target"], hows.get("target"), shared)
    write_project(tdirs[0], ["cbomod.py", "cxmod.py"])
    cwd = tdirs[0]
    target = "."
    if case["cwd"] is not None:
        cdirs = [os.path.join(d, "w", "x"), os.path.join(d, "w")]
        ids.update(place_configs(cmd, "cwd", cdirs, case["cwd"], hows.get("cwd"), shared))
        cwd = cdirs[0]
        target = os.path.relpath(tdirs[0], cwd)
    if case["target_file"]:
        target = os.path.join(target, "cbomod.py" if cmd == "analyze" else "cxmod.py")
    argv = ["--select", "cbo" if cmd == "analyze" else "complexity"]
    ex = case["explicit"]
    if ex == "file":
        # the explicit file is named by the user: any name, not only *.toml
        names = ["custom.toml", "pyscn.conf", ".pyscnrc", "settings", "ci.cfg"]
        ep = os.path.join(d, "e", names[(sum(len(x) for x in case["target"]) + (1 if cmd == "check" else 0) + (2 if case["cwd"] else 0)) % len(names)])
        os.makedirs(os.path.dirname(ep), exist_ok=True)
        v = disc_value(cmd, 40)
        put_config(ep, disc_toml(cmd, v, ""), case.get("explicit_how"), shared)
        ids[v] = ("explicit", 0, "file")
        argv += ["--config", ep]
    elif ex == "missing":
        ep = os.path.join(d, "e", "nothing.toml")
        if case.get("explicit_how"):     # the name exists, but names nothing: a link to nothing / to itself
            os.makedirs(os.path.dirname(ep), exist_ok=True)
            put_negative(ep, case["explicit_how"])
        argv += ["--config", ep]
    elif ex is not None:   # a directory, states given
        edirs = [os.path.join(d, "e", "sub"), os.path.join(d, "e")]
        ids.update(place_configs(cmd, "exdir", edirs, ex, hows.get("exdir"), shared))
        given = edirs[0]
        if case.get("exdir_via_link"):   # the directory is named through a link beside it (same ancestors)
            given = os.path.join(d, "e", "sublink")
            os.symlink("sub", given)
        argv += ["--config", given]
    for where, lvl, name, kind in case.get("neg") or []:
        put_negative(os.path.join(tdirs[lvl] if where == "target" else cdirs[lvl], CONFIG_NAMES[name]), kind)
    if cmd == "analyze":
        rc, data, err = run_analyze(None, argv, target=target, cwd=cwd)
        got = observe(data)["cbo"]["min_cbo"] if data and data.get("cbo") else None
    else:
        rc, lines, err = run_check(None, argv, target=target, cwd=cwd)
        lim = sorted({l[1] for l in lines})
        got = lim[0] if len(lim) == 1 else None
    crash = rc < 0 or bool(re.search(r"panic:|goroutine \d+ \[|fatal error:|SIGSEGV", err))
    res = dict(rc=rc, got=got, ids={str(k): v for k, v in ids.items()}, argv=[cmd] + argv + [target], stderr=err[:300] + " ... " + err[-200:],
               cwd=os.path.relpath(cwd, d), crash=crash)
    shutil.rmtree(d, ignore_errors=True)
    return res


def coq_chain(states):
    return clist(["(%s)" % COQ_DIR[s] for s in states])


def coq_discovery(case):
    ex = case["explicit"]
    if ex is None:
        e = "ExNone"
    elif ex == "file":
        e = "(ExFile 0%N)"
    elif ex == "missing":
        e = "ExMissing"
    else:
        e = "(ExDir %s)" % coq_chain(ex)
    cwd = case["cwd"] if case["cwd"] is not None else case["target"]
    return "run_discovery %s %s %s" % (e, coq_chain(case["target"]), coq_chain(cwd))


def source_to_value(cmd, src, default, cwd_is_target=False):
    """what the echo must show when the file named by a Coq [source] is used."""
    if src == "SDefaults":
        return default
    if src == "SError":
        return "error"
    tag = src[0]
    if tag == "SExplicit":
        return disc_value(cmd, 40)
    where = {"SFromTarget": "target", "SFromCwd": "target" if cwd_is_target else "cwd", "SFromExplicitDir": "exdir"}[tag]
    return disc_value(cmd, disc_id(where, src[1], "pyscn" if src[2] == "KPyscn" else "pyproject"))


def py_nearest(states):
    for i, st in enumerate(states):
        if st in ("pyscn", "both", "pyscn+plain"):
            return (i, "KPyscn")
        if st == "tool":
            return (i, "KPyproject")
    return None


def py_f24(states):
    n = py_nearest(states)
    return bool(n and n[1] == "KPyproject" and any(st in ("pyscn", "both", "pyscn+plain") for st in states[n[0] + 1:]))


def py_find_code(states):
    """what the two-pass search of the code returns (only used to know which chain the F24 exclusion applies to)."""
    for i, st in enumerate(states):
        if st in ("pyscn", "both", "pyscn+plain"):
            return (i, "KPyscn")
    for i, st in enumerate(states):
        if st in ("tool", "both"):
            return (i, "KPyproject")
    return None


def py_spec_resolve(case):
    """The property text: --config wins; else nearest file at/above the target (.pyscn.toml first within a directory);
    else what is discoverable from the working directory; returns (source, F24 layout searched)."""
    ex = case["explicit"]
    cwd = case["cwd"] if case["cwd"] is not None else case["target"]
    if ex == "file":
        return ("SExplicit", 0), False
    if ex == "missing":
        return "SError", False
    first, tag = (case["target"], "SFromTarget") if ex is None else (ex, "SFromExplicitDir")
    f24 = py_f24(first) or (py_find_code(first) is None and py_f24(cwd))
    n = py_nearest(first)
    if n:
        return (tag, n[0], n[1]), f24
    n = py_nearest(cwd)
    if n:
        return ("SFromCwd", n[0], n[1]), f24
    return "SDefaults", f24


def discovery_cases(rng, thorough):
    cs = []
    four = ["none", "pyscn", "tool", "both"]

    def mk(cmd, target, cwd=None, explicit=None, target_file=False):
        return dict(cmd=cmd, target=list(target), cwd=None if cwd is None else list(cwd), explicit=explicit, target_file=target_file)
    allc = [(a, b, c) for a in four for b in four for c in four]
    pick = allc if thorough else rng.sample(allc, 26)
    # the corner layouts always
    for must in [("none", "none", "none"), ("both", "none", "none"), ("none", "both", "none"), ("tool", "pyscn", "none"), ("none", "tool", "pyscn"),
                 ("pyscn", "tool", "none"), ("none", "none", "both"), ("tool", "tool", "pyscn"), ("none", "pyscn", "tool"), ("tool", "none", "tool"),
                 # the only file two levels up, of either kind (the upward walk must keep climbing)
                 ("none", "none", "tool"), ("none", "none", "pyscn"), ("plain", "none", "tool"), ("none", "plain", "tool"), ("none", "tool", "none")]:
        if must not in pick:
            pick.append(must)
    for i, t in enumerate(pick):
        cs.append(mk("analyze" if i % 2 == 0 else "check", t, target_file=(i % 5 == 0)))
        if thorough:
            cs.append(mk("check" if i % 2 == 0 else "analyze", t, target_file=(i % 3 == 0)))
    # pyproject.toml without [tool.pyscn] must be invisible
    for t in [("plain", "pyscn", "none"), ("plain", "tool", "none"), ("pyscn+plain", "tool", "none"), ("plain", "plain", "both"), ("plain", "none", "none")]:
        cs.append(mk("analyze", t))
        cs.append(mk("check", t))
    # cwd elsewhere
    for t, c in [(("none", "none", "none"), ("pyscn", "none")), (("none", "none", "none"), ("none", "tool")), (("none", "none", "none"), ("none", "none")),
                 (("none", "tool", "none"), ("pyscn", "none")), (("pyscn", "none", "none"), ("both", "pyscn")), (("none", "none", "pyscn"), ("tool", "pyscn")),
                 (("none", "none", "none"), ("both", "none")), (("none", "none", "none"), ("tool", "pyscn")), (("plain", "none", "none"), ("none", "pyscn")),
                 (("none", "none", "tool"), ("none", "none")), (("none", "none", "tool"), ("pyscn", "none")), (("none", "none", "pyscn"), ("none", "tool")),
                 (("none", "none", "none"), ("none", "tool")), (("none", "tool", "none"), ("none", "none"))]:
        cs.append(mk("analyze", t, cwd=c, target_file=rng.random() < 0.3))
        cs.append(mk("check", t, cwd=c, target_file=rng.random() < 0.3))
    # --config
    for t in [("none", "none", "none"), ("pyscn", "none", "none"), ("both", "tool", "pyscn"), ("none", "tool", "none")]:
        for cmd in ("analyze", "check"):
            cs.append(mk(cmd, t, explicit="file"))
    cs.append(mk("analyze", ("pyscn", "none", "none"), cwd=("pyscn", "none"), explicit="file"))
    cs.append(mk("check", ("pyscn", "none", "none"), cwd=("tool", "none"), explicit="file"))
    cs.append(mk("analyze", ("pyscn", "none", "none"), explicit="missing"))
    cs.append(mk("check", ("none", "none", "none"), explicit="missing"))
    for exd in (["pyscn", "none"], ["none", "tool"], ["both", "pyscn"], ["tool", "pyscn"], ["none", "none"]):
        cs.append(mk("analyze", ("pyscn", "none", "none"), explicit=exd))
        cs.append(mk("check", ("tool", "none", "none"), explicit=exd))
    n_extra = 120 if thorough else 6
    for _ in range(n_extra):
        t = [rng.choice(STATES) for _ in range(rng.choice([1, 2, 3]))]
        c = rng.choice([None, None, [rng.choice(STATES), rng.choice(four)]])
        cs.append(mk(rng.choice(["analyze", "check"]), t, cwd=c, target_file=rng.random() < 0.3))
    return cs


def filetype_cases(rng, thorough):
    """(B') the TYPE of the discovered file: every place of the chains of (B) holds its configuration file as a regular file or through a
    symbolic link (LINK_HOWS), in every combination the precedence rules distinguish; the abstract layout (and so the model / spec term) is
    the one of the regular-file case.  Negative names (NEG_KINDS) are added on top of a layout of regular files."""
    cs = []
    CWDS = [None, ("none", "none"), ("pyscn", "none"), ("none", "tool")]
    counter = [0]

    def mk(target, hows_t, cwd=None, hows_c=None, explicit=None, **more):
        counter[0] += 1
        n = counter[0]
        c = dict(cmd=more.pop("cmd", "analyze" if n % 2 else "check"), target=list(target), cwd=None if cwd is None else list(cwd),
                 explicit=explicit, target_file=more.pop("target_file", n % 4 == 0), filetype=True)
        h = {}
        if hows_t:
            h["target"] = [list(x) if x else None for x in hows_t]
        if hows_c:
            h["cwd"] = [list(x) if x else None for x in hows_c]
        if "hows_e" in more:
            h["exdir"] = [list(x) if x else None for x in more.pop("hows_e")]
        if h:
            c["hows"] = h
        c.update(more)
        return c

    def from_cwds(target, hows_t, k, **more):
        """the same layout from several working directories: the target itself, elsewhere without and elsewhere with its own configuration."""
        which = CWDS if thorough else [CWDS[0], CWDS[1 + k % 3]]
        cmds = ("analyze", "check") if thorough else (("analyze", "check")[k % 2],)
        for cmd in cmds:
            for w in which:
                cs.append(mk(target, hows_t, cwd=w, cmd=cmd, target_file=(k % 4 == 3), **more))

    def chain(entries):
        """entries: {level: (kind, how)} or {level: [(kind, how), (kind, how)]} -> (states, hows) over three levels"""
        st, hw = [], []
        for lvl in range(3):
            e = entries.get(lvl)
            e = [] if e is None else (e if isinstance(e, list) else [e])
            kinds = {k: h for k, h in e}
            st.append("both" if len(kinds) == 2 else ("pyscn" if "pyscn" in kinds else ("tool" if "tool" in kinds else "none")))
            hw.append([kinds.get("pyscn", "reg"), kinds.get("tool", "reg")])
        return tuple(st), hw

    k = 0
    # 1. one file, through a link: every level x kind x way of linking
    for lvl in range(3):
        for kind in ("pyscn", "tool"):
            for how in LINK_HOWS:
                st, hw = chain({lvl: (kind, how)})
                from_cwds(st, hw, k)
                k += 1
    # 2. two levels: nearer link / farther regular, nearer regular / farther link, both links  (tool near + pyscn far is the F24 layout: not judged)
    for (i, j) in ((0, 1), (1, 2), (0, 2)):
        for nk, fk in (("pyscn", "pyscn"), ("pyscn", "tool"), ("tool", "tool")):
            for near_link, far_link in ((True, False), (False, True), (True, True)):
                hows_n = LINK_HOWS if thorough else [LINK_HOWS[k % 4]]
                for hn in hows_n:
                    st, hw = chain({i: (nk, hn if near_link else "reg"), j: (fk, LINK_HOWS[(k + 1) % 4] if far_link else "reg")})
                    from_cwds(st, hw, k)
                    k += 1
    # 3. one directory, both names: linked .pyscn.toml beside regular pyproject.toml, the reverse, both linked
    for lvl in (0, 1, 2):
        for pl, tl in ((True, False), (False, True), (True, True)):
            for hp in (LINK_HOWS if (thorough or (pl and not tl and lvl == 0)) else [LINK_HOWS[k % 4]]):
                st, hw = chain({lvl: [("pyscn", hp if pl else "reg"), ("tool", LINK_HOWS[(k + 2) % 4] if tl else "reg")]})
                from_cwds(st, hw, k)
                k += 1
    # 4. nothing at or above the target: the working directory's chain, with links
    for cst, chw in ((("pyscn", "none"), [["rel_out", "reg"], None]), (("none", "tool"), [None, ["reg", "abs"]]), (("both", "none"), [["chain", "reg"], None]),
                     (("both", "pyscn"), [["reg", "rel_in"], ["abs", "reg"]]), (("none", "pyscn"), [None, ["rel_in", "reg"]])):
        for cmd in ("analyze", "check"):
            cs.append(mk(("none", "none", "none"), None, cwd=cst, hows_c=chw, cmd=cmd))
    # 5. --config: a link to the file; a directory whose files are links; a directory named through a link; a name that names nothing
    for n, how in enumerate(LINK_HOWS):
        for cmd in (("analyze", "check") if thorough else (("analyze", "check")[n % 2],)):
            cs.append(mk(("pyscn", "none", "tool"), None, explicit="file", explicit_how=how, cmd=cmd, target_file=False))
            cs.append(mk(("none", "none", "none"), None, cwd=("pyscn", "none"), explicit="file", explicit_how=how, cmd=cmd, target_file=False))
    for n, (est, ehw) in enumerate(((["pyscn", "none"], [["rel_out", "reg"], None]), (["none", "tool"], [None, ["reg", "chain"]]),
                                   (["both", "pyscn"], [["abs", "reg"], ["reg", "reg"]]), (["both", "none"], [["reg", "rel_in"], None]))):
        for via in (False, True):
            cs.append(mk(("pyscn", "none", "none"), None, explicit=est, hows_e=ehw, exdir_via_link=via, cmd=("analyze", "check")[(n + via) % 2], target_file=False))
    for n, kind in enumerate(("dangling", "loop")):
        for cmd in ("analyze", "check"):
            cs.append(mk(("pyscn", "none", "none"), None, explicit="missing", explicit_how=kind, cmd=cmd, target_file=False))
    # 6. negative names on top of regular files: at the nearer level with the real file further up, beside the other kind in one directory
    for kind in NEG_KINDS:
        for name in ("pyscn", "pyproject"):
            other = "tool" if name == "pyscn" else "pyscn"
            layouts = [(("none", "pyscn", "none"), 0), (("none", "tool", "none"), 0), (("none", "none", "pyscn"), 1), (("none", "none", "tool"), 0),
                       ((other, "none", "none"), 0), (("none", other, "none"), 1), (("none", "none", "none"), 0)]
            for st, lvl in layouts:
                from_cwds(st, None, k, neg=[["target", lvl, name, kind]])
                k += 1
    return cs


def neg_tags(case):
    where, lvl, name, kind = case["neg"][0]
    return {"part": "filetype", "negative": kind, "name": CONFIG_NAMES[name]}


# ----------------------------------------------------------------------------------------------
# pyscn init
# ----------------------------------------------------------------------------------------------
def canon_report(data):
    o = observe(data)
    s = data.get("summary") or {}
    o["summary"] = {k: v for k, v in s.items() if not isinstance(v, (dict, list))}
    return o


def init_differential(ck, root):
    """analysis results with and without the file `pyscn init` writes, same directory name, same files."""
    res = []
    for name, extra in (("plain", {}), ("with_nested_tests", {"pkg/test_helper.py": fn_complexity("helper", 8), "pkg/__init__.py": "",
                                                             "venv/lib.py": fn_complexity("vendored", 12)})):
        d = os.path.join(root, "init_" + name, "proj")
        shutil.rmtree(os.path.dirname(d), ignore_errors=True)
        write_project(d)
        for rel, c in extra.items():
            os.makedirs(os.path.dirname(os.path.join(d, rel)), exist_ok=True)
            with open(os.path.join(d, rel), "w") as f:
                f.write(c)
        rc0, data0, err0 = run_analyze(d, [])
        rcc0, lines0, _ = run_check(d, [])
        rci, out, err = lib.pyscn(["init"], d)
        made = os.path.exists(os.path.join(d, ".pyscn.toml"))
        rc1, data1, err1 = run_analyze(d, [])
        rcc1, lines1, _ = run_check(d, [])
        same = bool(data0 and data1) and canon_report(data0) == canon_report(data1) and rc0 == rc1 and (rcc0, lines0) == (rcc1, lines1)
        diffs = []
        if data0 and data1:
            a, b = canon_report(data0), canon_report(data1)
            for k in sorted(set(a) | set(b)):
                if a.get(k) != b.get(k):
                    diffs.append("%s: %s vs %s" % (k, str(a.get(k))[:200], str(b.get(k))[:200]))
        if (rcc0, lines0) != (rcc1, lines1):
            diffs.append("check: exit %s lines %s vs exit %s lines %s" % (rcc0, lines0[:6], rcc1, lines1[:6]))
        r = dict(name=name, init_rc=rci, file_written=made, same=same, diffs=diffs)
        if name == "plain" and made:
            # an existing file is kept unless --force is given; --config names another place (directories are created)
            cp = os.path.join(d, ".pyscn.toml")
            generated = open(cp).read()
            with open(cp, "w") as f:
                f.write("# edited by hand\n[complexity]\nmax_complexity = 31\n")
            rc2, _, err2 = lib.pyscn(["init"], d)
            kept = open(cp).read().startswith("# edited by hand")
            rc3, _, _ = lib.pyscn(["init", "--force"], d)
            forced = open(cp).read()
            rc4, _, _ = lib.pyscn(["init", "--config", os.path.join("conf", "deep", "custom.toml")], d)
            cp4 = os.path.join(d, "conf", "deep", "custom.toml")
            custom = open(cp4).read() if os.path.exists(cp4) else None
            r["init_again"] = dict(second_exit=rc2, existing_file_kept=kept, second_message=err2.strip()[-160:], force_exit=rc3,
                                   force_restores_generated=(forced == generated), custom_exit=rc4, custom_same_text=(custom == generated))
        res.append(r)
        shutil.rmtree(os.path.dirname(d), ignore_errors=True)
    return res


# ----------------------------------------------------------------------------------------------
def hermetic_problem():
    d = lib.WORK
    while True:
        for n in (".pyscn.toml", "pyproject.toml"):
            p = os.path.join(d, n)
            if os.path.exists(p):
                if n == ".pyscn.toml" or "[tool.pyscn" in open(p, errors="ignore").read():
                    return p
        nd = os.path.dirname(d)
        if nd == d:
            return None
        d = nd


def cell_of(opt, flag, filev):
    def cls(v):
        if v is None:
            return "absent"
        if opt.zero is not None and v == opt.zero and v != opt.default:
            return "zero"
        return "default" if v == opt.default else "nondefault"
    return cls(flag), cls(filev)


def main(tier):
    ck = lib.Check("C17", tier)
    ck.prepare("C17.v")
    rng = ck.rng
    thorough = tier == "thorough"
    hp = hermetic_problem()
    if hp:
        ck.broken_ties.append("a pyscn configuration file above the work directory leaks into the runs: " + hp)
    if not getattr(ck, "go_ok", False):
        ck.finish(assumptions=["go build failed"])
    root = lib.fresh_dir("c17")

    # ---- baseline: everything reported, no configuration ---------------------------------------
    base = {}
    for sel, files in SELECT_FILES.items():
        bd = os.path.join(root, "baseline_" + sel)
        write_project(bd, files)
        rc, data, err = run_analyze(bd, ["--select", sel, "--min-complexity", "1", "--min-severity", "info", "--clone-threshold", "0.50", "--min-cbo", "0"])
        if not data:
            ck.broken_ties.append("baseline analyze (%s) produced no report: %s" % (sel, err[-400:]))
            ck.finish()
        base.update(observe(data))
        shutil.rmtree(bd, ignore_errors=True)
    want_cx = sorted(CX)
    if sorted(c for c, _ in base["cx"]["items"]) != want_cx:
        ck.notes.append("generator: complexities %s reported as %s" % (want_cx, base["cx"]["items"]))
    if base["dead"]["items"] != ["critical", "warning"]:
        ck.notes.append("generator: dead-code severities %s" % base["dead"]["items"])
    if sorted(c for c, _ in base["cbo"]["items"]) != [2, 4, 6]:
        ck.notes.append("generator: CBO values %s" % base["cbo"]["items"])
    if sorted(c for c, _ in base["lcom"]["items"]) != [1, 3, 6]:
        ck.notes.append("generator: LCOM values %s" % base["lcom"]["items"])
    sims = base["clone"]["items"]
    if not (len(sims) == 3 and sims[0] < 0.84 and sims[1] < 0.84 and 0.86 < sims[2] < 0.985 and sims[0] > 0.66):
        ck.notes.append("generator: clone similarities %s are not in the bands the thresholds assume" % sims)

    # ---- (D) keys without a flag: started now, the runs overlap parts (A)-(C) -----------------------
    sweep = c17keys.KeySweep(ck, sys.modules[__name__], root, thorough)
    sweep.start()

    # ---- (A) option matrix -------------------------------------------------------------------------
    ocases = []
    for opt in OPTIONS:
        vals = [opt.default] + list(opt.others[:2])
        fvals = [None] + vals if opt.flag else [None]
        kvals = [None] + vals + ([opt.zero] if opt.zero is not None else [])
        if opt.name == "check_max_complexity":
            kvals += [0, -3]
            fvals += [opt.others[2]]
        if opt.name == "analyze_min_severity":
            fvals += ["bogus"]
        if thorough:
            fvals += [v for v in opt.others[2:] if v not in fvals] if opt.flag else []
            kvals += [v for v in opt.others[2:] if v not in kvals]
        for fl in fvals:
            for kv in kvals:
                for style in (("pyscn", "pyproject") if thorough else (rng.choice(["pyscn", "pyscn", "pyproject"]),)):
                    if kv is None and style == "pyproject" and thorough:
                        continue
                    ocases.append((opt, fl, kv, style))
    with ThreadPoolExecutor(max_workers=16) as ex:
        oimpl = list(ex.map(run_option_case, [(i, o, fl, kv, st, root) for i, (o, fl, kv, st) in enumerate(ocases)]))

    # ---- (B) discovery ---------------------------------------------------------------------------
    dcases = discovery_cases(rng, thorough) + filetype_cases(rng, thorough)
    with ThreadPoolExecutor(max_workers=16) as ex:
        dimpl = list(ex.map(run_discovery_case, [(i, c, root) for i, c in enumerate(dcases)]))

    # ---- (C) init --------------------------------------------------------------------------------
    init_res = init_differential(ck, root)

    # ---- (D) keys without a flag: the runs finish here, they were started before part (A) ----------
    kstats = {}
    try:
        sweep.wait()
    except Exception as e:
        ck.broken_ties.append("key sweep failed: %s" % str(e)[-800:])
        sweep = None

    # ---- model and spec in Coq -------------------------------------------------------------------
    omodel = dmodel = defaults = None
    if not any(f in ("Cli/Config.v", "Cli/ConfigRun.v", "Cli/Discovery.v", "Cli/Gate.v") or f.startswith("Gen/") for f in getattr(ck, "failed_files", [])):
        try:
            jobs = []
            shard = 150
            for off in range(0, len(ocases), shard):
                items = ["run_option %s %s %s" % (o.coq, o.coq_value(fl), o.coq_value(kv)) for (o, fl, kv, st) in ocases[off:off + shard]]
                jobs.append(("C17_opt_%d" % off, REQ, "Eval vm_compute in %s.\n" % clist(items)))
            for off in range(0, len(dcases), shard):
                items = [coq_discovery(c) for c in dcases[off:off + shard]]
                jobs.append(("C17_disc_%d" % off, REQ, "Eval vm_compute in %s.\n" % clist(items)))
            jobs.append(("C17_defaults", REQ, "Eval vm_compute in defaults_table.\n"))
            if sweep is not None:
                jobs.append(sweep.coq_job())
                jobs.append(sweep.discovery_job())
            outs = lib.coq_eval_many(jobs, workers=8)
            omodel, dmodel = [], []
            k = 0
            for off in range(0, len(ocases), shard):
                omodel += lib.parse_coq_values(outs[k])[0]
                k += 1
            for off in range(0, len(dcases), shard):
                dmodel += lib.parse_coq_values(outs[k])[0]
                k += 1
            defaults = lib.parse_coq_values(outs[k])[0]
            if sweep is not None:
                kstats = sweep.decide(outs[k + 1], outs[k + 2])
        except Exception as e:
            ck.broken_ties.append("model evaluation failed: %s" % str(e)[-1200:])
            omodel = dmodel = None

    def pyval(opt, v):
        """Coq value -> python value comparable with the echo."""
        tag = v[0]
        if tag == "VZ":
            return v[1]
        if tag == "VSev":
            return SEV_OF_COQ.get(v[1], "other")
        if tag == "VFrac":
            return Fraction(v[1], v[2])
        return v

    n_spec_bad = n_tie_bad = n_known = n_items_bad = n_out_of_domain = 0
    seen = set()
    cells = {}
    # ---- decide (A) ------------------------------------------------------------------------------
    for idx, ((opt, fl, kv, style), impl) in enumerate(zip(ocases, oimpl)):
        fcell, kcell = cell_of(opt, fl, kv)
        seen.add((opt.name, str(fl), str(kv), style))
        cells[(opt.name, fcell, kcell)] = cells.get((opt.name, fcell, kcell), 0) + 1
        echo, items = impl_echo_and_items(opt, impl["obs"], impl["check"])
        replay = {"option": opt.name, "flag": None if fl is None else opt.flag_value(fl), "file_key": "[%s] %s" % (opt.section, opt.key),
                  "file_value": None if kv is None else opt.toml_value(kv), "config_style": style, "argv": impl["argv"], "exit": impl["rc"],
                  "echo": str(echo), "items": str(items), "stderr": impl["stderr"], "files": SELECT_FILES[opt.select]}
        if opt.cmd == "analyze" and impl["obs"] is None:
            ck.violation("pyscn analyze wrote no report for option case %s" % opt.name, replay)
            continue
        # the specification, read directly off the property text (and cross-checked with [eff] evaluated in Coq)
        sval = fl if fl is not None else (kv if kv is not None else opt.default)
        mval = None
        if omodel is not None:
            mval, sval_coq = pyval(opt, omodel[idx][0]), pyval(opt, omodel[idx][1])
            if sval_coq != sval and not (opt.kind == "sev" and fl is not None and fl not in SEV_LEVEL):
                ck.broken_ties.append("eff (Coq) = %s but the property text read in Python gives %s for %s flag=%s file=%s" % (sval_coq, sval, opt.name, fl, kv))
        replay["model"], replay["spec"] = str(mval), str(sval)
        if opt.kind == "sev" and fl is not None and fl not in SEV_LEVEL:
            # not a severity: the property says nothing; the implementation must still do what the model of the code says
            n_out_of_domain += 1
            if mval is not None and (echo != mval or items != expected_items(opt, mval, base)):
                n_tie_bad += 1
                ck.broken_ties.append("%s flag=%s file=%s: pyscn uses %s (items %s), model Cli/Config.v says %s" % (opt.name, fl, kv, echo, items, mval))
            continue
        # the property's domain for check --max-complexity: file values <= 0 are the documented "no limit"/unset marker
        spec_value = sval
        if opt.name == "check_max_complexity" and kv is not None and kv <= 0:
            spec_value = fl if fl is not None else opt.default
        # check prints no limit when no function exceeds it (limit >= 16): cannot be read back
        echo_known = not (opt.name == "check_max_complexity" and echo == "none")
        exp_items = expected_items(opt, spec_value, base)
        bad = None
        if echo_known and echo != spec_value:
            bad = "effective value %s, precedence says %s" % (echo, spec_value)
        elif items != exp_items:
            bad = "surviving items %s, with the effective value %s they would be %s" % (items, spec_value, exp_items)
        if bad:
            tags = {"part": "option", "option": opt.name.split("[")[0], "flag": fcell, "key": kcell}
            e = ck.match_known(tags)
            if e and (mval is None or echo == mval):
                n_known += 1
                ck.known_finding(e)
            else:
                n_spec_bad += 1
                if n_spec_bad <= 6:
                    ck.violation("%s: flag %s, %s = %s (%s): %s" % (opt.name, replay["flag"], replay["file_key"], replay["file_value"], style, bad), replay)
        # tie: implementation vs code model
        if mval is None:
            continue
        if echo_known and echo != mval:
            n_tie_bad += 1
            msg = "%s flag=%s file=%s: pyscn uses %s, model Cli/Config.v says %s" % (opt.name, replay["flag"], replay["file_value"], echo, mval)
            ck.notes.append(msg)
            if not bad and n_tie_bad <= 3:
                ck.broken_ties.append(msg)
        elif items is not None and items != expected_items(opt, mval, base) and not bad:
            n_items_bad += 1
            if n_items_bad <= 2:
                ck.broken_ties.append("%s flag=%s file=%s: echo %s but surviving items %s" % (opt.name, replay["flag"], replay["file_value"], echo, items))

    # ---- decide (B) ------------------------------------------------------------------------------
    n_f24 = 0
    ft_stats, neg_groups = {}, {}
    for idx, (case, impl) in enumerate(zip(dcases, dimpl)):
        seen.add(("disc", json.dumps(case, sort_keys=True)))
        default = 0 if case["cmd"] == "analyze" else 10
        replay = {"case": case, "argv": impl["argv"], "cwd": impl["cwd"], "exit": impl["rc"], "echo": impl["got"], "config_values": impl["ids"],
                  "stderr": impl["stderr"]}
        cit = case["cwd"] is None
        ssrc, f24 = py_spec_resolve(case)
        sv = source_to_value(case["cmd"], ssrc, default, cit)
        msrc, mv = None, None
        if dmodel is not None:
            msrc, ssrc_coq, f24_coq = dmodel[idx]
            mv = source_to_value(case["cmd"], msrc, default, cit)
            if source_to_value(case["cmd"], ssrc_coq, default, cit) != sv or f24_coq != f24:
                ck.broken_ties.append("spec_resolve (Coq) = %s / f24 %s but the property text read in Python gives %s / %s on %s"
                                      % (ssrc_coq, f24_coq, ssrc, f24, json.dumps(case)))
        replay["model"], replay["spec"], replay["f24_layout"] = str(msrc), str(ssrc), f24
        if sv == "error":
            got = "error" if (impl["rc"] != 0 and "config file not found" in impl["stderr"]) else impl["got"]
        else:
            got = impl["got"]
            if case["cmd"] == "check" and got is None and impl["rc"] == 0:
                got = "none"
        if f24:
            n_f24 += 1
        if impl.get("crash"):
            n_spec_bad += 1
            ck.violation("%s %s: pyscn crashed (exit %s) on this configuration layout" % (case["cmd"], " ".join(impl["argv"][1:]), impl["rc"]), replay)
            continue
        if case.get("filetype"):
            for hl in (case.get("hows") or {}).values():
                for pair in hl:
                    for h in pair or []:
                        if h != "reg":
                            ft_stats["links_" + h] = ft_stats.get("links_" + h, 0) + 1
            if case.get("explicit_how"):
                ft_stats["explicit_" + case["explicit_how"]] = ft_stats.get("explicit_" + case["explicit_how"], 0) + 1
            if case.get("exdir_via_link"):
                ft_stats["explicit_directory_via_link"] = ft_stats.get("explicit_directory_via_link", 0) + 1
        if case.get("neg"):
            # a name that is no configuration file (link to nothing / to itself, directory): the property only says that it is not "the
            # configuration file" of that place: it is passed over (the layout without it decides) or the run is refused; the same from every cwd
            nt = neg_tags(case)
            ft_stats["negative_%s_%s" % (nt["negative"], nt["name"])] = ft_stats.get("negative_%s_%s" % (nt["negative"], nt["name"]), 0) + 1
            refused = impl["rc"] != 0 and impl["got"] is None and re.search(r"(?i)config|toml", impl["stderr"]) is not None
            outcome = "refused" if refused else ("passed-over" if got == sv else "other:%s" % (impl["ids"].get(str(got), "defaults" if got == default else got),))
            gkey = json.dumps([case["cmd"], case["target"], case["target_file"], case["neg"]])
            if sv != default:      # with the defaults expected, "passed over" and "defaults in force" cannot be told apart
                neg_groups.setdefault(gkey, []).append((outcome, replay))
            if f24 or outcome in ("refused", "passed-over"):
                continue
            tags = dict(nt, outcome="defaults" if got == default else "other")
            e = ck.match_known(tags)
            if e:
                n_known += 1
                ck.known_finding(e)
            else:
                n_spec_bad += 1
                if n_spec_bad <= 6:
                    ck.violation("%s %s: %s named %s is no configuration file, yet the configuration in force has value %s (%s); without it the rule says %s (%s)"
                                 % (case["cmd"], " ".join(impl["argv"][1:]), "a " + nt["negative"] + (" link" if nt["negative"] != "dir" else "ectory"), nt["name"],
                                    got, impl["ids"].get(str(got), "defaults" if got == default else "?"), sv, ssrc), replay)
            continue
        bad = None
        if not f24 and got != sv:
            bad = "configuration in force has value %s (%s), the rule says %s (%s)" % (got, impl["ids"].get(str(got), "defaults" if got == default else "?"),
                                                                                         sv, ssrc)
            tags = {"part": "discovery", "cmd": case["cmd"], "explicit": str(case["explicit"]), "cwd_elsewhere": case["cwd"] is not None}
            e = ck.match_known(tags)
            if e and (mv is None or got == mv):
                n_known += 1
                ck.known_finding(e)
            else:
                n_spec_bad += 1
                if n_spec_bad <= 6:
                    ck.violation("%s %s: %s" % (case["cmd"], " ".join(impl["argv"][1:]), bad), replay)
        if mv is not None and got != mv:
            n_tie_bad += 1
            msg = "discovery case %d (%s): pyscn uses %s, model Cli/Discovery.v says %s (%s)" % (idx, json.dumps(case), got, mv, msrc)
            ck.notes.append(msg)
            if not bad and n_tie_bad <= 3:
                ck.broken_ties.append(msg)

    # the same layout with a negative name, seen from several working directories: one outcome
    for gkey, lst in sorted(neg_groups.items()):
        outs = sorted({o for o, _ in lst})
        if len(outs) > 1:
            n_spec_bad += 1
            ck.violation("the outcome for a layout with a name that is no configuration file depends on the working directory: %s" % outs,
                         {"layout": json.loads(gkey), "runs": [r for _, r in lst]})

    # ---- decide (C) ------------------------------------------------------------------------------
    for r in init_res:
        replay = dict(r)
        if r["init_rc"] != 0 or not r["file_written"]:
            ck.violation("pyscn init did not write .pyscn.toml (exit %s)" % r["init_rc"], replay)
            continue
        ia = r.get("init_again")
        if ia:
            if ia["second_exit"] == 0 or not ia["existing_file_kept"]:
                n_spec_bad += 1
                ck.violation("pyscn init on an existing .pyscn.toml without --force: exit %s, file kept: %s" % (ia["second_exit"], ia["existing_file_kept"]), replay)
            if ia["force_exit"] != 0 or not ia["force_restores_generated"] or ia["custom_exit"] != 0 or not ia["custom_same_text"]:
                n_spec_bad += 1
                ck.violation("pyscn init --force / --config <path> does not write the generated default file: %s" % ia, replay)
        if not r["same"]:
            tags = {"part": "init", "project": r["name"]}
            e = ck.match_known(tags)
            if e:
                n_known += 1
                ck.known_finding(e)
            else:
                n_spec_bad += 1
                ck.violation("the file written by `pyscn init` changes the results on project %s: %s" % (r["name"], "; ".join(r["diffs"])[:900]), replay)

    # ---- defaults table: documented defaults vs the translator's ----------------------------------
    if defaults is not None:
        want = (5, "SevWarning", ("VFrac", 13, 20), 0, 10, (9, 19, 3, 7, 2, 5))
        if tuple(defaults) != want:
            ck.broken_ties.append("documented defaults (5, warning, 0.65, 0, 10; 9/19, 3/7, 2/5) differ from the code's: %s" % (defaults,))

    shutil.rmtree(root, ignore_errors=True)
    ck.samples = ([{"option": o.name, "flag": None if fl is None else o.flag_value(fl), "file": None if kv is None else o.toml_value(kv), "style": st,
                    "echo": str(impl_echo_and_items(o, im["obs"], im["check"])[0])}
                   for (o, fl, kv, st), im in list(zip(ocases, oimpl))[:: max(1, len(ocases) // 5)]][:5] +
                  [{"discovery": c, "echo": im["got"], "argv": im["argv"]} for c, im in list(zip(dcases, dimpl))[:: max(1, len(dcases) // 3)]][:3])
    ck.cov.update({
        "evaluations": len(ocases) + len(dcases) + 4 * len(init_res) + 1 + kstats.get("key_cases", 0) + kstats.get("explicit_config_cases", 0) + 3,
        "distinct_nontrivial": len(seen) + kstats.get("key_cases", 0) + kstats.get("explicit_config_cases", 0),
        "rule": "one evaluation = one run of the real pyscn binary (analyze --json / check) on a generated project + config layout; the effective "
                "value is read from the report's config echo (check: the printed limit) and from the surviving items, and compared with eff / "
                "spec_resolve and with the Coq model; every discovery place holds its file as a regular file and through symbolic links (relative in / "
                "out of the project, absolute, chained), alone, nearer / further than a regular file, beside the other kind, under --config "
                "<link> and --config <directory (through a link)>, from several working directories, decided like the regular-file layout; "
                "names that are no configuration file (dangling link, self link, directory) must be passed over or refused, independent of "
                "the cwd, without a crash; the keys without a flag are judged under a discovered file and under an explicit --config file "
                "(alone, against a discovered file with another value, and not mentioning the key while the discovered file does: the explicit "
                "file is the one in force for every key, observed by the echo, by a refusal, and for [output] format / directory by the extension "
                "/ place of the report written); distinct = distinct (option, flag value, file value, file style) or discovery layout or "
                "(key, explicit-file mode, values)",
        "input_distribution": {"option_cases": len(ocases), "options": len(OPTIONS), "cells_flag_x_key": {"%s/%s/%s" % k: v for k, v in sorted(cells.items())},
                               "discovery_cases": len(dcases), "discovery_f24_layouts_not_judged": n_f24,
                               "discovery_cwd_elsewhere": sum(1 for c in dcases if c["cwd"] is not None),
                               "discovery_target_is_file": sum(1 for c in dcases if c["target_file"]),
                               "discovery_explicit": sum(1 for c in dcases if c["explicit"] is not None),
                               "discovery_file_type_cases": sum(1 for c in dcases if c.get("filetype")),
                               "discovery_file_type_negative_cases": sum(1 for c in dcases if c.get("neg")),
                               "discovery_file_types": dict(sorted(ft_stats.items())),
                               "init_projects": len(init_res), "flag_values_outside_the_domain": n_out_of_domain,
                               "file_only_keys": kstats},
        "disagreements_checked": n_spec_bad + n_tie_bad + n_known + n_items_bad + kstats.get("spec_bad", 0) + kstats.get("tie_bad", 0) + kstats.get("known", 0),
        "spec_disagreements": n_spec_bad, "model_disagreements": n_tie_bad, "known_finding_cases": n_known,
        "init_differential": [{k: r[k] for k in ("name", "same", "diffs")} for r in init_res],
    })
    ck.trusted += ["Coq 8.16.1 kernel, vm_compute for model evaluation",
                   "translator /verif/translator/gen_config.go + gen_check.go (flag defaults, Flags().Changed wrappers, request literals, merge "
                   "sentinels, key-present tests, file-side defaults, discovery order read off the Go AST)",
                   "hand-written models Cli/Config.v (per-option merge chain) and Cli/Discovery.v (ResolveConfigPath / FindConfigFileFromPath); cobra/pflag "
                   "parsing and go-toml are modelled only as 'flag given / key present'; the file system as a chain of directories",
                   "hand-written generic model Cli/ConfigKeys.v of the keys without a flag (presence test, validation range, whether the value reaches "
                   "the request; per-key classification in harness/c17keys.py read off pyproject_loader.go / *_config_loader.go / clone_usecase.go), "
                   "bound to the code by one run of the real binary per key and value; for [clones] skip_docstrings / max_edit_distance, [output] format, "
                   "the [dead_code] detect_* switches and the built-in file patterns the wiring is read off the Go AST by translator/gen_config.go "
                   "(Cli/ConfigKeysWiring.v)",
                   "init_yields_defaults is a differential test only (the TOML text `pyscn init` writes is parsed by the real loader, not by a model)",
                   "JSON report reader and stderr parser of harness/c17.py"]
    ck.finish(assumptions=["severities are critical / warning / info", "the clone threshold is within 0..1", "no pyscn configuration file above the work directory",
                           "[complexity] max_complexity <= 0 in the file means 'unset' (documented: 0 = no limit)",
                           "when no configuration file exists at or above the analysed path, the one discoverable from the working directory applies"])
