"""C19 — the check gate fails exactly when a gated violation exists.

Observed at the command line: generated boundary projects x flag / config combinations are given to the real
`pyscn check` (exit status, stderr) and to `pyscn analyze --json` (the analysis results); the Coq model of
runCheck (Cli/Gate.v) and the boolean form of the specification (gate_spec_b, proved equal to gate_spec) are
evaluated on the same inputs.  Per case:
  impl exit vs spec                       -> VIOLATION (or a recorded known finding)
  printed violation lines vs analyze      -> VIOLATION
  impl (exit, issue count, lines, status messages, enabled analyses) vs model -> broken tie
Target lists (layout "list"): one tree (two directories, one of them with a sub-directory, two plain files) and every list of
one or two targets over {directory, directory, nested directory, file, file, file inside a directory}, every directory/file
pattern of three targets, repeated and nested targets, missing targets in every position, relative / ./ / absolute / trailing
slash / dir/../ spellings, from inside and outside the tree; the violating code sits in each file of the tree in turn (and in
none, and in all).  Expected = the model / spec on the union of the files the targets select, and what `pyscn analyze`
reports for the same targets.
Sibling targets whose names are string prefixes of each other (layout "sib": app / app_v2 / app.old / application next to an
unrelated name and a real sub-directory): every ordered pair short/long, lists of three and more, repeated and really nested
targets, in every spelling (relative, ./, absolute, trailing slash, dir/../, mixed absolute + relative, from outside), with the
import cycle in the shorter-named directory, in the longer-named ones, in every one and in none, --max-cycles at / one below the
number of cycles.  Expected = the project roots Cli/GateRoots.v computes from the cleaned path components (a target is dropped
only if it IS an earlier target or lies INSIDE another one), the cycles of the whole-tree analysis below those roots, and what
`pyscn analyze --select deps` reports for the same targets.
"""
import os
import re
import shutil
from concurrent.futures import ThreadPoolExecutor

import lib
from lib import cZ, cN, cbool, clist, copt

REQ = ("From Coq Require Import ZArith List.\nImport ListNotations.\n"
       "From PV Require Import Cli.Gate Cli.GateRun.\nOpen Scope Z_scope.")

SEL_COQ = {"complexity": "SComplexity", "deadcode": "SDeadcode", "clones": "SClones", "deps": "SDeps",
           "circular": "SCircular", "mockdata": "SMockdata"}
SEV_COQ = {"info": "SevInfo", "warning": "SevWarning", "critical": "SevCritical"}
SEV_LEVEL = {"info": 1, "warning": 2, "critical": 3}


# ----------------------------------------------------------------------------------------------
# generated projects
# ----------------------------------------------------------------------------------------------
def fn_complexity(name, n):
    """A function of cyclomatic complexity n (n-1 independent ifs)."""
    s = "def %s(x):\n" % name
    for i in range(n - 1):
        s += "    if x > %d:\n        x += %d\n" % (i, i + 1)
    return s + "    return x\n\n\n"


def fn_dead_critical(name):
    return "def %s(x):\n    y = x + 1\n    return y\n    print(\"dead\", y)\n\n\n" % name


def fn_dead_warning(name):
    # the dead statement starts more than 5 lines after the return: no terminator is found, severity warning
    return ("def %s(x):\n    y = x * 2\n    return y\n" % name) + "".join("    # filler %d\n" % i for i in range(7)) + \
        "    print(\"far\", y)\n\n\n"


def fn_dead_after(name, kw):
    if kw == "raise":
        return "def %s(x):\n    raise ValueError(x)\n    print(\"dead\")\n\n\n" % name
    return ("def %s(xs):\n    for x in xs:\n        %s\n        print(\"dead\", x)\n    return xs\n\n\n" % (name, kw))


CLONE_BODY = '''def %s(items, factor):
    total = 0
    count = 0
    values = []
    for item in items:
        total = total + item * factor
        count = count + 1
        values.append(total - count)
    average = total / (count + 1)
    spread = max(values + [0]) - min(values + [0])
    result = {"total": total, "count": count, "average": average, "spread": spread}
    return result


'''

MOCK_FILE = '''def sample_user():
    email = "test@example.com"
    secret = "password123"
    return email, secret
'''


class Project:
    def __init__(self, name, cx=(), n_crit=0, n_warn=0, after=(), cycles2=0, cycle3=False, clones=False, mock=False,
                 empty=False):
        self.name = name
        self.cx = list(cx)
        self.n_crit, self.n_warn, self.after = n_crit, n_warn, list(after)
        self.cycles2, self.cycle3, self.clones, self.mock, self.empty = cycles2, cycle3, clones, mock, empty
        self.files = {}
        if empty:
            self.files["README.txt"] = "no python here\n"
            return
        if self.cx:
            self.files["cxmod.py"] = "".join(fn_complexity("f%d_%d" % (n, k), n) for k, n in enumerate(self.cx))
        dead = "".join(fn_dead_critical("crit%d" % k) for k in range(n_crit))
        dead += "".join(fn_dead_warning("warn%d" % k) for k in range(n_warn))
        dead += "".join(fn_dead_after("after%d" % k, kw) for k, kw in enumerate(self.after))
        if dead:
            self.files["deadmod.py"] = dead
        for k in range(cycles2):
            self.files["cyca%d.py" % k] = "import cycb%d\n\n\ndef ga%d():\n    return cycb%d\n" % (k, k, k)
            self.files["cycb%d.py" % k] = "import cyca%d\n\n\ndef gb%d():\n    return cyca%d\n" % (k, k, k)
        if cycle3:
            for a, b in (("tri0", "tri1"), ("tri1", "tri2"), ("tri2", "tri0")):
                self.files["%s.py" % a] = "import %s\n\n\ndef h_%s():\n    return %s\n" % (b, a, b)
        if clones:
            self.files["clonemod.py"] = CLONE_BODY % "summarize_a" + CLONE_BODY % "summarize_b"
        if mock:
            self.files["mockmod.py"] = MOCK_FILE
        if not self.files:
            self.files["plain.py"] = "def plain(x):\n    return x\n"
        self.n_cycles = cycles2 + (1 if cycle3 else 0)

    def write(self, d):
        os.makedirs(d, exist_ok=True)
        for n, c in self.files.items():
            with open(os.path.join(d, n), "w") as f:
                f.write(c)

    def write_split(self, d, both=False):
        """The same files in two directories: the import cycles in d/two, everything else in d/one.
        both: the 2-cycles with an even number go to d/one instead, so that each directory holds cycles of its own."""
        for sub in ("one", "two"):
            os.makedirs(os.path.join(d, sub), exist_ok=True)
        for n, c in self.files.items():
            sub = split_dir(n, both)
            with open(os.path.join(d, sub, n), "w") as f:
                f.write(c)
        if not any(n.startswith(("cyc", "tri")) for n in self.files):
            with open(os.path.join(d, "two", "lonely.py"), "w") as f:
                f.write("def lonely(x):\n    return x\n")


def base(path):
    return os.path.basename(path)


def split_dir(n, both):
    """the directory of file n in the split layout"""
    if both and n.startswith("cyc") and int(n[4:-3]) % 2 == 0:
        return "one"
    return "two" if n.startswith(("cyc", "tri")) else "one"


def split_analysis(case, proj_an):
    """The analysis results of the files below the targets of a split case (a target twice or inside another one adds nothing),
    cut out of the analysis of the flat project."""
    covered = set()
    for t in case["order"]:
        t = os.path.normpath(t)
        covered |= {"one", "two"} if t == "." else {t}
    here = lambda fn: split_dir(fn, case["both"]) in covered
    return dict(proj_an, functions=[f for f in proj_an["functions"] if here(f[0])],
                findings=[f for f in proj_an["findings"] if here(f[0])],
                cycles=[c for c in proj_an["cycles"] if here(c[0] + ".py")])


def analyse_project(ck, proj, d, extra_cfg=None):
    """pyscn analyze --json on the project -> functions, findings, cycles (canonical, sorted)."""
    if proj.empty:
        return {"functions": [], "findings": [], "cycles": [], "error": True}
    pd = os.path.join(d, "proj")
    proj.write(pd)
    if extra_cfg:
        with open(os.path.join(pd, ".pyscn.toml"), "w") as f:
            f.write(extra_cfg)
    rc, data, err = lib.analyze_json(pd, ["--select", "complexity,deadcode,deps", "--min-complexity", "1", "--min-severity", "info"])
    if data is None:
        ck.broken_ties.append("pyscn analyze produced no report for project %s (rc=%s): %s" % (proj.name, rc, err[-300:]))
        return None
    return canon_report(data)


ANALYZE_OPTS = ["--select", "complexity,deadcode", "--min-complexity", "1", "--min-severity", "info"]


def canon_report(data):
    funcs, finds, cycles = [], [], []
    for f in ((data.get("complexity") or {}).get("Functions") or []):
        funcs.append((base(f["FilePath"]), f["StartLine"], f["Name"], f["Metrics"]["Complexity"]))
    for fl in ((data.get("dead_code") or {}).get("files") or []):
        for fn in fl.get("functions") or []:
            for x in fn.get("findings") or []:
                finds.append((base(x["location"]["file_path"]), x["location"]["start_line"], x["severity"]))
    dep = ((data.get("system") or {}).get("DependencyAnalysis") or {}).get("CircularDependencies") or {}
    for c in dep.get("CircularDependencies") or []:
        cycles.append(tuple(sorted(m.split(".")[-1] for m in c["Modules"])))
    return {"functions": sorted(funcs), "findings": sorted(finds), "cycles": sorted(cycles), "error": False,
            "total_cycles": dep.get("TotalCycles", 0)}


# ----------------------------------------------------------------------------------------------
# cases
# ----------------------------------------------------------------------------------------------
def mk_case(proj, select=None, maxcx=None, allow_dead=False, skip_clones=False, allow_circ=False, maxcyc=None, quiet=False,
            cfg=None, layout="in", decoy=None, explicit=None, target_missing=False, order=None, targets=None, spell=None,
            cfg_at=None, cwd_out=False, shared=False, both=False, same=False):
    """cfg / decoy / explicit: dict with optional keys max, min, sev (values as written to the TOML file).
    layout: in (cwd = project, target .), out (cwd elsewhere, target ../proj), noargs (cwd = project, no target at all),
    split (the project in two directories one/ and two/ - the import cycles in two/, with both=True some of them in one/ -; the
    targets are the entries of `order`: one, two, also repeated, `.` and other spellings of them),
    list (a ListProject; targets = names of ATOMS, spell = how each is written, cwd_out = run from a directory next to the tree,
    cfg_at = root / da: where the config file lies; shared = run in the read-only copy of the tree that all such cases of one
    placement share, without the extra `pyscn analyze` run on the same targets),
    sib (a SibProject; targets = names of SIB_DIRS, spell / cwd_out as for list; same = `pyscn analyze --select deps` is run on the
    same targets too)."""
    return dict(proj=proj, select=select, maxcx=maxcx, allow_dead=allow_dead, skip_clones=skip_clones, allow_circ=allow_circ,
                maxcyc=maxcyc, quiet=quiet, cfg=cfg, layout=layout, decoy=decoy, explicit=explicit, target_missing=target_missing,
                order=order, targets=targets, spell=spell, cfg_at=cfg_at, cwd_out=cwd_out, shared=shared, both=both, same=same)


def toml_of(c):
    s = ""
    if "max" in c:
        s += "[complexity]\nmax_complexity = %d\n" % c["max"]
    if "min" in c or "sort" in c:
        # presentation keys (sort order, details) must not change the verdict of the gate
        s += "[output]\n" + ("min_complexity = %d\n" % c["min"] if "min" in c else "") + \
             ("sort_by = \"%s\"\nshow_details = true\n" % c["sort"] if "sort" in c else "")
        if "sort" in c:
            s += "[dead_code]\nsort_by = \"%s\"\nshow_context = true\n" % {"name": "function", "risk": "file"}.get(c["sort"], "line")
    if "sev" in c:
        s += "[dead_code]\nmin_severity = \"%s\"\n" % c["sev"]
    return s or "# empty\n"


def core_cases(P):
    cs = []
    b, clean, warn, cyc3, mock, empty, big = P["boundary"], P["clean"], P["warnonly"], P["cycles3"], P["mock"], P["empty"], P["big"]
    # --- complexity: flag at N-1 / N / N+1 for the complexities present (9, 10, 11, 12, 13)
    for m in (8, 9, 10, 11, 12, 13, 14):
        cs.append(mk_case(b, select=["complexity"], maxcx=m))
    cs.append(mk_case(b, select=["complexity"]))
    cs.append(mk_case(b))
    cs.append(mk_case(clean))
    cs.append(mk_case(clean, select=["complexity"], maxcx=5))
    cs.append(mk_case(clean, select=["complexity"], maxcx=4))
    cs.append(mk_case(clean, select=["complexity"], maxcx=1))
    cs.append(mk_case(clean, select=["complexity"], maxcx=0))
    cs.append(mk_case(clean, select=["complexity"], maxcx=-2, cfg={"max": 30}))
    # --- config-derived limit, in the target directory
    for m in (9, 10, 11, 12, 13, 0, -3, 5):
        cs.append(mk_case(b, select=["complexity"], cfg={"max": m}, allow_dead=True))
    for m, fl in ((13, 10), (13, 12), (9, 13), (12, 12), (11, 10)):
        cs.append(mk_case(b, select=["complexity"], cfg={"max": m}, maxcx=fl))
    cs.append(mk_case(b, cfg={"max": 13}, allow_dead=True))
    cs.append(mk_case(b, cfg={"max": 12}, allow_dead=True, skip_clones=True))
    # --- config discovered from the target, not from the working directory (F16)
    for m in (12, 13):
        cs.append(mk_case(b, select=["complexity"], cfg={"max": m}, layout="out"))
        cs.append(mk_case(b, select=["complexity"], cfg={"max": m}, layout="out", decoy={"max": 26 - m + 1}))
    cs.append(mk_case(b, select=["complexity"], layout="out", decoy={"max": 13}))
    cs.append(mk_case(b, select=["complexity"], layout="out", decoy={"max": 13}, maxcx=11))
    cs.append(mk_case(clean, layout="out", cfg={"max": 4}))
    cs.append(mk_case(clean, layout="out", cfg={"max": 5}, decoy={"max": 3}))
    # --- explicit --config
    cs.append(mk_case(b, select=["complexity"], cfg={"max": 10}, explicit={"max": 13}))
    cs.append(mk_case(b, select=["complexity"], cfg={"max": 13}, explicit={"max": 11}, layout="out"))
    # --- [output] min_complexity must not hide functions; [dead_code] min_severity must not move the gate
    for mn in (11, 12, 14, 20):
        cs.append(mk_case(b, select=["complexity"], cfg={"max": 12, "min": mn}))
        cs.append(mk_case(b, select=["complexity"], cfg={"min": mn}))
    cs.append(mk_case(b, select=["complexity"], cfg={"min": 20}, maxcx=12))
    for sev in ("warning", "info", "critical"):
        cs.append(mk_case(warn, select=["deadcode"], cfg={"sev": sev}))
        cs.append(mk_case(b, select=["deadcode"], cfg={"sev": sev}))
    # --- dead code: critical vs warning, allowed or not
    for pr in (b, warn, clean, big):
        for allow in (False, True):
            cs.append(mk_case(pr, select=["deadcode"], allow_dead=allow))
            cs.append(mk_case(pr, allow_dead=allow, maxcx=20))
    cs.append(mk_case(b, select=["complexity", "deadcode"], maxcx=13))
    cs.append(mk_case(b, select=["complexity", "deadcode"], maxcx=13, allow_dead=True))
    # --- cycles: k-1 / k / k+1, allowed or not, both spellings of the analysis name
    for pr in (b, cyc3, warn, clean, big):
        k = pr.n_cycles
        for mc in sorted({None, 0, max(0, k - 1), k, k + 1}, key=lambda v: (-1 if v is None else v)):
            for allow in (False, True):
                cs.append(mk_case(pr, select=["deps"], maxcyc=mc, allow_circ=allow))
    cs.append(mk_case(cyc3, select=["circular"]))
    cs.append(mk_case(cyc3, select=["circular"], maxcyc=3))
    cs.append(mk_case(cyc3, select=["CIRCULAR", "Deps"], maxcyc=2))
    cs.append(mk_case(cyc3, select=["deadcode", "deps"], maxcyc=3))
    cs.append(mk_case(cyc3, maxcyc=0))                      # deps is opt-in: cycles ignored by default
    cs.append(mk_case(b, select=["complexity", "deadcode", "clones", "deps"], maxcx=13, allow_dead=True, maxcyc=2))
    cs.append(mk_case(b, select=["complexity", "deadcode", "clones", "deps"], maxcx=13, allow_dead=True, maxcyc=1))
    cs.append(mk_case(b, select=["complexity", "deadcode", "clones", "deps"], maxcx=13, allow_dead=True, allow_circ=True))
    cs.append(mk_case(b, select=["deps"], layout="out", maxcyc=2))
    cs.append(mk_case(b, select=["deps"], layout="out", maxcyc=1))
    # --- clones never fail
    for pr in (b, clean):
        cs.append(mk_case(pr, select=["clones"]))
        cs.append(mk_case(pr, select=["clones"], quiet=True))
    cs.append(mk_case(b, select=["complexity", "clones"], maxcx=13))
    cs.append(mk_case(b, select=["complexity", "clones"], maxcx=12))
    cs.append(mk_case(b, skip_clones=True, maxcx=13, allow_dead=True))
    cs.append(mk_case(b, select=["clones"], skip_clones=True))
    # --- mock data (opt-in)
    cs.append(mk_case(mock, select=["mockdata"]))
    cs.append(mk_case(mock))
    cs.append(mk_case(mock, select=["complexity", "mockdata"]))
    cs.append(mk_case(clean, select=["mockdata"]))
    # --- quiet
    cs.append(mk_case(b, quiet=True))
    cs.append(mk_case(b, quiet=True, maxcx=13, allow_dead=True))
    cs.append(mk_case(cyc3, select=["deps"], quiet=True, maxcyc=3))
    cs.append(mk_case(cyc3, select=["deps"], quiet=True, maxcyc=2))
    # --- analyses that cannot run, invalid --select
    for sel in (None, ["complexity"], ["deadcode"], ["deps"], ["clones"], ["clones", "deps"], ["mockdata"], ["clones", "mockdata"]):
        cs.append(mk_case(empty, select=sel))
    cs.append(mk_case(clean, select=["clones"], target_missing=True))
    cs.append(mk_case(clean, select=["complexity"], target_missing=True))
    cs.append(mk_case(clean, target_missing=True))
    # --- no target at all (= the working directory); several targets: every one of them is checked
    cs.append(mk_case(clean, layout="noargs"))
    cs.append(mk_case(b, layout="noargs"))
    cs.append(mk_case(b, layout="noargs", maxcx=13, allow_dead=True))
    cs.append(mk_case(b, layout="noargs", select=["deps"], maxcyc=2))
    cs.append(mk_case(b, layout="noargs", select=["deps"], maxcyc=1))
    cs.append(mk_case(b, layout="noargs", select=["complexity"], cfg={"max": 13}))
    for order in (("one", "two"), ("two", "one")):
        cs.append(mk_case(b, layout="split", order=order, select=["deps"]))
        cs.append(mk_case(b, layout="split", order=order, select=["deps"], maxcyc=2))
        cs.append(mk_case(b, layout="split", order=order, select=["complexity", "deadcode"], maxcx=13))
        cs.append(mk_case(b, layout="split", order=order, select=["complexity"], maxcx=13))
        cs.append(mk_case(b, layout="split", order=order, select=["deadcode"], allow_dead=True))
        cs.append(mk_case(clean, layout="split", order=order, select=["complexity", "deadcode", "deps"]))
        cs.append(mk_case(cyc3, layout="split", order=order, select=["deps"], maxcyc=3))
    # the cycles are looked for in every target (C19-G1), each of them once: cycles in both targets, a target twice or inside
    # another one or spelled differently, three targets, a limit exactly at / one below the number of cycles of all targets
    for order in (("one", "two"), ("two", "one"), ("two", "two"), ("one", "two", "one"), (".", "two"), ("two", "."),
                  ("one", "./two", "two/"), ("one/../two", "one", "two")):
        for pr, k in ((b, 2), (cyc3, 3), (big, 2)):
            for bo in (False, True):
                cs.append(mk_case(pr, layout="split", order=order, select=["deps"], both=bo))
                cs.append(mk_case(pr, layout="split", order=order, select=["deps"], maxcyc=k, both=bo))
                cs.append(mk_case(pr, layout="split", order=order, select=["deps"], maxcyc=k - 1, both=bo))
    cs.append(mk_case(cyc3, layout="split", order=("one", "two"), select=["deps"], both=True, quiet=True))
    cs.append(mk_case(cyc3, layout="split", order=("one", "two"), select=["complexity", "deadcode", "deps"], both=True, maxcyc=2))
    cs.append(mk_case(cyc3, layout="split", order=("one", "two"), select=["deps"], both=True, allow_circ=True))
    cs.append(mk_case(clean, select=["bogus"]))
    cs.append(mk_case(b, select=["complexity", "nothing"], maxcx=20))
    return cs


def random_case(rng, projects):
    pr = rng.choice(projects)
    sel = None
    if rng.random() < 0.7:
        names = ["complexity", "deadcode", "clones", "deps", "circular", "mockdata"]
        sel = rng.sample(names, rng.choice([1, 1, 2, 2, 3, 4]))
        if rng.random() < 0.1:
            sel = [s.upper() for s in sel]
    cxs = sorted(set(pr.cx)) or [1]
    piv = rng.choice(cxs)
    maxcx = rng.choice([None, None, piv - 1, piv, piv + 1, 10, 1, 30])
    k = pr.n_cycles
    maxcyc = rng.choice([None, None, max(0, k - 1), k, k + 1, 0])
    cfg = None
    if rng.random() < 0.45:
        cfg = {}
        if rng.random() < 0.8:
            cfg["max"] = rng.choice([piv - 1, piv, piv + 1, 10, 0, 15])
        if rng.random() < 0.3:
            cfg["min"] = rng.choice([1, 2, piv, piv + 1, 15, 25])
        if rng.random() < 0.3:
            cfg["sev"] = rng.choice(["warning", "info", "critical"])
    layout = "out" if rng.random() < 0.35 else "in"
    decoy = {"max": rng.choice([piv - 1, piv + 1, 10, 14])} if layout == "out" and rng.random() < 0.6 else None
    explicit = {"max": rng.choice([piv - 1, piv, piv + 1])} if rng.random() < 0.08 else None
    return mk_case(pr, select=sel, maxcx=maxcx, allow_dead=rng.random() < 0.35, skip_clones=rng.random() < 0.2,
                   allow_circ=rng.random() < 0.35, maxcyc=maxcyc, quiet=rng.random() < 0.15, cfg=cfg, layout=layout,
                   decoy=decoy, explicit=explicit)


def random_project(rng, i):
    cx = [rng.choice([1, 2, 5, 9, 10, 11, rng.randint(1, 16)]) for _ in range(rng.randint(1, 5))]
    after = [rng.choice(["break", "continue", "raise"]) for _ in range(rng.choice([0, 0, 1, 2]))]
    return Project("rand%d" % i, cx=cx, n_crit=rng.choice([0, 0, 1, 2]), n_warn=rng.choice([0, 0, 1, 2]), after=after,
                   cycles2=rng.choice([0, 0, 1, 2, 3]), cycle3=rng.random() < 0.3, clones=rng.random() < 0.4,
                   mock=rng.random() < 0.2)


# ----------------------------------------------------------------------------------------------
# target lists: one tree, every shape of target list over it, the violating code in every file in turn
# ----------------------------------------------------------------------------------------------
DEFAULT_MAX_CX = 10          # cross-checked against the Coq model's effective threshold (mv[7][0]) on every case
LIST_OK_CX = DEFAULT_MAX_CX          # every file has a function exactly at the default limit
LIST_BAD_CX = DEFAULT_MAX_CX + 2     # a violating file has one function two above it (so limit+1 still fails, limit+2 passes)
LIST_FILES = ["da/da_mod.py", "da/sub/da_sub_mod.py", "db/db_mod.py", "fa.py", "fb.py"]
# target atoms: name -> (path relative to the tree root, kind: d directory, f file, m missing)
ATOMS = {"DA": ("da", "d"), "DB": ("db", "d"), "SUB": ("da/sub", "d"), "FA": ("fa.py", "f"), "FB": ("fb.py", "f"),
         "NF": ("da/da_mod.py", "f"), "MISSF": ("nosuch.py", "m"), "MISSD": ("nosuch_dir", "m")}
PLACEMENTS = [("none", ())] + [(base(f)[:-3], (f,)) for f in LIST_FILES] + [("all", tuple(LIST_FILES))]
SPELLINGS = ("rel", "dot", "abs", "slash", "dotdot")


class ListProject:
    """The target-list tree; `bad` = the files (relative paths) that hold a function above the limit and critical dead code."""
    mock = False
    empty = False
    n_cycles = 0

    def __init__(self, name, bad):
        self.name = "list_" + name
        self.bad = set(bad)
        self.files = {}
        self.cx = []
        for rel in LIST_FILES:
            stem = base(rel)[:-3]
            s = fn_complexity(stem + "_ok", LIST_OK_CX) + fn_dead_warning(stem + "_warn")
            self.cx.append(LIST_OK_CX)
            if rel in self.bad:
                s = fn_complexity(stem + "_big", LIST_BAD_CX) + s + fn_dead_critical(stem + "_crit")
                self.cx.append(LIST_BAD_CX)
            self.files[rel] = s

    def write(self, d):
        for rel, c in self.files.items():
            p = os.path.join(d, rel)
            os.makedirs(os.path.dirname(p), exist_ok=True)
            with open(p, "w") as f:
                f.write(c)


def list_selection(case):
    """(relative paths of the files the target list selects, how often each is named when every target is a plain file,
    some target missing).  A directory selects every file below it, a file itself; a file reached through several targets
    is one file."""
    files, named = set(), {}
    kinds = [ATOMS[t][1] for t in case["targets"]]
    for t in case["targets"]:
        rel, kind = ATOMS[t]
        for f in case["proj"].files:
            if (kind == "f" and f == rel) or (kind == "d" and f.startswith(rel + "/")):
                files.add(f)
        if kind == "f":
            named[rel] = named.get(rel, 0) + 1
    only_files = all(k == "f" for k in kinds)
    return files, (named if only_files else {}), "m" in kinds


def list_analysis(case, tree_an):
    """The analysis results of the union of the selected files, cut out of the analysis of the whole tree."""
    files, _, missing = list_selection(case)
    if missing:
        return {"functions": [], "findings": [], "cycles": [], "error": True}
    names = {base(f) for f in files}
    return {"functions": [f for f in tree_an["functions"] if f[0] in names],
            "findings": [f for f in tree_an["findings"] if f[0] in names], "cycles": [], "error": False}


def list_overlap(case):
    """some file is reached through more than one target (a target twice, or a target inside another)"""
    seen = set()
    for t in case["targets"]:
        rel, kind = ATOMS[t]
        fs = {f for f in LIST_FILES if (kind == "f" and f == rel) or (kind == "d" and f.startswith(rel + "/"))}
        if fs & seen:
            return True
        seen |= fs
    return False


def spell_target(rel, kind, mode, pd, cwd_out):
    if mode == "abs":
        return os.path.join(pd, rel)
    if mode == "dot":
        s = "./" + rel
    elif mode == "slash" and kind == "d":
        s = rel + "/"
    elif mode == "dotdot" and kind != "m":
        s = os.path.join("db", "..", rel)
    else:
        s = rel
    return os.path.join("..", "proj", s) if cwd_out else s


def target_lists():
    """Every list of one and two targets over the six atoms (that includes a target twice, a directory with a file or a
    directory inside it, in both orders), every directory/file pattern of three targets, three-target lists with repeats and
    nesting, and a missing target in every position next to directories and files."""
    six = ["DA", "DB", "SUB", "FA", "FB", "NF"]
    ls = [(a,) for a in six] + [(a, b) for a in six for b in six]
    for pat in range(8):
        ds, fs = iter(["DA", "DB", "SUB"]), iter(["FA", "FB", "NF"])
        ls.append(tuple(next(ds) if (pat >> (2 - i)) & 1 == 0 else next(fs) for i in range(3)))
    ls += [("DA", "NF", "DA"), ("NF", "DA", "NF"), ("FA", "FA", "FA"), ("NF", "FA", "NF"), ("SUB", "DA", "FB"), ("FB", "SUB", "NF"),
           ("DA", "FA", "DA"), ("FA", "DA", "FA"), ("DB", "DB", "FB"), ("FB", "FB", "DB"),
           # plain files only, some named again (C19-G2: each file is analysed once)
           ("FA", "FB", "FA"), ("FB", "NF", "FB", "NF"), ("NF", "NF", "FA", "NF")]
    for m in ("MISSF", "MISSD"):
        ls += [(m, "DA"), ("DA", m), (m, "FA"), ("FA", m), ("DA", m, "FA"), ("FA", "DA", m), (m, "FA", "DA")]
    return ls


LIST_BASE = dict(select=["complexity", "deadcode"])
LIST_PROFILES = [
    dict(skip_clones=True),
    dict(),
    dict(select=["complexity"], maxcx=LIST_BAD_CX - 1),
    dict(select=["complexity"], maxcx=LIST_BAD_CX),
    dict(select=["complexity"], maxcx=LIST_OK_CX - 1),
    dict(select=["deadcode"]),
    dict(allow_dead=True, skip_clones=True),
    dict(select=["complexity", "deadcode"], quiet=True),
    dict(select=["complexity"], cfg={"max": LIST_BAD_CX}, cfg_at="root"),
    dict(select=["complexity"], cfg={"max": LIST_BAD_CX}, cfg_at="da"),
    dict(select=["complexity", "deadcode"], cfg={"max": LIST_BAD_CX - 1, "sort": "name"}, cfg_at="root"),
    dict(select=["complexity"], cfg={"sort": "name"}, cfg_at="root"),
    dict(select=["complexity", "deadcode"], cfg={"sort": "risk"}, cfg_at="root"),
    dict(select=["complexity", "deadcode", "clones"], cfg={"max": LIST_BAD_CX - 1}, cfg_at="root", allow_dead=True),
]


def list_cases(rng, LP, thorough):
    """Base pass: every target list x every placement of the violating code, plainly spelled, complexity + dead code.
    Variation pass: per list, other flag profiles / spellings / working directory with the placement rotating (thorough: all)."""
    cs = []
    lists = target_lists()
    for li, L in enumerate(lists):
        missing = any(ATOMS[t][1] == "m" for t in L)
        for pname, _ in PLACEMENTS:
            if missing and pname not in ("none", "all", "da_mod", "fa"):
                continue
            # analyze on the same targets is run where every file has violations of its own to show; the other placements of this
            # pass share one read-only tree per placement
            cs.append(mk_case(LP[pname], layout="list", targets=L, spell=("rel",) * len(L), shared=(pname != "all"), **LIST_BASE))
        profs = [p for p in LIST_PROFILES if not (missing and "cfg" in p)]
        picks = list(range(len(profs))) if thorough else sorted(rng.sample(range(len(profs)), 2))
        for k in picks:
            pname = PLACEMENTS[(li + k) % len(PLACEMENTS)][0] if not missing else ("all", "da_mod", "fa")[(li + k) % 3]
            how = (li + k) % 4
            if how == 0:
                sp = ("abs",) * len(L)
            elif how == 1:
                sp = ("dot",) * len(L)
            else:
                sp = tuple(rng.choice(SPELLINGS) for _ in L)
            cs.append(mk_case(LP[pname], layout="list", targets=L, spell=sp, cwd_out=(how == 3 or rng.random() < 0.2), **profs[k]))
    return cs


# ----------------------------------------------------------------------------------------------
# sibling targets whose names share a string prefix (dependencyProjectRoots: containment is by path components, not by text)
# ----------------------------------------------------------------------------------------------
SIB_SHORT = "app"
SIB_LONG = ["app_v2", "app.old", "application"]      # each starts with the text of SIB_SHORT, none lies inside it
SIB_OTHER = "web"                                    # shares no prefix
SIB_NESTED = "app/sub"                               # really inside SIB_SHORT; holds no cycle of its own
SIB_DIRS = [SIB_SHORT] + SIB_LONG + [SIB_OTHER, SIB_NESTED]
SIB_PLACEMENTS = {"short": (SIB_SHORT,), "long": tuple(SIB_LONG), "each": tuple([SIB_SHORT] + SIB_LONG + [SIB_OTHER]), "none": ()}
SIB_SPELLINGS = ("rel", "dot", "abs", "slash", "dotdot")


class SibProject:
    """One directory per name of SIB_DIRS; the directories of `cyc` hold a two-module import cycle, the others a plain module."""
    mock = False
    empty = False
    cx = []

    def __init__(self, name, cyc):
        self.name = "sib_" + name
        self.cyc = tuple(cyc)
        self.n_cycles = len(self.cyc)
        self.files = {}
        for k, d in enumerate(SIB_DIRS):
            if d in self.cyc:
                self.files["%s/s%da.py" % (d, k)] = "import s%db\n\n\ndef ga%d():\n    return s%db\n" % (k, k, k)
                self.files["%s/s%db.py" % (d, k)] = "import s%da\n\n\ndef gb%d():\n    return s%da\n" % (k, k, k)
            else:
                self.files["%s/s%dp.py" % (d, k)] = "def plain%d(x):\n    return x\n" % k

    def write(self, d):
        for rel, c in self.files.items():
            p = os.path.join(d, rel)
            os.makedirs(os.path.dirname(p), exist_ok=True)
            with open(p, "w") as f:
                f.write(c)


def sib_spell(rel, mode, pd, cwd_out):
    if mode == "abs":
        return os.path.join(pd, rel)
    s = {"dot": "./" + rel, "slash": rel + "/", "dotdot": os.path.join(SIB_OTHER, "..", rel)}.get(mode, rel)
    return os.path.join("..", "proj", s) if cwd_out else s


def sib_components(case):
    """The cleaned absolute path of every target, as the list of its names (what filepath.Abs gives; the tree stands at /R/proj,
    a run from outside starts in /R/run)."""
    cwd = "/R/run" if case["cwd_out"] else "/R/proj"
    return [tuple(x for x in os.path.normpath(os.path.join(cwd, sib_spell(t, m, "/R/proj", case["cwd_out"]))).split("/") if x)
            for t, m in zip(case["targets"], case["spell"])]


def sib_roots_py(paths):
    """The property read in Python: a target is a project root unless it IS an earlier target or lies INSIDE another target
    (containment by whole path components)."""
    roots = []
    for i, t in enumerate(paths):
        dropped = any((u == t and j < i) or (len(u) < len(t) and t[:len(u)] == u) for j, u in enumerate(paths) if j != i)
        if not dropped:
            roots.append(t)
    return roots


def sib_roots_coq(cases):
    """Cli/GateRoots.v dependency_project_roots on the path components of every sibling case (names numbered) -> one list of
    roots (tuples of names) per case."""
    lists = sorted({tuple(sib_components(c)) for c in cases})
    names = sorted({x for l in lists for t in l for x in t})
    no = {x: i + 1 for i, x in enumerate(names)}
    items = [clist([clist([cN(no[x]) for x in t]) for t in l]) for l in lists]
    out = lib.coq_eval("C19_roots", "From Coq Require Import NArith List.\nImport ListNotations.\nFrom PV Require Import Cli.GateRoots.",
                       "Eval vm_compute in %s.\n" % clist(["dependency_project_roots [] %s" % x for x in items]))
    vals = lib.parse_coq_values(out)[0]
    if len(vals) != len(lists):
        raise RuntimeError("%d root lists for %d target lists" % (len(vals), len(lists)))
    return {l: [tuple(names[n - 1] for n in r) for r in v] for l, v in zip(lists, vals)}


def sib_analysis(case, tree_an, roots):
    """The cycles of the whole-tree analysis that lie below one of the project roots (each root is analysed on its own; roots are
    neither equal nor nested, so no cycle is met twice)."""
    rel_roots = ["/".join(r[2:]) for r in roots]           # below /R/proj
    where = {base(f)[:-3]: f for f in case["proj"].files}
    below = lambda c: any(where[c[0]].startswith(r + "/") for r in rel_roots)
    return {"functions": [], "findings": [], "cycles": [c for c in tree_an["cycles"] if below(c)], "error": False}


def sib_target_lists():
    pairs = [(SIB_SHORT, l) for l in SIB_LONG] + [(l, SIB_SHORT) for l in SIB_LONG]
    others = [(SIB_LONG[0], SIB_LONG[2]), (SIB_LONG[2], SIB_LONG[1]), (SIB_SHORT, SIB_SHORT), (SIB_OTHER, SIB_SHORT),
              (SIB_SHORT, SIB_LONG[0], SIB_LONG[2]), (SIB_LONG[2], SIB_LONG[1], SIB_SHORT), (SIB_LONG[0], SIB_SHORT, SIB_LONG[0]),
              (SIB_SHORT, SIB_NESTED, SIB_LONG[0]), (SIB_NESTED, SIB_LONG[2]), (SIB_LONG[1], SIB_NESTED, SIB_SHORT),
              (SIB_LONG[0], SIB_NESTED), tuple(SIB_DIRS), tuple(reversed(SIB_DIRS))]
    return pairs, others


def sib_cases(rng, SP, thorough):
    """Prefix pairs (both orders): every spelling (all targets the same way, absolute + relative mixed both ways, from outside the
    tree) with the placement of the cycles rotating (thorough: every placement), every placement plainly spelled, and --max-cycles
    at / one below the number of cycles.  Other lists: every placement plainly spelled, plus one (thorough: every) other spelling
    with the placement rotating."""
    cs = []
    dep = dict(layout="sib", select=["deps"])
    pairs, others = sib_target_lists()
    places = ("long", "each", "short")
    spells = [((m, m), False) for m in SIB_SPELLINGS[1:]] + [(("abs", "rel"), False), (("rel", "abs"), False), (("dot", "slash"), False),
                                                            (("rel", "rel"), True), (("abs", "dotdot"), True)]
    for li, L in enumerate(pairs):
        for pname in places:
            cs.append(mk_case(SP[pname], targets=L, spell=("rel", "rel"), **dep))
        for si, (sp, out) in enumerate(spells):
            for pname in (places if thorough else [places[(si + li) % 3]]):
                cs.append(mk_case(SP[pname], targets=L, spell=sp, cwd_out=out, **dep))
        cs.append(mk_case(SP["none"], targets=L, spell=("rel", "rel"), **dep))
        # the limit at / one below the number of cycles of the two directories together; the other switches of the step
        cs.append(mk_case(SP["each"], targets=L, spell=("rel", "rel"), layout="sib", select=["deps"], maxcyc=2))
        cs.append(mk_case(SP["each"], targets=L, spell=("rel", "rel"), layout="sib", select=["circular"], maxcyc=1))
        cs.append(mk_case(SP["long"], targets=L, spell=("rel", "rel"), layout="sib", select=["deps"], maxcyc=1))
        cs.append(mk_case(SP["long"], targets=L, spell=("rel", "rel"), layout="sib", select=["deps"], maxcyc=0, quiet=(li % 2 == 0)))
        cs.append(mk_case(SP["long"], targets=L, spell=("rel", "rel"), layout="sib", select=["deps"], allow_circ=True))
    for li, L in enumerate(others):
        for k, pname in enumerate(places):
            cs.append(mk_case(SP[pname], targets=L, spell=("rel",) * len(L), **dep))
            for j in (range(4) if thorough else [li % 4] if k == li % 3 else []):
                sp = [("abs",) * len(L), ("dot",) * len(L), tuple(SIB_SPELLINGS[(i + li) % 5] for i in range(len(L))),
                      tuple(rng.choice(SIB_SPELLINGS) for _ in L)][j]
                cs.append(mk_case(SP[pname], targets=L, spell=sp, cwd_out=(j == 3), **dep))
        n = len(set(L) - {SIB_NESTED})
        if thorough:
            cs.append(mk_case(SP["each"], targets=L, spell=("rel",) * len(L), layout="sib", select=["deps"], maxcyc=n))
        cs.append(mk_case(SP["each"], targets=L, spell=("rel",) * len(L), layout="sib", select=["deps"], maxcyc=n - 1))
    return cs


# ----------------------------------------------------------------------------------------------
# running the implementation
# ----------------------------------------------------------------------------------------------
RE_CX = re.compile(r"^(.+?):(\d+):(\d+): (\S+) is too complex \((-?\d+) > (-?\d+)\)$")
RE_DEAD = re.compile(r"^(.+?):(\d+):(\d+): (\w+) \((critical|warning|info)\)$")
RE_CLONE = re.compile(r"^(.+?):(\d+):(\d+): clone of (.+?):(\d+):(\d+) \(similarity")
RE_CYCLE = re.compile(r"^(.+?):1:1: circular dependency detected: (.*)$")
RE_MOCK = re.compile(r"^(.+?):(\d+):(\d+): mock data detected: ")
RE_HEAD = re.compile(r"Running quality check \((.*)\)\.\.\.")


def parse_stderr(err):
    o = dict(cx=[], dead=[], clones=[], cycles=[], mock=[], msgs=[], enabled=None, other=[])
    for ln in err.splitlines():
        ln = ln.rstrip()
        m = RE_HEAD.search(ln)
        if m:
            o["enabled"] = [x.strip() for x in m.group(1).split(",") if x.strip()]
            continue
        m = RE_CX.match(ln)
        if m:
            o["cx"].append((base(m.group(1)), int(m.group(2)), m.group(4), int(m.group(5)), int(m.group(6))))
            continue
        m = RE_CYCLE.match(ln)
        if m:
            o["cycles"].append(tuple(sorted(x.strip().split(".")[-1] for x in m.group(2).split("->"))))
            continue
        m = RE_CLONE.match(ln)
        if m:
            o["clones"].append((base(m.group(1)), int(m.group(2)), base(m.group(4)), int(m.group(5))))
            continue
        m = RE_MOCK.match(ln)
        if m:
            o["mock"].append((base(m.group(1)), int(m.group(2)), int(m.group(3))))
            continue
        m = RE_DEAD.match(ln)
        if m:
            o["dead"].append((base(m.group(1)), int(m.group(2)), m.group(5)))
            continue
        m = re.search(r"Found (\d+) dead code issue\(s\) \(ignored due to --allow-dead-code\)", ln)
        if m:
            o["msgs"].append(("MDeadIgnored", int(m.group(1)))); continue
        m = re.search(r"Found (\d+) code clone\(s\) \(informational\)", ln)
        if m:
            o["msgs"].append(("MCloneInfo", int(m.group(1)))); continue
        m = re.search(r"Found (\d+) circular dependency cycle\(s\) \(allowed by --allow-circular-deps\)", ln)
        if m:
            o["msgs"].append(("MCyclesAllowed", int(m.group(1)))); continue
        m = re.search(r"Found (\d+) circular dependency cycle\(s\) \(within allowed limit of (-?\d+)\)", ln)
        if m:
            o["msgs"].append(("MCyclesWithin", int(m.group(1)), int(m.group(2)))); continue
        m = re.search(r"❌ Found (\d+) quality issue\(s\)", ln)
        if m:
            o["msgs"].append(("MFound", int(m.group(1)))); continue
        for pat, tok in (("Complexity analysis failed", "MCxFailed"), ("Dead code analysis failed", "MDeadFailed"),
                         ("Clone detection failed", "MCloneFailed"), ("Circular dependency check failed", "MDepsFailed"),
                         ("Mock data check failed", "MMockFailed"), ("Error: invalid --select flag", "MInvalidSelect"),
                         ("Error: analysis failed with errors", "MAnalysisFailed"), ("Code quality check passed", "MPassed")):
            if pat in ln:
                o["msgs"].append(tok)
                break
    return o


def run_case_impl(args):
    idx, case, root = args
    d = os.path.join(root, "case%04d" % idx)
    shutil.rmtree(d, ignore_errors=True)
    pd = os.path.join(d, "proj")
    if case["shared"]:
        pd = os.path.join(root, "shared_" + case["proj"].name, "proj")      # written once in main, never written to by a run
    elif case["layout"] == "split":
        case["proj"].write_split(pd, case["both"])
    else:
        case["proj"].write(pd)
    if case["cfg"] is not None:
        with open(os.path.join(pd, "da" if case["cfg_at"] == "da" else "", ".pyscn.toml"), "w") as f:
            f.write(toml_of(case["cfg"]))
    rund = os.path.join(d, "run")
    if case["shared"] and case["layout"] == "sib":
        rund = os.path.join(os.path.dirname(pd), "run")
    if not case["shared"]:
        os.makedirs(rund, exist_ok=True)
    if case["layout"] == "noargs":
        # a trap next to the project: without a target argument only the working directory is checked
        with open(os.path.join(d, "outside_trap.py"), "w") as f:
            f.write(fn_complexity("trap", 25) + fn_dead_critical("trap_dead"))
    if case["decoy"] is not None:
        with open(os.path.join(rund, ".pyscn.toml"), "w") as f:
            f.write(toml_of(case["decoy"]))
    argv = ["check"]
    if case["explicit"] is not None:
        ep = os.path.join(d, "explicit.toml")
        with open(ep, "w") as f:
            f.write(toml_of(case["explicit"]))
        argv += ["--config", ep]
    if case["select"] is not None:
        argv += ["--select", ",".join(case["select"])]
    if case["maxcx"] is not None:
        argv += ["--max-complexity", str(case["maxcx"])]
    if case["allow_dead"]:
        argv.append("--allow-dead-code")
    if case["skip_clones"]:
        argv.append("--skip-clones")
    if case["allow_circ"]:
        argv.append("--allow-circular-deps")
    if case["maxcyc"] is not None:
        argv += ["--max-cycles", str(case["maxcyc"])]
    if case["quiet"]:
        argv.append("--quiet")
    if case["layout"] == "in":
        cwd, targets = pd, ["."]
    elif case["layout"] == "noargs":
        cwd, targets = pd, []
    elif case["layout"] == "split":
        cwd, targets = pd, list(case["order"])
    elif case["layout"] == "list":
        cwd = rund if case["cwd_out"] else pd
        targets = [spell_target(ATOMS[t][0], ATOMS[t][1], m, pd, case["cwd_out"]) for t, m in zip(case["targets"], case["spell"])]
    elif case["layout"] == "sib":
        cwd = rund if case["cwd_out"] else pd
        targets = [sib_spell(t, m, pd, case["cwd_out"]) for t, m in zip(case["targets"], case["spell"])]
    else:
        cwd, targets = rund, [os.path.join("..", "proj")]
    if case["target_missing"]:
        targets = [os.path.join(targets[0], "no_such_dir")]
    rc, out, err = lib.pyscn(argv + targets, cwd, timeout=120)
    res = dict(rc=rc, argv=argv + targets, cwd=cwd, stderr=err, parsed=parse_stderr(err))
    if case["quiet"]:
        # the same run without --quiet: tells how many clone pairs / mock findings there are, and must agree on the verdict
        rc2, _, err2 = lib.pyscn([a for a in argv if a != "--quiet"] + targets, cwd, timeout=120)
        res["loud_rc"], res["loud"] = rc2, parse_stderr(err2)
    if case["layout"] == "list" and not case["shared"]:
        # what analyze reports for the same targets, spelled the same way, from the same working directory.  The config file is
        # taken away first: it only holds check's limit (analyze refuses a max_complexity below its medium threshold), and the
        # functions / findings analyze reports do not depend on it (verified on the boundary project in main)
        if case["cfg"] is not None:
            os.remove(os.path.join(pd, "da" if case["cfg_at"] == "da" else "", ".pyscn.toml"))
        rca, data, erra = lib.analyze_json(cwd, ANALYZE_OPTS + targets[:-1], target=targets[-1], timeout=120)
        res["same_targets"] = canon_report(data) if data is not None else None
        res["same_targets_rc"], res["same_targets_err"] = rca, erra[-300:]
    if case["layout"] == "sib" and case["same"]:
        rca, data, erra = lib.analyze_json(cwd, ["--select", "deps"] + targets[:-1], target=targets[-1], timeout=120)
        res["same_targets"] = canon_report(data) if data is not None else None
        res["same_targets_rc"], res["same_targets_err"] = rca, erra[-300:]
    if not case["shared"]:
        shutil.rmtree(d, ignore_errors=True)
    return res


# ----------------------------------------------------------------------------------------------
# the model's input for a case
# ----------------------------------------------------------------------------------------------
def coq_cfg(c):
    if c is None:
        return "None"
    return "(Some (Build_file_cfg %s %s %s))" % (
        copt(cZ(c["max"])) if "max" in c else "None",
        copt(cZ(c["min"])) if "min" in c else "None",
        ("(Some %s)" % SEV_COQ[c["sev"]]) if "sev" in c else "None")


def effective_configs(case):
    """(explicit, found from the target upward, found from the cwd upward) as the harness laid the files out."""
    tgt = case["cfg"]
    if case["layout"] == "list":
        # the config file is looked up from the FIRST target upward (check.go:136-140), then from the working directory
        first = ATOMS[case["targets"][0]][0]
        at = case["cfg_at"]
        tgt = case["cfg"] if at == "root" or (at == "da" and (first + "/").startswith("da/")) else None
        cwdc = case["cfg"] if at == "root" and not case["cwd_out"] else None
        return case["explicit"], tgt, cwdc
    if case["layout"] in ("in", "noargs", "split"):
        cwdc = case["cfg"]
    else:
        cwdc = case["decoy"]
    return case["explicit"], tgt, cwdc


def coq_input(case, an, impl):
    sel = []
    for s in case["select"] or []:
        sel.append(SEL_COQ.get(s.lower(), "SInvalid"))
    flags = "(Build_flags %s %s %s %s %s %s %s)" % (
        cbool(case["quiet"]), copt(cZ(case["maxcx"])) if case["maxcx"] is not None else "None", cbool(case["allow_dead"]),
        cbool(case["skip_clones"]), cbool(case["allow_circ"]),
        copt(cZ(case["maxcyc"])) if case["maxcyc"] is not None else "None", clist(sel))
    ex, tg, cw = effective_configs(case)
    failed = an["error"] or case["target_missing"]
    funcs = clist(["(%s, %s)" % (cN(i), cZ(f[3])) for i, f in enumerate(an["functions"])])
    finds = clist(["(%s, %s)" % (cN(i), SEV_COQ[f[2]]) for i, f in enumerate(an["findings"])])
    cycles = clist(["(%s, true)" % cN(i) for i, _ in enumerate(an["cycles"])])
    p = impl["parsed"]
    # clone pairs and mock-data findings are not reported by `analyze` with check's settings: taken from check itself
    clones = clist([cN(i) for i, _ in enumerate(p["clones"])])
    clone_err = "MCloneFailed" in p["msgs"]     # printed even with --quiet
    mock = clist(["(%s, %s)" % (cN(i), cZ(2)) for i, _ in enumerate(p["mock"])])
    if case["quiet"]:
        # nothing is printed per violation: take the counts from the paired run without --quiet
        lp = impl.get("loud") or {"clones": [], "mock": []}
        clones = clist([cN(i) for i, _ in enumerate(lp["clones"])])
        mock = clist(["(%s, %s)" % (cN(i), cZ(2)) for i, _ in enumerate(lp["mock"])])
    res = "(Build_results %s %s %s %s %s %s %s %s %s %s)" % (
        funcs if not failed else "[]", cbool(failed), finds if not failed else "[]", cbool(failed), clones,
        cbool(failed or clone_err), cycles if not failed else "[]", cbool(failed), mock, cbool(failed))
    return "(Build_input %s %s %s %s %s)" % (flags, coq_cfg(ex), coq_cfg(tg), coq_cfg(cw), res)


def py_spec(case, an):
    """The property's own conditions, recomputed in Python (cross-check of gate_spec_b)."""
    sel = [s.lower() for s in (case["select"] or [])]
    if any(s not in SEL_COQ for s in sel):
        return False, None, None
    failed = an["error"] or case["target_missing"]
    ex, tg, cw = effective_configs(case)
    cfg = ex if ex is not None else (tg if tg is not None else cw)
    eff = case["maxcx"]
    if eff is None:
        eff = cfg["max"] if cfg and cfg.get("max", 0) > 0 else DEFAULT_MAX_CX
    effcyc = case["maxcyc"] if case["maxcyc"] is not None else 0
    ok = True
    if not sel or "complexity" in sel:
        ok &= (not failed) and all(f[3] <= eff for f in an["functions"])
    if not sel or "deadcode" in sel:
        ok &= (not failed) and (case["allow_dead"] or not any(f[2] == "critical" for f in an["findings"]))
    if "deps" in sel or "circular" in sel:
        ok &= (not failed) and (case["allow_circ"] or len(an["cycles"]) <= effcyc)
    if "mockdata" in sel:
        ok &= (not failed) and not case["proj"].mock
    return ok, eff, effcyc


def selected(case, name, default):
    sel = [s.lower() for s in (case["select"] or [])]
    if not sel:
        return default
    if name == "deps":
        return "deps" in sel or "circular" in sel
    return name in sel


def describe(case):
    d = {k: v for k, v in case.items() if k not in ("proj", "an", "roots")}
    if case["layout"] == "sib":
        d["project_roots_by_the_model"] = ["/".join(r[2:]) for r in case["roots"]]
    d["project"] = {"name": case["proj"].name, "files": case["proj"].files}
    return d


def hermetic_problem():
    d = lib.WORK
    while True:
        for n in (".pyscn.toml", "pyproject.toml"):
            p = os.path.join(d, n)
            if os.path.exists(p):
                if n == ".pyscn.toml" or "[tool.pyscn]" in open(p, errors="ignore").read():
                    return p
        nd = os.path.dirname(d)
        if nd == d:
            return None
        d = nd


def main(tier):
    ck = lib.Check("C19", tier)
    ck.prepare("C19.v")
    rng = ck.rng
    thorough = tier == "thorough"
    budget = 2600 if thorough else 250
    n_rand_proj = 24 if thorough else 5

    hp = hermetic_problem()
    if hp:
        ck.broken_ties.append("a pyscn configuration file above the work directory leaks into the runs: " + hp)

    P = {
        "boundary": Project("boundary", cx=[9, 10, 11, 12, 13, 1], n_crit=1, n_warn=1, cycles2=2, clones=True),
        "clean": Project("clean", cx=[5, 3, 1]),
        "warnonly": Project("warnonly", cx=[10], n_warn=2, cycle3=True),
        "cycles3": Project("cycles3", cx=[2], cycles2=3),
        "mock": Project("mock", cx=[2], mock=True),
        "empty": Project("empty", empty=True),
        "big": Project("big", cx=[11, 11, 14], n_crit=2, n_warn=1, after=["break", "continue", "raise"], cycles2=1, cycle3=True,
                       clones=True),
    }
    rprojs = [random_project(rng, i) for i in range(n_rand_proj)]
    all_projects = list(P.values()) + rprojs
    LP = {name: ListProject(name, bad) for name, bad in PLACEMENTS}
    SP = {name: SibProject(name, cyc) for name, cyc in SIB_PLACEMENTS.items()}

    root = lib.fresh_dir("c19")
    if not getattr(ck, "go_ok", False):
        ck.finish(assumptions=["go build failed"])

    # ---- analysis results per project (config-free tree), plus once with a [complexity] section present
    an = {}
    with ThreadPoolExecutor(max_workers=8) as ex:
        futs = {p.name: ex.submit(analyse_project, ck, p, os.path.join(root, "an_" + p.name)) for p in all_projects + list(LP.values()) + list(SP.values())}
        for n, f in futs.items():
            an[n] = f.result()
    a2 = analyse_project(ck, P["boundary"], os.path.join(root, "an_boundary_cfg"), "[complexity]\nmax_complexity = 25\n")
    if a2 is not None and an["boundary"] is not None and {k: a2[k] for k in ("functions", "findings", "cycles")} != \
            {k: an["boundary"][k] for k in ("functions", "findings", "cycles")}:
        ck.broken_ties.append("analyze results change when .pyscn.toml sets [complexity] max_complexity")
    # generator assumptions (not violations: they only say the generated projects are what we meant them to be)
    for p in all_projects:
        a = an.get(p.name)
        if a is None or p.empty:
            continue
        got = sorted(f[3] for f in a["functions"] if f[0] == "cxmod.py" and f[2] != "__main__")
        if got != sorted(p.cx):
            ck.notes.append("project %s: generated complexities %s, analyze reports %s" % (p.name, sorted(p.cx), got))
        nc = sum(1 for f in a["findings"] if f[2] == "critical")
        nw = sum(1 for f in a["findings"] if f[2] == "warning")
        if nc != p.n_crit + len(p.after) or nw != p.n_warn:
            ck.notes.append("project %s: expected %d critical / %d warning findings, analyze reports %d / %d"
                            % (p.name, p.n_crit + len(p.after), p.n_warn, nc, nw))
        if len(a["cycles"]) != p.n_cycles:
            ck.notes.append("project %s: expected %d cycles, analyze reports %d" % (p.name, p.n_cycles, len(a["cycles"])))

    for sp in SP.values():
        a = an.get(sp.name)
        want = sorted(tuple(sorted(base(f)[:-3] for f in sp.files if f.startswith(d + "/"))) for d in sp.cyc)
        if a is not None and a["cycles"] != want:
            ck.notes.append("project %s: expected the cycles %s, analyze reports %s" % (sp.name, want, a["cycles"]))
    for lp in LP.values():
        a = an.get(lp.name)
        if a is None:
            continue
        for rel in LIST_FILES:
            got = sorted(f[3] for f in a["functions"] if f[0] == base(rel) and f[2].endswith(("_ok", "_big")))
            crit = sum(1 for f in a["findings"] if f[0] == base(rel) and f[2] == "critical")
            want = sorted([LIST_OK_CX] + ([LIST_BAD_CX] if rel in lp.bad else []))
            if got != want or crit != (1 if rel in lp.bad else 0):
                ck.notes.append("project %s file %s: expected complexities %s and %d critical finding(s), analyze reports %s and %d"
                                % (lp.name, rel, want, 1 if rel in lp.bad else 0, got, crit))

    # ---- cases
    cases = core_cases(P)
    n_core = len(cases)
    while len(cases) < budget:
        cases.append(random_case(rng, [p for p in all_projects if not p.empty]))
    n_list0 = len(cases)
    cases += list_cases(rng, LP, thorough)
    n_sib0 = len(cases)
    scases = sib_cases(rng, SP, thorough)
    for k, c in enumerate(scases):
        # `pyscn analyze` on the very same targets: the plainly spelled cases under the default flags and every fourth of the others
        # (thorough: all); the remaining cases run in a read-only copy of the tree that they share
        c["same"] = thorough or k % 4 == 0 or (all(m == "rel" for m in c["spell"]) and c["maxcyc"] is None and not c["allow_circ"]
                                               and not c["cwd_out"] and c["proj"].n_cycles > 0)
        c["shared"] = not c["same"]
    cases += scases
    cases = [c for c in cases if an.get(c["proj"].name) is not None]
    # the project roots of the sibling target lists: the model (Cli/GateRoots.v) on the cleaned path components (evaluated while
    # the implementation runs), next to the property read in Python
    scases = [c for c in cases if c["layout"] == "sib"]
    roots_pool = roots_job = None
    if scases and not any(f.startswith("Cli/Gate") or f.startswith("Gen/") for f in getattr(ck, "failed_files", [])):
        roots_pool = ThreadPoolExecutor(max_workers=1)
        roots_job = roots_pool.submit(sib_roots_coq, scases)

    for lp in list(LP.values()) + list(SP.values()):
        lp.write(os.path.join(root, "shared_" + lp.name, "proj"))
        os.makedirs(os.path.join(root, "shared_" + lp.name, "run"), exist_ok=True)
    with ThreadPoolExecutor(max_workers=16) as ex:
        impls = list(ex.map(run_case_impl, [(i, c, root) for i, c in enumerate(cases)]))

    sib_roots = None
    if roots_job is not None:
        try:
            sib_roots = roots_job.result()
        except Exception as e:
            ck.broken_ties.append("evaluation of Cli/GateRoots.v dependency_project_roots failed: %s" % str(e)[-1200:])
        roots_pool.shutdown()
    for c in scases:
        comps = sib_components(c)
        c["roots"] = sib_roots_py(comps)
        if sib_roots is not None:
            if sib_roots[tuple(comps)] != c["roots"]:
                ck.broken_ties.append("project roots of the targets %s: model Cli/GateRoots.v %s, the property read in Python %s"
                                      % (comps, sib_roots[tuple(comps)], c["roots"]))
            c["roots"] = sib_roots[tuple(comps)]
    for c in cases:
        # the analysis results the case is judged against: the project's, or (target lists) those of the union of the selected files,
        # or (sibling targets) the cycles below the project roots
        c["an"] = (list_analysis(c, an[c["proj"].name]) if c["layout"] == "list" else
                   split_analysis(c, an[c["proj"].name]) if c["layout"] == "split" else
                   sib_analysis(c, an[c["proj"].name], c["roots"]) if c["layout"] == "sib" else an[c["proj"].name])

    # ---- model and spec in Coq
    model = None
    if not any(f.startswith("Cli/Gate") or f.startswith("Gen/") for f in getattr(ck, "failed_files", [])):
        try:
            jobs = []
            shard = 60
            # many cases give the model the same input (same flags, configs and results): each distinct input is evaluated once
            inputs = [coq_input(c, c["an"], impls[j]) for j, c in enumerate(cases)]
            distinct = sorted(set(inputs))
            for off in range(0, len(distinct), shard):
                items = ["run_case %s" % x for x in distinct[off:off + shard]]
                jobs.append(("C19_cases_%d" % off, REQ, "Definition cases := %s.\nEval vm_compute in cases.\n" % clist(items)))
            vals = []
            for out in lib.coq_eval_many(jobs, workers=12):
                vals += lib.parse_coq_values(out)[0]
            if len(vals) != len(distinct):
                raise RuntimeError("%d model values for %d inputs" % (len(vals), len(distinct)))
            by_input = dict(zip(distinct, vals))
            model = [by_input[x] for x in inputs]
        except Exception as e:
            ck.broken_ties.append("model evaluation failed: %s" % str(e)[-1200:])
            model = None

    # ---- decide
    n_spec_bad = n_line_bad = n_tie_bad = n_known = 0
    verdicts = {"pass": 0, "fail": 0}
    seen_inputs = set()
    for idx, (case, impl) in enumerate(zip(cases, impls)):
        a = case["an"]
        p = impl["parsed"]
        rc = impl["rc"]
        verdicts["pass" if rc == 0 else "fail"] += 1
        spec_py, eff, effcyc = py_spec(case, a)
        seen_inputs.add(repr(describe(case)))
        replay = {"case": describe(case), "argv": impl["argv"], "cwd_layout": case["layout"], "exit": rc, "stderr": impl["stderr"][-3000:],
                  "analyze": {k: a[k] for k in ("functions", "findings", "cycles")}}
        mv = model[idx] if model is not None and idx < len(model) else None
        spec = spec_py
        if mv is not None:
            spec_coq = mv[6]
            if spec_coq != spec_py:
                ck.broken_ties.append("gate_spec_b (Coq) and the Python reading of the property disagree on case %d: %s vs %s"
                                      % (idx, spec_coq, spec_py))
            spec = spec_coq
            replay["model"] = {"exit": mv[0], "issues": mv[1], "spec": spec_coq, "eff_max_complexity": mv[7][0]}
            if eff is not None and mv[7][0] != eff:
                ck.broken_ties.append("effective max complexity of case %d: model %s, harness %s" % (idx, mv[7][0], eff))
        if case["quiet"] and impl.get("loud_rc") is not None and impl["loud_rc"] != rc:
            ck.violation("--quiet changes the exit status: %s with, %s without" % (rc, impl["loud_rc"]), replay)
        if rc not in (0, 1, 2):
            ck.violation("pyscn check ended with status %s (crash or timeout)" % rc, replay)
            continue
        # (1) exit status vs the property
        clone_failed = "MCloneFailed" in p["msgs"]
        literal_ok = spec and not (selected(case, "clones", not case["skip_clones"]) and clone_failed)
        if (rc == 0) != spec:
            n_spec_bad += 1
            if n_spec_bad <= 4:
                ck.violation("pyscn check exit status %d but the gate conditions say %s (effective max complexity %s, max cycles %s)"
                             % (rc, "pass" if spec else "fail", eff, effcyc), replay, independent=(spec == spec_py))
        elif rc == 0 and not literal_ok:
            tags = {"class": "clone-analysis-failed", "exit": 0,
                    "gated_analysis_failed": False}
            e = ck.match_known(tags)
            if e:
                n_known += 1
                ck.known_finding(e)
            else:
                n_spec_bad += 1
                ck.violation("pyscn check exits 0 although the selected clone analysis could not run", replay)
        # (2) printed violation lines vs analyze
        is_list = case["layout"] == "list"
        want_cx = sorted((f[0], f[1], f[2], f[3], eff) for f in a["functions"] if eff is not None and f[3] > eff)
        want_dead = sorted(f for f in a["findings"] if f[2] == "critical")
        cx_on = selected(case, "complexity", True)
        dead_on = selected(case, "deadcode", True)
        judged = rc in (0, 1) and "MInvalidSelect" not in p["msgs"] and not (a["error"] or case["target_missing"])
        if not case["quiet"] and judged:
            bad = None
            if cx_on and "MCxFailed" not in p["msgs"]:
                if sorted(p["cx"]) != want_cx:
                    bad = "complexity lines %s, analyze says functions over %s are %s" % (sorted(p["cx"]), eff, want_cx)
            elif p["cx"]:
                bad = "complexity lines printed although complexity is not selected"
            if dead_on and "MDeadFailed" not in p["msgs"]:
                if sorted(p["dead"]) != want_dead:
                    bad = "dead-code lines %s, analyze reports critical findings %s" % (sorted(p["dead"]), want_dead)
            elif p["dead"]:
                bad = "dead-code lines printed although deadcode is not selected"
            if selected(case, "deps", False) and "MDepsFailed" not in p["msgs"]:
                if sorted(p["cycles"]) != a["cycles"]:
                    bad = "cycle lines %s, analyze reports cycles %s" % (sorted(p["cycles"]), a["cycles"])
            elif p["cycles"]:
                bad = "cycle lines printed although deps is not selected"
            if bad:
                n_line_bad += 1
                if n_line_bad <= 3:
                    ck.violation("printed violations differ from what analyze reports: " + bad, replay)
        # (2b) target lists: `pyscn analyze` with the same targets (same spelling, same working directory)
        if is_list and not case["shared"]:
            st = impl.get("same_targets")
            replay["analyze_same_targets"] = st and {k: st[k] for k in ("functions", "findings")}
            if a["error"]:
                if st is not None or impl.get("same_targets_rc") == 0:
                    ck.broken_ties.append("case %d (%s): a target is missing but pyscn analyze produced a report (rc %s)"
                                          % (idx, " ".join(impl["argv"]), impl.get("same_targets_rc")))
            elif st is None:
                ck.broken_ties.append("case %d (%s): pyscn analyze on the same targets produced no report (rc %s): %s"
                                      % (idx, " ".join(impl["argv"]), impl.get("same_targets_rc"), impl.get("same_targets_err")))
            else:
                if (st["functions"], st["findings"]) != (sorted(a["functions"]), sorted(a["findings"])):
                    n_tie_bad += 1
                    ck.broken_ties.append("case %d (%s): pyscn analyze on the same targets reports %s / %s, the union of the selected "
                                          "files of the whole-tree analysis is %s / %s"
                                          % (idx, " ".join(impl["argv"]), st["functions"], st["findings"], a["functions"], a["findings"]))
                if not case["quiet"] and judged:
                    s_cx = sorted((f[0], f[1], f[2], f[3], eff) for f in st["functions"] if f[3] > eff) if cx_on else []
                    s_dead = sorted(f for f in st["findings"] if f[2] == "critical") if dead_on else []
                    if (sorted(p["cx"]), sorted(p["dead"])) != (s_cx, s_dead):
                        n_line_bad += 1
                        if n_line_bad <= 3:
                            ck.violation("printed violations %s %s differ from what `pyscn analyze` reports for the same targets: %s %s"
                                         % (sorted(p["cx"]), sorted(p["dead"]), s_cx, s_dead), replay)
        # (2c) sibling targets: `pyscn analyze --select deps` with the same targets (same spelling, same working directory)
        if case["layout"] == "sib" and case["same"]:
            st = impl.get("same_targets")
            replay["analyze_same_targets"] = st and {"cycles": st["cycles"]}
            if st is None:
                ck.broken_ties.append("case %d (%s): pyscn analyze on the same targets produced no report (rc %s): %s"
                                      % (idx, " ".join(impl["argv"]), impl.get("same_targets_rc"), impl.get("same_targets_err")))
            else:
                if st["cycles"] != a["cycles"]:
                    n_tie_bad += 1
                    ck.broken_ties.append("case %d (%s): pyscn analyze on the same targets reports the cycles %s, the cycles of the "
                                          "whole-tree analysis below the project roots %s are %s"
                                          % (idx, " ".join(impl["argv"]), st["cycles"], replay["case"]["project_roots_by_the_model"], a["cycles"]))
                if not case["quiet"] and judged and "MDepsFailed" not in p["msgs"] and sorted(p["cycles"]) != st["cycles"]:
                    n_line_bad += 1
                    if n_line_bad <= 3:
                        ck.violation("printed cycle lines %s differ from the cycles `pyscn analyze` reports for the same targets: %s"
                                     % (sorted(p["cycles"]), st["cycles"]), replay)
        # (3) implementation vs model
        if mv is not None:
            m_exit, m_issues, m_err, m_enabled, m_lines, m_msgs = mv[0], mv[1], mv[2], mv[3], mv[4], mv[5]
            diffs = []
            if (rc == 0) != (m_exit == 0) or (rc != 0 and rc != m_exit):
                diffs.append("exit %s vs model %s" % (rc, m_exit))
            found = [m for m in p["msgs"] if isinstance(m, tuple) and m[0] == "MFound"]
            if found and found[0][1] != m_issues:
                diffs.append("issue count %s vs model %s" % (found[0][1], m_issues))
            if rc == 0 and m_issues != 0:
                diffs.append("passed but model issue count %s" % m_issues)
            m_msgs_c = [m if isinstance(m, str) else tuple(m) for m in m_msgs]
            if p["msgs"] != m_msgs_c:
                diffs.append("status messages %s vs model %s" % (p["msgs"], m_msgs_c))
            if not case["quiet"] and p["enabled"] is not None:
                inv = {v: k for k, v in SEL_COQ.items()}
                if p["enabled"] != [inv[x] for x in m_enabled]:
                    diffs.append("enabled analyses %s vs model %s" % (p["enabled"], m_enabled))
            if not (a["error"] or case["target_missing"]):
                kinds = {"LComplex": [], "LDead": [], "LClone": [], "LCycle": [], "LMock": []}
                for l in m_lines:
                    kinds[l[0]].append(l[1:])
                ml_cx = sorted((a["functions"][i][0], a["functions"][i][1], a["functions"][i][2], cx, mx) for (i, cx, mx) in kinds["LComplex"])
                ml_dead = sorted(a["findings"][i] for (i, lv) in kinds["LDead"])
                ml_cyc = sorted(a["cycles"][i[0]] for i in kinds["LCycle"])
                if sorted(p["cx"]) != ml_cx:
                    diffs.append("complexity lines %s vs model %s" % (sorted(p["cx"]), ml_cx))
                if sorted(p["dead"]) != ml_dead:
                    diffs.append("dead-code lines %s vs model %s" % (sorted(p["dead"]), ml_dead))
                if sorted(p["cycles"]) != ml_cyc:
                    diffs.append("cycle lines %s vs model %s" % (sorted(p["cycles"]), ml_cyc))
                if len(p["clones"]) != len(kinds["LClone"]) or len(p["mock"]) != len(kinds["LMock"]):
                    diffs.append("clone/mock line counts %d/%d vs model %d/%d" % (len(p["clones"]), len(p["mock"]),
                                                                                 len(kinds["LClone"]), len(kinds["LMock"])))
            if diffs:
                n_tie_bad += 1
                if n_tie_bad <= 3:
                    if (rc == 0) == spec:
                        ck.broken_ties.append("pyscn check differs from the model Cli/Gate.v on case %d (%s): %s"
                                              % (idx, " ".join(impl["argv"]), "; ".join(diffs)[:1500]))
                    ck.notes.append("case %d model difference: %s" % (idx, "; ".join(diffs)[:800]))

    shutil.rmtree(root, ignore_errors=True)
    lcases = [c for c in cases if c["layout"] == "list"]
    shapes = {}
    for c in lcases:
        k = "".join(ATOMS[t][1] for t in c["targets"])
        shapes[k] = shapes.get(k, 0) + 1
    ck.samples = [{"argv": impls[i]["argv"], "exit": impls[i]["rc"], "project": cases[i]["proj"].name,
                   "stderr_tail": impls[i]["stderr"].strip().splitlines()[-1:] if impls[i]["stderr"].strip() else []}
                  for i in (0, 3, 20, 40, min(len(cases) - 1, n_core - 5), n_list0 - 1, n_list0 + 60, n_sib0 - 1, n_sib0 + 7, len(cases) - 1) if i < len(cases)]
    ck.cov.update({
        "evaluations": len(cases) + len(all_projects) + 1,
        "distinct_nontrivial": len(seen_inputs),
        "rule": "one evaluation = one `pyscn check` run (exit status + stderr) on a generated project, compared with the spec, with "
                "`pyscn analyze --json` on the same files and with the Coq model; distinct = distinct (project, flags, config, layout, "
                "target list and its spelling). Target lists: every list of 1 and 2 targets over {2 directories, a nested directory, "
                "2 plain files, a file inside a directory} (so also a target twice and nested targets in both orders), every "
                "directory/file pattern of 3 targets, a missing target in every position; for each list the violating code in each "
                "file of the tree in turn, in none and in all; relative, ./, absolute, trailing-slash and dir/../ spellings, from "
                "inside and outside the tree; judged against the spec / model on the union of the selected files and against "
                "`pyscn analyze` run on the very same targets. Sibling targets whose names are string prefixes of each other (app / "
                "app_v2 / app.old / application, next to an unrelated name and a real sub-directory): every ordered pair short/long in "
                "every spelling (relative, ./, absolute, trailing slash, dir/../, absolute + relative mixed both ways, from outside the "
                "tree), longer lists, repeated and really nested targets, the import cycle in the shorter-named directory / in the "
                "longer-named ones / in every one / in none, --max-cycles at and one below the number of cycles; judged against the "
                "project roots Cli/GateRoots.v computes from the cleaned path components (dropped only if it IS an earlier target or "
                "lies INSIDE another one; cross-checked against the same rule read in Python), the cycles of the whole-tree analysis "
                "below those roots, and `pyscn analyze --select deps` on the very same targets",
        "input_distribution": {"core_boundary_cases": n_core, "random_cases": n_list0 - n_core, "projects": len(all_projects),
                               "random_projects": len(rprojs), "passed": verdicts["pass"], "failed": verdicts["fail"],
                               "config_in_target": sum(1 for c in cases if c["cfg"] is not None),
                               "cwd_outside_target": sum(1 for c in cases if c["layout"] == "out"),
                               "decoy_config_in_cwd": sum(1 for c in cases if c["decoy"] is not None),
                               "quiet": sum(1 for c in cases if c["quiet"]),
                               "no_target_argument": sum(1 for c in cases if c["layout"] == "noargs"),
                               "two_targets": sum(1 for c in cases if c["layout"] == "split"),
                               "target_list_cases": len(lcases),
                               "target_lists": len({c["targets"] for c in lcases}),
                               "target_list_shapes": dict(sorted(shapes.items())),
                               "target_list_violation_placements": len({c["proj"].name for c in lcases}),
                               "target_list_spellings": {m: sum(1 for c in lcases if m in c["spell"]) for m in SPELLINGS},
                               "target_list_cwd_outside": sum(1 for c in lcases if c["cwd_out"]),
                               "target_list_directory_then_file_last": sum(
                                   1 for c in lcases if "d" in [ATOMS[t][1] for t in c["targets"][:-1]] and ATOMS[c["targets"][-1]][1] == "f"),
                               "target_list_repeated_or_nested": sum(1 for c in lcases if list_overlap(c)),
                               "target_list_failing_gate": sum(1 for c, i in zip(cases, impls) if c["layout"] == "list" and i["rc"] != 0),
                               "sibling_prefix_cases": len(scases),
                               "sibling_prefix_target_lists": len({c["targets"] for c in scases}),
                               "sibling_prefix_ordered_pairs_short_long": len({c["targets"] for c in scases if len(c["targets"]) == 2 and
                                                                               SIB_SHORT in c["targets"] and set(c["targets"]) & set(SIB_LONG)}),
                               "sibling_prefix_cycle_placements": {n: sum(1 for c in scases if c["proj"].name == "sib_" + n) for n in SIB_PLACEMENTS},
                               "sibling_prefix_spellings": {m: sum(1 for c in scases if m in c["spell"]) for m in SIB_SPELLINGS},
                               "sibling_prefix_mixed_absolute_relative": sum(1 for c in scases if "abs" in c["spell"] and len(set(c["spell"])) > 1),
                               "sibling_prefix_cwd_outside": sum(1 for c in scases if c["cwd_out"]),
                               "sibling_prefix_with_analyze_on_same_targets": sum(1 for c in scases if c["same"]),
                               "sibling_prefix_target_dropped_by_model": sum(1 for c in scases if len(c["roots"]) < len(c["targets"])),
                               "sibling_prefix_failing_gate": sum(1 for c, i in zip(cases, impls) if c["layout"] == "sib" and i["rc"] != 0),
                               "analysis_cannot_run": sum(1 for c in cases if c["proj"].empty or c["target_missing"])},
        "disagreements_checked": n_spec_bad + n_line_bad + n_tie_bad + n_known,
        "spec_disagreements": n_spec_bad, "line_disagreements": n_line_bad, "model_disagreements": n_tie_bad,
        "known_finding_cases": n_known,
    })
    ck.trusted += ["Coq 8.16.1 kernel, vm_compute for model evaluation",
                   "translator /verif/translator/gen_check.go (flag defaults, request literals, comparison operators, merge sentinels, "
                   "severity tables, exit code read off the Go AST)",
                   "hand-written model Cli/Gate.v of cmd/pyscn/check.go:runCheck and the config merge it depends on; cobra/pflag parsing, "
                   "TOML loading and config discovery are modelled only as 'flag given / key present' and 'which file is nearest'",
                   "the analyses themselves are inputs of the model: their results come from `pyscn analyze --json --min-complexity 1 "
                   "--min-severity info` on the same files; clone pairs and mock-data findings are read from check's own output",
                   "target lists: which files a list of targets selects (a directory = every .py file below it, a file = itself, each "
                   "file once) is computed by the harness and cross-checked per case against `pyscn analyze` on the same targets",
                   "sibling targets: the cleaned absolute path of a target (filepath.Abs) is computed by the harness with os.path.normpath; "
                   "the project roots come from Cli/GateRoots.v dependency_project_roots (tied to dependencyProjectRoots by the decision "
                   "table of Tie/GateTie.v, whose grid holds prefix-sharing sibling names too)",
                   "stderr parser of harness/c19.py"]
    ck.finish(assumptions=["cyclomatic complexities are >= 1", "--max-cycles is not negative",
                           "no pyscn configuration file above the work directory"])
