"""C16 — a report is internally consistent and all formats say the same thing.

Part A  synthetic item lists -> the real filter / sort / generateSummary functions (driver op "summaries",
        "report_keys", "unified") vs the Coq model and spec (Report/ReportRun.v) vs a direct recomputation.
Part B  generated projects x filter/threshold settings -> `pyscn analyze --json`; every summary number of the
        report recomputed from the items of the same report (c16report.check_report).
Part B3 project-size lattice (c16report.make_size_project; synthetic responses in part A6): the derived ratio of the unified summary
        (code_duplication_percentage) of every report against the Coq model (ReportRun.run_dup) on clone.statistics of the same report.
Part B2 risk-lattice projects (c16report.make_lattice_project) x default / configured thresholds -> the CLI; every item's risk level
        against the classification of its own reported metric by the thresholds echoed in the same report (items ON, next to and two
        away from each threshold; CBO classes in every self-reference form), summaries' risk counts recounted from the metrics.
Part C  formats (a differential TEST, the encoders are not modelled): the same AnalyzeResponse rendered by every
        formatter in-process (op "formats"), and the CLI run once per format.
"""
import json
import os
import shutil
from fractions import Fraction

import lib
import c16report as R
from lib import cZ, cQ, cbool, clist, copt

REQ = ("From Coq Require Import ZArith QArith List.\nImport ListNotations.\n"
       "From PV Require Import Score.ScoreQ Report.Summary Report.Filters Report.ReportRun.")
RISK = {"low": "RLow", "medium": "RMedium", "high": "RHigh"}
RCODE = {"low": 0, "medium": 1, "high": 2}
SEVC = {"critical": "SCrit", "warning": "SWarn", "info": "SInfo"}
SEVN = {"critical": 3, "warning": 2, "info": 1}
REASONS = ["unreachable_after_return", "unreachable_after_break", "unreachable_after_continue", "unreachable_after_raise",
           "unreachable_branch", "other_reason"]
SECT = {"complexity": ("cx", "run_cx"), "cbo": ("cbo", "run_cbo"), "lcom": ("lcom", "run_lcom")}
DEFAULT_THR = {"complexity": (9, 19), "cbo": (3, 7), "lcom": (2, 5)}


def qf(x):
    """Coq Q literal of a float (exact)."""
    return cQ(Fraction(x))


def qval(v):
    """parse_coq_values result -> Fraction."""
    if isinstance(v, tuple) and v and v[0] == "Q":
        return Fraction(v[1], v[2])
    if isinstance(v, tuple):
        return Fraction(v[0], v[1])
    return Fraction(v)


def close(a, b):
    a, b = float(a), float(b)
    return a == b or abs(a - b) <= 1e-9 * max(1.0, abs(a), abs(b))


# ------------------------------------------------------------------------------------------------
# A2: value/risk sections
# ------------------------------------------------------------------------------------------------
def lattice(sec, low, med):
    edges = {"complexity": [1, 5, 10, 20], "cbo": [0, 5, 10, 20, 50], "lcom": [1, 2, 5, 10]}[sec]
    vals = set()
    for e in edges + [low, med]:
        vals.update([e - 1, e, e + 1])
    return sorted(v for v in vals if v >= (1 if sec == "complexity" else 0))


def gen_vcase(rng, sec, k):
    low, med = DEFAULT_THR[sec] if rng.random() < 0.5 else (rng.randint(0, 8), rng.randint(0, 22))
    lat = lattice(sec, low, med)
    n = [0, 1, 2, 3][k] if k < 4 else rng.choice([1, 2, 4, 9, 10, 11, 12, 25, 40])
    items = []
    for i in range(n):
        v = rng.choice(lat) if rng.random() < 0.8 else rng.randint(0 if sec != "complexity" else 1, 70)
        r = ""
        if rng.random() < 0.12:
            r = rng.choice(["low", "medium", "high", "High", "unknown"])
        items.append({"v": v, "risk": r, "name": "n%d" % i})
    if n >= 2 and rng.random() < 0.3:      # ties
        items[1]["v"] = items[0]["v"]
    c = {"op": "summaries", "section": sec, "files": rng.randint(0, 9), "items": items, "low": low, "medium": med,
         "min": rng.choice([0, 0, 1, rng.choice(lat), rng.choice(lat) + 1]), "max": 0,
         "sort": rng.choice(["complexity", "name", "risk", "coupling", "cohesion", "location", ""])}
    if sec != "complexity":
        c["max"] = rng.choice([0, 0, 0, rng.choice(lat), -1])
    if sec == "cbo":
        c["zeros"] = rng.choice([None, True, False])
    return c


def coq_item(sec, c, it):
    pre = SECT[sec][0]
    if it["risk"] == "":
        return "(mk (%s_risk %s %s) %s)" % (pre, cZ(c["low"]), cZ(c["medium"]), cZ(it["v"]))
    return "(Build_vr %s %s)" % (cZ(it["v"]), RISK.get(it["risk"], "ROther"))


def coq_vcase(c):
    sec = c["section"]
    items = clist([coq_item(sec, c, it) for it in c["items"]])
    if sec == "complexity":
        return "(run_cx %s %s %s)" % (items, cZ(c["files"]), cZ(c["min"]))
    if sec == "cbo":
        return "(run_cbo %s %s %s %s %s)" % (items, cZ(c["files"]), cZ(c["min"]), cZ(c["max"]), cbool(bool(c.get("zeros"))))
    return "(run_lcom %s %s %s %s)" % (items, cZ(c["files"]), cZ(c["min"]), cZ(c["max"]))


SUMKEYS = {"complexity": ("TotalFunctions", "MaxComplexity", "MinComplexity", "FilesAnalyzed", "LowRiskFunctions", "MediumRiskFunctions",
                          "HighRiskFunctions", "AverageComplexity", "ComplexityDistribution"),
           "cbo": ("TotalClasses", "MaxCBO", "MinCBO", "FilesAnalyzed", "LowRiskClasses", "MediumRiskClasses", "HighRiskClasses", "AverageCBO",
                   "CBODistribution"),
           "lcom": ("TotalClasses", "MaxLCOM", "MinLCOM", "FilesAnalyzed", "LowRiskClasses", "MediumRiskClasses", "HighRiskClasses", "AverageLCOM",
                    "LCOMDistribution")}


def impl_vtuple(sec, r, labels):
    S = r["summary"]
    k = SUMKEYS[sec]
    dist = S.get(k[8]) or {}
    kept = sorted((it["v"], RCODE.get(it["risk"], 3)) for it in r["kept"])
    return {"kept": kept, "ints": [S[x] for x in k[:7]], "avg": S[k[7]], "dist": [dist.get(l, 0) for l in labels[sec]],
            "dist_extra": sorted(set(dist) - set(labels[sec])), "top": [t["v"] for t in r.get("top", [])]}


def coq_vtuple(v):
    kept, (ints, avg, dist, top) = v[0], v[1]
    return {"kept": sorted((a, b) for a, b in kept), "ints": list(ints), "avg": qval(avg), "dist": list(dist), "top": list(top)}


def same_v(a, b, sec):
    return (a["kept"] == b["kept"] and a["ints"] == b["ints"] and close(a["avg"], b["avg"]) and a["dist"] == b["dist"] and
            (sec == "complexity" or a["top"] == b["top"]))


def direct_vcheck(sec, c, r, labels):
    """The property, checked on the implementation's own output without the model: filter sound and complete,
    risk from thresholds, every summary number recomputed from the kept items."""
    bad = []
    kept = r["kept"]
    vals = [it["v"] for it in kept]
    zeros = bool(c.get("zeros"))

    def keep(v):
        if v < c["min"]:
            return False
        if sec != "complexity" and c["max"] > 0 and v > c["max"]:
            return False
        if sec == "cbo" and not zeros and v == 0:
            return False
        return True
    want = sorted(it["v"] for it in c["items"] if keep(it["v"]))
    if sorted(vals) != want:
        bad.append("filter: kept %s, the echoed filter (min %s max %s zeros %s) selects %s" % (sorted(vals), c["min"], c["max"], zeros, want))
    exp = {it["name"]: (it["risk"] if it["risk"] else R.risk_of(it["v"], c["low"], c["medium"])) for it in c["items"]}
    for it in kept:
        if it["risk"] != exp[it["name"]]:
            bad.append("risk of value %d is %r, thresholds %d/%d give %r" % (it["v"], it["risk"], c["low"], c["medium"], exp[it["name"]]))
    S, k = r["summary"], SUMKEYS[sec]
    n = len(vals)
    checks = [(k[0], n), (k[1], max(vals) if vals else 0), (k[2], min(vals) if vals else 0), (k[3], c["files"]),
              (k[4], sum(1 for it in kept if it["risk"] == "low")), (k[5], sum(1 for it in kept if it["risk"] == "medium")),
              (k[6], sum(1 for it in kept if it["risk"] == "high"))]
    for key, w in checks:
        if S[key] != w:
            bad.append("%s = %r, recomputed %r" % (key, S[key], w))
    if not R.feq(S[k[7]], R.mean(vals)):
        bad.append("%s = %r, recomputed %r" % (k[7], S[k[7]], R.mean(vals)))
    dist = S.get(k[8]) or {}
    for lab, rg in zip(labels[sec], R.label_ranges(labels[sec])):
        w = sum(1 for v in vals if R.in_range(rg, v))
        if sec == "lcom" and lab == "1":
            w = sum(1 for v in vals if v <= 1)      # the code's convention for LCOM4 = 0
        if dist.get(lab, 0) != w:
            bad.append("distribution[%s] = %r, recomputed %r" % (lab, dist.get(lab, 0), w))
    if sum(dist.values()) != n:
        bad.append("distribution sums to %d, %d items" % (sum(dist.values()), n))
    if sec != "complexity":
        top = [t["v"] for t in r.get("top", [])]
        if top != sorted(vals, reverse=True)[:10]:
            bad.append("top list %s, the ten largest are %s" % (top, sorted(vals, reverse=True)[:10]))
    return bad


# ------------------------------------------------------------------------------------------------
# A3/A4: dead code
# ------------------------------------------------------------------------------------------------
def gen_findings(rng, n):
    return [[rng.choice(["critical", "critical", "warning", "warning", "info", "bogus"]), rng.choice(REASONS)] for _ in range(n)]


def gen_dcase(rng, k):
    files = []
    for i in range([0, 1, 1, 2][k] if k < 4 else rng.randint(1, 5)):
        fns = []
        for j in range(rng.randint(0 if k > 6 else 1, 4)):
            fd = gen_findings(rng, rng.choice([0, 1, 1, 2, 3, 6]))
            tb = rng.randint(1, 30)
            fn = {"name": "f%d" % j, "findings": fd, "total": tb, "dead": rng.randint(0, tb), "counts": None}
            if rng.random() < 0.1:
                fn["counts"] = [rng.randint(0, 3), rng.randint(0, 3), rng.randint(0, 3)]
            fns.append(fn)
        f = {"path": "p%02d.py" % i, "totalfns": rng.randint(0, 12), "functions": fns, "affected": None, "findings": None}
        if rng.random() < 0.1:
            f["affected"] = rng.randint(0, 5)
        files.append(f)
    return {"op": "summaries", "section": "deadcode", "files": rng.randint(len(files), len(files) + 5), "deadfiles": files,
            "minseverity": rng.choice(["critical", "warning", "warning", "info", "info", ""]), "sort": rng.choice(["severity", "file", ""])}


def coq_sev(s):
    return SEVC.get(s, "SOther")


def coq_fds(fd):
    return clist(["(%s, %s)" % (coq_sev(s), lib.cN(REASONS.index(r))) for s, r in fd])


def coq_dcase(c):
    files = []
    for f in c["deadfiles"]:
        fns = []
        for fn in f["functions"]:
            cnt = "None" if fn["counts"] is None else "(Some (%s, %s, %s))" % tuple(cZ(x) for x in fn["counts"])
            fns.append("(mkfn %s %s %s %s)" % (coq_fds(fn["findings"]), cZ(fn["total"]), cZ(fn["dead"]), cnt))
        files.append("(mkfile %s %s %s None)" % (clist(fns), cZ(f["totalfns"]), copt(None if f["affected"] is None else cZ(f["affected"]))))
    rs = clist([lib.cN(i) for i in range(len(REASONS))])
    return "(run_dc %s %s %s %s)" % (rs, clist(files), cZ(c["files"]), coq_sev(c["minseverity"]))


DKEYS = ("total_files", "total_functions", "total_findings", "files_with_dead_code", "functions_with_dead_code", "critical_findings",
         "warning_findings", "info_findings", "total_blocks", "dead_blocks")


def impl_dtuple(r):
    S = r["summary"]
    by = S.get("findings_by_reason") or {}
    files = sorted(([f["total_findings"], f["total_functions"], f["affected_functions"]],
                    [[len(fn.get("findings") or []), fn["critical_count"], fn["warning_count"], fn["info_count"]] for fn in f["functions"]])
                   for f in (r["kept"] or []))
    return {"files": [list(x) for x in files], "ints": [S[k] for k in DKEYS], "by": [by.get(x, 0) for x in REASONS], "ratio": S["overall_dead_ratio"]}


def coq_dtuple(v):
    files, (ints, by, ratio), (sints, sby, sratio) = v
    fl = sorted(([list(a), [list(x) for x in b]]) for a, b in files)
    return ({"files": fl, "ints": list(ints), "by": list(by), "ratio": qval(ratio)},
            {"ints": list(sints), "by": list(sby), "ratio": qval(sratio)})


def dcase_wellformed(c):
    return all(fn["counts"] is None for f in c["deadfiles"] for fn in f["functions"]) and all(f["affected"] is None for f in c["deadfiles"])


# ------------------------------------------------------------------------------------------------
# A5: clones
# ------------------------------------------------------------------------------------------------
def gen_ccase(rng, k):
    lo = rng.choice([0.0, 0.0, 0.5, 0.65, 0.7, 0.9])
    hi = rng.choice([1.0, 1.0, 0.95, 0.8, lo])
    lat = [lo, hi, lo - 2 ** -20, lo + 2 ** -20, hi - 2 ** -20, hi + 2 ** -20, 0.0, 1.0, 0.75, 0.85]
    lat = [min(1.0, max(0.0, x)) for x in lat]
    types = rng.choice([[1, 2, 4], [1, 2, 3, 4], [1], [], [3, 4]])

    def mk(n):
        return [{"sim": rng.choice(lat) if rng.random() < 0.7 else round(rng.random(), 3), "type": rng.choice([1, 2, 3, 4, 4, 0, 7])} for _ in range(n)]
    n = [0, 1, 2][k] if k < 3 else rng.choice([1, 3, 6, 15])
    pairs = mk(n)
    groups = [dict(g, size=rng.randint(2, 5)) for g in mk(rng.choice([0, 1, 2, 5]))]
    return {"op": "summaries", "section": "clones", "nclones": rng.randint(0, 30), "pairs": pairs, "groups": groups, "minsim": lo, "maxsim": hi,
            "types": types, "files": rng.randint(0, 5), "lines": rng.randint(0, 5000), "nodes": rng.randint(0, 9999)}


def coq_ccase(c):
    ps = clist(["(mkp %s %s)" % (qf(p["sim"]), cZ(p["type"])) for p in c["pairs"]])
    gs = clist(["(mkp %s %s)" % (qf(p["sim"]), cZ(p["type"])) for p in c["groups"]])
    return "(run_clones %s %s %s %s %s %s)" % (cZ(c["nclones"]), ps, gs, qf(c["minsim"]), qf(c["maxsim"]), clist([cZ(t) for t in c["types"]]))


TKEYS = ["Type-1", "Type-2", "Type-3", "Type-4", "Unknown"]


def impl_ctuple(r):
    st = r["stats"]
    by = st.get("clones_by_type") or {}
    return {"ptypes": [int(p[1]) for p in r["pairs"]], "gtypes": [int(g[1]) for g in r["groups"]],
            "ints": [st["total_clones"], st["total_clone_pairs"], st["total_clone_groups"]], "by": [by.get(k, 0) for k in TKEYS],
            "avg": st["average_similarity"]}


# ------------------------------------------------------------------------------------------------
# A6: unified summary
# ------------------------------------------------------------------------------------------------
def dup_consts():
    """(size unit in lines, minimum size in units, coefficient, cap) of the duplication formula, read from the generated
    Gen/DomainConst.v: only the GENERATOR uses them (where the size boundaries are); every value is decided by the Coq model."""
    import re
    src = open(os.path.join(lib.COQ, "Gen", "DomainConst.v")).read()
    out = []
    for name, dflt in (("GroupDensityLinesUnit", 1000), ("GroupDensityMinLines", 1), ("GroupDensityCoefficient", 20), ("DuplicationThresholdHigh", 10)):
        m = re.search(r"Definition domain_%s : Q := \(\((-?\d+)\) # (\d+)\)%%Q" % name, src)
        out.append(Fraction(int(m.group(1)), int(m.group(2))) if m else Fraction(dflt))
    return out


def cap_lines(consts, g):
    """The analysed line count at which g clone groups leave the cap: g / (lines/unit) * coefficient = cap."""
    unit, mn, coef, cap = consts
    return int(g * coef * unit / cap) if cap > 0 else 0


def size_lattice(rng, consts, g, extra=1):
    """Analysed line counts for a project with g clone groups: ON, next to and between every boundary of the formula -
    the minimum size (unit * min), every multiple of the size unit up to two units beyond the point where g groups leave the
    cap, that point itself, and non-multiples drawn from the seed strictly between consecutive boundaries (3493-like)."""
    unit = int(consts[0])
    lo = int(consts[0] * consts[1])
    cl = cap_lines(consts, g)
    edges = sorted(set([lo, cl] + [k * unit for k in range(1, cl // unit + 3)]))
    vals = set([rng.randint(max(1, lo * 2 // 5), max(1, lo * 3 // 5))])
    for e in edges:
        vals.update([e - 1, e, e + 1])
    for a, b in zip(edges, edges[1:]):
        for _ in range(extra):
            if b - a > 4:
                vals.add(rng.randint(a + 2, b - 2))
    return sorted(v for v in vals if v > 0)


def size_band(consts, lines, g):
    """Which branch of the formula a report with these statistics exercises."""
    unit = int(consts[0])
    lo = int(consts[0] * consts[1])
    cl = cap_lines(consts, g)
    if g <= 0 or lines <= 0:
        return "no-groups-or-no-lines"
    if lines < lo:
        return "below-minimum-size"
    if lines == lo:
        return "at-minimum-size"
    if lines < cl:
        return "capped"
    if lines == cl:
        return "at-cap-boundary"
    return "below-cap/multiple-of-unit" if lines % unit == 0 else "below-cap/not-a-multiple-of-unit"


BANDS = ["below-minimum-size", "at-minimum-size", "capped", "at-cap-boundary", "below-cap/multiple-of-unit", "below-cap/not-a-multiple-of-unit"]


def gen_ucase(rng, clone=None):
    """clone: None = drawn at random, or {"lines", "groups"} = a cell of the size lattice (clone analysis selected)."""
    def vs():
        tot = rng.choice([0, 1, 7, 30])
        hi = rng.randint(0, tot // 3)
        return {"total": tot, "high": hi, "med": rng.randint(0, (tot - hi) // 2), "avg": rng.choice([0.0, 1.5, 3.25, round(rng.uniform(0, 30), 3)])}
    sel = {k: rng.random() < 0.7 for k in ("cx", "dead", "clone", "cbo", "lcom")}
    c, w, i = (rng.randint(0, rng.choice([0, 4, 20])) for _ in range(3))
    cl = {"clones": rng.randint(0, 40), "pairs": rng.randint(0, 40), "groups": rng.choice([0, 1, 3, 10]),
          "lines": rng.choice([0, 50, 999, 1000, 1001, 5000, 80000, rng.randint(1, 9999), rng.randint(10000, 250000)])}
    if clone is not None:
        sel["clone"] = True
        cl.update(clone)
    return {"sel": sel, "cx": dict(vs(), files=rng.choice([1, 5, 12, 200]), nfuncs=rng.randint(0, 50)),
            "dc": {"files": rng.choice([1, 5, 12, 200]), "total": c + w + i, "c": c, "w": w, "i": i},
            "clone": cl, "cbo": vs(), "lcom": vs()}


def gen_usize_cases(rng, consts, extra=1):
    """The size lattice of the duplication ratio, systematically: for 1, 2, 3 groups every line count of size_lattice, each also
    with the group counts just below / at / above the cap for that size, and large projects (tens of units) with few groups."""
    out, seen = [], set()
    unit = int(consts[0])
    for g in (1, 2, 3):
        for lines in size_lattice(rng, consts, g, extra) + [unit * rng.randint(12, 90) + rng.randint(1, unit - 1), unit * rng.randint(12, 90)]:
            at_cap = int(lines * consts[3] / (consts[2] * consts[0]))      # the largest group count not above the cap
            for gg in (g, at_cap - 1, at_cap, at_cap + 1):
                if gg >= 0 and (lines, gg) not in seen:
                    seen.add((lines, gg))
                    out.append(gen_ucase(rng, {"lines": lines, "groups": gg}))
    for lines in (0, 1):
        out.append(gen_ucase(rng, {"lines": lines, "groups": rng.randint(0, 3)}))
    return out


def ucase_response(u):
    resp = {"summary": {}}
    s = u["sel"]
    if s["cx"]:
        resp["complexity"] = {"Functions": [{"Name": "f%d" % i} for i in range(u["cx"]["nfuncs"])],
                              "Summary": {"FilesAnalyzed": u["cx"]["files"], "AverageComplexity": u["cx"]["avg"], "HighRiskFunctions": u["cx"]["high"],
                                          "TotalFunctions": u["cx"]["nfuncs"]}}
        resp["summary"]["complexity_enabled"] = True
    if s["dead"]:
        d = u["dc"]
        resp["dead_code"] = {"summary": {"total_files": d["files"], "total_findings": d["total"], "critical_findings": d["c"],
                                         "warning_findings": d["w"], "info_findings": d["i"]}}
        resp["summary"]["dead_code_enabled"] = True
    if s["clone"]:
        cl = u["clone"]
        resp["clone"] = {"statistics": {"total_clones": cl["clones"], "total_clone_pairs": cl["pairs"], "total_clone_groups": cl["groups"],
                                        "lines_analyzed": cl["lines"]}}
        resp["summary"]["clone_enabled"] = True
    for k, key, avgk in (("cbo", "cbo", "AverageCBO"), ("lcom", "lcom", "AverageLCOM")):
        if s[k]:
            v = u[k]
            resp[key] = {"Summary": {"TotalClasses": v["total"], "HighRiskClasses": v["high"], "MediumRiskClasses": v["med"], avgk: v["avg"]}}
            resp["summary"][k + "_enabled"] = True
    return resp


def coq_ucase(u):
    s = u["sel"]
    sel = "(Build_selection %s %s %s %s %s false)" % tuple(cbool(s[k]) for k in ("cx", "dead", "clone", "cbo", "lcom"))

    def vs(v, files):
        return "(vs_of %s %s %s %s %s)" % (cZ(v["total"]), cZ(v["high"]), cZ(v["med"]), cZ(files), qf(v["avg"]))
    d, cl = u["dc"], u["clone"]
    x = "(Build_sections %s %s (ds_of %s %s %s %s %s) (cs_of %s %s %s) %s %s %s 0 0 0 0%%Q None)" % (
        vs(u["cx"], u["cx"]["files"]), cZ(u["cx"]["nfuncs"]), cZ(d["files"]), cZ(d["total"]), cZ(d["c"]), cZ(d["w"]), cZ(d["i"]),
        cZ(cl["clones"]), cZ(cl["pairs"]), cZ(cl["groups"]), cZ(cl["lines"]), vs(u["cbo"], 0), vs(u["lcom"], 0))
    return "(run_unified %s %s, run_dup %s %s %s)" % (sel, x, cbool(s["clone"]), cZ(cl["lines"]), cZ(cl["groups"]))


UKEYS = ["total_files", "high_complexity_count", "dead_code_count", "critical_dead_code", "warning_dead_code", "info_dead_code", "cbo_classes",
         "high_coupling_classes", "medium_coupling_classes", "lcom_classes", "high_lcom_classes", "medium_lcom_classes", "total_functions",
         "total_clones", "clone_pairs", "clone_groups"]
UQKEYS = ["average_complexity", "code_duplication_percentage", "average_coupling", "average_lcom"]


def direct_ucheck(u, r):
    s = u["sel"]
    exp = {"total_files": u["cx"]["files"] if s["cx"] else u["dc"]["files"] if s["dead"] else 0,
           "high_complexity_count": u["cx"]["high"] if s["cx"] else 0, "total_functions": u["cx"]["nfuncs"] if s["cx"] else 0,
           "average_complexity": u["cx"]["avg"] if s["cx"] else 0,
           "dead_code_count": u["dc"]["total"] if s["dead"] else 0, "critical_dead_code": u["dc"]["c"] if s["dead"] else 0,
           "warning_dead_code": u["dc"]["w"] if s["dead"] else 0, "info_dead_code": u["dc"]["i"] if s["dead"] else 0,
           "total_clones": u["clone"]["clones"] if s["clone"] else 0, "clone_pairs": u["clone"]["pairs"] if s["clone"] else 0,
           "clone_groups": u["clone"]["groups"] if s["clone"] else 0,
           "cbo_classes": u["cbo"]["total"] if s["cbo"] else 0, "high_coupling_classes": u["cbo"]["high"] if s["cbo"] else 0,
           "medium_coupling_classes": u["cbo"]["med"] if s["cbo"] else 0, "average_coupling": u["cbo"]["avg"] if s["cbo"] else 0,
           "lcom_classes": u["lcom"]["total"] if s["lcom"] else 0, "high_lcom_classes": u["lcom"]["high"] if s["lcom"] else 0,
           "medium_lcom_classes": u["lcom"]["med"] if s["lcom"] else 0, "average_lcom": u["lcom"]["avg"] if s["lcom"] else 0}
    return ["unified summary %s = %r, the section summary gives %r" % (k, r.get(k), v) for k, v in exp.items() if r.get(k) != v]


# ------------------------------------------------------------------------------------------------
# running the parts
# ------------------------------------------------------------------------------------------------
def coq_run(ck, tag, terms, shard=120):
    """Evaluate a list of Coq terms (sharded); returns the parsed values or None."""
    jobs = []
    for off in range(0, len(terms), shard):
        body = "".join("Eval vm_compute in %s.\n" % t for t in terms[off:off + shard])
        jobs.append(("C16_%s_%d" % (tag, off), REQ, body))
    try:
        out = []
        for o in lib.coq_eval_many(jobs, workers=8):
            out += lib.parse_coq_values(o)
        if len(out) != len(terms):
            raise RuntimeError("%d values for %d terms" % (len(out), len(terms)))
        return out
    except Exception as e:
        ck.broken_ties.append("model evaluation (%s) failed: %s" % (tag, str(e)[-600:]))
        return None


def report(ck, what, replay, tags=None):
    """A property violation, unless it is a recorded known finding."""
    e = ck.match_known(tags or {})
    if e:
        ck.known_finding(e)
        return
    ck.nviol = getattr(ck, "nviol", 0) + 1
    # at most 3 per kind of input (synthetic unified response, CLI project, format rendering ...) and 12 in all, so that a
    # defect visible both in-process and through the CLI is shown with a concrete report of each kind
    kinds = ck.__dict__.setdefault("nviol_by_kind", {})
    k = replay.get("kind") if isinstance(replay, dict) else None
    kinds[k] = kinds.get(k, 0) + 1
    if kinds[k] <= 3 and sum(min(v, 3) for v in kinds.values()) <= 12:
        ck.violation(what, replay)


def part_keys(ck, labels, stats):
    vals = list(range(-2, 61))
    thr = [(9, 19), (3, 7), (2, 5), (0, 0), (5, 5), (7, 3), (4, 8)]
    reqs = [{"op": "report_keys", "section": sec, "values": vals, "low": lo, "medium": md} for lo, md in thr for sec in ("complexity", "cbo", "lcom")]
    impl = lib.driver(reqs)
    model = coq_run(ck, "keys", ["(run_keys %s %s %s)" % (clist([cZ(v) for v in vals]), cZ(lo), cZ(md)) for lo, md in thr])
    rngs = {s: R.label_ranges(labels[s]) for s in labels}
    for ti, (lo, md) in enumerate(thr):
        for si, sec in enumerate(("complexity", "cbo", "lcom")):
            r = impl[ti * 3 + si]
            if "error" in r:
                ck.broken_ties.append("report_keys: " + r["error"])
                continue
            for vi, v in enumerate(vals):
                stats["evals"] += 1
                risk, key = r["risks"][vi], r["keys"][vi]
                if risk != R.risk_of(v, lo, md):
                    report(ck, "%s: value %d with thresholds %d/%d has risk level %r, expected %r" % (sec, v, lo, md, risk, R.risk_of(v, lo, md)),
                           {"kind": "risk", "section": sec, "value": v, "low": lo, "medium": md, "impl": risk})
                dom = 1 if sec != "cbo" else 0
                if v >= dom and (key not in labels[sec] or not R.in_range(rngs[sec][labels[sec].index(key)], v)):
                    report(ck, "%s: value %d is counted under distribution bucket %r" % (sec, v, key),
                           {"kind": "bucket", "section": sec, "value": v, "impl": key})
                if model is not None:
                    mr, mb = model[ti][si][vi]
                    if RCODE.get(risk, 3) != mr or (mb >= len(labels[sec]) or labels[sec][mb] != key):
                        ck.broken_ties.append("%s value %d thresholds %d/%d: implementation (%s, %s) differs from the model (%s, bucket %s)"
                                              % (sec, v, lo, md, risk, key, mr, mb))
                        stats["mismatch"] += 1


def part_values(ck, rng, labels, n, stats):
    cases = [gen_vcase(rng, sec, k) for sec in ("complexity", "cbo", "lcom") for k in range(n)]
    impl = lib.driver(cases)
    model = coq_run(ck, "vals", [coq_vcase(c) for c in cases])
    for i, c in enumerate(cases):
        sec, r = c["section"], impl[i]
        stats["evals"] += 1
        if "error" in r:
            report(ck, "%s summary crashed: %s" % (sec, r["error"]), {"kind": "summaries", "case": c})
            continue
        bad = direct_vcheck(sec, c, r, labels)
        if bad:
            report(ck, "%s: %s" % (sec, "; ".join(bad[:3])), {"kind": "summaries", "case": c, "impl": r})
            continue
        if model is None:
            continue
        iv = impl_vtuple(sec, r, labels)
        mv, sv = coq_vtuple(model[i][:2]), coq_vtuple(model[i][2])
        if iv["dist_extra"]:
            report(ck, "%s: unknown distribution buckets %s" % (sec, iv["dist_extra"]), {"kind": "summaries", "case": c, "impl": r})
        elif not same_v(iv, sv, sec):
            report(ck, "%s summary differs from the recomputation from its items: impl %s, spec %s" % (sec, iv, sv),
                   {"kind": "summaries", "case": c, "impl": r, "spec": str(sv)})
        elif not same_v(iv, mv, sec):
            stats["mismatch"] += 1
            ck.broken_ties.append("%s generateSummary/filter differs from the model on %s: impl %s model %s" % (sec, json.dumps(c)[:300], iv, mv))
        if len(ck.samples) < 3 and c["items"]:
            ck.samples.append({"section": sec, "request": {k: c[k] for k in ("min", "max", "low", "medium")}, "items": [(x["v"], x["risk"]) for x in c["items"]][:8],
                               "impl_summary": r["summary"]})
    return len(cases)


def part_deadcode(ck, rng, n, stats):
    cases = [gen_dcase(rng, k) for k in range(n)]
    impl = lib.driver(cases)
    model = coq_run(ck, "dead", [coq_dcase(c) for c in cases])
    # single-function severity filter
    fcases = []
    for k in range(n):
        fd = gen_findings(rng, rng.choice([0, 1, 2, 3, 5]))
        fcases.append({"op": "summaries", "section": "findings", "minseverity": rng.choice(["critical", "warning", "info", ""]),
                       "deadfiles": [{"functions": [{"findings": fd}]}]})
    fimpl = lib.driver(fcases)
    fmodel = coq_run(ck, "find", ["(run_findings %s %s)" % (coq_fds(c["deadfiles"][0]["functions"][0]["findings"]), coq_sev(c["minseverity"])) for c in fcases])
    for i, c in enumerate(cases):
        r = impl[i]
        stats["evals"] += 1
        if "error" in r:
            report(ck, "dead code summary crashed: %s" % r["error"], {"kind": "summaries", "case": c})
            continue
        iv = impl_dtuple(r)
        # filter: every kept function has a finding at or above the minimum; no such function is dropped
        mlev = SEVN.get(c["minseverity"], 0)
        want = sum(1 for f in c["deadfiles"] for fn in f["functions"] if any(SEVN.get(x[0], 0) >= mlev for x in fn["findings"]))
        got = sum(len(f["functions"]) for f in (r["kept"] or []))
        if want != got:
            report(ck, "dead code: %d functions kept, %d have a finding at or above %r" % (got, want, c["minseverity"]), {"kind": "summaries", "case": c, "impl": r})
            continue
        if model is None:
            continue
        mv, sv = coq_dtuple(model[i])
        same_m = iv["files"] == mv["files"] and iv["ints"] == mv["ints"] and iv["by"] == mv["by"] and close(iv["ratio"], mv["ratio"])
        same_s = iv["ints"] == sv["ints"] and iv["by"] == sv["by"] and close(iv["ratio"], sv["ratio"])
        if dcase_wellformed(c) and not same_s:
            report(ck, "dead code summary differs from the recomputation from its items: impl %s %s, spec %s %s [%s]" % (iv["ints"], iv["by"], sv["ints"], sv["by"], ", ".join(DKEYS)),
                   {"kind": "summaries", "case": c, "impl": r})
        elif not same_m:
            stats["mismatch"] += 1
            ck.broken_ties.append("dead code filterFiles/generateSummary differs from the model on %s: impl %s model %s" % (json.dumps(c)[:300], iv, mv))
    for i, c in enumerate(fcases):
        r = fimpl[i]
        stats["evals"] += 1
        fd = c["deadfiles"][0]["functions"][0]["findings"]
        mlev = SEVN.get(c["minseverity"], 0)
        want = [x for x in fd if SEVN.get(x[0], 0) >= mlev]
        if "error" in r or [list(x) for x in r["kept"]] != want or r["has"] != bool(want) or \
                r["counts"] != [sum(1 for x in want if x[0] == s) for s in ("critical", "warning", "info")]:
            report(ck, "severity filter: findings %s with minimum %r give %s" % (fd, c["minseverity"], r), {"kind": "findings", "case": c, "impl": r})
            continue
        if fmodel is not None:
            kept, has, counts, af = fmodel[i]
            if [SEVN.get(x[0], 0) for x in r["kept"]] != list(kept) or has != r["has"] or list(counts) != r["counts"]:
                stats["mismatch"] += 1
                ck.broken_ties.append("severity filter differs from the model on %s / %r" % (fd, c["minseverity"]))
    return len(cases) + len(fcases)


def part_clones(ck, rng, n, stats):
    cases = [gen_ccase(rng, k) for k in range(n)]
    impl = lib.driver(cases)
    model = coq_run(ck, "clone", [coq_ccase(c) for c in cases])
    for i, c in enumerate(cases):
        r = impl[i]
        stats["evals"] += 1
        if "error" in r:
            report(ck, "clone statistics crashed: %s" % r["error"], {"kind": "summaries", "case": c})
            continue
        iv = impl_ctuple(r)

        def keep(p):
            return c["minsim"] <= p["sim"] <= c["maxsim"] and p["type"] in c["types"]
        wp, wg = [p for p in c["pairs"] if keep(p)], [g for g in c["groups"] if keep(g)]
        by = [sum(1 for p in wp if (("Type-%d" % p["type"]) if 1 <= p["type"] <= 4 else "Unknown") == k) for k in TKEYS]
        tot = 0.0
        for p in wp:
            tot += p["sim"]
        bad = []
        if [[p["sim"], float(p["type"])] for p in wp] != r["pairs"] or [[g["sim"], float(g["type"])] for g in wg] != r["groups"]:
            bad.append("filter keeps pairs %s groups %s, the echoed range/types select %s / %s" % (r["pairs"], r["groups"], wp, wg))
        if iv["ints"] != [c["nclones"], len(wp), len(wg)] or iv["by"] != by or not R.feq(iv["avg"], tot / len(wp) if wp else 0.0):
            bad.append("statistics %s %s avg %r, recomputed %s %s avg %r" % (iv["ints"], iv["by"], iv["avg"], [c["nclones"], len(wp), len(wg)], by, tot / len(wp) if wp else 0.0))
        if bad:
            report(ck, "clones: " + "; ".join(bad), {"kind": "summaries", "case": c, "impl": r})
            continue
        if model is not None:
            pt, gt, (ints, mby, avg), (sints, sby, savg) = model[i]
            if list(pt) != iv["ptypes"] or list(gt) != iv["gtypes"] or list(ints) != iv["ints"] or list(mby) != iv["by"] or not close(qval(avg), iv["avg"]) \
                    or list(sints) != iv["ints"] or list(sby) != iv["by"] or not close(qval(savg), iv["avg"]):
                stats["mismatch"] += 1
                ck.broken_ties.append("clone filter/statistics differ from the model on %s" % json.dumps(c)[:300])
    return len(cases)


def part_unified(ck, rng, n, stats, consts, extra=1):
    us = [gen_ucase(rng) for _ in range(n)] + gen_usize_cases(rng, consts, extra)
    impl = lib.driver([{"op": "unified", "response": ucase_response(u)} for u in us])
    model = coq_run(ck, "unified", [coq_ucase(u) for u in us])
    for i, u in enumerate(us):
        r = impl[i]
        stats["evals"] += 1
        if "error" in r:
            report(ck, "calculateSummary crashed: %s" % r["error"], {"kind": "unified", "case": u})
            continue
        bad = direct_ucheck(u, r)
        if bad:
            report(ck, "; ".join(bad[:3]), {"kind": "unified", "case": u, "impl": r})
            continue
        if model is not None:
            ints, qs, dup = model[i]
            cl = u["clone"]
            if u["sel"]["clone"]:
                b = size_band(consts, cl["lines"], cl["groups"])
                stats["unified_size_cells"][b] = stats["unified_size_cells"].get(b, 0) + 1
            # the derived ratio: the value the model (ScoreQ.code_duplication_of) gives on the clone statistics of this response
            if not close(qval(dup), r["code_duplication_percentage"]):
                report(ck, "unified summary code_duplication_percentage = %r, but the clone statistics of the same response (lines_analyzed %d, "
                           "total_clone_groups %d, clone analysis %s) give %s = %.10g [%s]"
                       % (r["code_duplication_percentage"], cl["lines"], cl["groups"], "selected" if u["sel"]["clone"] else "not selected", qval(dup),
                          float(qval(dup)), size_band(consts, cl["lines"], cl["groups"])),
                       {"kind": "unified", "case": u, "impl": r, "recomputed_code_duplication_percentage": str(qval(dup))},
                       {"section": "summary", "field": "code_duplication_percentage", "part": "unified"})
                continue
            if [r[k] for k in UKEYS] != list(ints) or not all(close(qval(q), r[k]) for q, k in zip(qs, UQKEYS)):
                stats["mismatch"] += 1
                ck.broken_ties.append("calculateSummary differs from assemble/assemble_extra on %s: impl %s model %s %s" % (
                    json.dumps(u)[:300], [r[k] for k in UKEYS + UQKEYS], ints, [str(qval(q)) for q in qs]))
    return len(us)


SETTINGS = [
    ("default", [], None),
    ("all", ["--min-complexity", "1", "--min-severity", "info"], "[cbo]\nshow_zeros = true\n"),
    ("strict", ["--min-complexity", "6", "--min-severity", "critical", "--min-cbo", "2"], None),
    ("toml", [], "[complexity]\nlow_threshold = 4\nmedium_threshold = 8\n\n[cbo]\nlow_threshold = 1\nmedium_threshold = 3\nshow_zeros = true\nmin_cbo = 1\n\n"
                 "[clones]\nmin_similarity = 0.9\nmax_similarity = 1.0\n\n[dead_code]\nmin_severity = \"critical\"\n"),
    ("sel-cx-dead", ["--select", "complexity,deadcode", "--min-complexity", "2"], None),
    ("sel-classes", ["--select", "cbo,lcom,clones", "--clone-threshold", "0.8", "--min-cbo", "4"], None),
    ("sel-deps", ["--select", "deps"], None),
    ("sel-dead", ["--select", "deadcode", "--min-severity", "critical"], None),
    # keys that exist only in the file: sort orders, details, upper bounds, clone type selection
    ("toml-sort-name", ["--min-complexity", "1"],
     "[output]\nsort_by = \"name\"\nshow_details = true\n\n[dead_code]\nsort_by = \"file\"\nshow_context = true\ncontext_lines = 2\n\n"
     "[cbo]\nmax_cbo = 4\nshow_zeros = true\ninclude_builtins = true\n\n[complexity]\nmax_complexity = 25\n\n"
     "[clones]\nenabled_clone_types = [\"type1\", \"type2\"]\nmin_similarity = 0.7\ngrouping_mode = \"star\"\n"),
    ("toml-sort-risk", [],
     "[output]\nsort_by = \"risk\"\n\n[dead_code]\nsort_by = \"line\"\nmin_severity = \"info\"\n\n[cbo]\ninclude_imports = false\n\n"
     "[clones]\nenabled_clone_types = [\"type3\", \"type4\"]\nmax_similarity = 0.95\ngrouping_mode = \"k_core\"\nk_core_k = 2\n"),
]


def set_toml(d, toml):
    p = os.path.join(d, ".pyscn.toml")
    if toml is None:
        if os.path.exists(p):
            os.remove(p)
    else:
        with open(p, "w") as f:
            f.write(toml)


def variants(data):
    """Reports with empty sections / nil maps derived from a real one (what the formatters must survive)."""
    out = []
    base = R.strip_requests(data)
    for sec in ("complexity", "dead_code", "clone", "cbo", "lcom", "system"):
        if base.get(sec):
            v = json.loads(json.dumps(base))
            v[sec] = None
            out.append(("without-" + sec, v))
    v = json.loads(json.dumps(base))
    for sec in ("complexity", "dead_code", "clone", "cbo", "lcom", "system"):
        v[sec] = None
    out.append(("no-sections", v))
    v = json.loads(json.dumps(base))
    if v.get("complexity"):
        v["complexity"]["Functions"] = None
        v["complexity"]["Summary"]["ComplexityDistribution"] = None
    if v.get("dead_code"):
        v["dead_code"]["files"] = None
        v["dead_code"]["summary"]["findings_by_reason"] = None
        v["dead_code"]["summary"]["total_findings"] = 0
    if v.get("clone"):
        v["clone"]["clones"] = v["clone"]["clone_pairs"] = v["clone"]["clone_groups"] = None
        v["clone"]["statistics"]["clones_by_type"] = None
        v["clone"]["statistics"]["total_clone_groups"] = v["clone"]["statistics"]["total_clone_pairs"] = 0
    for k in ("cbo", "lcom"):
        if v.get(k):
            v[k]["Classes"] = None
            for kk in list(v[k]["Summary"]):
                if isinstance(v[k]["Summary"][kk], (dict, list)):
                    v[k]["Summary"][kk] = None
    out.append(("nil-lists-and-maps", v))
    return out


def check_same_response(ck, data, where, stats, sections=True):
    """One AnalyzeResponse rendered by every formatter in-process: all written, same data, same headline numbers."""
    base = R.strip_requests(data)
    r = lib.driver([{"op": "formats", "response": base, "sections": sections}])[0]
    stats["format_renders"] += 5 + len(r.get("section_sizes") or {})
    if "error" in r:
        report(ck, "formats: rendering failed for %s: %s" % (where, r["error"]), {"kind": "formats", "where": where, "report": base})
        return
    bad = ["%s is not written: %s" % (k, v) for k, v in sorted(r["errors"].items())]
    for fm in ("text", "json", "yaml", "csv", "html"):
        if not r.get(fm) and fm not in r["errors"]:
            bad.append("%s output is empty" % fm)
    for k, n in (r.get("section_sizes") or {}).items():
        if n == 0 and k not in r["errors"]:
            bad.append("%s output is empty" % k)
    if not bad:
        try:
            j = json.loads(r["json"])
        except Exception as e:
            j = None
            bad.append("JSON output does not parse: %s" % e)
        if j is not None:
            if R.canon(j) != R.canon(base):
                bad += ["JSON re-encoding changed the data: " + x for x in R.diff_data(R.canon(base), R.canon(j))[:3]]
            d = R.diff_data(R.canon(j), R.canon(r.get("yaml_as_json")))
            bad += ["JSON and YAML differ: " + x for x in d[:4]]
            s = j["summary"]
            bad += R.check_csv(r["csv"], s) + R.check_text(r["text"], s) + R.check_html(r["html"], j)
    if bad:
        report(ck, "formats disagree for %s: %s" % (where, "; ".join(bad[:4])), {"kind": "formats", "where": where, "problems": bad, "report": base})


def broken_file_problems(desc, data):
    """Files that cannot be parsed are named as errors of each per-file analysis and do not hide the other files."""
    broken = desc.get("broken") or []
    if not broken or desc["kind"] == "only_broken":
        return []
    bad = []
    good = [n for n in desc["files"] if n not in broken]
    U = data.get("summary") or {}
    for sec, ek, en in (("complexity", "Errors", "complexity_enabled"), ("dead_code", "errors", "dead_code_enabled")):
        x = data.get(sec)
        if not U.get(en):
            continue
        if x is None:
            bad.append("section %s is missing although %s can be analysed" % (sec, good))
            continue
        errs = x.get(ek) or []
        for n in broken:
            if not any(n in e for e in errs):
                bad.append("%s: the unparsable file %s is not named among the errors %s" % (sec, n, errs))
        for n in good:
            if any(n in e for e in errs):
                bad.append("%s: the parsable file %s is reported as an error" % (sec, n))
    cx = data.get("complexity") or {}
    seen = {os.path.basename(f["FilePath"]) for f in (cx.get("Functions") or [])}
    if cx and ((cx.get("Config") or {}).get("min_complexity") or 0) <= 1 and not set(good) <= seen:
        bad.append("complexity: functions of %s are missing from the report next to unparsable files" % sorted(set(good) - seen))
    if cx and cx["Summary"]["FilesAnalyzed"] != len(good):
        bad.append("complexity: FilesAnalyzed = %s, %d files could be analysed" % (cx["Summary"]["FilesAnalyzed"], len(good)))
    return bad


def order_problems(data):
    """The item lists are in the order the echoed sort_by names (ties in any order)."""
    bad = []
    cx = data.get("complexity")
    if cx and cx.get("Functions"):
        by = (cx.get("Config") or {}).get("sort_by")
        fs = cx["Functions"]
        rank = {"high": 0, "medium": 1, "low": 2}
        keys = {"name": [f["Name"] for f in fs], "risk": [rank.get(f["RiskLevel"], 3) for f in fs],
                "complexity": [-f["Metrics"]["Complexity"] for f in fs]}.get(by)
        if keys is not None and keys != sorted(keys):
            bad.append("complexity: functions are not in the echoed order sort_by = %s" % by)
    dc = data.get("dead_code")
    if dc and dc.get("files") and (dc.get("config") or {}).get("sort_by") == "file":
        ks = [f["file_path"] for f in dc["files"]]
        if ks != sorted(ks):
            bad.append("dead_code: files are not in the echoed order sort_by = file: %s" % ks)
    return bad


def cli_format_flags(ck, d, flags, data, stats, where, replay):
    """No format flag (the default format) and several format flags at once."""
    shutil.rmtree(os.path.join(d, ".pyscn", "reports"), ignore_errors=True)
    rc, out, err = lib.pyscn(["analyze", "--no-open"] + flags + ["."], d)
    stats["cli_runs"] += 1
    path = R.latest(d, "html")
    if path is None or os.path.getsize(path) == 0:
        report(ck, "no report written when no format flag is given for %s (exit %s): %s" % (where, rc, err[-200:]), dict(replay, format="default"))
    else:
        bad = R.compare_numbers(R.html_numbers(open(path).read()), R.terminal_numbers(err), "default-format (HTML) report", "terminal summary")
        if bad:
            report(ck, "the report written without a format flag disagrees with its own run (%s): %s" % (where, "; ".join(bad[:3])), dict(replay, format="default"))
    # two or more format flags: an error (exit status 1) before any analysis runs, nothing written - every combination
    four = ["--html", "--json", "--csv", "--yaml"]
    combos = [[f for k, f in enumerate(four) if m >> k & 1] for m in range(16)]
    for combo in [c for c in combos if len(c) >= 2]:
        shutil.rmtree(os.path.join(d, ".pyscn", "reports"), ignore_errors=True)
        rc, out, err = lib.pyscn(["analyze", "--no-open"] + combo + flags + ["."], d)
        stats["cli_runs"] += 1
        rep = os.path.join(d, ".pyscn", "reports")
        written = sorted(os.listdir(rep)) if os.path.isdir(rep) else []
        first = err.strip().splitlines()[0][:200] if err.strip() else ""
        rp = dict(replay, format="+".join(combo), exit=rc, written=written)
        if rc == 0 and not written:
            report(ck, "analyze %s exits 0 without having written any report (%s): %s" % (" ".join(combo), where, first), rp)
        elif written:
            report(ck, "analyze %s wrote %s although only one format flag can be given (exit %s, %s)" % (" ".join(combo), written, rc, where), rp)
        elif rc != 1 or "only one output format flag" not in err:
            report(ck, "analyze %s: exit status %s, message %r; expected status 1 and 'only one output format flag can be specified' (%s)"
                   % (" ".join(combo), rc, first, where), rp)
        elif "Analysis Summary" in err or "Health Score" in err:
            report(ck, "analyze %s ran the analyses before rejecting the flags (%s)" % (" ".join(combo), where), rp)


def note_ratios(stats, P, where, replay):
    """Queue the derived ratios of one report (c16report.check_report collected them) for decide_ratios."""
    for q in P.ratios:
        stats["pending_ratios"].append((q, where, replay))


def decide_ratios(ck, stats, consts):
    """summary.code_duplication_percentage of every report checked in this run against the model (ReportRun.run_dup =
    ScoreQ.code_duplication_of, the function C16_unified_summary_is_projection states for it) evaluated on
    clone.statistics.lines_analyzed / total_clone_groups of the SAME report; 0 when the report has no clone section."""
    pend = stats.pop("pending_ratios")
    if not pend:
        return
    model = coq_run(ck, "ratios", ["(run_dup %s %s %s)" % (cbool(q["has_clone"]), cZ(q["lines"]), cZ(q["groups"])) for q, _, _ in pend], shard=400)
    if model is None:
        return
    for (q, where, replay), m in zip(pend, model):
        stats["ratios_recomputed"] += 1
        want = qval(m)
        if q["has_clone"]:
            b = size_band(consts, q["lines"], q["groups"])
            key = "%s/groups=%s" % (b, q["groups"] if q["groups"] <= 3 else ">3")
            stats["report_size_cells"][key] = stats["report_size_cells"].get(key, 0) + 1
            if q.get("pairs", 0) != q["groups"] and q["groups"] > 0:
                stats["ratio_reports_pairs_ne_groups"] += 1
        got = q["reported"]
        if not isinstance(got, (int, float)) or not close(want, got):
            tags = {"section": "summary", "field": "code_duplication_percentage"}
            report(ck, "summary.code_duplication_percentage = %r but clone.statistics of the same report (lines_analyzed %d, total_clone_groups %d%s) "
                       "give %s = %.10g — %s" % (got, q["lines"], q["groups"], "" if q["has_clone"] else ", no clone section", want, float(want), where),
                   dict(replay, tags=tags, clone_statistics={"lines_analyzed": q["lines"], "total_clone_groups": q["groups"]},
                        reported_code_duplication_percentage=got, recomputed_code_duplication_percentage=str(want)), tags)


def part_sizes(ck, rng, labels, thorough, stats, consts):
    """Project-size lattice through the CLI: generated projects whose analysed line count sits ON / next to / between the
    boundaries of the duplication formula (minimum size, every multiple of the size unit, the size at which 1, 2, 3 clone groups
    leave the cap; non-multiples drawn from the seed) with 1..3 pairs of duplicated functions. Every report goes through
    check_report (all numbers) and decide_ratios (the derived ratio against the model on the report's own statistics); the
    formats and the terminal summary of reports whose ratio is below the cap are compared too."""
    from concurrent.futures import ThreadPoolExecutor
    jobs, fmt_done = [], 0
    for g in (1, 2, 3):
        sizes = size_lattice(rng, consts, g, 3 if thorough else 1)
        if g > 1 and not thorough:
            # the boundaries below the cap point of g groups were walked with one group already (all capped): keep one size below the
            # minimum and everything from the cap point of g groups upwards
            sizes = [v for v in sizes if v < int(consts[0] * consts[1]) - 1 or v >= cap_lines(consts, g) - 1]
        for lines in sizes:
            d = lib.fresh_dir("c16_size%d" % len(jobs))
            try:
                desc = R.make_size_project(d, rng, lines, g)
            except ValueError:
                continue        # the duplicated functions alone are longer than this size
            # some reports with every analysis, most with the clone analysis only
            jobs.append((d, desc, lines, g, [] if lines % 7 == 0 else ["--select", "clones"]))
    with ThreadPoolExecutor(max_workers=6) as ex:       # the projects are independent directories: the CLI runs overlap
        results = list(ex.map(lambda j: lib.analyze_json(j[0], j[4]), jobs))
    for (d, desc, lines, g, flags), (rc, data, err) in zip(jobs, results):
        stats["cli_runs"] += 1
        where = "size project (%d lines intended, %d duplicated pairs, %s padding, %d file(s)) %s" % (lines, g, desc["padding"], len(desc["files"]), flags)
        replay = {"kind": "e2e-size", "project": desc, "flags": flags, "generator": "c16report.make_size_project"}
        if data is None:
            report(ck, "no JSON report written for %s (exit %s): %s" % (where, rc, err[-300:]), replay)
            continue
        stats["reports"] += 1
        P = R.check_report(data, labels)
        stats["numbers_recomputed"] += P.checked
        for tags, msg in P.items:
            report(ck, "%s — %s" % (msg, where), dict(replay, tags=tags), tags)
        note_ratios(stats, P, where, replay)
        st = (data.get("clone") or {}).get("statistics") or {}
        if st.get("lines_analyzed") != lines:
            ck.broken_ties.append("size project: the report counts %s analysed lines, the generator intended %d" % (st.get("lines_analyzed"), lines))
        bad = R.check_stderr_summary(err, data["summary"])
        if bad:
            report(ck, "terminal summary differs from the JSON report of the same run (%s): %s" % (where, "; ".join(bad[:3])), replay)
        if size_band(consts, st.get("lines_analyzed", 0), st.get("total_clone_groups", 0)).startswith("below-cap") and fmt_done < (12 if thorough else 4):
            fmt_done += 1
            check_same_response(ck, data, where, stats, sections=False)
        shutil.rmtree(d, ignore_errors=True)
    return len(jobs)


def part_e2e(ck, rng, labels, thorough, stats):
    plans = [("normal", True), ("normal", False), ("no_classes", False), ("clean", False), ("no_functions", False), ("only_classes", False),
             ("empty_file", False), ("with_broken_file", False), ("only_broken", False)]
    if thorough:
        plans += [("normal", False)] * 6
    for pi, (kind, full) in enumerate(plans):
        d = lib.fresh_dir("c16_p%d" % pi)
        desc = R.make_project(d, rng, kind, full)
        settings = SETTINGS if kind == "normal" else ([SETTINGS[0]] if kind == "only_broken" else [SETTINGS[0], SETTINGS[1], SETTINGS[7]])
        for si, (sname, flags, toml) in enumerate(settings):
            set_toml(d, toml)
            rc, data, err = lib.analyze_json(d, flags)
            stats["cli_runs"] += 1
            where = "%s project %d, setting %s %s" % (kind, pi, sname, flags)
            src = {n: open(os.path.join(d, n)).read() for n in desc["files"]}
            replay = {"kind": "e2e", "project": desc, "flags": flags, "toml": toml, "sources": src}
            if data is None:
                # no report at all is acceptable only when nothing could be analysed
                if kind in ("no_functions",) and rc != 0:
                    stats["no_report"] += 1
                    continue
                report(ck, "no JSON report written for %s (exit %s): %s" % (where, rc, err[-300:]), replay)
                continue
            P = R.check_report(data, labels)
            stats["numbers_recomputed"] += P.checked
            stats["reports"] += 1
            for tags, msg in P.items:
                report(ck, "%s — %s" % (msg, where), dict(replay, tags=tags), tags)
            note_ratios(stats, P, where, replay)
            for msg in broken_file_problems(desc, data) + order_problems(data):
                report(ck, "%s — %s" % (msg, where), replay)
            s = data["summary"]
            bad = R.check_stderr_summary(err, s)
            if bad:
                report(ck, "terminal summary differs from the JSON report of the same run (%s): %s" % (where, "; ".join(bad[:3])), replay)
            for k in ("cbo", "lcom"):
                if data.get(k) and (data[k].get("Classes") or []):
                    stats["sections_nonempty"].add(k)
            if data.get("clone") and data["clone"].get("clone_pairs"):
                stats["sections_nonempty"].add("clone")
            if data.get("dead_code") and data["dead_code"]["summary"]["warning_findings"]:
                stats["sections_nonempty"].add("dead_code_warning")
            check_same_response(ck, data, where, stats, sections=(si < 2))
            if si == 0:
                for vname, v in variants(data):
                    check_same_response(ck, v, where + " / " + vname, stats, sections=False)
            if pi == 0 and si == 0:
                cli_format_flags(ck, d, flags, data, stats, where, replay)
            # one CLI run per other format
            if si in (0, 2) or (thorough and kind == "normal"):
                for fm in ("yaml", "csv", "html"):
                    shutil.rmtree(os.path.join(d, ".pyscn", "reports"), ignore_errors=True)
                    rc2, out2, err2 = lib.pyscn(["analyze", "--" + fm, "--no-open"] + flags + ["."], d)
                    stats["cli_runs"] += 1
                    path = R.latest(d, fm)
                    if rc2 != rc or path is None or os.path.getsize(path) == 0:
                        report(ck, "%s report not written for %s (exit %s, JSON run exit %s): %s" % (fm, where, rc2, rc, err2[-200:]), dict(replay, format=fm))
                        continue
                    txt = open(path).read()
                    # (1) same run: the file against the terminal summary of the run that wrote it
                    term = R.terminal_numbers(err2)
                    bad, ydata = [], None
                    if fm == "csv":
                        bad += R.compare_numbers(R.csv_numbers(txt), term, "CSV", "terminal summary")
                        if not txt.startswith("Metric,Value\n") or len(R.csv_numbers(txt)) != 11:
                            bad.append("CSV report lacks headline rows: %r" % txt[:80])
                    elif fm == "html":
                        hn = R.html_numbers(txt)
                        bad += R.compare_numbers(hn, term, "HTML", "terminal summary")
                        if "health" not in hn:
                            bad.append("HTML report shows no health score")
                    else:
                        try:
                            ydata, reader = R.load_yaml_file(path)
                            stats["yaml_reader"] = reader
                            bad += R.compare_numbers(R.summary_numbers(ydata["summary"]), term, "YAML", "terminal summary")
                        except Exception as e:
                            bad.append("YAML report does not parse: %s" % str(e)[:200])
                    # (2) against the JSON report of the other run, when both runs computed the same result
                    #     (run-to-run differences, e.g. in clone grouping, belong to property C05)
                    if R.terminal_signature(err2) != R.terminal_signature(err):
                        stats["runs_differing"] += 1
                    elif not bad:
                        if fm == "csv":
                            bad += R.check_csv(txt, s, loose=True)
                        elif fm == "html":
                            bad += R.check_html(txt, data, loose=True)
                        else:
                            cj, cy = R.canon(R.strip_requests(data)), R.canon(R.strip_requests(ydata))
                            bad += ["YAML vs JSON summary%s" % x for x in R.diff_data(cj.get("summary"), cy.get("summary"))[:3]]
                            for sec, lk in (("complexity", "functions"), ("deadcode", "files"), ("cbo", "classes"), ("lcom", "classes"), ("clone", "clones")):
                                a, b = cj.get(sec), cy.get(sec)
                                if (a is None) != (b is None):
                                    bad.append("section %s present in only one of JSON / YAML" % sec)
                                elif a is not None and len(a.get(lk) or []) != len(b.get(lk) or []):
                                    bad.append("%s.%s: %d items in JSON, %d in YAML" % (sec, lk, len(a.get(lk) or []), len(b.get(lk) or [])))
                        if bad:
                            # make sure it is not the analysis itself that varies between runs
                            sigs = set()
                            for _ in range(3):
                                rc3, d3, e3 = lib.analyze_json(d, flags)
                                stats["cli_runs"] += 1
                                sigs.add(json.dumps(R.canon((d3 or {}).get("summary")), sort_keys=True, default=str))
                            if len(sigs | {json.dumps(R.canon(s), sort_keys=True, default=str)}) > 1:
                                stats["runs_differing"] += 1
                                bad = []
                    if bad:
                        report(ck, "%s report written by the CLI disagrees (%s): %s" % (fm, where, "; ".join(bad[:4])), dict(replay, format=fm, problems=bad))
        set_toml(d, None)


def lattice_settings(rng, thorough):
    """(name, thresholds in effect, .pyscn.toml): the defaults, a fixed configured set, configured sets drawn from the seed."""
    def pair(lo_max, span):
        lo = rng.randint(1, lo_max)
        return (lo, lo + rng.randint(1, span))

    def toml(t):
        return ("[complexity]\nlow_threshold = %d\nmedium_threshold = %d\n\n[cbo]\nlow_threshold = %d\nmedium_threshold = %d\nshow_zeros = true\n\n"
                "[lcom]\nlow_threshold = %d\nmedium_threshold = %d\n" % (t["complexity"] + t["cbo"] + t["lcom"]))
    out = [("default", dict(DEFAULT_THR), None)]
    fixed = {"complexity": (4, 8), "cbo": (1, 3), "lcom": (1, 3)}
    out.append(("configured", fixed, toml(fixed)))
    for i in range(6 if thorough else 1):
        t = {"complexity": pair(8, 6), "cbo": pair(5, 4), "lcom": pair(4, 3)}
        out.append(("configured-seeded-%d" % i, t, toml(t)))
    return out


def _family_src(i, name):
    """Function family i: ONE statement pattern repeated (homogeneous body), so that different families are structurally unlike
    each other and the two copies of a family (one per module) form their own clone group."""
    kinds = ["for a in xs:\n        for b in a:\n            t.append((a, b))", "while t:\n        t = t[1:]", "if t:\n        t = [t]\n    else:\n        t = None",
             "try:\n        t = int(t)\n    except ValueError:\n        t = 0\n    finally:\n        pass", "with open(str(t)) as f:\n        t = f.read()",
             "t = [a * 2 for a in xs if a if t]", "t = {a: str(a) for a in xs}", "assert t is not None, 'x'", "t = (t, xs, t)", "del xs[0]",
             "t = t and xs or None", "t = lambda q: q", "t += 1", "t = str(t).strip().lower().upper()", "t = '%s-%s' % (t, xs)", "t = xs[0][1][2]",
             "t = not (t and xs) or (xs and not t)", "print(t, xs, sep='')", "t = yield_(t)", "raise_(t) if t else None", "t = -(-t)", "t = xs if t else t"]
    k = kinds[i % len(kinds)]
    body = ["    t = xs"] + ["    " + k] * 12 + ["    return t"]
    return "def %s(xs):\n%s\n" % (name, "\n".join(body))


def part_many_items(ck, stats):
    """Every format is written for a result in which every list is longer than any "top N" cut-off of the templates
    (more than 10 clone groups, more than 20 functions, classes, dead-code findings): the branches of the HTML/text templates that
    say "showing top N of M" only run then."""
    d = lib.fresh_dir("c16_many")
    nfam = 22
    with open(os.path.join(d, ".pyscn.toml"), "w") as f:
        # only near-identical fragments pair up and group, so every family is a clone group of its own
        f.write("[cbo]\nshow_zeros = true\n\n[clones]\nsimilarity_threshold = 0.97\ngrouping_threshold = 0.97\nmin_nodes = 5\nmin_lines = 5\n")
    for mod in ("alpha", "beta"):
        src = ["import os", ""]
        for i in range(nfam):
            src.append(_family_src(i, "fam%d" % i))          # same name in both modules: the two copies are identical trees
        for i in range(12):
            src.append("class %s_K%d:\n    def __init__(self):\n        self.a = os.sep\n        self.b = %d\n\n    def one(self):\n        return self.a\n\n"
                       "    def two(self):\n        return self.b\n        print(%d)\n" % (mod[0].upper(), i, i, i))
        with open(os.path.join(d, mod + ".py"), "w") as f:
            f.write("\n\n".join(src) + "\n")
    rc, data, err = lib.analyze_json(d, ["--min-complexity", "1"])
    stats["cli_runs"] += 1
    if data is None:
        report(ck, "many-items project: no JSON report (exit %s): %s" % (rc, err[-300:]), {"kind": "many-items"})
        return {}
    ngroups = len((data.get("clone") or {}).get("clone_groups") or [])
    nfun = len((data.get("complexity") or {}).get("Functions") or [])
    ncls = len((data.get("cbo") or {}).get("Classes") or [])
    sizes = {"clone_groups": ngroups, "functions": nfun, "classes": ncls}
    if ngroups <= 10 or nfun <= 20 or ncls <= 20:
        ck.broken_ties.append("many-items project is too small to pass the templates' top-N cut-offs: %s" % sizes)
    for fm in ("html", "yaml", "csv"):
        shutil.rmtree(os.path.join(d, ".pyscn", "reports"), ignore_errors=True)
        rc2, out2, err2 = lib.pyscn(["analyze", "--" + fm, "--no-open", "--min-complexity", "1", "."], d)
        stats["cli_runs"] += 1
        path = R.latest(d, fm)
        txt = open(path).read() if path else ""
        bad = None
        if rc2 != rc or not txt:
            bad = "%s report not written (exit %s, JSON run exit %s): %s" % (fm, rc2, rc, err2[-200:])
        elif "Failed to generate output" in err2 or "Failed to generate output" in out2:
            bad = "%s report: the run prints 'Failed to generate output': %s" % (fm, (err2 + out2)[-300:])
        elif fm == "html" and not txt.rstrip().endswith("</html>"):
            bad = "HTML report is truncated (does not end with </html>; last bytes %r)" % txt[-80:]
        elif fm == "html":
            more = R.check_html(txt, data, loose=True)
            bad = "; ".join(more[:3]) if more else None
        if bad:
            report(ck, "every format must be written for every result — many-items project (%s): %s" % (sizes, bad), {"kind": "many-items", "format": fm, "sizes": sizes})
    return sizes


def part_lattice(ck, rng, labels, thorough, stats):
    """Risk levels on the threshold lattice through the CLI: for every per-item section (complexity functions, CBO classes,
    LCOM classes) items exactly ON each threshold in effect, one and two above / below; CBO classes in every self-reference
    form (none, self-instantiation, own name as parameter / return / attribute annotation, inside a generic or a union,
    inheriting + self-instantiating) with collaborators named in rotating ways; default and configured thresholds.
    Decided by check_report: item risk = classification of the item's own reported metric by the thresholds echoed in the
    same report, and the summaries' risk counts = the recount of the items' metrics."""
    for si, (sname, thr, toml) in enumerate(lattice_settings(rng, thorough)):
        d = lib.fresh_dir("c16_lat%d" % si)
        desc = R.make_lattice_project(d, rng, thr)
        set_toml(d, toml)
        src = {n: open(os.path.join(d, n)).read() for n in desc["files"]}
        desc_json = dict(desc, classes={"%s:%s" % k: list(v) for k, v in desc["classes"].items()})
        for flags in (["--select", "complexity,cbo,lcom", "--min-complexity", "1"], ["--select", "cbo"], ["--min-complexity", "1"]):
            if len(flags) == 2 and flags[0] != "--select" and si > 0 and not thorough:
                continue
            rc, data, err = lib.analyze_json(d, flags)
            stats["cli_runs"] += 1
            where = "risk lattice project, thresholds %s (%s) %s" % (sname, thr, flags)
            replay = {"kind": "risk-lattice", "project": desc_json, "flags": flags, "toml": toml, "sources": src}
            if data is None:
                report(ck, "no JSON report written for %s (exit %s): %s" % (where, rc, err[-300:]), replay)
                continue
            stats["reports"] += 1
            P = R.check_report(data, labels)
            stats["numbers_recomputed"] += P.checked
            for tags, msg in P.items:
                report(ck, "%s — %s" % (msg, where), dict(replay, tags=tags), tags)
            note_ratios(stats, P, where, replay)
            # the thresholds the report echoes are the ones in effect, and the lattice around them was reached
            echo = {"complexity": ((data.get("complexity") or {}).get("Config") or {}, "low_threshold", "medium_threshold"),
                    "cbo": ((data.get("cbo") or {}).get("Config") or {}, "lowThreshold", "mediumThreshold"),
                    "lcom": ((data.get("lcom") or {}).get("Config") or {}, "lowThreshold", "mediumThreshold")}
            selected = tuple(flags[1].split(",")) if flags[0] == "--select" else ("complexity", "cbo", "lcom")
            for sec in selected:
                cfg, lk, mk = echo[sec]
                if (cfg.get(lk), cfg.get(mk)) != tuple(thr[sec]):
                    report(ck, "%s: the report echoes thresholds %s/%s, in effect are %s — %s" % (sec, cfg.get(lk), cfg.get(mk), thr[sec], where),
                           dict(replay, tags={"part": "lattice", "section": sec, "field": "echoed-thresholds"}),
                           {"part": "lattice", "section": sec, "field": "echoed-thresholds", "setting": sname.split("-")[0]})
            holes, reached = R.lattice_coverage(data, desc)
            holes = [h for h in holes if h.split(":")[0].split("/")[0] in selected]
            if holes:
                ck.broken_ties.append("risk lattice not reached (%s): %s" % (where, "; ".join(holes[:4])))
            for k, v in reached.items():
                if k.split("/")[0] in selected:
                    stats["lattice_items"][k] = stats["lattice_items"].get(k, 0) + v
            if si == 0 and len(flags) == 4:
                check_same_response(ck, data, where, stats, sections=False)
        set_toml(d, None)
    return si + 1


def main(tier):
    ck = lib.Check("C16", tier)
    ck.prepare("C16.v")
    rng = ck.rng
    thorough = tier == "thorough"
    labels = R.parse_labels()
    stats = {"evals": 0, "mismatch": 0, "cli_runs": 0, "reports": 0, "numbers_recomputed": 0, "format_renders": 0, "no_report": 0, "runs_differing": 0,
             "sections_nonempty": set(), "yaml_reader": "-", "lattice_items": {}, "pending_ratios": [], "ratios_recomputed": 0, "ratio_reports_pairs_ne_groups": 0,
             "unified_size_cells": {}, "report_size_cells": {}}
    consts = dup_consts()
    model_ok = not any(("Report/" in f or "Gen/" in f or "Score/" in f) for f in getattr(ck, "failed_files", []))
    if not all(labels.values()):
        ck.broken_ties.append("bucket labels not found in Gen/ReportConst.v")
    dist = {}
    if ck.go_ok and all(labels.values()):
        n = 1500 if thorough else 150
        if not model_ok:
            ck.broken_ties.append("Coq model files do not compile: %s" % ck.failed_files)
        try:
            part_keys(ck, labels, stats)
            dist["value_sections"] = part_values(ck, rng, labels, n, stats)
            dist["dead_code"] = part_deadcode(ck, rng, n, stats)
            dist["clones"] = part_clones(ck, rng, n, stats)
            dist["unified"] = part_unified(ck, rng, n, stats, consts, 3 if thorough else 1)
        except Exception as e:
            ck.broken_ties.append("synthetic correspondence failed: %s" % str(e)[-800:])
        try:
            part_e2e(ck, rng, labels, thorough, stats)
        except Exception as e:
            ck.broken_ties.append("end-to-end part failed: %s" % str(e)[-800:])
        try:
            dist["risk_lattice_projects"] = part_lattice(ck, rng, labels, thorough, stats)
            dist["many_items_project"] = part_many_items(ck, stats)
        except Exception as e:
            ck.broken_ties.append("risk lattice part failed: %s" % str(e)[-800:])
        try:
            dist["size_lattice_projects"] = part_sizes(ck, rng, labels, thorough, stats, consts)
            decide_ratios(ck, stats, consts)
            holes = [b for b in BANDS if not any(k.startswith(b + "/") for k in stats["report_size_cells"])]
            holes += ["%s (synthetic)" % b for b in BANDS if b not in stats["unified_size_cells"]]
            if holes:
                ck.broken_ties.append("size lattice of the duplication ratio not reached: no report / response in %s" % "; ".join(holes))
        except Exception as e:
            ck.broken_ties.append("size lattice part failed: %s" % str(e)[-800:])
    stats.pop("pending_ratios", None)
    stats["sections_nonempty"] = sorted(stats["sections_nonempty"])
    ck.cov.update({
        "evaluations": stats["evals"] + stats["cli_runs"] + stats["format_renders"],
        "distinct_nontrivial": stats["evals"] + stats["reports"],
        "rule": "synthetic item lists per section (sizes 0,1,2,3 then random; values on the lattice around every bucket edge, threshold and filter bound; "
                "ties; explicit and computed risk levels; ill-formed counts for the model tie only) through the real filter/sort/generateSummary functions; "
                "generated projects (full lattice of complexities, CBO and LCOM values, mixed-severity dead code, duplicated functions, edge projects) x "
                "flag/.pyscn.toml settings through the CLI, every summary number recomputed from the items of the same JSON report; "
                "risk-lattice projects through the CLI (default thresholds, a fixed configured set, configured sets drawn from the seed): complexity functions, "
                "CBO classes and LCOM classes with the metric exactly ON each threshold in effect and 1, 2 above / below, the CBO classes in every self-reference form "
                "(%s) with collaborators named by instantiation / parameter, attribute, return annotation / base class / imported name in rotating order; "
                "project-SIZE lattice of the derived ratio of the unified summary (code_duplication_percentage = f(total_clone_groups, lines_analyzed)): "
                "synthetic responses and generated CLI projects (1, 2, 3 families of duplicated functions in two or three copies + comment / blank / statement padding to an exact "
                "analysed line count, one or two files) whose line count is ON, one below / above and strictly between (seed-drawn non-multiples) the minimum size, every multiple of "
                "the size unit and the size at which that many groups leave the cap, up to two units beyond; synthetic cases also with the group count just below / at / above the "
                "cap for the size and projects of tens of units; the ratio of EVERY report of the run (edge, risk-lattice and size projects, 0 without a clone section) decided against "
                "the model ReportRun.run_dup = ScoreQ.code_duplication_of evaluated in Coq on clone.statistics of the same report; formula branches reached are measured (a hole is reported); "
                "deps_modules_in_cycles / deps_main_sequence_deviation / arch_compliance of the unified summary = the system section's own numbers; "
                "per item: risk level = classification of the item's own reported metric by the thresholds echoed in the same report; risk counts of the section and unified "
                "summaries = recount of the items' metrics; echoed thresholds = thresholds in effect; lattice coverage measured from the report (a hole is reported); " % ", ".join(R.SELF_FORMS) +
                "formats: the same response rendered by every formatter in-process (incl. variants with nil sections/lists/maps) and one CLI run per format",
        "input_distribution": dict(dist, risk_and_bucket_values=63 * 7 * 3, cli_runs=stats["cli_runs"], json_reports_checked=stats["reports"],
                                   numbers_recomputed_from_items=stats["numbers_recomputed"], format_renders=stats["format_renders"],
                                   runs_without_report=stats["no_report"], cli_run_pairs_with_different_results_skipped=stats["runs_differing"], sections_with_items=stats["sections_nonempty"],
                                   yaml_reader_for_cli_files=stats["yaml_reader"],
                                   risk_lattice_items_on_or_next_to_an_echoed_threshold=stats["lattice_items"],
                                   derived_ratios_decided_against_the_model_per_report=stats["ratios_recomputed"],
                                   reports_by_duplication_formula_branch_and_group_count=dict(sorted(stats["report_size_cells"].items())),
                                   reports_with_clone_pairs_ne_groups=stats["ratio_reports_pairs_ne_groups"],
                                   synthetic_unified_responses_by_duplication_formula_branch=dict(sorted(stats["unified_size_cells"].items()))),
        "model_mismatches": stats["mismatch"],
        "disagreements_checked": stats["mismatch"] + getattr(ck, "nviol", 0) + len(ck.known_hits),
        "level_note": "theorems cover the summary/filter/risk/projection logic (models tied by sampled correspondence); the format clauses "
                      "(JSON = YAML as data, CSV/text/HTML headline numbers = JSON, every format written) are a DIFFERENTIAL TEST: "
                      "encoding/json, yaml.v3, encoding/csv, html/template are not modelled",
    })
    ck.trusted += ["Coq 8.16.1 kernel, vm_compute for model evaluation",
                   "translator /verif/translator/gen_report.go (bucket chains, risk and filter comparison operators, top-N lengths) and gen_check.go (severity levels)",
                   "hand-written models Report/Summary.v, Report/Filters.v, Score/ScoreQ.v:assemble / code_duplication_of of the service generateSummary/filter functions and calculateSummary",
                   "float64 averages compared with the exact rational within 1e-9 relative",
                   "formats: regex extraction of headline numbers from CSV/text/HTML; YAML read by PyYAML when present, else by yaml.v3 itself; "
                   "JSON/YAML compared as data modulo key spelling (FilePath/file_path/filepath), nil-vs-empty, timestamps, durations and the io.Writer echo",
                   "sort.Slice is unstable: item order and top-N membership among ties are not compared, only metric values"]
    ck.finish(assumptions=["metric values fit in int; complexity >= 0 (McCabe >= 1)",
                           "a report = one AnalyzeResponse; timestamps and durations excluded from format comparison"])
