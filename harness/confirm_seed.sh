#!/bin/bash
# usage: confirm_seed.sh <id>   (seed worktree /tmp/seed-<id>, deliverables /tmp/seedout-<id>)
id=$1; wt=/tmp/seed-$id; out=/tmp/seedout-$id
export GOFLAGS=-mod=mod GOPROXY=off
cd $out
with=$(timeout 900 bash ./demo.sh >/tmp/seed_demo_with_$id.log 2>&1; echo $?)
git -C $wt stash -q
(cd $wt && go build ./... >/dev/null 2>&1); b=$?
without=$(timeout 900 bash ./demo.sh >/tmp/seed_demo_without_$id.log 2>&1; echo $?)
git -C $wt stash pop -q
echo "$id demo_with_change_exit=$with demo_without_change_exit=$without build_ok=$b"
