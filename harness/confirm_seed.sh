#!/bin/bash
# usage: confirm_seed.sh <id> [worktree] [outdir]   (defaults /tmp/seed-<id>, /tmp/seedout-<id>)
# (git stash is shared between worktrees: the change is taken off and put back with git apply)
id=$1; wt=${2:-/tmp/seed-$id}; out=${3:-/tmp/seedout-$id}
export GOFLAGS=-mod=mod GOPROXY=off
cd $out
git -C $wt diff > /tmp/seed_cur_$id.diff
with=$(timeout 900 bash ./demo.sh >/tmp/seed_demo_with_$id.log 2>&1; echo $?)
git -C $wt apply -R /tmp/seed_cur_$id.diff
(cd $wt && go build ./... >/dev/null 2>&1); b=$?
without=$(timeout 900 bash ./demo.sh >/tmp/seed_demo_without_$id.log 2>&1; echo $?)
git -C $wt apply /tmp/seed_cur_$id.diff
echo "$id demo_with_change_exit=$with demo_without_change_exit=$without build_ok=$b"
