#!/usr/bin/env python3
"""Apply a seeded change to /repo, run the given checks (quick), undo the change.
usage: try_seed.py <patch.diff> <Cxx> [<Cyy> ...]   -> prints one line per check: id exit VIOLATION-lines"""
import os
import subprocess
import sys

patch = os.path.abspath(sys.argv[1])
checks = sys.argv[2:]
REPO = os.environ.get("VERIF_REPO", "/repo")
assert subprocess.run(["git", "-C", REPO, "status", "--porcelain", "--untracked-files=no"], capture_output=True, text=True).stdout.strip() == "", "repo dirty"
r = subprocess.run(["git", "-C", REPO, "apply", "--whitespace=nowarn", patch], capture_output=True, text=True)
if r.returncode != 0:
    r = subprocess.run(["git", "-C", REPO, "apply", "--3way", "--whitespace=nowarn", patch], capture_output=True, text=True)
    if r.returncode != 0:
        print("APPLY-FAILED", r.stderr[-500:])
        subprocess.run(["git", "-C", REPO, "checkout", "-f", "HEAD", "--", "."], check=False)   # a failed 3-way apply leaves conflict markers
        subprocess.run(["git", "-C", REPO, "reset", "-q"], check=False)
        sys.exit(2)
VERIF = os.path.dirname(os.path.dirname(os.path.abspath(__file__)))
saved = {}
for c in checks:  # the evidence files describe the unchanged tree: a seed trial must not leave its own behind
    f = os.path.join(VERIF, "evidence", c + ".json")
    if os.path.exists(f):
        saved[f] = open(f, "rb").read()
try:
    for c in checks:
        p = subprocess.run([sys.executable, os.path.join(os.path.dirname(os.path.abspath(__file__)), "run_check.py"), c, "quick"],
                           capture_output=True, text=True, cwd="/verif")
        v = [l for l in p.stdout.splitlines() if l.startswith("VIOLATION")]
        first = [l.strip() for l in p.stderr.splitlines() if l.strip().startswith("->")][:1]
        print("%s exit=%d violations=%d %s %s" % (c, p.returncode, len(v), "no-failing-input-found" if any("no-failing-input-found" in l for l in v) else "",
                                                 first[0][:300] if first else ""))
finally:
    for f, b in saved.items():
        open(f, "wb").write(b)
    subprocess.run(["git", "-C", REPO, "checkout", "--", "."], check=True)
    subprocess.run(["git", "-C", REPO, "reset", "-q"], check=False)
