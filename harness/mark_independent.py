import sys
path=sys.argv[1]; nums=[int(x) for x in sys.argv[2:]]
L=open(path).read().split('\n')
for n in nums:
    i=n-1
    assert 'ck.violation(' in L[i], (n,L[i])
    col=L[i].index('ck.violation('); k=col+len('ck.violation'); depth=0; j=i
    while True:
        line=L[j]; instr=None; done=False
        for c in range(k if j==i else 0, len(line)):
            ch=line[c]
            if instr:
                if ch==instr and line[c-1]!='\\': instr=None
                continue
            if ch in '"\'': instr=ch; continue
            if ch=='#': break
            if ch=='(': depth+=1
            elif ch==')':
                depth-=1
                if depth==0:
                    L[j]=line[:c]+', independent=True'+line[c:]; done=True; break
        if done: break
        j+=1
open(path,'w').write('\n'.join(L))
